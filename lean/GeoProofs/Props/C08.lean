/-
  C08 — Convex hull is the smallest convex polygon containing the input.

  Model: GeoModel/Hull.lean (exact mirrors of `quick_hull`, `hull_set`, `graham_hull`,
  `trivial_hull`, `ConvexHull::convex_hull`, skeleton of `minimum_rotated_rect`, checker
  `isStrictHull`). Helper lemmas: GeoProofs/Lemmas/C08Mem.lean.

  Every theorem quantifies over *all* coordinate lists (duplicates, collinear, fewer than three
  points) and over an *arbitrary* rounding function `rnd` applied to the non-predicate arithmetic
  (so it covers `i64`, `f64` and any other scalar type).

  Not proved (kept visible, decided on every generated case by running the verified checker on the
  implementation's output):
    theorem quickHull_isStrictHull (pts) : hasTriangle pts → isStrictHull (quickHull rnd pts) pts
    theorem grahamHull_isStrictHull (pts) : hasTriangle pts → isStrictHull (grahamHull rnd pts false) pts
-/
import GeoModel.Hull
import GeoProofs.Lemmas.C08Mem
import Mathlib.Tactic.Linarith

namespace Geo.Proofs.C08
open Geo Geo.Hull

/-! ### T1: hull vertices are input coordinates; the ring is closed -/

/-- [T] `trivial_hull` (fewer than four points) only returns input coordinates. -/
theorem trivialHull_subset (pts : List Pt) (incl : Bool) : ∀ x ∈ trivialHull pts incl, x ∈ pts :=
  trivialHull_subset' pts incl

/-- [T] `graham_hull` only returns input coordinates (any rounding, both `include_on_hull`). -/
theorem grahamHull_subset (rnd : Rat → Rat) (pts : List Pt) (incl : Bool) :
    ∀ x ∈ grahamHull rnd pts incl, x ∈ pts :=
  grahamHull_subset' rnd pts incl

/-- [T] `hull_set` pushes only coordinates of its slice, and leaves a slice of the same coordinates. -/
theorem hullSet_no_new_points (rnd : Rat → Rat) (fuel : Nat) (a b : Pt) (set : List Pt) :
    (∀ x ∈ (hullSet rnd fuel a b set).1, x ∈ set) ∧ (∀ x ∈ (hullSet rnd fuel a b set).2, x ∈ set) :=
  hullSet_subset rnd fuel a b set

/-- [T] `quick_hull` (with its Graham fallback) only returns input coordinates. -/
theorem quickHull_subset (rnd : Rat → Rat) (pts : List Pt) : ∀ x ∈ quickHull rnd pts, x ∈ pts := by
  intro x hx
  unfold quickHull at hx
  split at hx
  · exact trivialHull_subset' _ _ x hx
  · rename_i hlen
    have h2 : 2 ≤ pts.length := by omega
    have hraw := quickHullRaw_subset rnd pts h2
    dsimp only at hx
    split at hx
    · exact hraw.1 x (grahamHull_subset' _ _ _ x hx)
    · exact hraw.2 x hx

/-- [T] `ConvexHull::convex_hull` only returns input coordinates. -/
theorem convexHull_subset (rnd : Rat → Rat) (pts : List Pt) : ∀ x ∈ convexHull rnd pts, x ∈ pts :=
  fun x hx => quickHull_subset rnd pts x (close_subset _ x hx)

/-- [T] the ring returned by `trivial_hull` is closed (first = last; the empty ring counts). -/
theorem trivialHull_closed (pts : List Pt) (incl : Bool) :
    (trivialHull pts incl).head? = (trivialHull pts incl).getLast? :=
  trivialHull_closed' pts incl

/-- [T] the ring returned by `graham_hull` is closed. -/
theorem grahamHull_closed (rnd : Rat → Rat) (pts : List Pt) (incl : Bool) :
    (grahamHull rnd pts incl).head? = (grahamHull rnd pts incl).getLast? :=
  grahamHull_closed' rnd pts incl

/-- [T] the ring returned by `quick_hull` is closed. -/
theorem quickHull_closed (rnd : Rat → Rat) (pts : List Pt) :
    (quickHull rnd pts).head? = (quickHull rnd pts).getLast? := by
  unfold quickHull
  split
  · exact trivialHull_closed' _ _
  · dsimp only
    split
    · exact grahamHull_closed' _ _ _
    · unfold quickHullRaw; exact close_closed _

/-- [T] `Polygon::new` does not alter the ring of `quick_hull`: it is already closed. -/
theorem convexHull_eq_quickHull (rnd : Rat → Rat) (pts : List Pt) :
    convexHull rnd pts = quickHull rnd pts := by
  unfold convexHull
  have h := quickHull_closed rnd pts
  generalize quickHull rnd pts = r at h
  cases r with
  | nil => rfl
  | cons a t =>
    simp only [close]
    rw [if_pos]
    simpa using h.symm

/-- [T] what `quick_hull` returns for four or more points: its own ring when that ring is verified
(every turn strictly left, winds once) or has at most three coordinates (all points collinear),
otherwise the ring of the Graham scan. -/
theorem quickHull_verified_or_graham (rnd : Rat → Rat) (pts : List Pt) (h : 4 ≤ pts.length) :
    (quickHull rnd pts = (quickHullRaw rnd pts).2 ∧
      ((quickHullRaw rnd pts).2.length ≤ 3 ∨ isStrictCcwHull (quickHullRaw rnd pts).2 = true)) ∨
    quickHull rnd pts = grahamHull rnd (quickHullRaw rnd pts).1 false := by
  unfold quickHull
  rw [if_neg (by omega)]
  dsimp only
  split
  · right; rfl
  · rename_i hc
    left
    refine ⟨rfl, ?_⟩
    by_cases hl : (quickHullRaw rnd pts).2.length ≤ 3
    · exact Or.inl hl
    · right
      have hl' : decide ((quickHullRaw rnd pts).2.length > 3) = true := by simp; omega
      cases hv : isStrictCcwHull (quickHullRaw rnd pts).2 with
      | true => rfl
      | false => simp [hl', hv] at hc

end Geo.Proofs.C08
