/-
  C01 — relate() returns the true DE-9IM matrix.
  Property theorems only. Models: GeoModel/RelateSpec.lean (executable specification of DE-9IM),
  GeoModel/Valid.lean (domain), GeoModel/RelateImpl*.lean (executable model of the implementation:
  the noded topology graph of geo/src/algorithm/relate; section "the model of the implementation" at
  the end of this file).
-/
import GeoModel.RelateSpec
import GeoProofs.Lemmas.RelateSpecLemmas
import GeoProofs.Lemmas.RelateSpecLocate
import GeoProofs.Lemmas.RelateSpecBBox
import GeoProofs.Lemmas.RelateSpecSwap
import GeoProofs.Lemmas.RelateSpecDisjoint
import GeoProofs.Lemmas.RelateSpecRewrite
import GeoProofs.Lemmas.RelateSpecReverse
import GeoProofs.Lemmas.C01QAtoms
import GeoProofs.Lemmas.C01QDisjoint
import GeoProofs.Lemmas.C01QTypes
import GeoProofs.Lemmas.C01QAreal
import GeoProofs.Lemmas.C01QPoint
import GeoProofs.Lemmas.C01QTriangle
import GeoProofs.Lemmas.C01QLine
import GeoProofs.Lemmas.TRANDims

import GeoProofs.Lemmas.LocateLemmas
import GeoProofs.Lemmas.RELMMono
import GeoProofs.Lemmas.RELMDisjoint
import GeoProofs.Lemmas.RELMSwap
import GeoProofs.Lemmas.RELMAtoms
import GeoProofs.Lemmas.RELMPoint4
import GeoProofs.Lemmas.RELMPointPoint
import GeoProofs.Lemmas.RELMMultiPoint
import GeoProofs.Lemmas.RELMOrder5
import GeoProofs.Lemmas.RELMSym6
import GeoProofs.Lemmas.RELMEnds2
import GeoProofs.Lemmas.RELMTotal5
import GeoProofs.Lemmas.RELM2Dom
import GeoProofs.Lemmas.RELM2Disjoint
import GeoProofs.Lemmas.RELM2Ring
import GeoProofs.Lemmas.RELM3Areal
import GeoProofs.Lemmas.RELM3Full
import GeoProofs.Lemmas.RELM3ArealFull
import GeoProofs.Lemmas.RELM3MPoly
import GeoProofs.Lemmas.RELM3PointMP
import GeoProofs.Lemmas.RELM3LineLine
import Mathlib.Tactic.NormNum

namespace Geo.Proofs.C01
open Geo

/-- [T] transposition is an involution. -/
theorem transpose_transpose (m : IM) : m.transpose.transpose = m := by
  cases m; rfl

/-- [T] reading a cell of the transposed matrix = reading the mirrored cell. -/
theorem transpose_get (m : IM) (a b : Pos) : m.transpose.get a b = m.get b a := by
  cases m; cases a <;> cases b <;> rfl

/-- [T] `set` then `get`. -/
theorem get_set (m : IM) (a b a' b' : Pos) (d : Dim) :
    (m.set a b d).get a' b' = if a = a' ∧ b = b' then d else m.get a' b' := by
  cases m; cases a <;> cases b <;> cases a' <;> cases b' <;> simp [IM.set, IM.get]

/-- [T] `set_at_least` only ever raises the addressed cell to the maximum of old and new. -/
theorem get_setAtLeast (m : IM) (a b a' b' : Pos) (d : Dim) :
    (m.setAtLeast a b d).get a' b' =
      if a = a' ∧ b = b' then (if (m.get a b).rank < d.rank then d else m.get a b) else m.get a' b' := by
  unfold IM.setAtLeast
  split
  · rw [get_set]
  · by_cases h : a = a' ∧ b = b'
    · obtain ⟨rfl, rfl⟩ := h; simp
    · simp [h]

/-- [T] `set_at_least` commutes with transposition. -/
theorem setAtLeast_transpose (m : IM) (a b : Pos) (d : Dim) :
    (m.setAtLeast a b d).transpose = m.transpose.setAtLeast b a d := by
  unfold IM.setAtLeast
  rw [transpose_get]
  split
  · cases m; cases a <;> cases b <;> rfl
  · rfl

/-- [T] the disjoint-envelope shortcut is symmetric: swapping the operands transposes it. -/
theorem computeDisjoint_transpose (da ba db bb : Dim) :
    (computeDisjoint da ba db bb).transpose = computeDisjoint db bb da ba := by
  cases da <;> cases ba <;> cases db <;> cases bb <;> rfl

/-- [T] the DE-9IM string has nine characters, row-major (II IB IE BI BB BE EI EB EE). -/
theorem str_length (m : IM) : m.str.length = 9 := by
  simp [IM.str]

/-! ## 1. The matrix is a maximum over atoms (order / repetition independent) -/

/-- [T] cell `(x, y)` of the accumulated matrix is at least `d` iff `d = F` or some atom located
`(x, y)` has dimension at least `d`: the matrix is the cell-wise maximum over the atoms. -/
theorem fold_get (atoms : List Atom) (x y : Pos) (d : Dim) :
    d.rank ≤ ((Spec.fold atoms).get x y).rank ↔
      d = .empty ∨ ∃ a ∈ atoms, a.posA = x ∧ a.posB = y ∧ d.rank ≤ a.dim.rank :=
  Spec.fold_get atoms x y d

/-- [T] `relateParts` is that maximum over its atom list (vertices, sub-segment midpoints, face
samples), then `EE = 2`. -/
theorem relateParts_eq_fold (pa pb : Parts) :
    relateParts pa pb = (Spec.fold (Spec.atomsOf pa pb)).set .outside .outside .two := rfl

/-- [T] permuting the atoms does not change the matrix. -/
theorem fold_perm {l l' : List Atom} (h : l.Perm l') : Spec.fold l = Spec.fold l' := Spec.fold_perm h

example : Spec.fold [⟨.one, .inside, .outside⟩, ⟨.two, .inside, .inside⟩] =
    Spec.fold [⟨.two, .inside, .inside⟩, ⟨.one, .inside, .outside⟩] := fold_perm (List.Perm.swap _ _ _)

/-- [T] two atom lists with the same *set* of `(dim, posA, posB)` triples give the same matrix. -/
theorem fold_subset_congr {l l' : List Atom}
    (h : ∀ d x y, (∃ a ∈ l, a.dim = d ∧ a.posA = x ∧ a.posB = y) ↔
      (∃ a ∈ l', a.dim = d ∧ a.posA = x ∧ a.posB = y)) : Spec.fold l = Spec.fold l' :=
  Spec.fold_subset_congr h

example (a : Atom) : Spec.fold [a, a] = Spec.fold [a] := fold_subset_congr (by simp)

/-- [T] exchanging the two positions of every atom transposes the matrix. -/
theorem fold_swap (atoms : List Atom) :
    Spec.fold (atoms.map Spec.swapAB) = (Spec.fold atoms).transpose := Spec.fold_swap atoms

/-! ## 5. Transposition -/

/-- [T] **relating the operands in the other order transposes the matrix** (on parts). -/
theorem relateParts_transpose (pa pb : Parts) : relateParts pb pa = (relateParts pa pb).transpose :=
  Spec.relateParts_transpose pa pb

/-- [T] `relateSpec b a = (relateSpec a b)ᵀ` for all geometries. -/
theorem relateSpec_transpose (a b : Geom) : relateSpec b a = (relateSpec a b).transpose :=
  Spec.relateParts_transpose (parts a) (parts b)

/-- [T] the intersection vertex of two segments does not depend on their order. -/
theorem segVertex_symm (s t : Pt × Pt) : segVertex s t = segVertex t s := Spec.segVertex_symm s t

/-- [T] the sorted list of the vertices on a segment is determined by the *set* of vertices
(duplicate-free lists): `segAtoms` sees the vertex list only through membership. -/
theorem segAtoms_congr (pa pb : Parts) {verts verts' : List Pt} (h : verts.Perm verts') (hn : verts.Nodup)
    (s : Pt × Pt) : segAtoms pa pb verts s = segAtoms pa pb verts' s := Spec.segAtoms_congr pa pb h hn s

example (pa pb : Parts) (s : Pt × Pt) :
    segAtoms pa pb [⟨0, 0⟩, ⟨1, 0⟩] s = segAtoms pa pb [⟨1, 0⟩, ⟨0, 0⟩] s :=
  segAtoms_congr pa pb (List.Perm.swap _ _ _) (by simp) s

/-! ## 2. Point location is independent of how the point set is written -/

/-- [T] a segment contains the same points in either direction. -/
theorem lineCoord_symm (a b p : Pt) : lineCoord a b p = lineCoord b a p := Spec.lineCoord_symm a b p

/-- [T] `onAnySeg` depends only on the set of undirected segments. -/
theorem onAnySeg_congr (p : Pt) {ss ss' : List (Pt × Pt)}
    (h : ∀ s ∈ ss, s ∈ ss' ∨ s.swap ∈ ss') (h' : ∀ s ∈ ss', s ∈ ss ∨ s.swap ∈ ss) :
    onAnySeg p ss = onAnySeg p ss' := Spec.onAnySeg_congr p h h'

example (p a b : Pt) : onAnySeg p [(a, b), (a, b)] = onAnySeg p [(b, a)] :=
  onAnySeg_congr p (by simp) (by simp)

/-- [T] reversing a ring negates the winding number. -/
theorem windingE_reverse (p : EPt) (ring : List Pt) : windingE p ring.reverse = - windingE p ring :=
  Spec.windingE_reverse p ring

/-- [T] starting a closed ring at another vertex keeps the winding number. -/
theorem windingE_rotate (p : EPt) (a b : Pt) (l1 l2 : List Pt) :
    windingE p (a :: l1 ++ b :: (l2 ++ [a])) = windingE p (b :: l2 ++ a :: (l1 ++ [b])) :=
  Spec.windingE_rotate p a b l1 l2

/-- [T] the winding number depends only on the multiset of directed edges. -/
theorem windingE_perm (p : EPt) {r r' : List Pt} (h : (segs r).Perm (segs r')) :
    windingE p r = windingE p r' := by
  rw [Spec.windingE_eq_wsum, Spec.windingE_eq_wsum, Spec.wsum_perm p h]

example (p : EPt) (a b c : Pt) : windingE p [a, b, c, a] = windingE p [b, c, a, b] :=
  windingE_perm p (by
    simp only [segs]
    exact (List.perm_append_comm : ([(a, b)] ++ [(b, c), (c, a)]).Perm ([(b, c), (c, a)] ++ [(a, b)])))

/-- [T] ring direction and ring start vertex are `RingEquiv` re-writings (same points on the ring,
winding numbers vanish together). -/
theorem ringEquiv_reverse (r : List Pt) : Spec.RingEquiv r r.reverse := Spec.RingEquiv.reverse r

theorem ringEquiv_rotate (a b : Pt) (l1 l2 : List Pt) :
    Spec.RingEquiv (a :: l1 ++ b :: (l2 ++ [a])) (b :: l2 ++ a :: (l1 ++ [b])) := Spec.RingEquiv.rotate a b l1 l2

/-- [T] re-writing the exterior ring, one hole, or the order of the holes gives a `PolyEquiv`
polygon (same ring points, same `insidePolyE` for every perturbed point). -/
theorem polyEquiv_ext {r r' : List Pt} (h : Spec.RingEquiv r r') (ints : List (List Pt)) :
    Spec.PolyEquiv ⟨r, ints⟩ ⟨r', ints⟩ := Spec.PolyEquiv.of_ext h ints

theorem polyEquiv_hole {r r' : List Pt} (h : Spec.RingEquiv r r') (ext : List Pt) (h1 h2 : List (List Pt)) :
    Spec.PolyEquiv ⟨ext, h1 ++ r :: h2⟩ ⟨ext, h1 ++ r' :: h2⟩ := Spec.PolyEquiv.of_hole h ext h1 h2

theorem polyEquiv_holes_perm (ext : List Pt) {ints ints' : List (List Pt)} (h : ints.Perm ints') :
    Spec.PolyEquiv ⟨ext, ints⟩ ⟨ext, ints'⟩ := Spec.PolyEquiv.of_ints_perm ext h

example (ext h1 h2 : List Pt) : Spec.PolyEquiv ⟨ext, [h1, h2]⟩ ⟨ext.reverse, [h2.reverse, h1]⟩ :=
  (polyEquiv_ext (ringEquiv_reverse ext) _).trans
    ((polyEquiv_holes_perm _ (List.Perm.swap _ _ _)).trans (polyEquiv_hole (ringEquiv_reverse h2) _ [] [h1]))

/-- [T] `insidePolyE` is invariant under these re-writings (by definition of `PolyEquiv`). -/
theorem insidePolyE_congr {q q' : Poly} (h : Spec.PolyEquiv q q') (e : EPt) :
    insidePolyE e q = insidePolyE e q' := h.inside e

example (e : EPt) (ext : List Pt) (ints : List (List Pt)) :
    insidePolyE e ⟨ext.reverse, ints⟩ = insidePolyE e ⟨ext, ints⟩ :=
  (insidePolyE_congr (polyEquiv_ext (ringEquiv_reverse ext) ints) e).symm

/-- [T] **`locateParts` and `locateFace` depend only on the point sets written**: every member may
be re-written (curve direction, start vertex of a closed curve, ring start vertex, ring direction,
order of holes) and points listed in any order / multiplicity. -/
theorem locateParts_congr {pts pts' : List Pt} {cs cs' : List (List Pt)} {as as' : List Poly} (p : Pt)
    (hp : ∀ x, x ∈ pts ↔ x ∈ pts') (hc : List.Forall₂ Spec.CurveEquiv cs cs')
    (ha : List.Forall₂ Spec.PolyEquiv as as') :
    locateParts ⟨pts, cs, as⟩ p = locateParts ⟨pts', cs', as'⟩ p := Spec.locateParts_congr p hp hc ha

theorem locateFace_congr {pts pts' : List Pt} {cs cs' : List (List Pt)} {as as' : List Poly} (e : EPt)
    (ha : List.Forall₂ Spec.PolyEquiv as as') :
    locateFace ⟨pts, cs, as⟩ e = locateFace ⟨pts', cs', as'⟩ e := Spec.locateFace_congr e ha

/-- [T] members / holes / points listed in another order. -/
theorem locateParts_perm {pts pts' : List Pt} {cs cs' : List (List Pt)} {as as' : List Poly} (p : Pt)
    (hp : pts.Perm pts') (hc : cs.Perm cs') (ha : as.Perm as') :
    locateParts ⟨pts, cs, as⟩ p = locateParts ⟨pts', cs', as'⟩ p := Spec.locateParts_perm p hp hc ha

theorem locateFace_perm {pts pts' : List Pt} {cs cs' : List (List Pt)} {as as' : List Poly} (e : EPt)
    (ha : as.Perm as') :
    locateFace ⟨pts, cs, as⟩ e = locateFace ⟨pts', cs', as'⟩ e := Spec.locateFace_perm e ha

example (p a b : Pt) (c1 c2 : List Pt) (q1 q2 : Poly) :
    locateParts ⟨[a, b], [c1, c2], [q1, q2]⟩ p = locateParts ⟨[b, a], [c2, c1], [q2, q1]⟩ p :=
  locateParts_perm p (List.Perm.swap _ _ _) (List.Perm.swap _ _ _) (List.Perm.swap _ _ _)

/-- [T] polygon: any `PolyEquiv` re-writing (ring start / direction, hole order) locates alike. -/
theorem locate_polygon_congr {q q' : Poly} (h : Spec.PolyEquiv q q') (p : Pt) :
    locate (.polygon q) p = locate (.polygon q') p :=
  Spec.locateParts_congr p (fun _ => Iff.rfl) List.Forall₂.nil (List.Forall₂.cons h List.Forall₂.nil)

example (p : Pt) (ext : List Pt) (ints : List (List Pt)) :
    locate (.polygon ⟨ext.reverse, ints⟩) p = locate (.polygon ⟨ext, ints⟩) p :=
  (locate_polygon_congr (polyEquiv_ext (ringEquiv_reverse ext) ints) p).symm

example (p a b : Pt) (l1 l2 : List Pt) :
    locate (.polygon ⟨a :: l1 ++ b :: (l2 ++ [a]), []⟩) p = locate (.polygon ⟨b :: l2 ++ a :: (l1 ++ [b]), []⟩) p :=
  locate_polygon_congr (polyEquiv_ext (ringEquiv_rotate a b l1 l2) []) p

/-- [T] multi-polygon: one member re-written, anywhere in the list. -/
theorem locate_multiPolygon_member {q q' : Poly} (h : Spec.PolyEquiv q q') (pre post : List Poly) (p : Pt) :
    locate (.multiPolygon (pre ++ q :: post)) p = locate (.multiPolygon (pre ++ q' :: post)) p :=
  Spec.locateParts_congr p (fun _ => Iff.rfl) List.Forall₂.nil (Spec.forall₂_poly_at h pre post)

example (p : Pt) (q0 : Poly) (ext : List Pt) :
    locate (.multiPolygon [q0, ⟨ext, []⟩]) p = locate (.multiPolygon [q0, ⟨ext.reverse, []⟩]) p :=
  locate_multiPolygon_member (polyEquiv_ext (ringEquiv_reverse ext) []) [q0] [] p

/-- [T] multi-polygon / multi-line-string / multi-point: member order is irrelevant. -/
theorem locate_multiPolygon_perm {qs qs' : List Poly} (h : qs.Perm qs') (p : Pt) :
    locate (.multiPolygon qs) p = locate (.multiPolygon qs') p :=
  Spec.locateParts_perm p (List.Perm.refl _) (List.Perm.refl _) h

theorem locate_multiLineString_perm {ls ls' : List (List Pt)} (h : ls.Perm ls') (p : Pt) :
    locate (.multiLineString ls) p = locate (.multiLineString ls') p :=
  Spec.locateParts_perm p (List.Perm.refl _) h (List.Perm.refl _)

theorem locate_multiPoint_perm {ps ps' : List Pt} (h : ps.Perm ps') (p : Pt) :
    locate (.multiPoint ps) p = locate (.multiPoint ps') p :=
  Spec.locateParts_perm p h (List.Perm.refl _) (List.Perm.refl _)

example (p : Pt) (l1 l2 l3 : List Pt) :
    locate (.multiLineString [l1, l2, l3]) p = locate (.multiLineString [l2, l1, l3]) p :=
  locate_multiLineString_perm (List.Perm.swap _ _ _) p

/-- [T] line string: direction is irrelevant; so is the start vertex of a closed one. -/
theorem locate_lineString_reverse (cs : List Pt) (p : Pt) :
    locate (.lineString cs.reverse) p = locate (.lineString cs) p :=
  (Spec.locateParts_congr p (fun _ => Iff.rfl)
    (List.Forall₂.cons (Spec.CurveEquiv.reverse cs) List.Forall₂.nil) List.Forall₂.nil).symm

theorem locate_lineString_rotate (a b : Pt) (l1 l2 : List Pt) (p : Pt) :
    locate (.lineString (a :: l1 ++ b :: (l2 ++ [a]))) p = locate (.lineString (b :: l2 ++ a :: (l1 ++ [b]))) p :=
  Spec.locateParts_congr p (fun _ => Iff.rfl)
    (List.Forall₂.cons (Spec.CurveEquiv.rotate a b l1 l2) List.Forall₂.nil) List.Forall₂.nil

/-- [T] multi-line-string: one member re-written (direction / closed start), anywhere in the list. -/
theorem locate_multiLineString_member {c c' : List Pt} (h : Spec.CurveEquiv c c') (pre post : List (List Pt))
    (p : Pt) :
    locate (.multiLineString (pre ++ c :: post)) p = locate (.multiLineString (pre ++ c' :: post)) p :=
  Spec.locateParts_congr p (fun _ => Iff.rfl) (Spec.forall₂_curve_at h pre post) List.Forall₂.nil

example (p : Pt) (l0 c : List Pt) :
    locate (.multiLineString [l0, c]) p = locate (.multiLineString [l0, c.reverse]) p :=
  locate_multiLineString_member (Spec.CurveEquiv.reverse c) [l0] [] p

/-- [T] the same point set through another geometry type: `Rect` / `Triangle` as `Polygon`, `Line` as
`LineString`, singleton `Multi*` and one-member collections as the member. These hold at the level
of `parts`, hence for `locate` *and* for the whole matrix. -/
theorem parts_rect (mn mx : Pt) :
    parts (.rect mn mx) = parts (.polygon ⟨SM.rectToPolygon ⟨mn, mx⟩, []⟩) := by simp [parts]

theorem parts_triangle (a b c : Pt) : parts (.triangle a b c) = parts (.polygon ⟨[a, b, c, a], []⟩) := by
  simp [parts]

theorem parts_line (a b : Pt) : parts (.line a b) = parts (.lineString [a, b]) := by simp [parts]

theorem parts_multiPoint_single (a : Pt) : parts (.multiPoint [a]) = parts (.point a) := by simp [parts]

theorem parts_multiLineString_single (cs : List Pt) : parts (.multiLineString [cs]) = parts (.lineString cs) := by
  simp [parts]

theorem parts_multiPolygon_single (q : Poly) : parts (.multiPolygon [q]) = parts (.polygon q) := by
  simp [parts]

theorem parts_collection_single (g : Geom) : parts (.collection [g]) = parts g := by
  simp [parts, partsList, Parts.append]

theorem locate_rect (mn mx p : Pt) :
    locate (.rect mn mx) p = locate (.polygon ⟨SM.rectToPolygon ⟨mn, mx⟩, []⟩) p := by
  unfold locate; rw [parts_rect]

theorem locate_triangle (a b c p : Pt) :
    locate (.triangle a b c) p = locate (.polygon ⟨[a, b, c, a], []⟩) p := by
  unfold locate; rw [parts_triangle]

theorem locate_line (a b p : Pt) : locate (.line a b) p = locate (.lineString [a, b]) p := by
  unfold locate; rw [parts_line]

theorem locate_collection_single (g : Geom) (p : Pt) : locate (.collection [g]) p = locate g p := by
  unfold locate; rw [parts_collection_single]

/-- [T] the matrix only sees `parts`: equal parts, equal matrices (both operand positions). -/
theorem relateSpec_congr {a a' b b' : Geom} (ha : parts a = parts a') (hb : parts b = parts b') :
    relateSpec a b = relateSpec a' b' := by
  unfold relateSpec; rw [ha, hb]

example (mn mx a b c : Pt) :
    relateSpec (.rect mn mx) (.triangle a b c) =
      relateSpec (.polygon ⟨SM.rectToPolygon ⟨mn, mx⟩, []⟩) (.collection [.polygon ⟨[a, b, c, a], []⟩]) :=
  relateSpec_congr (parts_rect mn mx) ((parts_triangle a b c).trans (parts_collection_single _).symm)

/-! ## 3. Boundary semantics (mod-2 rule) -/

/-- [T] purely linear parts: a point on a curve is a boundary point iff it is an end point of an odd
number of open curves (both ends counted), interior otherwise. -/
theorem locateParts_linear_boundary (ps : Parts) (p : Pt) (ha : ps.areas = []) (hp : ps.pts = []) :
    locateParts ps p = .onBoundary ↔ onAnySeg p ps.curveSegs = true ∧ endpointCount p ps.curves % 2 = 1 :=
  Spec.locateParts_linear_boundary ps p ha hp

theorem locateParts_linear_inside (ps : Parts) (p : Pt) (ha : ps.areas = []) (hp : ps.pts = []) :
    locateParts ps p = .inside ↔ onAnySeg p ps.curveSegs = true ∧ endpointCount p ps.curves % 2 = 0 :=
  Spec.locateParts_linear_inside ps p ha hp

theorem locateParts_linear_outside (ps : Parts) (p : Pt) (ha : ps.areas = []) (hp : ps.pts = []) :
    locateParts ps p = .outside ↔ onAnySeg p ps.curveSegs = false :=
  Spec.locateParts_linear_outside ps p ha hp

/-- two line strings sharing an end point: the shared point is counted twice, hence interior -/
example : endpointCount ⟨1, 0⟩ [[⟨0, 0⟩, ⟨1, 0⟩], [⟨1, 0⟩, ⟨1, 1⟩]] % 2 = 0 := by decide
example : endpointCount ⟨0, 0⟩ [[⟨0, 0⟩, ⟨1, 0⟩], [⟨1, 0⟩, ⟨1, 1⟩]] % 2 = 1 := by decide

example : locateParts ⟨[], [[⟨0, 0⟩, ⟨1, 0⟩], [⟨1, 0⟩, ⟨1, 1⟩]], []⟩ ⟨0, 0⟩ = .onBoundary ↔
    onAnySeg ⟨0, 0⟩ (Parts.curveSegs ⟨[], [[⟨0, 0⟩, ⟨1, 0⟩], [⟨1, 0⟩, ⟨1, 1⟩]], []⟩) = true ∧
      endpointCount ⟨0, 0⟩ [[⟨0, 0⟩, ⟨1, 0⟩], [⟨1, 0⟩, ⟨1, 1⟩]] % 2 = 1 :=
  locateParts_linear_boundary _ _ rfl rfl

/-- [T] purely areal parts: a boundary point lies on a ring segment (or is a single-coordinate ring). -/
theorem locateParts_areal_boundary (ps : Parts) (p : Pt) (hc : ps.curves = []) (hp : ps.pts = [])
    (h : locateParts ps p = .onBoundary) :
    onAnySeg p ps.areaSegs = true ∨ ∃ q ∈ ps.areas, [p] ∈ q.rings :=
  Spec.locateParts_areal_boundary ps p hc hp h

/-- [T] conversely a ring point is a boundary point unless some member polygon has it strictly
inside (off its rings, inside its shell, outside its holes). -/
theorem locateParts_areal_boundary_conv (ps : Parts) (p : Pt) (hc : ps.curves = []) (hp : ps.pts = [])
    (hin : Spec.inAnyPoly ps.areas p = false)
    (h : onAnySeg p ps.areaSegs = true ∨ ∃ q ∈ ps.areas, [p] ∈ q.rings) :
    locateParts ps p = .onBoundary := Spec.locateParts_areal_boundary_conv ps p hc hp hin h

/-- [T] point parts: interior iff listed, never boundary. -/
theorem locateParts_points_inside (ps : Parts) (p : Pt) (ha : ps.areas = []) (hc : ps.curves = []) :
    locateParts ps p = .inside ↔ p ∈ ps.pts := Spec.locateParts_points_inside ps p ha hc

theorem locateParts_points_not_boundary (ps : Parts) (p : Pt) (ha : ps.areas = []) (hc : ps.curves = []) :
    locateParts ps p ≠ .onBoundary := Spec.locateParts_points_not_boundary ps p ha hc

example : locateParts ⟨[⟨1, 2⟩, ⟨3, 4⟩], [], []⟩ ⟨3, 4⟩ = .inside :=
  (locateParts_points_inside _ _ rfl rfl).mpr (by simp)

/-! ## 4. Disjoint-envelope lemma -/

/-- [T] a point strictly outside the bounding box of all coordinates of the parts (on any of the
four sides) is located `outside`; only the "left" side uses that exterior rings are closed. -/
theorem locate_outside_bbox (ps : Parts) (p : Pt)
    (h : (∀ c ∈ Spec.allCoords ps, c.x < p.x) ∨
         ((∀ c ∈ Spec.allCoords ps, p.x < c.x) ∧ ∀ q ∈ ps.areas, q.ext.head? = q.ext.getLast?) ∨
         (∀ c ∈ Spec.allCoords ps, c.y < p.y) ∨ (∀ c ∈ Spec.allCoords ps, p.y < c.y)) :
    locateParts ps p = .outside := Spec.locate_outside_bbox ps p h

/-- [T] the same for the perturbed face samples. -/
theorem locateFace_outside_bbox (ps : Parts) (e : EPt)
    (h : (∀ c ∈ Spec.allCoords ps, c.x < e.x0) ∨
         ((∀ c ∈ Spec.allCoords ps, e.x0 < c.x) ∧ ∀ q ∈ ps.areas, q.ext.head? = q.ext.getLast?) ∨
         (∀ c ∈ Spec.allCoords ps, c.y < e.y0) ∨ (∀ c ∈ Spec.allCoords ps, e.y0 < c.y)) :
    locateFace ps e = .outside := Spec.locateFace_outside_bbox ps e h

/-- the triangle `(0,0) (2,0) (0,2)`: a point to its left (needs the closed ring) and one above -/
example : locateParts ⟨[], [], [⟨[⟨0, 0⟩, ⟨2, 0⟩, ⟨0, 2⟩, ⟨0, 0⟩], []⟩]⟩ ⟨-1, 1⟩ = .outside := by
  apply locate_outside_bbox
  right; left
  constructor
  · intro c hc
    simp [Spec.allCoords, Poly.rings] at hc
    rcases hc with rfl | rfl | rfl | rfl <;> norm_num
  · intro q hq
    simp at hq
    subst hq
    rfl

example : locateParts ⟨[], [], [⟨[⟨0, 0⟩, ⟨2, 0⟩, ⟨0, 2⟩, ⟨0, 0⟩], []⟩]⟩ ⟨1, 3⟩ = .outside := by
  apply locate_outside_bbox
  right; right; left
  intro c hc
  simp [Spec.allCoords, Poly.rings] at hc
  rcases hc with rfl | rfl | rfl | rfl <;> norm_num

/-- [T] every atom of operands whose coordinate bounding boxes are strictly separated along an axis
is exterior to one of the operands. -/
theorem atom_outside_of_sep {pa pb : Parts} (h : Spec.Sep pa pb) (ca : Spec.ClosedExt pa) (cb : Spec.ClosedExt pb)
    {x : Atom} (hx : x ∈ Spec.atomsOf pa pb) : x.posA = .outside ∨ x.posB = .outside :=
  Spec.atom_outside_of_sep h ca cb hx

/-- [T] **disjoint-envelope shortcut, matrix form**: for operands with strictly separated bounding
boxes (exterior rings closed) the specification's matrix has `F` in II, IB, BI, BB — the shape
`FF*FF****` that `compute_disjoint` emits. -/
theorem relateParts_sep {pa pb : Parts} (h : Spec.Sep pa pb) (ca : Spec.ClosedExt pa) (cb : Spec.ClosedExt pb)
    (x y : Pos) (hx : x ≠ .outside) (hy : y ≠ .outside) : (relateParts pa pb).get x y = .empty :=
  Spec.relateParts_sep h ca cb x y hx hy

/-- [T] the shortcut's own matrix has that shape. -/
theorem computeDisjoint_shape (da ba db bb : Dim) (x y : Pos) (hx : x ≠ .outside) (hy : y ≠ .outside) :
    (computeDisjoint da ba db bb).get x y = .empty := by
  cases da <;> cases ba <;> cases db <;> cases bb <;> cases x <;> cases y <;> first | rfl | contradiction

/-- a segment left of a triangle -/
example : (relateParts ⟨[], [[⟨0, 0⟩, ⟨1, 1⟩]], []⟩ ⟨[], [], [⟨[⟨5, 0⟩, ⟨7, 0⟩, ⟨5, 2⟩, ⟨5, 0⟩], []⟩]⟩).get
    .inside .onBoundary = .empty := by
  apply relateParts_sep _ _ _ _ _ (by decide) (by decide)
  · left
    intro a ha b hb
    simp [Spec.allCoords, Poly.rings] at ha hb
    rcases ha with rfl | rfl <;> rcases hb with rfl | rfl | rfl | rfl <;> norm_num
  · intro q hq; simp at hq
  · intro q hq
    simp at hq
    subst hq
    rfl

/-! ## 2'. The whole matrix is independent of how an operand is written (segment directions kept) -/

/-- [T] **the matrix does not depend on how either operand is written**, for `PartsEquiv` re-writings:
same directed segments as a multiset, same single coordinates and isolated points as sets, same
point location. -/
theorem relateParts_congr {pa pa' pb pb' : Parts} (ha : Spec.PartsEquiv pa pa') (hb : Spec.PartsEquiv pb pb') :
    relateParts pa pb = relateParts pa' pb' :=
  (Spec.relateParts_congr_left ha pb).trans (Spec.relateParts_congr_right pa' hb)

theorem relateSpec_congr_parts {a a' b b' : Geom} (ha : Spec.PartsEquiv (parts a) (parts a'))
    (hb : Spec.PartsEquiv (parts b) (parts b')) : relateSpec a b = relateSpec a' b' :=
  relateParts_congr ha hb

/-- [T] members re-written one by one (closed curve / ring started at another vertex, holes in
another order) and members / points listed in another order are `PartsEquiv` re-writings. -/
theorem partsEquiv_members (pts : List Pt) {cs cs' : List (List Pt)} {as as' : List Poly}
    (hc : List.Forall₂ Spec.CurveRewrite cs cs') (ha : List.Forall₂ Spec.PolyRewrite as as') :
    Spec.PartsEquiv ⟨pts, cs, as⟩ ⟨pts, cs', as'⟩ := Spec.PartsEquiv.members pts hc ha

theorem partsEquiv_perm {pts pts' : List Pt} {cs cs' : List (List Pt)} {as as' : List Poly}
    (hp : pts.Perm pts') (hc : cs.Perm cs') (ha : as.Perm as') :
    Spec.PartsEquiv ⟨pts, cs, as⟩ ⟨pts', cs', as'⟩ := Spec.PartsEquiv.perm hp hc ha

/-- [T] polygon with the exterior ring started at another vertex: same matrix, either position. -/
theorem relateSpec_polygon_ext_rotate (a b : Pt) (l1 l2 : List Pt) (ints : List (List Pt)) (g : Geom) :
    relateSpec (.polygon ⟨a :: l1 ++ b :: (l2 ++ [a]), ints⟩) g =
      relateSpec (.polygon ⟨b :: l2 ++ a :: (l1 ++ [b]), ints⟩) g :=
  relateSpec_congr_parts
    (Spec.PartsEquiv.members [] List.Forall₂.nil
      (List.Forall₂.cons (Spec.PolyRewrite.ext_rotate a b l1 l2 ints) List.Forall₂.nil))
    (Spec.PartsEquiv.refl _)

/-- [T] polygon with a hole started at another vertex. -/
theorem relateSpec_polygon_hole_rotate (ext : List Pt) (h1 h2 : List (List Pt)) (a b : Pt) (l1 l2 : List Pt)
    (g : Geom) :
    relateSpec (.polygon ⟨ext, h1 ++ (a :: l1 ++ b :: (l2 ++ [a])) :: h2⟩) g =
      relateSpec (.polygon ⟨ext, h1 ++ (b :: l2 ++ a :: (l1 ++ [b])) :: h2⟩) g :=
  relateSpec_congr_parts
    (Spec.PartsEquiv.members [] List.Forall₂.nil
      (List.Forall₂.cons (Spec.PolyRewrite.hole_rotate ext h1 h2 a b l1 l2) List.Forall₂.nil))
    (Spec.PartsEquiv.refl _)

/-- [T] polygon with the holes in another order. -/
theorem relateSpec_polygon_holes_perm (ext : List Pt) {ints ints' : List (List Pt)} (h : ints.Perm ints')
    (g : Geom) : relateSpec (.polygon ⟨ext, ints⟩) g = relateSpec (.polygon ⟨ext, ints'⟩) g :=
  relateSpec_congr_parts
    (Spec.PartsEquiv.members [] List.Forall₂.nil
      (List.Forall₂.cons (Spec.PolyRewrite.holes_perm ext h) List.Forall₂.nil))
    (Spec.PartsEquiv.refl _)

example (ext h1 h2 : List Pt) (g : Geom) :
    relateSpec (.polygon ⟨ext, [h1, h2]⟩) g = relateSpec (.polygon ⟨ext, [h2, h1]⟩) g :=
  relateSpec_polygon_holes_perm ext (List.Perm.swap _ _ _) g

/-- [T] closed line string started at another vertex. -/
theorem relateSpec_lineString_rotate (a b : Pt) (l1 l2 : List Pt) (g : Geom) :
    relateSpec (.lineString (a :: l1 ++ b :: (l2 ++ [a]))) g =
      relateSpec (.lineString (b :: l2 ++ a :: (l1 ++ [b]))) g :=
  relateSpec_congr_parts
    (Spec.PartsEquiv.members [] (List.Forall₂.cons (Spec.CurveRewrite.rotate a b l1 l2) List.Forall₂.nil)
      List.Forall₂.nil)
    (Spec.PartsEquiv.refl _)

/-- [T] member order of `Multi*` geometries is irrelevant for the matrix. -/
theorem relateSpec_multiPolygon_perm {qs qs' : List Poly} (h : qs.Perm qs') (g : Geom) :
    relateSpec (.multiPolygon qs) g = relateSpec (.multiPolygon qs') g :=
  relateSpec_congr_parts (Spec.PartsEquiv.perm (List.Perm.refl _) (List.Perm.refl _) h) (Spec.PartsEquiv.refl _)

theorem relateSpec_multiLineString_perm {ls ls' : List (List Pt)} (h : ls.Perm ls') (g : Geom) :
    relateSpec (.multiLineString ls) g = relateSpec (.multiLineString ls') g :=
  relateSpec_congr_parts (Spec.PartsEquiv.perm (List.Perm.refl _) h (List.Perm.refl _)) (Spec.PartsEquiv.refl _)

theorem relateSpec_multiPoint_perm {ps ps' : List Pt} (h : ps.Perm ps') (g : Geom) :
    relateSpec (.multiPoint ps) g = relateSpec (.multiPoint ps') g :=
  relateSpec_congr_parts (Spec.PartsEquiv.perm h (List.Perm.refl _) (List.Perm.refl _)) (Spec.PartsEquiv.refl _)

example (q1 q2 q3 : Poly) (g : Geom) :
    relateSpec (.multiPolygon [q1, q2, q3]) g = relateSpec (.multiPolygon [q2, q1, q3]) g :=
  relateSpec_multiPolygon_perm (List.Perm.swap _ _ _) g

/-- the same in the second position, by transposition -/
example (q1 q2 : Poly) (g : Geom) :
    relateSpec g (.multiPolygon [q1, q2]) = relateSpec g (.multiPolygon [q2, q1]) :=
  relateSpec_congr_parts (Spec.PartsEquiv.refl _)
    (Spec.PartsEquiv.perm (List.Perm.refl _) (List.Perm.refl _) (List.Perm.swap _ _ _))

/-! ## 2''. … and of the direction of its rings and curves -/

/-- [T] the intersection vertex of two segments does not depend on their directions; a segment has
no intersection vertex with itself. -/
theorem segVertex_swap_left (s t : Pt × Pt) : segVertex s.swap t = segVertex s t := Spec.segVertex_swap_left s t

theorem segVertex_self (s : Pt × Pt) : segVertex s s = [] := Spec.segVertex_self s

/-- [T] the intersection vertices depend only on the *set* of segments. -/
theorem mem_pairVertices_iff (ss : List (Pt × Pt)) (x : Pt) :
    x ∈ pairVertices ss ↔ ∃ s ∈ ss, ∃ t ∈ ss, x ∈ segVertex s t := Spec.mem_pairVertices_iff ss x

/-- [T] the atoms of a segment, as a set, do not depend on its direction. -/
theorem mem_segAtoms_swap (pa pb : Parts) {verts : List Pt} (hn : verts.Nodup) (s : Pt × Pt) (x : Atom) :
    x ∈ segAtoms pa pb verts s.swap ↔ x ∈ segAtoms pa pb verts s := Spec.mem_segAtoms_swap pa pb hn s x

example (pa pb : Parts) (a b : Pt) (x : Atom) :
    x ∈ segAtoms pa pb [⟨0, 0⟩, ⟨1, 0⟩] (b, a) ↔ x ∈ segAtoms pa pb [⟨0, 0⟩, ⟨1, 0⟩] (a, b) :=
  mem_segAtoms_swap pa pb (by simp) (a, b) x

/-- [T] **the matrix does not depend on how either operand is written, segment directions
included** (`PartsSame`: same undirected segments as sets, same single coordinates and isolated
points, same point location). -/
theorem relateParts_same {pa pa' pb pb' : Parts} (ha : Spec.PartsSame pa pa') (hb : Spec.PartsSame pb pb') :
    relateParts pa pb = relateParts pa' pb' :=
  (Spec.relateParts_same_left ha pb).trans (Spec.relateParts_same_right pa' hb)

theorem relateSpec_same_parts {a a' b b' : Geom} (ha : Spec.PartsSame (parts a) (parts a'))
    (hb : Spec.PartsSame (parts b) (parts b')) : relateSpec a b = relateSpec a' b' :=
  relateParts_same ha hb

/-- [T] members re-written one by one with directions free (`PolySame`: ring start vertex, ring
direction, hole order; `CurveSame`: direction, closed start vertex) give `PartsSame` operands. -/
theorem partsSame_members (pts : List Pt) {cs cs' : List (List Pt)} {as as' : List Poly}
    (hc : List.Forall₂ Spec.CurveSame cs cs') (ha : List.Forall₂ Spec.PolySame as as') :
    Spec.PartsSame ⟨pts, cs, as⟩ ⟨pts, cs', as'⟩ := Spec.PartsSame.members pts hc ha

/-- [T] polygon with any `PolySame` re-writing: same matrix. -/
theorem relateSpec_polygon_same {q q' : Poly} (h : Spec.PolySame q q') (g : Geom) :
    relateSpec (.polygon q) g = relateSpec (.polygon q') g :=
  relateSpec_same_parts
    (Spec.PartsSame.members [] List.Forall₂.nil (List.Forall₂.cons h List.Forall₂.nil))
    (Spec.PartsSame.refl _)

/-- [T] polygon with the exterior ring reversed. -/
theorem relateSpec_polygon_ext_reverse (ext : List Pt) (ints : List (List Pt)) (g : Geom) :
    relateSpec (.polygon ⟨ext, ints⟩) g = relateSpec (.polygon ⟨ext.reverse, ints⟩) g :=
  relateSpec_polygon_same (Spec.PolySame.ext_reverse ext ints) g

/-- [T] polygon with a hole reversed. -/
theorem relateSpec_polygon_hole_reverse (ext : List Pt) (h1 h2 : List (List Pt)) (r : List Pt) (g : Geom) :
    relateSpec (.polygon ⟨ext, h1 ++ r :: h2⟩) g = relateSpec (.polygon ⟨ext, h1 ++ r.reverse :: h2⟩) g :=
  relateSpec_polygon_same (Spec.PolySame.hole_reverse ext h1 h2 r) g

/-- ring start *and* direction *and* hole order at once -/
example (a b : Pt) (l1 l2 h1 h2 : List Pt) (g : Geom) :
    relateSpec (.polygon ⟨a :: l1 ++ b :: (l2 ++ [a]), [h1, h2]⟩) g =
      relateSpec (.polygon ⟨(b :: l2 ++ a :: (l1 ++ [b])).reverse, [h2, h1.reverse]⟩) g :=
  relateSpec_polygon_same
    (((Spec.PolySame.of_rewrite (Spec.PolyRewrite.ext_rotate a b l1 l2 [h1, h2])).trans
      (Spec.PolySame.ext_reverse _ _)).trans
      ((Spec.PolySame.of_rewrite (Spec.PolyRewrite.holes_perm _ (List.Perm.swap h2 h1 []))).trans
        (Spec.PolySame.hole_reverse _ [h2] [] h1))) g

/-- [T] multi-polygon with one member re-written. -/
theorem relateSpec_multiPolygon_member {q q' : Poly} (h : Spec.PolySame q q') (pre post : List Poly) (g : Geom) :
    relateSpec (.multiPolygon (pre ++ q :: post)) g = relateSpec (.multiPolygon (pre ++ q' :: post)) g :=
  relateSpec_same_parts
    (Spec.PartsSame.members [] List.Forall₂.nil (Spec.forall₂_polySame_at h pre post))
    (Spec.PartsSame.refl _)

/-- [T] line string reversed. -/
theorem relateSpec_lineString_reverse (cs : List Pt) (g : Geom) :
    relateSpec (.lineString cs) g = relateSpec (.lineString cs.reverse) g :=
  relateSpec_same_parts
    (Spec.PartsSame.members [] (List.Forall₂.cons (Spec.CurveSame.reverse cs) List.Forall₂.nil) List.Forall₂.nil)
    (Spec.PartsSame.refl _)

/-- [T] line with its end points exchanged. -/
theorem relateSpec_line_swap (a b : Pt) (g : Geom) : relateSpec (.line a b) g = relateSpec (.line b a) g :=
  relateSpec_same_parts
    (Spec.PartsSame.members [] (List.Forall₂.cons (Spec.CurveSame.reverse [a, b]) List.Forall₂.nil) List.Forall₂.nil)
    (Spec.PartsSame.refl _)

/-- [T] multi-line-string with one member re-written (direction / closed start). -/
theorem relateSpec_multiLineString_member {c c' : List Pt} (h : Spec.CurveSame c c') (pre post : List (List Pt))
    (g : Geom) :
    relateSpec (.multiLineString (pre ++ c :: post)) g = relateSpec (.multiLineString (pre ++ c' :: post)) g :=
  relateSpec_same_parts
    (Spec.PartsSame.members [] (Spec.forall₂_curveSame_at h pre post) List.Forall₂.nil)
    (Spec.PartsSame.refl _)

example (l0 c : List Pt) (g : Geom) :
    relateSpec (.multiLineString [l0, c]) g = relateSpec (.multiLineString [l0, c.reverse]) g :=
  relateSpec_multiLineString_member (Spec.CurveSame.reverse c) [l0] [] g

/-- the same in the second position -/
example (ext : List Pt) (g : Geom) :
    relateSpec g (.polygon ⟨ext, []⟩) = relateSpec g (.polygon ⟨ext.reverse, []⟩) :=
  relateSpec_same_parts (Spec.PartsSame.refl _)
    (Spec.PartsSame.members [] List.Forall₂.nil
      (List.Forall₂.cons (Spec.PolySame.ext_reverse ext []) List.Forall₂.nil))

/-- [T] geometry collection with its members in another order: same point location, same matrix. -/
theorem relateSpec_collection_perm {gs gs' : List Geom} (h : gs.Perm gs') (g : Geom) :
    relateSpec (.collection gs) g = relateSpec (.collection gs') g :=
  relateSpec_congr_parts (Spec.PartsEquiv.collection_perm h) (Spec.PartsEquiv.refl _)

theorem locate_collection_perm {gs gs' : List Geom} (h : gs.Perm gs') (p : Pt) :
    locate (.collection gs) p = locate (.collection gs') p :=
  (Spec.PartsEquiv.collection_perm h).loc p

example (g1 g2 g : Geom) : relateSpec (.collection [g1, g2]) g = relateSpec (.collection [g2, g1]) g :=
  relateSpec_collection_perm (List.Perm.swap _ _ _) g

/-! ## 4'. Disjoint-envelope shortcut, full equality: IE / BE / EI / EB are the dimensions of `HasDimensions` -/

/-- [T] the midpoint of an elementary sub-segment is never a vertex of the arrangement (the vertices on
a segment are sorted by distance from its start), so every atom is a vertex atom or sits at a
non-vertex point of a non-degenerate segment. -/
theorem mem_atomsOf_cases {pa pb : Parts} {x : Atom} (hx : x ∈ Spec.atomsOf pa pb) :
    (∃ v ∈ Spec.vertsOf pa pb, x = ⟨.zero, locateParts pa v, locateParts pb v⟩) ∨
    (∃ s ∈ pa.allSegs ++ pb.allSegs, s.1 ≠ s.2 ∧ ∃ m, Geo.Proofs.Kernel.SegMem m s.1 s.2 ∧ m ∉ Spec.vertsOf pa pb ∧
      Spec.IsAtomAt pa pb s.1 s.2 m x) := Spec.mem_atomsOf_cases hx

/-- [T] conversely every non-degenerate segment carries the three atoms (midpoint, two face samples)
of a non-vertex point. -/
theorem exists_atoms_of_seg {pa pb : Parts} {s : Pt × Pt} (hs : s ∈ pa.allSegs ++ pb.allSegs) (hne : s.1 ≠ s.2) :
    ∃ m, Geo.Proofs.Kernel.SegMem m s.1 s.2 ∧ m ∉ Spec.vertsOf pa pb ∧
      ∀ x, Spec.IsAtomAt pa pb s.1 s.2 m x → x ∈ Spec.atomsOf pa pb := Spec.exists_atoms_of_seg hs hne

/-- [T] for separated operands the cell `(X, Exterior)` is the largest dimension of an atom located
`X` w.r.t. the first operand (`Spec.RowMax`). -/
theorem cell_of_rowMax {pa pb : Parts} (h : Spec.Sep pa pb) (ca : Spec.ClosedExt pa) (cb : Spec.ClosedExt pb)
    {X : Pos} (hX : X ≠ .outside) {d : Dim} (hm : Spec.RowMax pa pb X d) :
    (relateParts pa pb).get X .outside = d := Spec.cell_of_rowMax h ca cb hX hm

/-- [T] **disjoint-envelope shortcut, full equality on parts**: for separated operands the matrix of
the specification is `compute_disjoint` of the row maxima Interior / Boundary of the two operands. -/
theorem relateParts_disjoint_eq {pa pb : Parts} (h : Spec.Sep pa pb) (ca : Spec.ClosedExt pa) (cb : Spec.ClosedExt pb)
    {da ba db bb : Dim}
    (hia : Spec.RowMax pa pb .inside da) (hba : Spec.RowMax pa pb .onBoundary ba)
    (hib : Spec.RowMax pb pa .inside db) (hbb : Spec.RowMax pb pa .onBoundary bb)
    (hda : ba ≠ .empty → da ≠ .empty) (hdb : bb ≠ .empty → db ≠ .empty) :
    relateParts pa pb = computeDisjoint da ba db bb :=
  Spec.relateParts_disjoint_eq h ca cb hia hba hib hbb hda hdb

/-- [T] **`relate` of operands with separated envelopes = `compute_disjoint` of what `HasDimensions`
reports**, for operands whose `dims` / `boundaryDims` are the row maxima of the specification
(`Spec.DimsSpec`, proved per type below).
Full statement (no `DimsSpec` hypotheses): false as it stands — see `dimsSpec_*_witness` (one-coordinate
LineString, degenerate Rect) — and open for polygons (needs S2: a valid polygon has an interior face
sample) and for collections (`boundary_dimensions` of a collection is the maximum over the members,
the specification applies the mod-2 rule across all members). -/
theorem relateSpec_disjoint_eq_partial {a b : Geom} (h : Spec.Sep (parts a) (parts b))
    (ca : Spec.ClosedExt (parts a)) (cb : Spec.ClosedExt (parts b)) (ha : Spec.DimsSpec a) (hb : Spec.DimsSpec b) :
    relateSpec a b = computeDisjoint (dims a) (boundaryDims a) (dims b) (boundaryDims b) :=
  Spec.relateSpec_disjoint_of_dimsSpec h ca cb ha hb

/-- [T] one operand at a time: the cells IE and BE are `dims a` and `boundaryDims a`. -/
theorem relateSpec_sep_row {a b : Geom} (h : Spec.Sep (parts a) (parts b))
    (ca : Spec.ClosedExt (parts a)) (cb : Spec.ClosedExt (parts b)) (ha : Spec.DimsSpec a) :
    (relateSpec a b).ie = dims a ∧ (relateSpec a b).be = boundaryDims a :=
  ⟨Spec.cell_of_rowMax h ca cb (by decide) (ha.inside _), Spec.cell_of_rowMax h ca cb (by decide) (ha.boundary _)⟩

/-- [T] … and EI, EB are `dims b` and `boundaryDims b`. -/
theorem relateSpec_sep_col {a b : Geom} (h : Spec.Sep (parts a) (parts b))
    (ca : Spec.ClosedExt (parts a)) (cb : Spec.ClosedExt (parts b)) (hb : Spec.DimsSpec b) :
    (relateSpec a b).ei = dims b ∧ (relateSpec a b).eb = boundaryDims b := by
  have ht : relateSpec a b = (relateSpec b a).transpose := relateSpec_transpose b a
  have := relateSpec_sep_row h.symm cb ca hb
  rw [ht]
  generalize relateSpec b a = m at this ⊢
  cases m
  exact this

/-- [T] per type: `HasDimensions` = row maxima of the specification. Point, MultiPoint. -/
theorem dimsSpec_point (p : Pt) : Spec.DimsSpec (.point p) := Spec.dimsSpec_point p

theorem dimsSpec_multiPoint (ps : List Pt) : Spec.DimsSpec (.multiPoint ps) := Spec.dimsSpec_multiPoint ps

/-- [T] Line (degenerate or not). -/
theorem dimsSpec_line (a b : Pt) : Spec.DimsSpec (.line a b) := Spec.dimsSpec_line a b

/-- [T] LineString, open or closed, constant or not, any number of coordinates except one. -/
theorem dimsSpec_lineString (cs : List Pt) (hlen : cs.length ≠ 1) : Spec.DimsSpec (.lineString cs) :=
  Spec.dimsSpec_lineString cs hlen

/-- the excluded class: a one-coordinate LineString is `ZeroDimensional` for `HasDimensions` but has an
empty interior in the specification (no segment, so no point is located on it) -/
theorem dimsSpec_lineString_witness : dims (.lineString [⟨0, 0⟩]) = .zero := by decide +kernel

theorem dimsSpec_lineString_witness_ie : (relateSpec (.lineString [⟨0, 0⟩]) (.point ⟨5, 5⟩)).ie = .empty := by
  decide +kernel

/-- [T] MultiLineString without one-coordinate members: the boundary dimension by the mod-2 rule across
the members (the fixed `boundary_dimensions`) is the row maximum Boundary of the specification. -/
theorem dimsSpec_multiLineString (ls : List (List Pt)) (hlen : ∀ l ∈ ls, l.length ≠ 1) :
    Spec.DimsSpec (.multiLineString ls) := Spec.dimsSpec_multiLineString ls hlen

/-- [T] the number of collected open-member end points equal to `e` (what the fixed
`MultiLineString::boundary_dimensions` counts) is the end point count of the specification. -/
theorem count_mlsEnds (e : Pt) (ls : List (List Pt)) :
    ((Spec.mlsEnds ls).filter (· == e)).length = endpointCount e ls := by
  rw [Spec.count_mlsEnds, Spec.endpointCount_eq_esum]

/-- two members sharing an end point: boundary `0` (the two outer ends); a closed path made of two
members: boundary `F` -/
example : boundaryDims (.multiLineString [[⟨0, 0⟩, ⟨1, 0⟩], [⟨1, 0⟩, ⟨1, 1⟩]]) = .zero := by decide +kernel
example : boundaryDims (.multiLineString [[⟨0, 0⟩, ⟨1, 0⟩], [⟨1, 0⟩, ⟨0, 0⟩]]) = .empty := by decide +kernel

/-- [T] Rect of positive width and height (interior face sample computed: the left sample beside the
first edge has winding number 1). -/
theorem dimsSpec_rect (mn mx : Pt) (hx : mn.x < mx.x) (hy : mn.y < mx.y) : Spec.DimsSpec (.rect mn mx) :=
  Spec.dimsSpec_rect mn mx hx hy

theorem rect_interior_sample (mn mx : Pt) (hx : mn.x < mx.x) (hy : mn.y < mx.y) :
    Spec.HasInteriorSample (parts (.rect mn mx)) := Spec.rect_interior_sample mn mx hx hy

/-- the excluded class: a degenerate Rect is `ZeroDimensional` with empty boundary for `HasDimensions`;
in the specification the point is a boundary point of the (degenerate) ring -/
theorem dimsSpec_rect_witness :
    dims (.rect ⟨0, 0⟩ ⟨0, 0⟩) = .zero ∧ boundaryDims (.rect ⟨0, 0⟩ ⟨0, 0⟩) = .empty ∧
    (relateSpec (.rect ⟨0, 0⟩ ⟨0, 0⟩) (.point ⟨5, 5⟩)).ie = .empty ∧
    (relateSpec (.rect ⟨0, 0⟩ ⟨0, 0⟩) (.point ⟨5, 5⟩)).be = .zero :=
  ⟨by decide +kernel, by decide +kernel, by decide +kernel, by decide +kernel⟩

/-- [T] Triangle with non-collinear vertices (interior face sample computed: the sample beside the first
edge on the side of the third vertex has winding number ±1, whatever the orientation and position). -/
theorem dimsSpec_triangle (a b c : Pt) (hD : cross a b c ≠ 0) : Spec.DimsSpec (.triangle a b c) :=
  Spec.dimsSpec_triangle a b c hD

theorem triangle_interior_sample (a b c : Pt) (hD : cross a b c ≠ 0) :
    Spec.HasInteriorSample (parts (.triangle a b c)) := Spec.triangle_interior_sample a b c hD

example : Spec.DimsSpec (.triangle ⟨0, 0⟩ ⟨4, 1⟩ ⟨1, 3⟩) := dimsSpec_triangle _ _ _ (by norm_num [cross])

/-- the excluded class: a collinear Triangle is `OneDimensional` for `HasDimensions`; in the specification
its (degenerate) ring is all boundary -/
theorem dimsSpec_triangle_witness : dims (.triangle ⟨0, 0⟩ ⟨1, 0⟩ ⟨2, 0⟩) = .one := by decide +kernel

theorem dimsSpec_triangle_witness_ie :
    (relateSpec (.triangle ⟨0, 0⟩ ⟨1, 0⟩ ⟨2, 0⟩) (.point ⟨5, 5⟩)).ie = .empty := by decide +kernel

/-- [T] Polygon of dimension two, given an interior face sample.
Full statement: `DimsSpec (.polygon q)` for every valid polygon — needs S2 (a valid polygon has a face
sample of the arrangement in its interior); proved since: `polygon_interior_sample_valid`,
`dimsSpec_dom_noCollection_partial` (section Impl3 below). -/
theorem dimsSpec_polygon_partial (q : Poly) (hd : polyDims q = .two)
    (hi : Spec.HasInteriorSample (parts (.polygon q))) : Spec.DimsSpec (.polygon q) :=
  Spec.dimsSpec_polygon_partial q hd hi

/-- [T] MultiPolygon of dimension two, given an interior face sample and a boundary midpoint (a ring
midpoint of one member could lie strictly inside another member of an invalid MultiPolygon). -/
theorem dimsSpec_multiPolygon_partial (ps : List Poly) (hd : mpolyDims ps = .two)
    (hi : Spec.HasInteriorSample (parts (.multiPolygon ps))) (hb : Spec.HasBoundarySample (parts (.multiPolygon ps))) :
    Spec.DimsSpec (.multiPolygon ps) := Spec.dimsSpec_multiPolygon_partial ps hd hi hb

/-- a segment left of a rectangle: the whole matrix is `compute_disjoint` of the dimensions -/
example : relateSpec (.line ⟨0, 0⟩ ⟨1, 1⟩) (.rect ⟨5, 0⟩ ⟨7, 2⟩) =
    computeDisjoint (dims (.line ⟨0, 0⟩ ⟨1, 1⟩)) (boundaryDims (.line ⟨0, 0⟩ ⟨1, 1⟩))
      (dims (.rect ⟨5, 0⟩ ⟨7, 2⟩)) (boundaryDims (.rect ⟨5, 0⟩ ⟨7, 2⟩)) := by
  apply relateSpec_disjoint_eq_partial _ _ _ (dimsSpec_line _ _) (dimsSpec_rect _ _ (by norm_num) (by norm_num))
  · left
    intro a ha b hb
    simp [Spec.allCoords, Poly.rings, parts, SM.rectToPolygon] at ha hb
    rcases ha with rfl | rfl <;> rcases hb with rfl | rfl | rfl | rfl | rfl <;> norm_num
  · intro q hq; simp [parts] at hq
  · intro q hq
    simp [parts] at hq
    subst hq
    rfl

example : computeDisjoint (dims (.line ⟨0, 0⟩ ⟨1, 1⟩)) (boundaryDims (.line ⟨0, 0⟩ ⟨1, 1⟩))
      (dims (.rect ⟨5, 0⟩ ⟨7, 2⟩)) (boundaryDims (.rect ⟨5, 0⟩ ⟨7, 2⟩)) = ⟨.empty, .empty, .one, .empty, .empty, .zero, .two, .one, .two⟩ := by
  decide +kernel

/-! ## 6. Spec adequacy (S1), restricted forms: the full matrix against a Point -/

/-- [T] a cell other than EE is the largest dimension of an atom located there (`Spec.CellMax`). -/
theorem cell_of_cellMax {pa pb : Parts} {X Y : Pos} {d : Dim} (hne : ¬ (X = .outside ∧ Y = .outside))
    (hm : Spec.CellMax pa pb X Y d) : (relateParts pa pb).get X Y = d := Spec.cell_of_cellMax hne hm

/-- [T] **rows Interior and Boundary of `Point c` against any geometry**: the cell `(Interior, Y)` is `0`
if `c` is located `Y` w.r.t. the other operand and `F` otherwise; the row Boundary is `F` — the true
DE-9IM rows of a point (the point set `{c}` meets exactly one of interior / boundary / exterior of `B`,
in a set of dimension 0). Lifts `isWithin_relate_point` (C02) from mask level to cell level. -/
theorem relateSpec_point_row (c : Pt) (b : Geom) (X Y : Pos) (hX : X ≠ .outside) :
    (relateSpec (.point c) b).get X Y = if X = .inside ∧ locate b c = Y then .zero else .empty :=
  Spec.relate_point_left c (parts b) X Y hX

/-- [T] **columns Interior and Boundary of any geometry against `Point c`** (lifts
`isContains_relate_point` / `isIntersects_relate_point`). -/
theorem relateSpec_point_col (a : Geom) (c : Pt) (X Y : Pos) (hY : Y ≠ .outside) :
    (relateSpec a (.point c)).get X Y = if Y = .inside ∧ locate a c = X then .zero else .empty :=
  Spec.relate_point_right (parts a) c X Y hY

example : (relateSpec (.point ⟨1, 1⟩) (.line ⟨0, 0⟩ ⟨2, 2⟩)).get .inside .inside = .zero := by
  rw [relateSpec_point_row _ _ _ _ (by decide)]
  have : locate (.line ⟨0, 0⟩ ⟨2, 2⟩) ⟨1, 1⟩ = .inside := by decide +kernel
  simp [this]

/-- [T] **Point × Point, the full matrix**: `0FFFFFFF2` for equal points, `FF0FFF0F2` otherwise. -/
theorem relateSpec_point_point (c d : Pt) :
    relateSpec (.point c) (.point d) =
      if c = d then ⟨.zero, .empty, .empty, .empty, .empty, .empty, .empty, .empty, .two⟩
      else ⟨.empty, .empty, .zero, .empty, .empty, .empty, .zero, .empty, .two⟩ :=
  Spec.relateParts_point_point c d

example : (relateSpec (.point ⟨1, 2⟩) (.point ⟨1, 2⟩)).str = "0FFFFFFF2" := by
  rw [relateSpec_point_point, if_pos rfl]; decide
example : (relateSpec (.point ⟨1, 2⟩) (.point ⟨3, 2⟩)).str = "FF0FFF0F2" := by
  rw [relateSpec_point_point, if_neg (by simp)]; decide

/-- [T] **Line × Point, the full matrix** (non-degenerate Line): `IE = 1`, `BE = 0` always; the point
puts a `0` into II, BI or EI according to its location (`0F1FF0FF2`, `FF10F0FF2`, `FF1FF00F2`). -/
theorem relateSpec_line_point (a b c : Pt) (hab : a ≠ b) :
    relateSpec (.line a b) (.point c) =
      match locate (.line a b) c with
      | .inside => ⟨.zero, .empty, .one, .empty, .empty, .zero, .empty, .empty, .two⟩
      | .onBoundary => ⟨.empty, .empty, .one, .zero, .empty, .zero, .empty, .empty, .two⟩
      | .outside => ⟨.empty, .empty, .one, .empty, .empty, .zero, .zero, .empty, .two⟩ :=
  Spec.relateParts_line_point a b c hab

/-- [T] **Point × Line, the full matrix**: the transpose (`0FFFFF102`, `F0FFFF102`, `FF0FFF102`). -/
theorem relateSpec_point_line (a b c : Pt) (hab : a ≠ b) :
    relateSpec (.point c) (.line a b) =
      match locate (.line a b) c with
      | .inside => ⟨.zero, .empty, .empty, .empty, .empty, .empty, .one, .zero, .two⟩
      | .onBoundary => ⟨.empty, .zero, .empty, .empty, .empty, .empty, .one, .zero, .two⟩
      | .outside => ⟨.empty, .empty, .zero, .empty, .empty, .empty, .one, .zero, .two⟩ := by
  rw [relateSpec_transpose (.line a b) (.point c), relateSpec_line_point a b c hab]
  cases locate (.line a b) c <;> rfl

example : (relateSpec (.point ⟨0, 0⟩) (.line ⟨0, 0⟩ ⟨2, 2⟩)).str = "F0FFFF102" := by
  rw [relateSpec_point_line _ _ _ (by simp)]
  have : locate (.line ⟨0, 0⟩ ⟨2, 2⟩) ⟨0, 0⟩ = .onBoundary := by decide +kernel
  rw [this]; decide

/-! ## 7. Spec adequacy (S1), restricted form: two segments against the point-set definition -/

/-- [T] point location of a non-degenerate Line is the point-set one: interior = on the segment and not
an end point. -/
theorem locate_line_inside (a b p : Pt) (hab : a ≠ b) :
    locate (.line a b) p = .inside ↔ Spec.SegInt p a b := Spec.locate_line_inside a b p hab

/-- [T] between two different arrangement vertices on a segment there is an elementary sub-segment
whose midpoint lies between them, is not a vertex and carries atoms (the arrangement atoms meet every
open piece of a segment: the one-dimensional part of S1). -/
theorem exists_atom_between (pa pb : Parts) {verts : List Pt} {a b x y : Pt} (hab : a ≠ b)
    (hxv : x ∈ verts) (hyv : y ∈ verts) (hx : Geo.Proofs.Kernel.SegMem x a b) (hy : Geo.Proofs.Kernel.SegMem y a b)
    (hxy : x ≠ y) :
    ∃ m, Geo.Proofs.Kernel.SegMem m x y ∧ Geo.Proofs.Kernel.SegMem m a b ∧ m ∉ verts ∧
      ∀ z, Spec.IsAtomAt pa pb a b m z → z ∈ segAtoms pa pb verts (a, b) :=
  Spec.exists_atom_between pa pb hab hxv hyv hx hy hxy

/-- [T] **Line × Line: II ≠ F iff the open segments share a point** (`cell_complete` for the cell II of
two segments: single intersection point = arrangement vertex by `li_single_exact`; collinear overlap
= a sub-segment midpoint inside the overlap by `li_collinear_exact`). -/
theorem relateSpec_line_line_ii (a b c d : Pt) (hab : a ≠ b) (hcd : c ≠ d) :
    (relateSpec (.line a b) (.line c d)).ii ≠ .empty ↔ ∃ p, Spec.SegInt p a b ∧ Spec.SegInt p c d :=
  Spec.line_line_ii_ne_empty a b c d hab hcd

/-- [T] **Line × Line: II = 1 iff the segments share more than one point** (they overlap). -/
theorem relateSpec_line_line_ii_one (a b c d : Pt) (hab : a ≠ b) (hcd : c ≠ d) :
    (relateSpec (.line a b) (.line c d)).ii = .one ↔
      ∃ p q, p ≠ q ∧ Geo.Proofs.Kernel.SegMem p a b ∧ Geo.Proofs.Kernel.SegMem p c d ∧
        Geo.Proofs.Kernel.SegMem q a b ∧ Geo.Proofs.Kernel.SegMem q c d :=
  Spec.line_line_ii_one a b c d hab hcd

/-- two crossing diagonals: II ≠ F; two overlapping collinear segments: II = 1 -/
example : (relateSpec (.line ⟨0, 0⟩ ⟨2, 2⟩) (.line ⟨0, 2⟩ ⟨2, 0⟩)).ii ≠ .empty := by
  rw [relateSpec_line_line_ii _ _ _ _ (by simp) (by simp)]
  refine ⟨⟨1, 1⟩, ⟨⟨1/2, by norm_num, by norm_num, by norm_num, by norm_num⟩, by simp, by simp⟩,
    ⟨⟨1/2, by norm_num, by norm_num, by norm_num, by norm_num⟩, by simp, by simp⟩⟩

example : (relateSpec (.line ⟨0, 0⟩ ⟨2, 0⟩) (.line ⟨1, 0⟩ ⟨3, 0⟩)).ii = .one := by
  rw [relateSpec_line_line_ii_one _ _ _ _ (by simp) (by simp)]
  refine ⟨⟨1, 0⟩, ⟨2, 0⟩, by simp, ⟨1/2, by norm_num, by norm_num, by norm_num, by norm_num⟩,
    ⟨0, by norm_num, by norm_num, by norm_num, by norm_num⟩,
    ⟨1, by norm_num, by norm_num, by norm_num, by norm_num⟩,
    ⟨1/2, by norm_num, by norm_num, by norm_num, by norm_num⟩⟩

/-! ### TRAN: `HasDimensions`, clause by clause, is the term read off the Rust bodies -/

/-- [T] (translator tie) the `HasDimensions` impl bodies of dimensions.rs regenerated on this run — `dimensions` and
`boundary_dimensions` of Line, LineString (first coordinate, `any` over the rest; `is_closed` read off geo-types),
Polygon (the three `let Some(..) = coords.next()/find(..) else { return .. }` steps on the exterior iterator), Rect,
Triangle, `dimensions` of MultiLineString (loop with early `return OneDimensional`) and MultiPolygon (loop with the
`TwoDimensional` short cut and `max`; also its `boundary_dimensions`), MultiPoint, GeometryCollection (`dimensions` and
`boundary_dimensions`: the same loops, the recursive calls through the `Geometry` enum being `dims` / `boundaryDims`), `is_empty` of LineString / Polygon /
MultiPoint / MultiLineString / MultiPolygon — equal the clauses of the model's `dims`, `boundaryDims`, `isEmptyG`. -/
theorem hasDimensions_eq_source :
    (∀ cs, isClosedLS cs = Gen.lineStringIsClosed cs) ∧
    (∀ a b, dims (.line a b) = Gen.lineDimensions a b) ∧
    (∀ a b, boundaryDims (.line a b) = Gen.lineBoundaryDimensions a b) ∧
    (∀ cs, dims (.lineString cs) = Gen.lineStringDimensions cs) ∧
    (∀ cs, boundaryDims (.lineString cs) = Gen.lineStringBoundaryDimensions cs) ∧
    (∀ q, dims (.polygon q) = Gen.polygonDimensions q) ∧
    (∀ q, boundaryDims (.polygon q) = Gen.polygonBoundaryDimensions q) ∧
    (∀ ls, dims (.multiLineString ls) = Gen.multiLineStringDimensions ls) ∧
    (∀ ps, dims (.multiPolygon ps) = Gen.multiPolygonDimensions ps) ∧
    (∀ mn mx, dims (.rect mn mx) = Gen.rectDimensions mn mx) ∧
    (∀ mn mx, boundaryDims (.rect mn mx) = Gen.rectBoundaryDimensions mn mx) ∧
    (∀ a b c, dims (.triangle a b c) = Gen.triangleDimensions a b c) ∧
    (∀ a b c, boundaryDims (.triangle a b c) = Gen.triangleBoundaryDimensions a b c) ∧
    (∀ cs, isEmptyG (.lineString cs) = Gen.lineStringIsEmpty cs) ∧
    (∀ q, isEmptyG (.polygon q) = Gen.polygonIsEmpty q) ∧
    (∀ ps, boundaryDims (.multiPolygon ps) = Gen.multiPolygonBoundaryDimensions ps) ∧
    (∀ ps, dims (.multiPoint ps) = Gen.multiPointDimensions ps ∧ isEmptyG (.multiPoint ps) = Gen.multiPointIsEmpty ps) ∧
    (∀ ls, isEmptyG (.multiLineString ls) = Gen.multiLineStringIsEmpty ls) ∧
    (∀ ps, isEmptyG (.multiPolygon ps) = Gen.multiPolygonIsEmpty ps) ∧
    (∀ gs, dims (.collection gs) = Gen.geometryCollectionDimensions dims gs) ∧
    (∀ gs, boundaryDims (.collection gs) = Gen.geometryCollectionBoundaryDimensions boundaryDims gs) := by
  refine ⟨Geo.Proofs.TRANDims.isClosedLS_eq, Geo.Proofs.TRANDims.lineDims_eq, Geo.Proofs.TRANDims.lineBoundaryDims_eq,
    ?_, ?_, ?_, ?_, ?_, ?_, ?_, ?_, ?_, ?_, Geo.Proofs.TRANDims.isEmpty_eq.1, Geo.Proofs.TRANDims.isEmpty_eq.2,
    fun ps => by simp only [boundaryDims]; exact Geo.Proofs.TRANDims.mpolyBoundaryDims_eq ps,
    Geo.Proofs.TRANDims.multiPoint_eq, Geo.Proofs.TRANDims.multiIsEmpty_eq.1, Geo.Proofs.TRANDims.multiIsEmpty_eq.2,
    Geo.Proofs.TRANDims.gcDims_eq, Geo.Proofs.TRANDims.gcBoundaryDims_eq⟩
  · intro cs; simp only [dims]; exact Geo.Proofs.TRANDims.lsDims_eq cs
  · intro cs; simp only [boundaryDims]; exact Geo.Proofs.TRANDims.lsBoundaryDims_eq cs
  · intro q; simp only [dims]; exact Geo.Proofs.TRANDims.polyDims_eq q
  · intro q; simp only [boundaryDims]; exact Geo.Proofs.TRANDims.polyBoundaryDims_eq q
  · intro ls; simp only [dims]; exact Geo.Proofs.TRANDims.mlsDims_eq ls
  · intro ps; simp only [dims]; exact Geo.Proofs.TRANDims.mpolyDims_eq ps
  · intro mn mx; simp only [dims]; exact Geo.Proofs.TRANDims.rectDims_eq mn mx
  · intro mn mx; simp only [boundaryDims]; exact Geo.Proofs.TRANDims.rectBoundaryDims_eq mn mx
  · intro a b c; simp only [dims]; exact Geo.Proofs.TRANDims.triDims_eq a b c
  · intro a b c; simp only [boundaryDims]; exact Geo.Proofs.TRANDims.triBoundaryDims_eq a b c

/-! ## The model of the implementation (`relateImpl`, GeoModel/RelateImpl*.lean)

`RI.relateImplWith ar a b : Option IM` mirrors `RelateOperation::compute_intersection_matrix`
statement by statement (`none` = the code panics); `ar : RI.Arith` is the float arithmetic the
algorithm depends on (crossing point of a proper intersection, coordinate subtraction).
`RI.relateImpl? = RI.relateImplWith RI.Arith.exact`, `relateImpl a b` is its value with
`empty_disjoint()` for a panic. Theorems stated for every `ar` hold in particular for the exact
model and for the arithmetic of the correspondence check (`C01.impl`). -/

section Impl
open Geo.RI Geo.GG Geo.Proofs.RELM

/-- [T] `set_at_least` never lowers a cell (cell-wise order by `Dimensions` rank). -/
theorem impl_setAtLeast_monotone (m : IM) (a b : Pos) (d : Dim) : IMLe m (m.setAtLeast a b d) :=
  le_setAtLeast m a b d

/-- [T] nor do `Edge::update_intersection_matrix`, the node loop of
`RelateOperation::update_intersection_matrix` and `compute_proper_intersection_im`. -/
theorem impl_edgeUpdate_monotone (l : Label) (m : IM) : IMLe m (edgeUpdateIM l m) := le_edgeUpdateIM l m

theorem impl_updateNodes_monotone (a b : Geom) (ns : List RNode) (m m' : IM)
    (h : updateNodes a b ns m = some m') : IMLe m m' := le_updateNodes a b ns m m' h

theorem impl_properIM_monotone (da db : Dim) (p q : Bool) (m : IM) : IMLe m (properIM da db p q m) :=
  le_properIM da db p q m

/-- [T] **matrix cells only ever increase**: the result of the graph path dominates the lower bound
set by `compute_proper_intersection_im` (hence `empty_disjoint()`), for all operands, any arithmetic. -/
theorem relateImpl_ge_proper (ar : Arith) (a b : Geom) {m : IM} (h : relateGraph ar a b = some m) :
    IMLe (properIM (dims a) (dims b) (nodedGraphs ar a b).2.2.1 (nodedGraphs ar a b).2.2.2 emptyDisjoint) m :=
  relateGraph_ge ar a b h

/-- [T] **EE = 2** for every pair of operands, both paths, any arithmetic. -/
theorem relateImplWith_ee (ar : Arith) (a b : Geom) {m : IM} (h : relateImplWith ar a b = some m) :
    m.ee = .two := Geo.Proofs.RELM.relateImplWith_ee ar a b h

/-- [T] … and for the total function (`empty_disjoint()` where the code panics). -/
theorem relateImpl_ee (a b : Geom) : (relateImpl a b).ee = .two := by
  unfold relateImpl relateImpl?
  cases h : relateImplWith Arith.exact a b with
  | none => rfl
  | some m => exact relateImplWith_ee _ a b h

/-- [T] **the result as a cell-wise maximum**: on the graph path the matrix is the fold of
`set_at_least` over the contributions (`graphAtoms`: proper-intersection shortcut, isolated edges,
nodes, edge-end bundles) starting from `empty_disjoint()` — the same shape as the specification's
accumulation loop, so a cell is at least `d` iff some contribution located there has dimension ≥ `d`. -/
theorem relateImpl_eq_fold (ar : Arith) (a b : Geom) (ga gb : RGraph) :
    relateGraphs ar a b ga gb = (graphAtoms ar a b ga gb).map (Spec.foldFrom emptyDisjoint) :=
  relateGraphs_eq_fold ar a b ga gb

theorem relateImpl_cell (ar : Arith) (a b : Geom) (ga gb : RGraph) {m : IM} {atoms : List Atom}
    (ha : graphAtoms ar a b ga gb = some atoms) (hm : relateGraphs ar a b ga gb = some m) (x y : Pos) (d : Dim) :
    d.rank ≤ (m.get x y).rank ↔
      d.rank ≤ (emptyDisjoint.get x y).rank ∨ ∃ t ∈ atoms, t.posA = x ∧ t.posB = y ∧ d.rank ≤ t.dim.rank :=
  relateGraphs_get ar a b ga gb ha hm x y d

/-- [T] **disjoint-envelope shortcut of the implementation**: operands whose bounding rectangles do
not intersect (or one of which has none) get `compute_disjoint` of their `HasDimensions` answers. -/
theorem relateImpl_disjoint_shortcut (ar : Arith) (a b : Geom) (h : envelopesMeet a b = false) :
    relateImplWith ar a b = some (computeDisjoint (dims a) (boundaryDims a) (dims b) (boundaryDims b)) :=
  relateImplWith_of_disjoint ar a b h

/-- [T] **the shortcut is sound**: for such operands the model of the implementation returns the
specification's matrix.
Full statement (no hypotheses beyond `envelopesMeet a b = false` and validity): open for polygons with
holes — needs "hole coordinates lie in the shell's bounding box", here the hypothesis `CoordsInBox`
(proved for all geometries without hole coordinates: `relateImpl_disjoint_eq_spec_noInteriors`) — and
inherits the `DimsSpec` hypotheses of `relateSpec_disjoint_eq_partial` (proved per type above). -/
theorem relateImpl_disjoint_eq_spec_partial (ar : Arith) {a b : Geom} {ra rb : Pt × Pt}
    (ha : boundingRect a = some ra) (hb : boundingRect b = some rb) (h : envelopesMeet a b = false)
    (ia : CoordsInBox a) (ib : CoordsInBox b)
    (ca : Spec.ClosedExt (parts a)) (cb : Spec.ClosedExt (parts b)) (da : Spec.DimsSpec a) (db : Spec.DimsSpec b) :
    relateImplWith ar a b = some (relateSpec a b) :=
  relateImplWith_disjoint_eq_spec ar ha hb h ia ib ca cb da db

/-- [T] … for all operands without hole coordinates (every type but polygons with holes), empty ones
included. -/
theorem relateImpl_disjoint_eq_spec_noInteriors (ar : Arith) {a b : Geom} (h : envelopesMeet a b = false)
    (hva : Geo.Proofs.C19.rectsValid a = true) (hna : Geo.Proofs.C19.noInteriors a = true)
    (hvb : Geo.Proofs.C19.rectsValid b = true) (hnb : Geo.Proofs.C19.noInteriors b = true)
    (ca : Spec.ClosedExt (parts a)) (cb : Spec.ClosedExt (parts b)) (da : Spec.DimsSpec a) (db : Spec.DimsSpec b) :
    relateImplWith ar a b = some (relateSpec a b) :=
  relateImplWith_disjoint_eq_spec_noInteriors ar h hva hna hvb hnb ca cb da db

/-- a segment and a rectangle with disjoint envelopes -/
example : relateImpl? (.line ⟨0, 0⟩ ⟨1, 1⟩) (.rect ⟨5, 0⟩ ⟨7, 2⟩) =
    some (relateSpec (.line ⟨0, 0⟩ ⟨1, 1⟩) (.rect ⟨5, 0⟩ ⟨7, 2⟩)) := by
  apply relateImpl_disjoint_eq_spec_noInteriors _ (by decide +kernel) rfl rfl (by decide +kernel) rfl
  · intro q hq; simp [parts] at hq
  · intro q hq
    simp only [parts, List.mem_singleton] at hq
    subst hq; rfl
  · exact dimsSpec_line _ _
  · exact dimsSpec_rect _ _ (by norm_num) (by norm_num)

/-- [T] **label-swap invariance (C17)**: the graph a prepared geometry hands out for operand position
`idx` — `clone_for_arg_index(idx)` of the cache built and self-noded for index 0 — is the graph
`relate` builds and self-nodes for the plain operand. -/
theorem preparedGraph_eq_fresh (ar : Arith) (idx : Nat) (h : idx = 0 ∨ idx = 1) (g : Geom) :
    preparedGraph ar idx g = freshGraph ar idx g := Geo.Proofs.RELM.preparedGraph_eq_fresh ar idx h g

/-- [T] **prepared path = plain path** for the model of the implementation: whichever operands are
prepared, the matrix is the one of the plain geometries. -/
theorem relatePrepared_eq_plain (ar : Arith) (pa pb : Bool) (a b : Geom) :
    relatePreparedWith ar pa pb a b = relateImplWith ar a b := relatePreparedWith_eq ar pa pb a b

/-- [T] self-noding neither reads nor writes labels (coordinates and labels of the edges stay as
`GeometryGraph::new` made them). -/
theorem selfNoding_keeps_labels (ar : Arith) (check : Bool) (es : List REdge) :
    (selfIntersections ar check es).map toEdge = es.map toEdge := selfIntersections_toEdge ar check es

/-- [T] **Point × Point**: the model of the implementation returns the specification's matrix. -/
theorem relateImpl_point_point (ar : Arith) (p q : Pt) :
    relateImplWith ar (.point p) (.point q) = some (relateSpec (.point p) (.point q)) :=
  relateImplWith_point_point ar p q

/-- [T] **MultiPoint × MultiPoint**: the model of the implementation returns the specification's
matrix, for all coordinate lists (empty, repeated points included). -/
theorem relateImpl_multiPoint_multiPoint (ar : Arith) (ps qs : List Pt) :
    relateImplWith ar (.multiPoint ps) (.multiPoint qs) = some (relateSpec (.multiPoint ps) (.multiPoint qs)) :=
  relateImplWith_multiPoint ar ps qs

/-- [T] **Point × anything, rows Interior and Boundary** (graph path, every geometry `B`, valid or
not): the Boundary row is `F` and the Interior row has a single `0`, in the column of the position
`q` the node map records for `p` w.r.t. `B`. -/
theorem relateImpl_point_rows (ar : Arith) (p : Pt) (b : Geom) {m : IM} (h : relateGraph ar (.point p) b = some m) :
    ∃ labeled n q,
      labeledNodes (.point p) b (freshGraph ar 0 (.point p)) (freshGraph ar 1 b) = some labeled ∧
      findR p labeled = some n ∧ n.label.b = .lineOrPoint (some q) ∧
      ∀ X Y, X ≠ .outside → m.get X Y = if X = .inside ∧ q = Y then .zero else .empty :=
  point_rows ar p b h

/-- [T] … and `q = B.coordinate_position(p)` (`label_isolated_node`) whenever `p` is neither a node
of `B`'s graph nor an intersection recorded on its edges. -/
theorem relateImpl_point_rows_isolated (ar : Arith) (p : Pt) (b : Geom) {m : IM}
    (h : relateGraph ar (.point p) b = some m)
    (h1 : ∀ e ∈ (freshGraph ar 1 b).edges, p ∉ e.eis.map (·.coord))
    (h2 : p ∉ (freshGraph ar 1 b).nodes.map (·.coord)) (X Y : Pos) (hX : X ≠ .outside) :
    m.get X Y = if X = .inside ∧ coordPos b p = Y then .zero else .empty :=
  point_rows_isolated ar p b h h1 h2 X Y hX

/-- [T] **Point × anything through `coordinate_position`**: these rows are the rows of the
specification wherever `coordinate_position` is `locate` (C02: `coordPos_*_eq_locate*`).
Full statement (all `p`, all valid `B`, both paths, whole matrix): open — the case of `p` a node of
`B`'s graph needs the node labels of `B` (mod-2 rule, C17 `mod2_rule`) tied to `locate`, the Exterior row
is the correctness of `relate` on `B`'s own components. -/
theorem relateImpl_point_rows_eq_spec_partial (ar : Arith) (p : Pt) (b : Geom) {m : IM}
    (h : relateGraph ar (.point p) b = some m)
    (h1 : ∀ e ∈ (freshGraph ar 1 b).edges, p ∉ e.eis.map (·.coord))
    (h2 : p ∉ (freshGraph ar 1 b).nodes.map (·.coord)) (hloc : coordPos b p = locate b p)
    (X Y : Pos) (hX : X ≠ .outside) :
    m.get X Y = (relateSpec (.point p) b).get X Y := by
  rw [point_rows_isolated ar p b h h1 h2 X Y hX, relateSpec_point_row p b X Y hX, hloc]

/-- a point in the interior of a segment, on the interior of a triangle's edge -/
example : ∀ m, relateGraph Arith.exact (.point ⟨1, 1⟩) (.line ⟨0, 0⟩ ⟨2, 2⟩) = some m →
    m.get .inside .inside = (relateSpec (.point ⟨1, 1⟩) (.line ⟨0, 0⟩ ⟨2, 2⟩)).get .inside .inside := by
  intro m h
  exact relateImpl_point_rows_eq_spec_partial _ _ _ h (by decide +kernel) (by decide +kernel)
    (Geo.Proofs.Loc.coordPos_line_eq_locate _ _ _) _ _ (by decide)

/-- [T] **the transpose law does not hold of the code as written** for all inputs: a zero-length
`Line` (an invalid operand) makes an edge end of length zero, whose `EdgeEndKey` compares `Equal` to
every other key, so the bundles of the star depend on which operand's edge ends are inserted first.
Witness: a triangle and a zero-length `Line` at one of its vertices — `relate(T, L) = FF21F1FF2`,
`relate(L, T) = 10FFFF2F2` (the real code returns the same two matrices: corpus/C01.ops). -/
theorem relateImpl_transpose_fails_witness :
    relateImpl? (.polygon ⟨[⟨1, 1⟩, ⟨3, 1⟩, ⟨1, 3⟩, ⟨1, 1⟩], []⟩) (.line ⟨1, 1⟩ ⟨1, 1⟩) ≠
      (relateImpl? (.line ⟨1, 1⟩ ⟨1, 1⟩) (.polygon ⟨[⟨1, 1⟩, ⟨3, 1⟩, ⟨1, 3⟩, ⟨1, 1⟩], []⟩)).map IM.transpose := by
  decide +kernel

/-- … while it holds on the valid neighbours of the witness (the same triangle against a segment
ending at the vertex, and against the point) -/
example : relateImpl? (.polygon ⟨[⟨1, 1⟩, ⟨3, 1⟩, ⟨1, 3⟩, ⟨1, 1⟩], []⟩) (.line ⟨1, 1⟩ ⟨0, 0⟩) =
    (relateImpl? (.line ⟨1, 1⟩ ⟨0, 0⟩) (.polygon ⟨[⟨1, 1⟩, ⟨3, 1⟩, ⟨1, 3⟩, ⟨1, 1⟩], []⟩)).map IM.transpose := by
  decide +kernel

example : relateImpl? (.polygon ⟨[⟨1, 1⟩, ⟨3, 1⟩, ⟨1, 3⟩, ⟨1, 1⟩], []⟩) (.point ⟨1, 1⟩) =
    (relateImpl? (.point ⟨1, 1⟩) (.polygon ⟨[⟨1, 1⟩, ⟨3, 1⟩, ⟨1, 3⟩, ⟨1, 1⟩], []⟩)).map IM.transpose := by
  decide +kernel

/-- the model of the implementation and the specification on two overlapping squares, a line
crossing a polygon with a hole, and two line strings sharing an end point (evaluated by the kernel) -/
example : relateImpl? (.polygon ⟨[⟨0, 0⟩, ⟨2, 0⟩, ⟨2, 2⟩, ⟨0, 2⟩, ⟨0, 0⟩], []⟩)
      (.polygon ⟨[⟨1, 1⟩, ⟨3, 1⟩, ⟨3, 3⟩, ⟨1, 3⟩, ⟨1, 1⟩], []⟩) =
    some (relateSpec (.polygon ⟨[⟨0, 0⟩, ⟨2, 0⟩, ⟨2, 2⟩, ⟨0, 2⟩, ⟨0, 0⟩], []⟩)
      (.polygon ⟨[⟨1, 1⟩, ⟨3, 1⟩, ⟨3, 3⟩, ⟨1, 3⟩, ⟨1, 1⟩], []⟩)) := by
  decide +kernel

example : relateImpl? (.lineString [⟨0, 0⟩, ⟨1, 1⟩, ⟨2, 0⟩]) (.lineString [⟨2, 0⟩, ⟨2, 2⟩]) =
    some (relateSpec (.lineString [⟨0, 0⟩, ⟨1, 1⟩, ⟨2, 0⟩]) (.lineString [⟨2, 0⟩, ⟨2, 2⟩])) := by
  decide +kernel

/-- [T] `compute_edge_distance` in exact arithmetic is injective along a segment: two points of the
segment at the same edge distance are the same point (so the key of an `EdgeIntersection` — segment
index, distance — determines its coordinate: `validRec_fk`). -/
theorem impl_edgeDistance_injective {p p' a b : Pt} (hp : Geo.Proofs.Kernel.SegMem p a b)
    (hp' : Geo.Proofs.Kernel.SegMem p' a b)
    (h : edgeDistance Arith.exact p a b = edgeDistance Arith.exact p' a b) : p = p' :=
  edgeDistance_inj hp hp' h

/-- the midpoint of a segment is the only point of the segment at its edge distance -/
example : ∀ p, Geo.Proofs.Kernel.SegMem p ⟨0, 0⟩ ⟨4, 2⟩ →
    edgeDistance Arith.exact p ⟨0, 0⟩ ⟨4, 2⟩ = edgeDistance Arith.exact ⟨2, 1⟩ ⟨0, 0⟩ ⟨4, 2⟩ → p = ⟨2, 1⟩ :=
  fun _ hp h => impl_edgeDistance_injective hp ⟨1/2, by norm_num, by norm_num, by norm_num, by norm_num⟩ h

/-- [T] **the model tests all segment pairs, the code asks an R-tree — same result (self-noding)**:
starting from the edges `GeometryGraph::new` makes, visiting *any* list of candidate pairs that
contains every pair of the all-pairs loop whose envelopes intersect (any order, any repetitions —
`intersection_candidates_with_other_tree`) leaves on the edges exactly what the all-pairs loop of the
model leaves: the list of an edge is the canonical sorted list of the set of intersections found.
Exact arithmetic (with rounded crossing points two different points can share a key; the
correspondence check SKIPs those cases as `near-tie:intersection-key-collision`). -/
theorem selfNoding_order_independent (check : Bool) (es : List REdge) (hes : ∀ e ∈ es, e.eis = [])
    (cand : List (Seg × Seg))
    (hsub : ∀ pr ∈ cand, pr ∈ selfPairs check (allSegs es) (allSegs es))
    (hsup : ∀ pr ∈ selfPairs check (allSegs es) (allSegs es), pairEnvelopesMeet pr = true → pr ∈ cand) :
    selfFold es cand = selfIntersections Arith.exact check es :=
  Geo.Proofs.RELM.selfNoding_order_independent check es hes cand hsub hsup

/-- the pairs of a self-crossing line string, visited backwards -/
example : selfFold ((RGraph.new 0 (.lineString [⟨0, 0⟩, ⟨2, 2⟩, ⟨2, 0⟩, ⟨0, 2⟩])).edges)
      (selfPairs true (allSegs (RGraph.new 0 (.lineString [⟨0, 0⟩, ⟨2, 2⟩, ⟨2, 0⟩, ⟨0, 2⟩])).edges)
        (allSegs (RGraph.new 0 (.lineString [⟨0, 0⟩, ⟨2, 2⟩, ⟨2, 0⟩, ⟨0, 2⟩])).edges)).reverse =
    selfIntersections Arith.exact true (RGraph.new 0 (.lineString [⟨0, 0⟩, ⟨2, 2⟩, ⟨2, 0⟩, ⟨0, 2⟩])).edges :=
  selfNoding_order_independent true _ (new_edges_eis 0 _) _
    (fun pr h => List.mem_reverse.1 h) (fun pr h _ => List.mem_reverse.2 h)

/-- [T] after self-noding every edge carries a strictly sorted list of valid records. -/
theorem selfNoded_edges_wellFormed (idx : Nat) (g : Geom) :
    ∀ e ∈ (freshGraph Arith.exact idx g).edges, SortedEI e.eis ∧ ∀ r ∈ e.eis, ValidRec e.coords r :=
  freshGraph_wf idx g

/-- [T] **… same result (mutual phase)**: for edge lists that carry sorted lists of valid records (the
self-noded graphs: `selfNoded_edges_wellFormed`), visiting any list of candidate pairs (segment of A,
segment of B) that contains every pair with intersecting envelopes leaves both edge lists (intersection
lists and `is_isolated`), `has_proper_intersection` and `has_proper_interior_intersection` exactly as the
all-pairs loop of the model does. Exact arithmetic. -/
theorem mutualPhase_order_independent (bnodes : List Pt) (ea eb : List REdge)
    (hsa : ∀ e ∈ ea, SortedEI e.eis) (hva : ∀ e ∈ ea, ∀ r ∈ e.eis, ValidRec e.coords r)
    (hsb : ∀ e ∈ eb, SortedEI e.eis) (hvb : ∀ e ∈ eb, ∀ r ∈ e.eis, ValidRec e.coords r)
    (cand : List (Seg × Seg))
    (hsub : ∀ pr ∈ cand, pr ∈ mutualPairs (allSegs eb) (allSegs ea))
    (hsup : ∀ pr ∈ mutualPairs (allSegs eb) (allSegs ea), pairEnvelopesMeet pr = true → pr ∈ cand) :
    mutualFold bnodes ⟨ea, eb, false, false⟩ cand =
      mutualRows Arith.exact bnodes (allSegs eb) (allSegs ea) ⟨ea, eb, false, false⟩ :=
  mutual_order_independent bnodes ea eb hsa hva hsb hvb cand hsub hsup

/-- a triangle against a crossing line string, pairs visited backwards -/
example : mutualFold []
      ⟨(freshGraph Arith.exact 0 (.triangle ⟨0, 0⟩ ⟨4, 0⟩ ⟨0, 4⟩)).edges,
       (freshGraph Arith.exact 1 (.lineString [⟨1, 1⟩, ⟨5, 5⟩, ⟨4, 0⟩])).edges, false, false⟩
      (mutualPairs (allSegs (freshGraph Arith.exact 1 (.lineString [⟨1, 1⟩, ⟨5, 5⟩, ⟨4, 0⟩])).edges)
        (allSegs (freshGraph Arith.exact 0 (.triangle ⟨0, 0⟩ ⟨4, 0⟩ ⟨0, 4⟩)).edges)).reverse =
    mutualRows Arith.exact [] (allSegs (freshGraph Arith.exact 1 (.lineString [⟨1, 1⟩, ⟨5, 5⟩, ⟨4, 0⟩])).edges)
      (allSegs (freshGraph Arith.exact 0 (.triangle ⟨0, 0⟩ ⟨4, 0⟩ ⟨0, 4⟩)).edges)
      ⟨(freshGraph Arith.exact 0 (.triangle ⟨0, 0⟩ ⟨4, 0⟩ ⟨0, 4⟩)).edges,
       (freshGraph Arith.exact 1 (.lineString [⟨1, 1⟩, ⟨5, 5⟩, ⟨4, 0⟩])).edges, false, false⟩ :=
  mutualPhase_order_independent [] _ _
    (fun e he => (freshGraph_wf 0 _ e he).1) (fun e he => (freshGraph_wf 0 _ e he).2)
    (fun e he => (freshGraph_wf 1 _ e he).1) (fun e he => (freshGraph_wf 1 _ e he).2) _
    (fun pr h => List.mem_reverse.1 h) (fun pr h _ => List.mem_reverse.2 h)

/-- [T] **the transpose law of the implementation** (exact arithmetic): `relate(b, a) = relate(a, b)ᵀ`,
and the code panics for one order iff it does for the other — for *all* operands, valid or not,
whose edge ends all have a direction (`EndsNonZero`: every edge end `EdgeEndBuilder` makes has non-zero
length; it fails only when some `Line` has equal end points).
Full statement (no hypothesis): false — `relateImpl_transpose_fails_witness` (a zero-length `Line`).
Ingredients (GeoProofs/Lemmas/RELMDir, RELMStar, RELMSym1–6): `compare_direction` is a strict weak order
on the edge ends of a node, so a star does not depend on the insertion order of its edge ends; the label of
a bundle does not depend on the order of its edge ends; bundle labelling, side-label propagation, the
collapse flag and the fill act on one label slot at a time, so they commute across the slots and are
exchanged by `Label::swap_args`; `line_intersection` is symmetric (C11 `li_symm`) and the intersection
lists are canonical, so the mutual phase is symmetric; a sorted node map is determined by its look-ups. -/
theorem relateImpl_transpose_partial (a b : Geom) (hnz : EndsNonZero a b) :
    relateImpl? b a = (relateImpl? a b).map IM.transpose := Geo.Proofs.RELM.relateImpl_transpose a b hnz

/-- a self-crossing line string against a polygon with a hole sharing a vertex and an edge with it -/
example : relateImpl? (.polygon ⟨[⟨0, 0⟩, ⟨4, 0⟩, ⟨4, 4⟩, ⟨0, 4⟩, ⟨0, 0⟩], [[⟨1, 1⟩, ⟨2, 1⟩, ⟨1, 2⟩, ⟨1, 1⟩]]⟩)
      (.lineString [⟨0, 0⟩, ⟨2, 2⟩, ⟨2, 0⟩, ⟨0, 2⟩, ⟨1, 1⟩, ⟨1, 2⟩]) =
    (relateImpl? (.lineString [⟨0, 0⟩, ⟨2, 2⟩, ⟨2, 0⟩, ⟨0, 2⟩, ⟨1, 1⟩, ⟨1, 2⟩])
      (.polygon ⟨[⟨0, 0⟩, ⟨4, 0⟩, ⟨4, 4⟩, ⟨0, 4⟩, ⟨0, 0⟩], [[⟨1, 1⟩, ⟨2, 1⟩, ⟨1, 2⟩, ⟨1, 1⟩]]⟩)).map IM.transpose :=
  relateImpl_transpose_partial _ _ (endsNonZero_of_B (by decide +kernel))

/-- [T] `EdgeEndKey::compare_direction` is a strict weak order on the edge ends of one node: it is
decided by the quadrant and the sign of the cross product of the direction vectors (`DirLt` /
`DirEq`), which are transitive (`DirLt.trans`, `DirEq.trans`, `DirLt.of_eq_left/right`). -/
theorem impl_compareDirection_spec (x y : EdgeEnd) (h0 : x.c0 = y.c0) (hx : NonZero (dirOf x)) (hy : NonZero (dirOf y)) :
    (cmpDir Arith.exact x y = .lt ↔ DirLt (dirOf x) (dirOf y)) ∧
    (cmpDir Arith.exact x y = .eq ↔ DirEq (dirOf x) (dirOf y)) ∧
    (cmpDir Arith.exact x y = .gt ↔ DirLt (dirOf y) (dirOf x)) := cmpDir_spec x y h0 hx hy

theorem impl_direction_order_transitive {u v w : Pt} (hu : NonZero u) (hv : NonZero v) (hw : NonZero w)
    (h1 : DirLt u v) (h2 : DirLt v w) : DirLt u w := h1.trans hu hv hw h2

example : cmpDir Arith.exact ⟨⟨1, 1⟩, ⟨3, 2⟩, Label.emptyLine⟩ ⟨⟨1, 1⟩, ⟨2, 3⟩, Label.emptyLine⟩ = .lt :=
  (impl_compareDirection_spec ⟨⟨1, 1⟩, ⟨3, 2⟩, Label.emptyLine⟩ ⟨⟨1, 1⟩, ⟨2, 3⟩, Label.emptyLine⟩ rfl
    (Or.inl (by norm_num [dirOf])) (Or.inl (by norm_num [dirOf]))).1.2
    (Or.inr ⟨by decide +kernel, by norm_num [vcross, dirOf]⟩)

/-- [T] **the star of a node does not depend on the order in which its edge ends are inserted**: for
two orders of the same edge ends (all starting at `o`, with a direction) the bundles come out in the
same order of directions, each with the same edge ends up to their order (`StarEq`). -/
theorem impl_star_order_independent {o : Pt} {l l' : List EdgeEnd} (hp : l.Perm l') (hl : ∀ x ∈ l, GoodEnd o x) :
    StarEq (insAll [] l) (insAll [] l') :=
  insAll_perm hp hl (fun _ h => by cases h) (fun _ h => by cases h) (StarEq.refl _)

/-- [T] the label `EdgeEndBundle::into_labeled` computes does not depend on the order of the edge ends
of the bundle, and for the edge ends with swapped labels it is the swapped label. -/
theorem impl_bundleLabel_perm {ends ends' : List EdgeEnd} (h : ends.Perm ends') : bundleLabel ends = bundleLabel ends' :=
  bundleLabel_perm h

theorem impl_bundleLabel_swap (ends : List EdgeEnd) : bundleLabel (ends.map swapE) = (bundleLabel ends).swap :=
  bundleLabel_swap ends

/-- [T] `compute_labeling` for the operands in the other order gives the swapped labels (the two
`propagate_side_labels` calls commute, so do the two fills). -/
theorem impl_starLabels_swap (a b : Geom) (c : Pt) (star : List Bundle) :
    starLabels b a c (star.map swapB) = (starLabels a b c star).map (·.map Label.swap) :=
  starLabels_swap a b c star

/-- [T] **anything × Point, columns Interior and Boundary** — the mirror image of `relateImpl_point_rows`,
obtained through the transpose law: for every geometry `A` (edge ends of non-zero length) whose envelope
meets the point, the Boundary column of `relate(A, Point p)` is `F` and the Interior column has a single
`0`, in the row of the position `q` recorded for `p` w.r.t. `A`. -/
theorem relateImpl_point_cols_partial (p : Pt) (a : Geom) (hnz : EndsNonZero (.point p) a)
    (henv : envelopesMeet (.point p) a = true) {m : IM} (h : relateImpl? a (.point p) = some m) :
    ∃ q : Pos, ∀ X Y, Y ≠ .outside → m.get X Y = if Y = .inside ∧ q = X then .zero else .empty := by
  rw [relateImpl_transpose_partial (.point p) a hnz] at h
  cases h' : relateImpl? (.point p) a with
  | none => rw [h'] at h; cases h
  | some m' =>
    rw [h'] at h
    simp only [Option.map_some, Option.some.injEq] at h
    subst h
    have hg : relateGraph Arith.exact (.point p) a = some m' := by
      unfold relateImpl? relateImplWith at h'
      rw [henv, if_pos rfl] at h'
      exact h'
    obtain ⟨_, _, q, _, _, _, hrows⟩ := relateImpl_point_rows Arith.exact p a hg
    refine ⟨q, fun X Y hY => ?_⟩
    rw [transpose_get, hrows Y X hY]

/-- the point (2, 0) on the boundary of a triangle -/
example : ∃ q : Pos, ∀ X Y, Y ≠ .outside →
    (⟨.empty, .empty, .two, .zero, .empty, .one, .empty, .empty, .two⟩ : IM).get X Y =
      if Y = .inside ∧ q = X then .zero else .empty :=
  relateImpl_point_cols_partial ⟨2, 0⟩ (.triangle ⟨0, 0⟩ ⟨4, 0⟩ ⟨0, 4⟩) (endsNonZero_of_B (by decide +kernel))
    (by decide +kernel) (by decide +kernel)

/-- [T] **The transpose law of the implementation, for all geometries without a zero-length `Line`**
(exact arithmetic): `relate(b, a) = relate(a, b)ᵀ`, and the code panics for one order iff it does for the
other — valid and invalid operands alike (self-crossing line work, overlapping collection members,
degenerate rings, …). The edges `GeometryGraph::new` builds have no two equal consecutive coordinates
(`buildGraph_distinct`), self-noding and the mutual phase leave sorted lists of valid records on them
(`freshGraph_edgeWF`, `mutualGraphs_edgeWF`), so every edge end has non-zero length
(`endsForEdges_nonzero`) and `relateImpl_transpose_partial` applies. -/
theorem relateImpl_transpose (a b : Geom) (ha : noZeroLine a = true) (hb : noZeroLine b = true) :
    relateImpl? b a = (relateImpl? a b).map IM.transpose := relateImpl_transpose_noZeroLine a b ha hb

/-- two overlapping members of a collection against a bow-tie ring -/
example : relateImpl?
      (.polygon ⟨[⟨0, 0⟩, ⟨2, 2⟩, ⟨2, 0⟩, ⟨0, 2⟩, ⟨0, 0⟩], []⟩)
      (.collection [.rect ⟨0, 0⟩ ⟨2, 2⟩, .polygon ⟨[⟨1, 1⟩, ⟨3, 1⟩, ⟨3, 3⟩, ⟨1, 3⟩, ⟨1, 1⟩], []⟩, .line ⟨0, 1⟩ ⟨3, 1⟩]) =
    (relateImpl?
      (.collection [.rect ⟨0, 0⟩ ⟨2, 2⟩, .polygon ⟨[⟨1, 1⟩, ⟨3, 1⟩, ⟨3, 3⟩, ⟨1, 3⟩, ⟨1, 1⟩], []⟩, .line ⟨0, 1⟩ ⟨3, 1⟩])
      (.polygon ⟨[⟨0, 0⟩, ⟨2, 2⟩, ⟨2, 0⟩, ⟨0, 2⟩, ⟨0, 0⟩], []⟩)).map IM.transpose :=
  relateImpl_transpose _ _ (by decide +kernel) (by decide +kernel)

/-- [T] … hence for the total function on such operands when the code does not panic. -/
theorem relateImpl_transpose_total (a b : Geom) (ha : noZeroLine a = true) (hb : noZeroLine b = true)
    (hp : (relateImpl? a b).isSome) : relateImpl b a = (relateImpl a b).transpose := by
  unfold relateImpl
  rw [relateImpl_transpose a b ha hb]
  cases h : relateImpl? a b with
  | none => rw [h] at hp; cases hp
  | some m => rfl

/-- [T] **`relate` never panics** (model of the implementation, exact arithmetic): for all operands —
valid or not — without a zero-length `Line` and with closed polygon rings (the invariant of
`geo_types::Polygon`; the model's type admits open rings) the code reaches its end: none of
"node should have been labeled by now", the slice indexing of `EdgeEndBuilder`, "can't create empty
edge", "found single null side", "found partial label" can happen. Invariants: every node of a graph is
labelled for its own operand and every edge starts and ends at a node (`ginv_buildGraph`,
`freshGraph_ginv`); edges carry sorted lists of valid records (`mutualGraphs_edgeWF`), so the stubs of
`EdgeEndBuilder` exist and start at nodes of the node map (`endsForEdges_isSome`); every node of the node
map is labelled for both operands after `label_isolated_nodes` (`iso_count`); edge ends carry side
positions on both sides or on none, which is what `propagate_side_labels` needs (`starLabels_isSome`). -/
theorem relateImpl_never_panics (a b : Geom) (ha : noZeroLine a = true) (hb : noZeroLine b = true)
    (ca : ringsClosed a = true) (cb : ringsClosed b = true) : (relateImpl? a b).isSome :=
  relateImpl_isSome a b ha hb ca cb

/-- a bow-tie ring with a spike against a collection with overlapping members -/
example : (relateImpl? (.polygon ⟨[⟨0, 0⟩, ⟨2, 2⟩, ⟨2, 0⟩, ⟨0, 2⟩, ⟨3, 3⟩, ⟨0, 2⟩, ⟨0, 0⟩], []⟩)
    (.collection [.rect ⟨0, 0⟩ ⟨2, 2⟩, .lineString [⟨1, 1⟩, ⟨1, 1⟩, ⟨3, 0⟩], .multiPoint [⟨2, 2⟩]])).isSome :=
  relateImpl_never_panics _ _ (by decide +kernel) (by decide +kernel) (by decide +kernel) (by decide +kernel)

/-- [T] **transpose law for the total function**: on such operands `relateImpl b a = (relateImpl a b)ᵀ`. -/
theorem relateImpl_transpose_closed (a b : Geom) (ha : noZeroLine a = true) (hb : noZeroLine b = true)
    (ca : ringsClosed a = true) (cb : ringsClosed b = true) : relateImpl b a = (relateImpl a b).transpose :=
  relateImpl_transpose_total a b ha hb (relateImpl_never_panics a b ha hb ca cb)

example : relateImpl (.lineString [⟨0, 0⟩, ⟨2, 2⟩, ⟨2, 0⟩, ⟨0, 2⟩]) (.triangle ⟨0, 0⟩ ⟨4, 0⟩ ⟨0, 4⟩) =
    (relateImpl (.triangle ⟨0, 0⟩ ⟨4, 0⟩ ⟨0, 4⟩) (.lineString [⟨0, 0⟩, ⟨2, 2⟩, ⟨2, 0⟩, ⟨0, 2⟩])).transpose :=
  relateImpl_transpose_closed _ _ rfl rfl rfl rfl

end Impl

/-! ## RELM2: `Point × B` at the nodes of `B`'s graph; the disjoint-envelope shortcut with interiors -/

section Impl2
open Geo.RI Geo.GG Geo.Proofs.RELM Geo.Proofs.RELM2

/-- [T] **Point × anything, when the point is a node of `B`'s self-noded graph** (every `B`, valid or not, any
arithmetic): the position the relate node map records for `p` is the `on` position `q` of that node
(`copy_nodes_and_labels` writes it, `label_isolated_nodes` leaves a node labelled in both slots alone), so the Boundary
row is `F` and the Interior row has its single `0` in column `q` — the complement of `relateImpl_point_rows_isolated`. -/
theorem relateImpl_point_rows_node (ar : Arith) (p : Pt) (b : Geom) (q : Pos) {m : IM}
    (h : relateGraph ar (.point p) b = some m)
    (hq : ∀ g ∈ (freshGraph ar 1 b).nodes, g.coord = p → g.label.onPos 1 = some q)
    (hex : p ∈ (freshGraph ar 1 b).nodes.map (·.coord)) (X Y : Pos) (hX : X ≠ .outside) :
    m.get X Y = if X = .inside ∧ q = Y then .zero else .empty :=
  point_rows_node ar p b q h hq hex X Y hX

/-- the end point (0, 0) of a segment is a boundary node of its graph -/
example : ∀ m, relateGraph Arith.exact (.point ⟨0, 0⟩) (.line ⟨0, 0⟩ ⟨2, 2⟩) = some m →
    m.get .inside .onBoundary = .zero := by
  intro m h
  rw [relateImpl_point_rows_node _ _ _ .onBoundary h (by decide +kernel) (by decide +kernel) _ _ (by decide)]
  rfl

/-- [T] **every intersection self-noding records on an edge becomes a node of the graph**
(`add_self_intersection_nodes`), for every operand whose edges have an `on` position in their own slot. -/
theorem selfNoded_intersections_are_nodes (ar : Arith) (idx : Nat) (g : Geom)
    (hon : ∀ e ∈ (freshGraph ar idx g).edges, (e.label.onPos idx).isSome) :
    ∀ e ∈ (freshGraph ar idx g).edges, ∀ r ∈ e.eis, r.coord ∈ (freshGraph ar idx g).nodes.map (·.coord) :=
  fresh_eis_sub_nodes ar idx g hon

/-- a hole touching the shell at (2, 0): the touch point is recorded on both rings and is a node -/
example : (⟨2, 0⟩ : Pt) ∈ (freshGraph Arith.exact 1 (.polygon ⟨[⟨0, 0⟩, ⟨4, 0⟩, ⟨4, 4⟩, ⟨0, 4⟩, ⟨0, 0⟩],
    [[⟨2, 0⟩, ⟨3, 2⟩, ⟨1, 2⟩, ⟨2, 0⟩]]⟩)).nodes.map (·.coord) := by decide +kernel

/-- [T] **the nodes of the self-noded graph of an areal operand** (Polygon, MultiPolygon, Rect, Triangle; valid or not;
exact arithmetic): every node is labelled `OnBoundary` in the operand's slot and lies on one of its rings — ring starts
by `add_polygon_ring`, recorded intersections (valid records of their edge, `selfNoded_edges_wellFormed`) by
`add_self_intersection_node`, which for a boundary edge finds a boundary node or makes one. -/
theorem selfNoded_areal_nodes (idx : Nat) (g : Geom) (ha : isAreal g = true) :
    ∀ n ∈ (freshGraph Arith.exact idx g).nodes,
      n.label.onPos idx = some .onBoundary ∧ OnRings (ringsOf g) n.coord :=
  fresh_nodes_areal idx g ha

example : ∀ n ∈ (freshGraph Arith.exact 1 (.triangle ⟨0, 0⟩ ⟨4, 0⟩ ⟨0, 4⟩)).nodes, n.label.onPos 1 = some .onBoundary :=
  fun n hn => (selfNoded_areal_nodes 1 _ rfl n hn).1

/-- [T] **a point on a ring of a valid areal operand is located `OnBoundary` by the specification** (Polygon: empty or
OGC-valid; MultiPolygon: OGC-valid — a ring point of one member is never strictly inside another, C02
`multiPolygon_members_apart`; any Rect, any Triangle). -/
theorem locate_ring_point_areal (g : Geom) (hg : arealOk g = true) (c : Pt) (h : OnRings (ringsOf g) c) :
    locate g c = .onBoundary := locate_onRings_areal g hg c h

example : locate (.rect ⟨0, 0⟩ ⟨4, 2⟩) ⟨4, 1⟩ = .onBoundary :=
  locate_ring_point_areal _ rfl _ ⟨SM.rectToPolygon ⟨⟨0, 0⟩, ⟨4, 2⟩⟩, by simp [ringsOf, parts, Poly.rings], Or.inl (by decide +kernel)⟩

/-- [T] **the nodes of `B`'s self-noded graph carry the specification's location** (`NodesLocate`), and every recorded
self-intersection is a node, for `B` a Point, MultiPoint, Line, Polygon, MultiPolygon, Rect or Triangle of the
validity domain (exact arithmetic). -/
theorem impl_nodes_carry_locate (b : Geom) (hd : inDomain b = true) (ht : nodeTypeOk b = true) :
    NodesLocate Arith.exact b ∧ EisAreNodes Arith.exact b := nodesLocate_dom b hd ht

example : NodesLocate Arith.exact (.multiPolygon [⟨[⟨0, 0⟩, ⟨4, 0⟩, ⟨4, 4⟩, ⟨0, 4⟩, ⟨0, 0⟩], [[⟨1, 1⟩, ⟨2, 1⟩, ⟨2, 2⟩, ⟨1, 1⟩]]⟩,
    ⟨[⟨4, 4⟩, ⟨8, 4⟩, ⟨8, 8⟩, ⟨4, 8⟩, ⟨4, 4⟩], []⟩]) :=
  (impl_nodes_carry_locate _ (by decide +kernel) rfl).1

/-- [T] **Point × B through the node labels**: for every `B` whose graph nodes carry the specification's location and
whose recorded self-intersections are nodes (any arithmetic), the rows Interior / Boundary of the model of the
implementation are the specification's at every `p` with `coordinate_position(B, p) = locate(B, p)` — no
"`p` is not a node of `B`'s graph" hypothesis. -/
theorem relateImpl_point_rows_eq_spec_of_nodes (ar : Arith) (p : Pt) (b : Geom) {m : IM}
    (h : relateGraph ar (.point p) b = some m) (hN : NodesLocate ar b) (hE : EisAreNodes ar b)
    (hloc : coordPos b p = locate b p) (X Y : Pos) (hX : X ≠ .outside) :
    m.get X Y = (relateSpec (.point p) b).get X Y :=
  point_rows_eq_spec_of_nodesLocate ar p b h hN hE hloc X Y hX

example : ∀ m, relateGraph Arith.exact (.point ⟨2, 2⟩) (.line ⟨0, 0⟩ ⟨2, 2⟩) = some m →
    m.get .inside .onBoundary = (relateSpec (.point ⟨2, 2⟩) (.line ⟨0, 0⟩ ⟨2, 2⟩)).get .inside .onBoundary :=
  fun m h => relateImpl_point_rows_eq_spec_of_nodes _ _ _ h (nodesLocate_line _ _ _ (by decide))
    (eisAreNodes_line _ _ _) (Geo.Proofs.Loc.coordPos_line_eq_locate _ _ _) _ _ (by decide)

/-- [T] **Point × B on the validity domain, rows Interior and Boundary, at EVERY point** (exact arithmetic, graph
path): for `B` a Point, MultiPoint, Line, Polygon (holes touching the shell included), MultiPolygon (members touching
at points included), Rect or Triangle of the domain, `relate(Point p, B)` has the specification's rows — whether `p`
is a node of `B`'s graph (ring start, line end, touch point) or not. `coordinate_position = locate` is C02
`coordPos_eq_locate_dom_partial`, whose K9 exclusion is vacuous for these types.
(Superseded by `relateImpl_point_rows_eq_spec_allTypes_partial` and `relateImpl_point_eq_spec_noCollection_partial`
in section Impl3, which cover the cases called open here.)
Full statement (every `B` of the domain, `noK9 p B`): open for LineString, MultiLineString and GeometryCollection —
needs: self-noding of a simple line string records nothing (adjacent segments are trivial intersections, others
disjoint), the mod-2 node labels of C17 `nodeOn_addLineStrings` tied to the specification's end point count, and for
collections the graph of disjoint members as a disjoint union. The Exterior row is the correctness of `relate` on
`B`'s own components (needs `DimsSpec`-type facts: an interior face sample for polygons). -/
theorem relateImpl_point_rows_eq_spec_dom_partial (p : Pt) (b : Geom) (hd : inDomain b = true)
    (ht : nodeTypeOk b = true) {m : IM} (h : relateGraph Arith.exact (.point p) b = some m)
    (X Y : Pos) (hX : X ≠ .outside) : m.get X Y = (relateSpec (.point p) b).get X Y :=
  point_rows_eq_spec_dom p b hd ht h X Y hX

/-- the point where a hole touches the shell (a node recorded by self-noding), against that polygon -/
example : ∀ m, relateGraph Arith.exact (.point ⟨2, 0⟩)
      (.polygon ⟨[⟨0, 0⟩, ⟨4, 0⟩, ⟨4, 4⟩, ⟨0, 4⟩, ⟨0, 0⟩], [[⟨2, 0⟩, ⟨3, 2⟩, ⟨1, 2⟩, ⟨2, 0⟩]]⟩) = some m →
    ∀ Y, m.get .inside Y = (relateSpec (.point ⟨2, 0⟩)
      (.polygon ⟨[⟨0, 0⟩, ⟨4, 0⟩, ⟨4, 4⟩, ⟨0, 4⟩, ⟨0, 0⟩], [[⟨2, 0⟩, ⟨3, 2⟩, ⟨1, 2⟩, ⟨2, 0⟩]]⟩)).get .inside Y :=
  fun m h Y => relateImpl_point_rows_eq_spec_dom_partial _ _ (by decide +kernel) rfl h _ Y (by decide)

/-- [T] … **and B × Point, columns Interior and Boundary**, through the transpose laws of the implementation
(`relateImpl_transpose`) and of the specification (`relateSpec_transpose`). Same open cases. -/
theorem relateImpl_point_cols_eq_spec_dom_partial (p : Pt) (b : Geom) (hd : inDomain b = true)
    (ht : nodeTypeOk b = true) (henv : envelopesMeet (.point p) b = true) {m : IM}
    (h : relateImpl? b (.point p) = some m) (X Y : Pos) (hY : Y ≠ .outside) :
    m.get X Y = (relateSpec b (.point p)).get X Y := by
  have hz : noZeroLine b = true := by
    cases b <;> first | rfl | cases ht
    simpa [inDomain, validGeom, noZeroLine] using hd
  rw [relateImpl_transpose (.point p) b rfl hz] at h
  cases h' : relateImpl? (.point p) b with
  | none => rw [h'] at h; cases h
  | some m' =>
    rw [h'] at h
    simp only [Option.map_some, Option.some.injEq] at h
    subst h
    have hg : relateGraph Arith.exact (.point p) b = some m' := by
      unfold relateImpl? relateImplWith at h'
      rw [henv, if_pos rfl] at h'
      exact h'
    rw [transpose_get, relateImpl_point_rows_eq_spec_dom_partial p b hd ht hg Y X hY, relateSpec_transpose (.point p) b,
      transpose_get]

/-- a triangle against its own vertex -/
example : ∀ m, relateImpl? (.triangle ⟨0, 0⟩ ⟨4, 0⟩ ⟨0, 4⟩) (.point ⟨4, 0⟩) = some m →
    m.get .onBoundary .inside = (relateSpec (.triangle ⟨0, 0⟩ ⟨4, 0⟩ ⟨0, 4⟩) (.point ⟨4, 0⟩)).get .onBoundary .inside :=
  fun m h => relateImpl_point_cols_eq_spec_dom_partial _ _ (by decide +kernel) rfl (by decide +kernel) h _ _ (by decide)

/-- [T] **the disjoint-envelope shortcut is sound on the validity domain, operands with interiors included** (any
arithmetic): for operands of the domain whose reported rectangles do not intersect (or one of which has none) the model
of the implementation returns the specification's matrix wherever `HasDimensions` agrees with the specification. The
hypotheses `CoordsInBox` (hole coordinates lie in the shell's box) and `ClosedExt` of `relateImpl_disjoint_eq_spec_partial`
are discharged from validity (C02X `dom_facts`: `BE = F` of every hole against the shell, closed rings, `min ≤ max`).
Full statement (no `DimsSpec` hypotheses): needs `DimsSpec` for valid polygons with holes — an interior face sample,
S2-type, `dimsSpec_polygon_partial`; proved since for every non-collection operand:
`relateImpl_disjoint_eq_spec_noCollection_partial` in section Impl3 — and for collections (not covered by `DimsSpec`). -/
theorem relateImpl_disjoint_eq_spec_dom_partial (ar : Arith) {a b : Geom} (ha : inDomain a = true) (hb : inDomain b = true)
    (h : envelopesMeet a b = false) (da : Spec.DimsSpec a) (db : Spec.DimsSpec b) :
    relateImplWith ar a b = some (relateSpec a b) :=
  relateImplWith_disjoint_eq_spec_dom ar ha hb h da db

/-- a polygon with a hole against a far triangle (the interior-sample fact of the polygon as the remaining hypothesis) -/
example (hi : Spec.HasInteriorSample (parts (.polygon ⟨[⟨0, 0⟩, ⟨4, 0⟩, ⟨4, 4⟩, ⟨0, 4⟩, ⟨0, 0⟩], [[⟨1, 1⟩, ⟨2, 1⟩, ⟨2, 2⟩, ⟨1, 1⟩]]⟩))) :
    relateImpl? (.polygon ⟨[⟨0, 0⟩, ⟨4, 0⟩, ⟨4, 4⟩, ⟨0, 4⟩, ⟨0, 0⟩], [[⟨1, 1⟩, ⟨2, 1⟩, ⟨2, 2⟩, ⟨1, 1⟩]]⟩)
        (.triangle ⟨6, 0⟩ ⟨8, 0⟩ ⟨6, 3⟩) =
      some (relateSpec (.polygon ⟨[⟨0, 0⟩, ⟨4, 0⟩, ⟨4, 4⟩, ⟨0, 4⟩, ⟨0, 0⟩], [[⟨1, 1⟩, ⟨2, 1⟩, ⟨2, 2⟩, ⟨1, 1⟩]]⟩)
        (.triangle ⟨6, 0⟩ ⟨8, 0⟩ ⟨6, 3⟩)) :=
  relateImpl_disjoint_eq_spec_dom_partial _ (by decide +kernel) (by decide +kernel) (by decide +kernel)
    (dimsSpec_polygon_partial _ (by decide +kernel) hi) (dimsSpec_triangle _ _ _ (by norm_num [cross]))

/-- [T] … **on both paths of `compute_intersection_matrix`** (envelope of `B` containing `p` or not): the rows Interior and
Boundary of `relate(Point p, B)` are the specification's. On the shortcut path this is
`relateImpl_disjoint_eq_spec_dom_partial`, which needs `HasDimensions = specification` for `B` (`DimsSpec`: proved above for
Point, MultiPoint, Line, Rect, Triangle; an interior face sample for polygons). Same open cases as
`relateImpl_point_rows_eq_spec_dom_partial`. -/
theorem relateImpl_point_rows_eq_spec_both_paths_partial (p : Pt) (b : Geom) (hd : inDomain b = true)
    (ht : nodeTypeOk b = true) (db : Spec.DimsSpec b) {m : IM} (h : relateImpl? (.point p) b = some m)
    (X Y : Pos) (hX : X ≠ .outside) : m.get X Y = (relateSpec (.point p) b).get X Y := by
  cases henv : envelopesMeet (.point p) b with
  | true =>
    have hg : relateGraph Arith.exact (.point p) b = some m := by
      unfold relateImpl? relateImplWith at h
      rw [henv, if_pos rfl] at h
      exact h
    exact relateImpl_point_rows_eq_spec_dom_partial p b hd ht hg X Y hX
  | false =>
    have := relateImpl_disjoint_eq_spec_dom_partial Arith.exact (a := .point p) (b := b) rfl hd henv (dimsSpec_point p) db
    unfold relateImpl? at h
    rw [this] at h
    rw [← Option.some.inj h]

/-- a point far from a triangle (shortcut path) and on its hypotenuse (graph path) -/
example : ∀ m, relateImpl? (.point ⟨9, 9⟩) (.triangle ⟨0, 0⟩ ⟨4, 0⟩ ⟨0, 4⟩) = some m →
    m.get .inside .outside = (relateSpec (.point ⟨9, 9⟩) (.triangle ⟨0, 0⟩ ⟨4, 0⟩ ⟨0, 4⟩)).get .inside .outside :=
  fun m h => relateImpl_point_rows_eq_spec_both_paths_partial _ _ (by decide +kernel) rfl
    (dimsSpec_triangle _ _ _ (by norm_num [cross])) h _ _ (by decide)

example : ∀ m, relateImpl? (.point ⟨2, 2⟩) (.triangle ⟨0, 0⟩ ⟨4, 0⟩ ⟨0, 4⟩) = some m →
    m.get .inside .onBoundary = (relateSpec (.point ⟨2, 2⟩) (.triangle ⟨0, 0⟩ ⟨4, 0⟩ ⟨0, 4⟩)).get .inside .onBoundary :=
  fun m h => relateImpl_point_rows_eq_spec_both_paths_partial _ _ (by decide +kernel) rfl
    (dimsSpec_triangle _ _ _ (by norm_num [cross])) h _ _ (by decide)

/-- [T] **Point × closed LineString** (a ring written as a line string: any coordinates, simple or not, any arithmetic;
not a single coordinate): `compute_self_nodes` skips the self-check (`is_rings`), the single edge records nothing, the
start vertex is inserted twice as a boundary point and ends up `Inside` (mod-2 rule) — so the rows Interior / Boundary of
`relate(Point p, LineString cs)` are the specification's at every `p`, the start vertex included. -/
theorem relateImpl_point_rows_eq_spec_closedLineString (ar : Arith) (p : Pt) (cs : List Pt)
    (hcl : isClosedLS cs = true) (hlen : cs.length ≠ 1) {m : IM}
    (h : relateGraph ar (.point p) (.lineString cs) = some m) (X Y : Pos) (hX : X ≠ .outside) :
    m.get X Y = (relateSpec (.point p) (.lineString cs)).get X Y :=
  relateImpl_point_rows_eq_spec_of_nodes ar p _ h (nodesLocate_closedLineString ar cs hcl hlen)
    (eisAreNodes_closedLineString ar cs hcl) (Geo.Proofs.Loc.coordPos_lineString_eq_locate cs p) X Y hX

/-- the start vertex of a closed path -/
example : ∀ m, relateGraph Arith.exact (.point ⟨0, 0⟩) (.lineString [⟨0, 0⟩, ⟨4, 0⟩, ⟨0, 4⟩, ⟨0, 0⟩]) = some m →
    m.get .inside .inside = (relateSpec (.point ⟨0, 0⟩) (.lineString [⟨0, 0⟩, ⟨4, 0⟩, ⟨0, 4⟩, ⟨0, 0⟩])).get .inside .inside :=
  fun m h => relateImpl_point_rows_eq_spec_closedLineString _ _ _ rfl (by decide) h _ _ (by decide)

end Impl2

/-! ## RELM3: LineString, MultiLineString (shared end points included) and collections of linear / point members -/

section Impl3
open Geo.RI Geo.GG Geo.Proofs.RELM Geo.Proofs.RELM2 Geo.Proofs.RELM3

/-- [T] **self-noding of a simple open line string records nothing** (any arithmetic; `check_for_self_intersecting_edges`
on or off): consecutive segments meet in one point, which `is_trivial_intersection` discards; every other pair of
segments has `line_intersection = None` (`lineStringSimple`; `li_symm` for the pairs visited in the other order). -/
theorem selfNoding_simple_lineString_records_nothing (ar : Arith) (idx : Nat) (cs : List Pt)
    (hs : lineStringSimple cs = true) (hop : isClosedLS cs = false) :
    ∀ e ∈ (freshGraph ar idx (.lineString cs)).edges, e.eis = [] :=
  fresh_openLineString_no_eis ar idx cs hs hop

/-- an open path with a right-angle turn -/
example : ∀ e ∈ (freshGraph Arith.exact 1 (.lineString [⟨0, 0⟩, ⟨4, 0⟩, ⟨4, 3⟩, ⟨1, 3⟩])).edges, e.eis = [] :=
  selfNoding_simple_lineString_records_nothing _ _ _ (by decide +kernel) (by decide +kernel)

/-- [T] **the node map of one operand has pairwise distinct coordinates** for a MultiLineString (so C17's `mod2_rule`,
stated for "the node at `p`", speaks about every node with that coordinate). -/
theorem impl_mls_node_coordinates_distinct (idx : Nat) (ls : List (List Pt)) :
    ((buildGraph idx (.multiLineString ls)).nodes.map (·.coord)).Nodup := by
  rw [buildGraph_mls_nodes]
  exact (ninv_addLineStrings ls (ninv_nil idx)).1

/-- [T] **the nodes of the self-noded graph of a linear operand carry the specification's location** (exact arithmetic):
LineString, MultiLineString, Line and collections of them, of the validity domain — for a MultiLineString whatever the
way its members meet: at a common end point of several members the node has the mod-2 label (C17 `mod2_rule`), and the
end-point count of the specification has the same parity (a closed member counts 0 there, 2 in the graph); the
intersections self-noding records (valid records of their edges) are re-labelled / inserted `Inside` only where they
are not boundary nodes, and every end point is a node already. -/
theorem impl_nodes_carry_locate_linear (b : Geom) (hd : inDomain b = true) (hl : linOk b = true) :
    NodesLocate Arith.exact b ∧ EisAreNodes Arith.exact b :=
  ⟨nodesLocate_linear (linearAs_of_linOk b hd hl), eisAreNodes_linear _ (linearAs_of_linOk b hd hl)⟩

/-- three line strings ending at (1, 0) (a K9 point: `coordinate_position` answers `Inside` there, the graph and the
specification `OnBoundary`) and one crossing them -/
example : NodesLocate Arith.exact (.multiLineString [[⟨0, 0⟩, ⟨1, 0⟩], [⟨1, 0⟩, ⟨1, 1⟩], [⟨1, 0⟩, ⟨2, 0⟩]]) :=
  (impl_nodes_carry_locate_linear _ (by decide +kernel) rfl).1

/-- [T] **Point × B on the validity domain, rows Interior and Boundary, at EVERY point, for every type of `B`** (exact
arithmetic, graph path): Point, MultiPoint, Line, LineString (open or closed), MultiLineString, Polygon, MultiPolygon,
Rect, Triangle, and the GeometryCollections all of whose members (recursively) are of one kind: point-like, linear,
or areal (`pointRowsOk5`; areal members: the `OnBoundary`-nodes-on-rings invariant passes through `add_geometry`, and a
ring point of one member is not strictly inside another — `collectionOk` makes the cells II, IB, BI, BB of every pair
`F`, while C02X `cell_of_located` makes the cell of the two locations of a common arrangement point non-`F`).  No `nodeTypeOk`, no `noK9`: at a common end point of several members of a MultiLineString —
where `coordinate_position` is not the specification's location (open finding K9) — `relate` does not ask
`coordinate_position`, the point is a node of the graph and carries the mod-2 label.
Full statement (every `B` of the domain): open only for collections mixing kinds — possible in the domain only with
EMPTY members of another kind (an empty LineString inside a collection of polygons …), which add nothing to the graph
but a degenerate entry to the specification's parts. -/
theorem relateImpl_point_rows_eq_spec_allTypes_partial (p : Pt) (b : Geom) (hd : inDomain b = true)
    (ht : pointRowsOk5 b = true) {m : IM} (h : relateGraph Arith.exact (.point p) b = some m)
    (X Y : Pos) (hX : X ≠ .outside) : m.get X Y = (relateSpec (.point p) b).get X Y :=
  point_rows_eq_spec_dom5 p b hd ht h X Y hX

/-- the common end point of three members of a MultiLineString (K9 point), against it -/
example : ∀ m, relateGraph Arith.exact (.point ⟨1, 0⟩)
      (.multiLineString [[⟨0, 0⟩, ⟨1, 0⟩], [⟨1, 0⟩, ⟨1, 1⟩], [⟨1, 0⟩, ⟨2, 0⟩]]) = some m →
    ∀ Y, m.get .inside Y = (relateSpec (.point ⟨1, 0⟩)
      (.multiLineString [[⟨0, 0⟩, ⟨1, 0⟩], [⟨1, 0⟩, ⟨1, 1⟩], [⟨1, 0⟩, ⟨2, 0⟩]])).get .inside Y :=
  fun m h Y => relateImpl_point_rows_eq_spec_allTypes_partial _ _ (by decide +kernel) rfl h _ Y (by decide)

/-- the end point of an open line string; a collection of a segment and a line string -/
example : ∀ m, relateGraph Arith.exact (.point ⟨1, 3⟩) (.lineString [⟨0, 0⟩, ⟨4, 0⟩, ⟨4, 3⟩, ⟨1, 3⟩]) = some m →
    m.get .inside .onBoundary = (relateSpec (.point ⟨1, 3⟩) (.lineString [⟨0, 0⟩, ⟨4, 0⟩, ⟨4, 3⟩, ⟨1, 3⟩])).get .inside .onBoundary :=
  fun m h => relateImpl_point_rows_eq_spec_allTypes_partial _ _ (by decide +kernel) rfl h _ _ (by decide)

example : ∀ m, relateGraph Arith.exact (.point ⟨4, 0⟩)
      (.collection [.line ⟨0, 0⟩ ⟨4, 0⟩, .lineString [⟨5, 0⟩, ⟨5, 3⟩, ⟨6, 3⟩]]) = some m →
    m.get .inside .onBoundary = (relateSpec (.point ⟨4, 0⟩)
      (.collection [.line ⟨0, 0⟩ ⟨4, 0⟩, .lineString [⟨5, 0⟩, ⟨5, 3⟩, ⟨6, 3⟩]])).get .inside .onBoundary :=
  fun m h => relateImpl_point_rows_eq_spec_allTypes_partial _ _ (by decide +kernel) rfl h _ _ (by decide)

/-- a collection of a triangle and a polygon with a hole, against the start vertex of the hole -/
example : ∀ m, relateGraph Arith.exact (.point ⟨11, 1⟩)
      (.collection [.triangle ⟨0, 0⟩ ⟨4, 0⟩ ⟨0, 4⟩,
        .polygon ⟨[⟨10, 0⟩, ⟨14, 0⟩, ⟨14, 4⟩, ⟨10, 4⟩, ⟨10, 0⟩], [[⟨11, 1⟩, ⟨12, 1⟩, ⟨12, 2⟩, ⟨11, 1⟩]]⟩]) = some m →
    m.get .inside .onBoundary = (relateSpec (.point ⟨11, 1⟩)
      (.collection [.triangle ⟨0, 0⟩ ⟨4, 0⟩ ⟨0, 4⟩,
        .polygon ⟨[⟨10, 0⟩, ⟨14, 0⟩, ⟨14, 4⟩, ⟨10, 4⟩, ⟨10, 0⟩], [[⟨11, 1⟩, ⟨12, 1⟩, ⟨12, 2⟩, ⟨11, 1⟩]]⟩])).get .inside .onBoundary :=
  fun m h => relateImpl_point_rows_eq_spec_allTypes_partial _ _ (by decide +kernel) rfl h _ _ (by decide)

/-- [T] **a ring point of an areal operand of the domain — a GeometryCollection of pairwise disjoint areal members
included — is located `OnBoundary` by the specification**, and the nodes of its self-noded graph carry that location. -/
theorem impl_nodes_carry_locate_arealCollection (b : Geom) (hd : inDomain b = true) (ha : arOk b = true) :
    (∀ c, OnRings (ringsOf b) c → locate b c = .onBoundary) ∧ NodesLocate Arith.exact b ∧ EisAreNodes Arith.exact b :=
  ⟨locate_onRings_coll b hd ha, nodesLocate_arealColl b hd ha⟩

example : NodesLocate Arith.exact (.collection [.triangle ⟨0, 0⟩ ⟨4, 0⟩ ⟨0, 4⟩, .rect ⟨10, 0⟩ ⟨14, 4⟩]) :=
  (impl_nodes_carry_locate_arealCollection _ (by decide +kernel) rfl).2.1

/-- [T] … **and B × Point, columns Interior and Boundary**, through the two transpose laws. Same open cases. -/
theorem relateImpl_point_cols_eq_spec_allTypes_partial (p : Pt) (b : Geom) (hd : inDomain b = true)
    (ht : pointRowsOk5 b = true) (hz : noZeroLine b = true) (henv : envelopesMeet (.point p) b = true) {m : IM}
    (h : relateImpl? b (.point p) = some m) (X Y : Pos) (hY : Y ≠ .outside) :
    m.get X Y = (relateSpec b (.point p)).get X Y := by
  rw [relateImpl_transpose (.point p) b rfl hz] at h
  cases h' : relateImpl? (.point p) b with
  | none => rw [h'] at h; cases h
  | some m' =>
    rw [h'] at h
    simp only [Option.map_some, Option.some.injEq] at h
    subst h
    have hg : relateGraph Arith.exact (.point p) b = some m' := by
      unfold relateImpl? relateImplWith at h'
      rw [henv, if_pos rfl] at h'
      exact h'
    rw [transpose_get, relateImpl_point_rows_eq_spec_allTypes_partial p b hd ht hg Y X hY, relateSpec_transpose (.point p) b,
      transpose_get]

/-- a MultiLineString against the common end point of its members -/
example : ∀ m, relateImpl? (.multiLineString [[⟨0, 0⟩, ⟨1, 0⟩], [⟨1, 0⟩, ⟨1, 1⟩], [⟨1, 0⟩, ⟨2, 0⟩]]) (.point ⟨1, 0⟩) = some m →
    m.get .onBoundary .inside =
      (relateSpec (.multiLineString [[⟨0, 0⟩, ⟨1, 0⟩], [⟨1, 0⟩, ⟨1, 1⟩], [⟨1, 0⟩, ⟨2, 0⟩]]) (.point ⟨1, 0⟩)).get .onBoundary .inside :=
  fun m h => relateImpl_point_cols_eq_spec_allTypes_partial _ _ (by decide +kernel) rfl rfl (by decide +kernel) h _ _ (by decide)

/-- [T] … **on both paths of `compute_intersection_matrix`** (`DimsSpec B` for the shortcut path, as in
`relateImpl_point_rows_eq_spec_both_paths_partial`). -/
theorem relateImpl_point_rows_eq_spec_allTypes_both_paths_partial (p : Pt) (b : Geom) (hd : inDomain b = true)
    (ht : pointRowsOk5 b = true) (db : Spec.DimsSpec b) {m : IM} (h : relateImpl? (.point p) b = some m)
    (X Y : Pos) (hX : X ≠ .outside) : m.get X Y = (relateSpec (.point p) b).get X Y := by
  cases henv : envelopesMeet (.point p) b with
  | true =>
    have hg : relateGraph Arith.exact (.point p) b = some m := by
      unfold relateImpl? relateImplWith at h
      rw [henv, if_pos rfl] at h
      exact h
    exact relateImpl_point_rows_eq_spec_allTypes_partial p b hd ht hg X Y hX
  | false =>
    have := relateImpl_disjoint_eq_spec_dom_partial Arith.exact (a := .point p) (b := b) rfl hd henv (dimsSpec_point p) db
    unfold relateImpl? at h
    rw [this] at h
    rw [← Option.some.inj h]

/-- a point far from / at the end of an open line string -/
example : ∀ m, relateImpl? (.point ⟨9, 9⟩) (.lineString [⟨0, 0⟩, ⟨4, 0⟩, ⟨4, 3⟩]) = some m →
    m.get .inside .outside = (relateSpec (.point ⟨9, 9⟩) (.lineString [⟨0, 0⟩, ⟨4, 0⟩, ⟨4, 3⟩])).get .inside .outside :=
  fun m h => relateImpl_point_rows_eq_spec_allTypes_both_paths_partial _ _ (by decide +kernel) rfl
    (dimsSpec_lineString _ (by decide)) h _ _ (by decide)

/-- Point, MultiPoint, Line, LineString, MultiLineString, Rect, Triangle -/
def noPolygonType : Geom → Bool
  | .polygon _ | .multiPolygon _ | .collection _ => false
  | _ => true

/-- [T] **`HasDimensions` = the specification's row maxima (`DimsSpec`) for every operand of the validity domain that
is not a Polygon, MultiPolygon or GeometryCollection** — the hypotheses of the per-type theorems above (`hlen`, `hx`,
`hy`, `hD`) follow from validity. Full statement (every operand of the domain): needs an interior face sample of a
valid polygon (S2 type, `dimsSpec_polygon_partial`), and `DimsSpec` for collections. -/
theorem dimsSpec_dom_partial (b : Geom) (hd : inDomain b = true) (ht : noPolygonType b = true) : Spec.DimsSpec b := by
  cases b with
  | point q => exact dimsSpec_point q
  | multiPoint qs => exact dimsSpec_multiPoint qs
  | line a b => exact dimsSpec_line a b
  | lineString cs =>
    apply dimsSpec_lineString
    rcases Geo.Proofs.C02X.lineString_dom_length hd with rfl | h
    · simp
    · omega
  | multiLineString ls =>
    apply dimsSpec_multiLineString
    intro l hl
    have := long_length (long_of_mls_dom hd l hl)
    omega
  | rect mn mx =>
    have h : mn.x < mx.x ∧ mn.y < mx.y := by simpa [inDomain, validGeom] using hd
    exact dimsSpec_rect mn mx h.1 h.2
  | triangle a b c =>
    have h : orient a b c ≠ .col := by simpa [inDomain, validGeom] using hd
    exact dimsSpec_triangle a b c (fun e => h ((Geo.Proofs.Kernel.orient_col_iff a b c).2 e))
  | polygon _ => cases ht
  | multiPolygon _ => cases ht
  | collection _ => cases ht

example : Spec.DimsSpec (.multiLineString [[⟨0, 0⟩, ⟨1, 0⟩], [⟨1, 0⟩, ⟨1, 1⟩], [⟨1, 0⟩, ⟨2, 0⟩]]) :=
  dimsSpec_dom_partial _ (by decide +kernel) rfl

/-- [T] **the disjoint-envelope shortcut returns the specification's matrix — the whole matrix, no `DimsSpec`
hypothesis — for operands of the domain without polygonal members** (any arithmetic). -/
theorem relateImpl_disjoint_eq_spec_noPolygon_partial (ar : Arith) {a b : Geom} (ha : inDomain a = true)
    (hb : inDomain b = true) (hta : noPolygonType a = true) (htb : noPolygonType b = true)
    (h : envelopesMeet a b = false) : relateImplWith ar a b = some (relateSpec a b) :=
  relateImpl_disjoint_eq_spec_dom_partial ar ha hb h (dimsSpec_dom_partial a ha hta) (dimsSpec_dom_partial b hb htb)

/-- an open line string and a far triangle: the whole matrix -/
example : relateImpl? (.lineString [⟨0, 0⟩, ⟨4, 0⟩, ⟨4, 3⟩]) (.triangle ⟨6, 0⟩ ⟨8, 0⟩ ⟨6, 3⟩) =
    some (relateSpec (.lineString [⟨0, 0⟩, ⟨4, 0⟩, ⟨4, 3⟩]) (.triangle ⟨6, 0⟩ ⟨8, 0⟩ ⟨6, 3⟩)) :=
  relateImpl_disjoint_eq_spec_noPolygon_partial _ (by decide +kernel) (by decide +kernel) rfl rfl (by decide +kernel)

/-- [T] **Point × B, rows Interior and Boundary, on BOTH paths of `compute_intersection_matrix`, without any further
hypothesis**, for `B` a Point, MultiPoint, Line, LineString, MultiLineString, Rect or Triangle of the domain: whatever
`relate(Point p, B)` returns has the specification's rows. -/
theorem relateImpl_point_rows_eq_spec_noPolygon_partial (p : Pt) (b : Geom) (hd : inDomain b = true)
    (ht : noPolygonType b = true) {m : IM} (h : relateImpl? (.point p) b = some m)
    (X Y : Pos) (hX : X ≠ .outside) : m.get X Y = (relateSpec (.point p) b).get X Y :=
  relateImpl_point_rows_eq_spec_allTypes_both_paths_partial p b hd
    (by cases b <;> first | rfl | cases ht) (dimsSpec_dom_partial b hd ht) h X Y hX

/-- a point at the common end point of three line strings, and far from them -/
example : ∀ m, relateImpl? (.point ⟨1, 0⟩) (.multiLineString [[⟨0, 0⟩, ⟨1, 0⟩], [⟨1, 0⟩, ⟨1, 1⟩], [⟨1, 0⟩, ⟨2, 0⟩]]) = some m →
    m.get .inside .onBoundary =
      (relateSpec (.point ⟨1, 0⟩) (.multiLineString [[⟨0, 0⟩, ⟨1, 0⟩], [⟨1, 0⟩, ⟨1, 1⟩], [⟨1, 0⟩, ⟨2, 0⟩]])).get .inside .onBoundary :=
  fun m h => relateImpl_point_rows_eq_spec_noPolygon_partial _ _ (by decide +kernel) rfl h _ _ (by decide)

example : ∀ m, relateImpl? (.point ⟨7, 7⟩) (.multiLineString [[⟨0, 0⟩, ⟨1, 0⟩], [⟨1, 0⟩, ⟨1, 1⟩], [⟨1, 0⟩, ⟨2, 0⟩]]) = some m →
    m.get .inside .outside =
      (relateSpec (.point ⟨7, 7⟩) (.multiLineString [[⟨0, 0⟩, ⟨1, 0⟩], [⟨1, 0⟩, ⟨1, 1⟩], [⟨1, 0⟩, ⟨2, 0⟩]])).get .inside .outside :=
  fun m h => relateImpl_point_rows_eq_spec_noPolygon_partial _ _ (by decide +kernel) rfl h _ _ (by decide)

/-! ### the Exterior row: `relate(Point, B) = relateSpec`, the whole matrix, for linear `B` -/

/-- [T] **self-noding does not touch `is_isolated`**; the point has no edge, so every edge of `B` is labelled as an
isolated edge, `Outside` of the point. -/
theorem selfNoded_edges_isolated (ar : Arith) (idx : Nat) (g : Geom) :
    ∀ e ∈ (freshGraph ar idx g).edges, e.isolated = true := fresh_edges_isolated ar idx g

example : ∀ e ∈ (freshGraph Arith.exact 1 (.lineString [⟨0, 0⟩, ⟨2, 2⟩, ⟨2, 0⟩, ⟨0, 2⟩])).edges, e.isolated = true :=
  selfNoded_edges_isolated _ _ _

/-- [T] **the Exterior row of `relate(Point p, B)` in the model of the implementation, for a `B` all of whose edges
are line edges** (any arithmetic; `B` valid or not): `EI = 1` as soon as `B` has an edge — every edge is isolated from
the point and contributes (1, Exterior, Interior); every bundle of every star is labelled `Inside` in `B`'s slot
(`compute_label_on`: no boundary edge end, an interior one), nothing to propagate, no collapse — and `EB ≥ d` iff
`d = F`, or `d = 0` and the self-noded graph of `B` has an `OnBoundary` node away from `p` (`copy_nodes_and_labels` is
the only step that writes `OnBoundary` into `B`'s slot; `label_isolated_nodes` writes `B`'s slot only at `p`). -/
theorem relateImpl_point_exterior_row_lineEdges (ar : Arith) (p : Pt) (b : Geom)
    (hE : ∀ e ∈ (freshGraph ar 1 b).edges, e.label = lineLabel 1) (hne : (freshGraph ar 1 b).edges ≠ [])
    (hdb : (dims b == .two) = false) (hN : NInv 1 (freshGraph ar 1 b).nodes)
    {m : IM} (h : relateGraph ar (.point p) b = some m) :
    m.get .outside .inside = .one ∧
    (∀ d : Dim, d.rank ≤ (m.get .outside .onBoundary).rank ↔
      d = .empty ∨ (d.rank ≤ Dim.zero.rank ∧
        ∃ g ∈ (freshGraph ar 1 b).nodes, g.coord ≠ p ∧ g.label.onPos 1 = some .onBoundary)) :=
  point_ext_row_linear ar p b hE hne hdb hN h

/-- a point beside a segment -/
example : ∀ m, relateGraph Arith.exact (.point ⟨1, 0⟩) (.line ⟨0, 0⟩ ⟨2, 2⟩) = some m → m.get .outside .inside = .one :=
  fun m h => (relateImpl_point_exterior_row_lineEdges _ _ _ (by decide +kernel) (by decide +kernel) rfl
    (ninv_fresh_linear (linearAs_of_linOk _ (by decide +kernel) rfl)) h).1

/-- [T] **the Exterior row of the specification for `Point × linear B`**: `EI = 1` as soon as `B` has a curve with
two distinct consecutive coordinates; `EB ≥ d` iff `d = F`, or `d = 0` and some point other than `p` is located on the
boundary of `B`. -/
theorem relateSpec_point_linear_exterior_row (p : Pt) (ls : List (List Pt)) {l : List Pt} (hl : l ∈ ls) (hlong : Long l) :
    (relateSpec (.point p) (.multiLineString ls)).get .outside .inside = .one ∧
    (∀ d : Dim, d.rank ≤ ((relateSpec (.point p) (.multiLineString ls)).get .outside .onBoundary).rank ↔
      d = .empty ∨ (d.rank ≤ Dim.zero.rank ∧ ∃ v, v ≠ p ∧ locate (.multiLineString ls) v = .onBoundary)) :=
  spec_ext_row_linear p ls hl hlong

example : (relateSpec (.point ⟨1, 0⟩) (.multiLineString [[⟨0, 0⟩, ⟨2, 2⟩]])).get .outside .inside = .one :=
  (relateSpec_point_linear_exterior_row _ _ (List.mem_singleton.2 rfl) ⟨⟨0, 0⟩, ⟨2, 2⟩, [], by decide +kernel⟩).1

/-- [T] **`relate(Point p, B) = relateSpec (Point p) B` — the WHOLE matrix — on the graph path, for every linear `B`
of the domain that has an edge** (Line, LineString, MultiLineString — shared end points and closed members included —
and collections of them; exact arithmetic). Rows Interior / Boundary: `relateImpl_point_rows_eq_spec_allTypes_partial`;
Exterior row: the two theorems above, joined by `impl_nodes_carry_locate_linear` (the `OnBoundary` nodes of the graph
are the points the specification locates on the boundary: every boundary point is an end point, hence a node). -/
theorem relateImpl_point_linear_graph_eq_spec (p : Pt) (b : Geom) (hd : inDomain b = true) (hl : linOk b = true)
    (hne : (freshGraph Arith.exact 1 b).edges ≠ []) {m : IM}
    (h : relateGraph Arith.exact (.point p) b = some m) : m = relateSpec (.point p) b :=
  point_linear_full p b hd hl hne h

/-- the common end point of three line strings against them: the whole matrix -/
example : ∀ m, relateGraph Arith.exact (.point ⟨1, 0⟩)
      (.multiLineString [[⟨0, 0⟩, ⟨1, 0⟩], [⟨1, 0⟩, ⟨1, 1⟩], [⟨1, 0⟩, ⟨2, 0⟩]]) = some m →
    m = relateSpec (.point ⟨1, 0⟩) (.multiLineString [[⟨0, 0⟩, ⟨1, 0⟩], [⟨1, 0⟩, ⟨1, 1⟩], [⟨1, 0⟩, ⟨2, 0⟩]]) :=
  fun m h => relateImpl_point_linear_graph_eq_spec _ _ (by decide +kernel) rfl (by decide +kernel) h

/-- [T] **`relate(Point p, B) = relateSpec (Point p) B` for `B` a Line, LineString or MultiLineString of the validity
domain — whole matrix, both paths of `compute_intersection_matrix`, no further hypothesis**: whatever the model of the
implementation returns is the specification's matrix. Full statement (every `B` of the domain): the Exterior row is
open for areal `B` (needs an interior face sample of a valid polygon on the specification side, the side labels of the
area edges on the implementation side) and for collections (no `DimsSpec` on the shortcut path). -/
theorem relateImpl_point_lineType_eq_spec_partial (p : Pt) (b : Geom) (hd : inDomain b = true)
    (ht : lineType b = true) {m : IM} (h : relateImpl? (.point p) b = some m) : m = relateSpec (.point p) b := by
  cases henv : envelopesMeet (.point p) b with
  | true =>
    have hg : relateGraph Arith.exact (.point p) b = some m := by
      unfold relateImpl? relateImplWith at h
      rw [henv, if_pos rfl] at h
      exact h
    exact point_lineType_graph p b hd ht henv hg
  | false =>
    have := relateImpl_disjoint_eq_spec_noPolygon_partial Arith.exact (a := .point p) (b := b) rfl hd rfl
      (by cases b <;> first | rfl | cases ht) henv
    unfold relateImpl? at h
    rw [this] at h
    exact (Option.some.inj h).symm

/-- a point in the middle of a segment of a closed line string; a point far from it (shortcut path) -/
example : ∀ m, relateImpl? (.point ⟨2, 0⟩) (.lineString [⟨0, 0⟩, ⟨4, 0⟩, ⟨0, 4⟩, ⟨0, 0⟩]) = some m →
    m = relateSpec (.point ⟨2, 0⟩) (.lineString [⟨0, 0⟩, ⟨4, 0⟩, ⟨0, 4⟩, ⟨0, 0⟩]) :=
  fun _ h => relateImpl_point_lineType_eq_spec_partial _ _ (by decide +kernel) rfl h

example : ∀ m, relateImpl? (.point ⟨9, 9⟩) (.lineString [⟨0, 0⟩, ⟨4, 0⟩, ⟨0, 4⟩, ⟨0, 0⟩]) = some m →
    m = relateSpec (.point ⟨9, 9⟩) (.lineString [⟨0, 0⟩, ⟨4, 0⟩, ⟨0, 4⟩, ⟨0, 0⟩]) :=
  fun _ h => relateImpl_point_lineType_eq_spec_partial _ _ (by decide +kernel) rfl h

/-- [T] … **and the total function**: `relate` never panics on these operands (`relateImpl_never_panics`), so
`relateImpl (Point p) B = relateSpec (Point p) B` and, through the two transpose laws, `relateImpl B (Point p) =
relateSpec B (Point p)`. -/
theorem relateImpl_point_lineType_eq_spec_total_partial (p : Pt) (b : Geom) (hd : inDomain b = true)
    (ht : lineType b = true) :
    relateImpl (.point p) b = relateSpec (.point p) b ∧ relateImpl b (.point p) = relateSpec b (.point p) := by
  have hz : noZeroLine b = true := by
    cases b <;> first | rfl | cases ht
    simpa [inDomain, validGeom, noZeroLine] using hd
  have hc : ringsClosed b = true := by cases b <;> first | rfl | cases ht
  have hs := relateImpl_never_panics (.point p) b rfl hz rfl hc
  have h1 : relateImpl (.point p) b = relateSpec (.point p) b := by
    obtain ⟨m, hm⟩ := Option.isSome_iff_exists.1 hs
    unfold relateImpl
    rw [hm]
    exact relateImpl_point_lineType_eq_spec_partial p b hd ht hm
  refine ⟨h1, ?_⟩
  rw [relateImpl_transpose_closed (.point p) b rfl hz rfl hc, h1, relateSpec_transpose (.point p) b]

/-- a point on, at the end of, and away from an open line string with a corner: the whole matrices -/
example : relateImpl (.point ⟨4, 1⟩) (.lineString [⟨0, 0⟩, ⟨4, 0⟩, ⟨4, 3⟩]) =
    relateSpec (.point ⟨4, 1⟩) (.lineString [⟨0, 0⟩, ⟨4, 0⟩, ⟨4, 3⟩]) :=
  (relateImpl_point_lineType_eq_spec_total_partial _ _ (by decide +kernel) rfl).1

example : relateImpl (.lineString [⟨0, 0⟩, ⟨4, 0⟩, ⟨4, 3⟩]) (.point ⟨4, 3⟩) =
    relateSpec (.lineString [⟨0, 0⟩, ⟨4, 0⟩, ⟨4, 3⟩]) (.point ⟨4, 3⟩) :=
  (relateImpl_point_lineType_eq_spec_total_partial _ _ (by decide +kernel) rfl).2

example : relateImpl (.point ⟨9, 9⟩) (.multiLineString [[⟨0, 0⟩, ⟨1, 0⟩], [⟨1, 0⟩, ⟨1, 1⟩], [⟨1, 0⟩, ⟨2, 0⟩]]) =
    relateSpec (.point ⟨9, 9⟩) (.multiLineString [[⟨0, 0⟩, ⟨1, 0⟩], [⟨1, 0⟩, ⟨1, 1⟩], [⟨1, 0⟩, ⟨2, 0⟩]]) :=
  (relateImpl_point_lineType_eq_spec_total_partial _ _ (by decide +kernel) rfl).1

/-! ### the Exterior row for areal `B` -/

/-- [T] **the Exterior row of `relate(Point p, B)` in the model of the implementation, for a `B` all of whose edges are
ring edges** (`area(OnBoundary, l, r)`, `{l, r} = {Inside, Outside}`; any arithmetic, `B` valid or not): `EI = 2`,
`EB = 1` as soon as `B` has an edge — every ring edge is isolated from the point and contributes (1, E, B), (2, E, I),
(2, E, E); the bundles of the stars get full area labels whose sides are `Inside` / `Outside` (`compute_label_side`
returns nothing else), so no two-dimensional contribution lands on the boundary of `B`. -/
theorem relateImpl_point_exterior_row_ringEdges (ar : Arith) (p : Pt) (b : Geom)
    (hE : ∀ e ∈ (freshGraph ar 1 b).edges, AreaLbl e.label) (hne : (freshGraph ar 1 b).edges ≠ [])
    {m : IM} (h : relateGraph ar (.point p) b = some m) :
    m.get .outside .inside = .two ∧ m.get .outside .onBoundary = .one :=
  point_ext_row_areal ar p b hE hne h

/-- a polygon with a hole (an areal operand: `fresh_edges_area`) -/
example : ∀ m, relateGraph Arith.exact (.point ⟨2, 0⟩)
      (.polygon ⟨[⟨0, 0⟩, ⟨4, 0⟩, ⟨4, 4⟩, ⟨0, 4⟩, ⟨0, 0⟩], [[⟨2, 0⟩, ⟨3, 2⟩, ⟨1, 2⟩, ⟨2, 0⟩]]⟩) = some m →
    m.get .outside .inside = .two ∧ m.get .outside .onBoundary = .one :=
  fun m h => relateImpl_point_exterior_row_ringEdges _ _ _ (fresh_edges_area _ _ rfl) (by decide +kernel) h

/-- [T] **the Exterior row of the specification for `Point × B` from `DimsSpec B`**: against a point operand a row
maximum of dimension ≥ 1 is attained in the column Exterior (the columns Interior / Boundary of a point hold
dimension 0 at most), so `EI = dim B` and `EB = dim ∂B` whenever these are ≥ 1. -/
theorem relateSpec_point_exterior_row_of_dimsSpec (p : Pt) (b : Geom) (db : Spec.DimsSpec b) :
    (Dim.zero.rank < (dims b).rank → (relateSpec (.point p) b).get .outside .inside = dims b) ∧
    (Dim.zero.rank < (boundaryDims b).rank → (relateSpec (.point p) b).get .outside .onBoundary = boundaryDims b) :=
  spec_ext_row_of_dimsSpec p b db

example : (relateSpec (.point ⟨1, 1⟩) (.rect ⟨0, 0⟩ ⟨4, 2⟩)).get .outside .onBoundary = .one :=
  (relateSpec_point_exterior_row_of_dimsSpec _ _ (dimsSpec_rect _ _ (by norm_num) (by norm_num))).2 (by decide +kernel)

/-- [T] **`relate(Point p, B) = relateSpec (Point p) B`, the whole matrix, on the graph path, for every areal `B` of the
domain** (Polygon with holes, MultiPolygon, Rect, Triangle, collections of pairwise disjoint areal members) **of
dimension 2 whose `HasDimensions` answers are the specification's row maxima**. Full statement (no `DimsSpec`): needs
an interior face sample of a valid polygon (S2 type; `dimsSpec_polygon_partial`); Rect and Triangle have it, below. -/
theorem relateImpl_point_areal_graph_eq_spec_partial (p : Pt) (b : Geom) (hd : inDomain b = true) (ha : arOk b = true)
    (db : Spec.DimsSpec b) (h2 : dims b = .two) (h1 : boundaryDims b = .one)
    (hne : (freshGraph Arith.exact 1 b).edges ≠ []) {m : IM}
    (h : relateGraph Arith.exact (.point p) b = some m) : m = relateSpec (.point p) b :=
  point_areal_full p b hd ha db h2 h1 hne h

/-- a polygon with a hole touching the shell, against the touch point: the whole matrix, given the interior face sample -/
example (hi : Spec.HasInteriorSample (parts (.polygon ⟨[⟨0, 0⟩, ⟨4, 0⟩, ⟨4, 4⟩, ⟨0, 4⟩, ⟨0, 0⟩], [[⟨2, 0⟩, ⟨3, 2⟩, ⟨1, 2⟩, ⟨2, 0⟩]]⟩))) :
    ∀ m, relateGraph Arith.exact (.point ⟨2, 0⟩)
      (.polygon ⟨[⟨0, 0⟩, ⟨4, 0⟩, ⟨4, 4⟩, ⟨0, 4⟩, ⟨0, 0⟩], [[⟨2, 0⟩, ⟨3, 2⟩, ⟨1, 2⟩, ⟨2, 0⟩]]⟩) = some m →
    m = relateSpec (.point ⟨2, 0⟩) (.polygon ⟨[⟨0, 0⟩, ⟨4, 0⟩, ⟨4, 4⟩, ⟨0, 4⟩, ⟨0, 0⟩], [[⟨2, 0⟩, ⟨3, 2⟩, ⟨1, 2⟩, ⟨2, 0⟩]]⟩) :=
  fun m h => relateImpl_point_areal_graph_eq_spec_partial _ _ (by decide +kernel) rfl
    (dimsSpec_polygon_partial _ (by decide +kernel) hi) (by decide +kernel) (by decide +kernel) (by decide +kernel) h

/-- Line, LineString, MultiLineString, Rect, Triangle -/
def fullMatrixType (b : Geom) : Bool := lineType b || boxType b

/-- [T] **`relateImpl (Point p) B = relateSpec (Point p) B` and `relateImpl B (Point p) = relateSpec B (Point p)` —
whole matrix, both paths, total function, no further hypothesis — for `B` a Line, LineString, MultiLineString, Rect or
Triangle of the validity domain.** Full statement (every `B` of the domain): Polygon / MultiPolygon need `DimsSpec`
(an interior face sample), collections need `DimsSpec` on the shortcut path and "an envelope implies an edge". -/
theorem relateImpl_point_eq_spec_total_partial (p : Pt) (b : Geom) (hd : inDomain b = true)
    (ht : fullMatrixType b = true) :
    relateImpl (.point p) b = relateSpec (.point p) b ∧ relateImpl b (.point p) = relateSpec b (.point p) := by
  simp only [fullMatrixType, Bool.or_eq_true] at ht
  rcases ht with ht | ht
  · exact relateImpl_point_lineType_eq_spec_total_partial p b hd ht
  · have hz : noZeroLine b = true := by cases b <;> first | rfl | cases ht
    have hc : ringsClosed b = true := by cases b <;> first | rfl | cases ht
    have hnp : noPolygonType b = true := by cases b <;> first | rfl | cases ht
    have hs := relateImpl_never_panics (.point p) b rfl hz rfl hc
    have h1 : relateImpl (.point p) b = relateSpec (.point p) b := by
      obtain ⟨m, hm⟩ := Option.isSome_iff_exists.1 hs
      unfold relateImpl
      rw [hm]
      show m = relateSpec (.point p) b
      cases henv : envelopesMeet (.point p) b with
      | true =>
        have hg : relateGraph Arith.exact (.point p) b = some m := by
          unfold relateImpl? relateImplWith at hm
          rw [henv, if_pos rfl] at hm
          exact hm
        exact point_boxType_graph p b hd ht hg
      | false =>
        have := relateImpl_disjoint_eq_spec_noPolygon_partial Arith.exact (a := .point p) (b := b) rfl hd rfl hnp henv
        unfold relateImpl? at hm
        rw [this] at hm
        exact (Option.some.inj hm).symm
    refine ⟨h1, ?_⟩
    rw [relateImpl_transpose_closed (.point p) b rfl hz rfl hc, h1, relateSpec_transpose (.point p) b]

/-- a point at a vertex of, on an edge of, inside and outside a triangle; a rectangle against its corner -/
example : relateImpl (.point ⟨4, 0⟩) (.triangle ⟨0, 0⟩ ⟨4, 0⟩ ⟨0, 4⟩) = relateSpec (.point ⟨4, 0⟩) (.triangle ⟨0, 0⟩ ⟨4, 0⟩ ⟨0, 4⟩) :=
  (relateImpl_point_eq_spec_total_partial _ _ (by decide +kernel) rfl).1
example : relateImpl (.point ⟨2, 2⟩) (.triangle ⟨0, 0⟩ ⟨4, 0⟩ ⟨0, 4⟩) = relateSpec (.point ⟨2, 2⟩) (.triangle ⟨0, 0⟩ ⟨4, 0⟩ ⟨0, 4⟩) :=
  (relateImpl_point_eq_spec_total_partial _ _ (by decide +kernel) rfl).1
example : relateImpl (.point ⟨1, 1⟩) (.triangle ⟨0, 0⟩ ⟨4, 0⟩ ⟨0, 4⟩) = relateSpec (.point ⟨1, 1⟩) (.triangle ⟨0, 0⟩ ⟨4, 0⟩ ⟨0, 4⟩) :=
  (relateImpl_point_eq_spec_total_partial _ _ (by decide +kernel) rfl).1
example : relateImpl (.rect ⟨0, 0⟩ ⟨4, 2⟩) (.point ⟨4, 2⟩) = relateSpec (.rect ⟨0, 0⟩ ⟨4, 2⟩) (.point ⟨4, 2⟩) :=
  (relateImpl_point_eq_spec_total_partial _ _ (by decide +kernel) rfl).2

/-! ### `DimsSpec` for valid polygons; `Point × B` for every simple type of `B` -/

/-- [T] **`HasDimensions` of a polygon whose shell is a simple ring is 2** (`Polygon::dimensions` looks for three
different coordinates at the head of the shell; two consecutive edges of a simple ring meet in their common vertex
only, so the third distinct vertex is not the first). -/
theorem polyDims_valid (q : Poly) (hv : polyValid q = true) : dims (.polygon q) = .two :=
  polyDims_of_simple (Geo.Proofs.C02Q.polyValid_unpack hv).1

example : dims (.polygon ⟨[⟨0, 0⟩, ⟨0, 0⟩, ⟨4, 0⟩, ⟨4, 0⟩, ⟨0, 4⟩, ⟨0, 0⟩], []⟩) = .two :=
  polyDims_valid _ (by decide +kernel)

/-- [T] **an OGC-valid polygon has an interior face sample in every arrangement** (S2 for valid polygons, holes
included): beside an elementary sub-segment of the shell, on the side C02X `valid_side_inside` finds interior. This is
the hypothesis `hi` of `dimsSpec_polygon_partial`. -/
theorem polygon_interior_sample_valid (q : Poly) (hv : polyValid q = true) :
    Spec.HasInteriorSample (parts (.polygon q)) := hasInteriorSample_polygon q hv

example : Spec.HasInteriorSample (parts (.polygon ⟨[⟨0, 0⟩, ⟨4, 0⟩, ⟨4, 4⟩, ⟨0, 4⟩, ⟨0, 0⟩], [[⟨1, 1⟩, ⟨2, 1⟩, ⟨2, 2⟩, ⟨1, 1⟩]]⟩)) :=
  polygon_interior_sample_valid _ (by decide +kernel)

/-- [T] **`DimsSpec` for every operand of the validity domain that is not a GeometryCollection** — valid Polygon with
holes, valid MultiPolygon (interior sample in the first member, boundary sample through `multiPolygon_members_apart`),
the empty Polygon / MultiPolygon (no point at all), and the types of `dimsSpec_dom_partial`. Full statement (every
operand of the domain): open for collections (`DimsSpec` speaks about `dims (collection)`, a maximum over members). -/
theorem dimsSpec_dom_noCollection_partial (b : Geom) (hd : inDomain b = true) (ht : notCollection b = true) :
    Spec.DimsSpec b := dimsSpec_dom_noCollection b hd ht

example : Spec.DimsSpec (.multiPolygon [⟨[⟨0, 0⟩, ⟨4, 0⟩, ⟨4, 4⟩, ⟨0, 4⟩, ⟨0, 0⟩], [[⟨1, 1⟩, ⟨2, 1⟩, ⟨2, 2⟩, ⟨1, 1⟩]]⟩,
    ⟨[⟨4, 4⟩, ⟨8, 4⟩, ⟨8, 8⟩, ⟨4, 8⟩, ⟨4, 4⟩], []⟩]) :=
  dimsSpec_dom_noCollection_partial _ (by decide +kernel) rfl

/-- [T] **the disjoint-envelope shortcut returns the specification's matrix — the whole matrix — for any two operands
of the validity domain that are not GeometryCollections** (any arithmetic): no `DimsSpec` hypothesis left. -/
theorem relateImpl_disjoint_eq_spec_noCollection_partial (ar : Arith) {a b : Geom} (ha : inDomain a = true)
    (hb : inDomain b = true) (hta : notCollection a = true) (htb : notCollection b = true)
    (h : envelopesMeet a b = false) : relateImplWith ar a b = some (relateSpec a b) :=
  relateImpl_disjoint_eq_spec_dom_partial ar ha hb h (dimsSpec_dom_noCollection a ha hta) (dimsSpec_dom_noCollection b hb htb)

/-- a polygon with a hole against a far triangle: no hypothesis left -/
example : relateImpl? (.polygon ⟨[⟨0, 0⟩, ⟨4, 0⟩, ⟨4, 4⟩, ⟨0, 4⟩, ⟨0, 0⟩], [[⟨1, 1⟩, ⟨2, 1⟩, ⟨2, 2⟩, ⟨1, 1⟩]]⟩)
      (.triangle ⟨6, 0⟩ ⟨8, 0⟩ ⟨6, 3⟩) =
    some (relateSpec (.polygon ⟨[⟨0, 0⟩, ⟨4, 0⟩, ⟨4, 4⟩, ⟨0, 4⟩, ⟨0, 0⟩], [[⟨1, 1⟩, ⟨2, 1⟩, ⟨2, 2⟩, ⟨1, 1⟩]]⟩)
      (.triangle ⟨6, 0⟩ ⟨8, 0⟩ ⟨6, 3⟩)) :=
  relateImpl_disjoint_eq_spec_noCollection_partial _ (by decide +kernel) (by decide +kernel) rfl rfl (by decide +kernel)

/-- Line, LineString, MultiLineString, Polygon, MultiPolygon, Rect, Triangle -/
def extendedType (b : Geom) : Bool := lineType b || boxType b || polyType b

/-- [T] **`relateImpl (Point p) B = relateSpec (Point p) B` and `relateImpl B (Point p) = relateSpec B (Point p)` — the
whole matrix, both paths of `compute_intersection_matrix`, the total function, no hypothesis but the validity domain —
for `B` a Line, LineString, MultiLineString, Polygon (holes, holes touching the shell), MultiPolygon (members touching
at points), Rect or Triangle.** The model of the implementation of `relate`, checked against the real code on every
run, is PROVED equal to the DE-9IM specification for a point against every such geometry.
Full statement (every `B` of the domain): open for `B` a Point / MultiPoint written as another type than the first
operand (rows proved, Exterior row not), and for GeometryCollections (rows proved for one-kind collections; `DimsSpec`
of a collection and "an envelope implies an edge" missing). -/
theorem relateImpl_point_eq_spec_extendedType_partial (p : Pt) (b : Geom) (hd : inDomain b = true)
    (ht : extendedType b = true) :
    relateImpl (.point p) b = relateSpec (.point p) b ∧ relateImpl b (.point p) = relateSpec b (.point p) := by
  simp only [extendedType, Bool.or_eq_true] at ht
  rcases ht with ht | ht
  · exact relateImpl_point_eq_spec_total_partial p b hd (by simpa [fullMatrixType] using ht)
  · have hz : noZeroLine b = true := by cases b <;> first | rfl | cases ht
    have hc : ringsClosed b = true := ringsClosed_of_dom hd ht
    have hnc : notCollection b = true := by cases b <;> first | rfl | cases ht
    have hs := relateImpl_never_panics (.point p) b rfl hz rfl hc
    have h1 : relateImpl (.point p) b = relateSpec (.point p) b := by
      obtain ⟨m, hm⟩ := Option.isSome_iff_exists.1 hs
      unfold relateImpl
      rw [hm]
      show m = relateSpec (.point p) b
      cases henv : envelopesMeet (.point p) b with
      | true =>
        have hg : relateGraph Arith.exact (.point p) b = some m := by
          unfold relateImpl? relateImplWith at hm
          rw [henv, if_pos rfl] at hm
          exact hm
        exact point_polyType_graph p b hd ht henv hg
      | false =>
        have := relateImpl_disjoint_eq_spec_noCollection_partial Arith.exact (a := .point p) (b := b) rfl hd rfl hnc henv
        unfold relateImpl? at hm
        rw [this] at hm
        exact (Option.some.inj hm).symm
    refine ⟨h1, ?_⟩
    rw [relateImpl_transpose_closed (.point p) b rfl hz rfl hc, h1, relateSpec_transpose (.point p) b]

/-- the point where a hole touches the shell, a point in the hole, a point shared by two members of a MultiPolygon -/
example : relateImpl (.point ⟨2, 0⟩) (.polygon ⟨[⟨0, 0⟩, ⟨4, 0⟩, ⟨4, 4⟩, ⟨0, 4⟩, ⟨0, 0⟩], [[⟨2, 0⟩, ⟨3, 2⟩, ⟨1, 2⟩, ⟨2, 0⟩]]⟩) =
    relateSpec (.point ⟨2, 0⟩) (.polygon ⟨[⟨0, 0⟩, ⟨4, 0⟩, ⟨4, 4⟩, ⟨0, 4⟩, ⟨0, 0⟩], [[⟨2, 0⟩, ⟨3, 2⟩, ⟨1, 2⟩, ⟨2, 0⟩]]⟩) :=
  (relateImpl_point_eq_spec_extendedType_partial _ _ (by decide +kernel) rfl).1

example : relateImpl (.point ⟨2, 1⟩) (.polygon ⟨[⟨0, 0⟩, ⟨4, 0⟩, ⟨4, 4⟩, ⟨0, 4⟩, ⟨0, 0⟩], [[⟨2, 0⟩, ⟨3, 2⟩, ⟨1, 2⟩, ⟨2, 0⟩]]⟩) =
    relateSpec (.point ⟨2, 1⟩) (.polygon ⟨[⟨0, 0⟩, ⟨4, 0⟩, ⟨4, 4⟩, ⟨0, 4⟩, ⟨0, 0⟩], [[⟨2, 0⟩, ⟨3, 2⟩, ⟨1, 2⟩, ⟨2, 0⟩]]⟩) :=
  (relateImpl_point_eq_spec_extendedType_partial _ _ (by decide +kernel) rfl).1

example : relateImpl (.multiPolygon [⟨[⟨0, 0⟩, ⟨4, 0⟩, ⟨4, 4⟩, ⟨0, 4⟩, ⟨0, 0⟩], []⟩, ⟨[⟨4, 4⟩, ⟨8, 4⟩, ⟨8, 8⟩, ⟨4, 8⟩, ⟨4, 4⟩], []⟩])
      (.point ⟨4, 4⟩) =
    relateSpec (.multiPolygon [⟨[⟨0, 0⟩, ⟨4, 0⟩, ⟨4, 4⟩, ⟨0, 4⟩, ⟨0, 0⟩], []⟩, ⟨[⟨4, 4⟩, ⟨8, 4⟩, ⟨8, 8⟩, ⟨4, 8⟩, ⟨4, 4⟩], []⟩])
      (.point ⟨4, 4⟩) :=
  (relateImpl_point_eq_spec_extendedType_partial _ _ (by decide +kernel) rfl).2

/-! ### `Point × MultiPoint`; `Point × B` for every `B` that is not a GeometryCollection -/

/-- [T] **`relate(Point p, MultiPoint qs) = relateSpec`, the whole matrix, on the graph path** (any arithmetic, any
coordinate list): `B` has no edge; the nodes of `B` away from `p` contribute (0, E, I), nothing lands on a boundary. -/
theorem relateImpl_point_multiPoint_graph (ar : Arith) (p : Pt) (qs : List Pt) {m : IM}
    (h : relateGraph ar (.point p) (.multiPoint qs) = some m) : m = relateSpec (.point p) (.multiPoint qs) :=
  point_multiPoint_graph ar p qs h

example : ∀ m, relateGraph Arith.exact (.point ⟨1, 1⟩) (.multiPoint [⟨0, 0⟩, ⟨1, 1⟩, ⟨1, 1⟩, ⟨2, 2⟩]) = some m →
    m = relateSpec (.point ⟨1, 1⟩) (.multiPoint [⟨0, 0⟩, ⟨1, 1⟩, ⟨1, 1⟩, ⟨2, 2⟩]) :=
  fun _ h => relateImpl_point_multiPoint_graph _ _ _ h

/-- [T] **`relateImpl (Point p) B = relateSpec (Point p) B` and `relateImpl B (Point p) = relateSpec B (Point p)` for
EVERY `B` of the validity domain that is not a GeometryCollection** — Point, MultiPoint, Line, LineString,
MultiLineString, Polygon, MultiPolygon, Rect, Triangle; the whole matrix, both paths, the total function. The only
hypothesis is the property's own domain.
Full statement (collections too): rows / columns Interior and Boundary are proved for one-kind collections
(`relateImpl_point_rows_eq_spec_allTypes_partial`), the whole matrix on the graph path for collections of linear members
(`relateImpl_point_linear_graph_eq_spec`); missing: `DimsSpec` of a collection (shortcut path), the Exterior row of
areal / point collections, collections mixing kinds (only with empty members). -/
theorem relateImpl_point_eq_spec_noCollection_partial (p : Pt) (b : Geom) (hd : inDomain b = true)
    (ht : notCollection b = true) :
    relateImpl (.point p) b = relateSpec (.point p) b ∧ relateImpl b (.point p) = relateSpec b (.point p) := by
  have key : ∀ (hz : noZeroLine b = true) (hc : ringsClosed b = true),
      (envelopesMeet (.point p) b = true →
        ∀ m, relateGraph Arith.exact (.point p) b = some m → m = relateSpec (.point p) b) →
      relateImpl (.point p) b = relateSpec (.point p) b ∧ relateImpl b (.point p) = relateSpec b (.point p) := by
    intro hz hc hgraph
    have hs := relateImpl_never_panics (.point p) b rfl hz rfl hc
    have h1 : relateImpl (.point p) b = relateSpec (.point p) b := by
      obtain ⟨m, hm⟩ := Option.isSome_iff_exists.1 hs
      unfold relateImpl
      rw [hm]
      show m = relateSpec (.point p) b
      cases henv : envelopesMeet (.point p) b with
      | true =>
        apply hgraph henv
        unfold relateImpl? relateImplWith at hm
        rw [henv, if_pos rfl] at hm
        exact hm
      | false =>
        have := relateImpl_disjoint_eq_spec_noCollection_partial Arith.exact (a := .point p) (b := b) rfl hd rfl ht henv
        unfold relateImpl? at hm
        rw [this] at hm
        exact (Option.some.inj hm).symm
    exact ⟨h1, by rw [relateImpl_transpose_closed (.point p) b rfl hz rfl hc, h1, relateSpec_transpose (.point p) b]⟩
  cases b with
  | point q =>
    apply key rfl rfl
    intro henv m hm
    have h0 := relateImpl_point_point Arith.exact p q
    unfold relateImplWith at h0
    rw [henv, if_pos rfl, hm] at h0
    exact Option.some.inj h0
  | multiPoint qs => exact key rfl rfl (fun _ m hm => relateImpl_point_multiPoint_graph _ p qs hm)
  | collection _ => cases ht
  | line a c => exact relateImpl_point_eq_spec_extendedType_partial p _ hd rfl
  | lineString cs => exact relateImpl_point_eq_spec_extendedType_partial p _ hd rfl
  | multiLineString ls => exact relateImpl_point_eq_spec_extendedType_partial p _ hd rfl
  | polygon q => exact relateImpl_point_eq_spec_extendedType_partial p _ hd rfl
  | multiPolygon ps => exact relateImpl_point_eq_spec_extendedType_partial p _ hd rfl
  | rect mn mx => exact relateImpl_point_eq_spec_extendedType_partial p _ hd rfl
  | triangle a c e => exact relateImpl_point_eq_spec_extendedType_partial p _ hd rfl

/-- a MultiPoint with a repeated point against one of its points; a polygon with a hole against a point in the hole;
an empty LineString -/
example : relateImpl (.point ⟨1, 1⟩) (.multiPoint [⟨0, 0⟩, ⟨1, 1⟩, ⟨1, 1⟩]) =
    relateSpec (.point ⟨1, 1⟩) (.multiPoint [⟨0, 0⟩, ⟨1, 1⟩, ⟨1, 1⟩]) :=
  (relateImpl_point_eq_spec_noCollection_partial _ _ rfl rfl).1

example : relateImpl (.polygon ⟨[⟨0, 0⟩, ⟨4, 0⟩, ⟨4, 4⟩, ⟨0, 4⟩, ⟨0, 0⟩], [[⟨1, 1⟩, ⟨2, 1⟩, ⟨2, 2⟩, ⟨1, 1⟩]]⟩) (.point ⟨7/4, 5/4⟩) =
    relateSpec (.polygon ⟨[⟨0, 0⟩, ⟨4, 0⟩, ⟨4, 4⟩, ⟨0, 4⟩, ⟨0, 0⟩], [[⟨1, 1⟩, ⟨2, 1⟩, ⟨2, 2⟩, ⟨1, 1⟩]]⟩) (.point ⟨7/4, 5/4⟩) :=
  (relateImpl_point_eq_spec_noCollection_partial _ _ (by decide +kernel) rfl).2

example : relateImpl (.point ⟨1, 1⟩) (.lineString []) = relateSpec (.point ⟨1, 1⟩) (.lineString []) :=
  (relateImpl_point_eq_spec_noCollection_partial _ _ rfl rfl).1

/-- [T] **GeometryCollections of linear members, or of point members (nested ones included): `relate(Point p, B) =
relateSpec (Point p) B`, the whole matrix, on the graph path** (a linear collection with a bounding rectangle has an
edge: `long_of_boundingRect_lin`). Full statement (both paths, areal and mixed collections): needs `DimsSpec` of a
collection for the shortcut path and for the Exterior row of areal collections. -/
theorem relateImpl_point_collection_graph_eq_spec_partial (p : Pt) (b : Geom) (hd : inDomain b = true)
    (hk : linOk b = true ∨ ptOk b = true) (henv : envelopesMeet (.point p) b = true) {m : IM}
    (h : relateGraph Arith.exact (.point p) b = some m) : m = relateSpec (.point p) b := by
  rcases hk with hk | hk
  · exact point_linOk_graph p b hd hk henv h
  · exact point_ptOk_graph _ p b hd hk h

/-- a collection of a segment and a line string against the end point of the segment; a collection of points -/
example : ∀ m, relateGraph Arith.exact (.point ⟨4, 0⟩)
      (.collection [.line ⟨0, 0⟩ ⟨4, 0⟩, .collection [.lineString [⟨5, 0⟩, ⟨5, 3⟩, ⟨6, 3⟩]]]) = some m →
    m = relateSpec (.point ⟨4, 0⟩) (.collection [.line ⟨0, 0⟩ ⟨4, 0⟩, .collection [.lineString [⟨5, 0⟩, ⟨5, 3⟩, ⟨6, 3⟩]]]) :=
  fun _ h => relateImpl_point_collection_graph_eq_spec_partial _ _ (by decide +kernel) (Or.inl rfl) (by decide +kernel) h

example : ∀ m, relateGraph Arith.exact (.point ⟨1, 1⟩)
      (.collection [.point ⟨0, 0⟩, .multiPoint [⟨1, 1⟩, ⟨2, 2⟩]]) = some m →
    m = relateSpec (.point ⟨1, 1⟩) (.collection [.point ⟨0, 0⟩, .multiPoint [⟨1, 1⟩, ⟨2, 2⟩]]) :=
  fun _ h => relateImpl_point_collection_graph_eq_spec_partial _ _ (by decide +kernel) (Or.inr rfl) (by decide +kernel) h

/-! ### Line × Line and linear × linear: the cells of the specification that involve a boundary -/

/-- [T] **linear × linear (any two lists of curves — Line, LineString, MultiLineString operands): every cell with a
boundary in it — IB, BI, BB, BE, EB — is `0` exactly when some point has that pair of locations, `F` otherwise**
(`cell_complete` for these five cells: a boundary point of a linear operand is an end point of a curve, hence a vertex
of the arrangement; an elementary midpoint is not a vertex; face samples are outside of linear operands). -/
theorem relateSpec_linear_boundary_cells (ls ms : List (List Pt)) (X Y : Pos) (hXY : X = .onBoundary ∨ Y = .onBoundary) :
    ((relateSpec (.multiLineString ls) (.multiLineString ms)).get X Y = .zero ↔
      ∃ v, locate (.multiLineString ls) v = X ∧ locate (.multiLineString ms) v = Y) ∧
    ((relateSpec (.multiLineString ls) (.multiLineString ms)).get X Y = .empty ↔
      ¬ ∃ v, locate (.multiLineString ls) v = X ∧ locate (.multiLineString ms) v = Y) :=
  linear_cell_boundary_zero ls ms X Y hXY

/-- two line strings meeting at an end point of both: BB = 0 -/
example : (relateSpec (.multiLineString [[⟨0, 0⟩, ⟨2, 0⟩]]) (.multiLineString [[⟨2, 0⟩, ⟨2, 2⟩]])).get .onBoundary .onBoundary = .zero :=
  (relateSpec_linear_boundary_cells _ _ _ _ (Or.inl rfl)).1.2 ⟨⟨2, 0⟩, by decide +kernel, by decide +kernel⟩

/-- [T] **Line × Line, the cells BB, IB, BI, BE, EB** (non-degenerate segments; with II — `relateSpec_line_line_ii`,
`relateSpec_line_line_ii_one` — and `EE = 2` seven of the nine cells; IE / EI: `relateSpec_line_line_exterior_cells`
below): BB = 0 iff the segments share an end point; IB = 0 iff an end point of the
second lies in the open first segment (BI: transposed); BE = 0 iff an end point of the first is off the second (EB:
transposed); `F` otherwise. -/
theorem relateSpec_line_line_boundary_cells (a b c d : Pt) (hab : a ≠ b) (hcd : c ≠ d) :
    (((relateSpec (.line a b) (.line c d)).bb = .zero ↔ (a = c ∨ a = d ∨ b = c ∨ b = d)) ∧
      ((relateSpec (.line a b) (.line c d)).bb = .empty ↔ ¬ (a = c ∨ a = d ∨ b = c ∨ b = d))) ∧
    (((relateSpec (.line a b) (.line c d)).ib = .zero ↔ (Spec.SegInt c a b ∨ Spec.SegInt d a b)) ∧
      ((relateSpec (.line a b) (.line c d)).ib = .empty ↔ ¬ (Spec.SegInt c a b ∨ Spec.SegInt d a b))) ∧
    (((relateSpec (.line a b) (.line c d)).bi = .zero ↔ (Spec.SegInt a c d ∨ Spec.SegInt b c d)) ∧
      ((relateSpec (.line a b) (.line c d)).bi = .empty ↔ ¬ (Spec.SegInt a c d ∨ Spec.SegInt b c d))) ∧
    (((relateSpec (.line a b) (.line c d)).be = .zero ↔
        (locate (.line c d) a = .outside ∨ locate (.line c d) b = .outside)) ∧
      ((relateSpec (.line a b) (.line c d)).be = .empty ↔
        ¬ (locate (.line c d) a = .outside ∨ locate (.line c d) b = .outside))) ∧
    (((relateSpec (.line a b) (.line c d)).eb = .zero ↔
        (locate (.line a b) c = .outside ∨ locate (.line a b) d = .outside)) ∧
      ((relateSpec (.line a b) (.line c d)).eb = .empty ↔
        ¬ (locate (.line a b) c = .outside ∨ locate (.line a b) d = .outside))) := by
  have ht : relateSpec (.line a b) (.line c d) = (relateSpec (.line c d) (.line a b)).transpose :=
    relateSpec_transpose (.line c d) (.line a b)
  refine ⟨line_line_bb a b c d hab hcd, line_line_ib a b c d hab hcd, ?_, line_line_be a b c d hab, ?_⟩
  · have h1 : ∀ m : IM, m.transpose.bi = m.ib := fun _ => rfl
    rw [ht, h1]
    exact line_line_ib c d a b hcd hab
  · have h1 : ∀ m : IM, m.transpose.eb = m.be := fun _ => rfl
    rw [ht, h1]
    exact line_line_be c d a b hcd

/-- a T junction: the end point (1, 0) of the second segment lies in the open first segment -/
example : (relateSpec (.line ⟨0, 0⟩ ⟨2, 0⟩) (.line ⟨1, 0⟩ ⟨1, 2⟩)).ib = .zero :=
  (relateSpec_line_line_boundary_cells _ _ _ _ (by simp) (by simp)).2.1.1.2
    (Or.inl ⟨⟨1/2, by norm_num, by norm_num, by norm_num, by norm_num⟩, by simp, by simp⟩)

/-- [T] **Line × Line, the cells IE, EI, EE — all nine cells of the specification for two non-degenerate segments are
now characterised by point-set conditions** (`cell_complete` for Line × Line): IE = 1 iff some point of the open first
segment is off the second (never 0: such a point is not a vertex of the arrangement — the vertices are the four end
points and the single intersection point — so the midpoint of its elementary sub-segment has the same two locations,
C02X `locate_const`), `F` otherwise; EI: transposed; EE = 2. -/
theorem relateSpec_line_line_exterior_cells (a b c d : Pt) (hab : a ≠ b) (hcd : c ≠ d) :
    (((relateSpec (.line a b) (.line c d)).ie = .one ↔ ∃ x, Spec.SegInt x a b ∧ ¬ Geo.Proofs.Kernel.SegMem x c d) ∧
      ((relateSpec (.line a b) (.line c d)).ie = .empty ↔ ¬ ∃ x, Spec.SegInt x a b ∧ ¬ Geo.Proofs.Kernel.SegMem x c d)) ∧
    (((relateSpec (.line a b) (.line c d)).ei = .one ↔ ∃ x, Spec.SegInt x c d ∧ ¬ Geo.Proofs.Kernel.SegMem x a b) ∧
      ((relateSpec (.line a b) (.line c d)).ei = .empty ↔ ¬ ∃ x, Spec.SegInt x c d ∧ ¬ Geo.Proofs.Kernel.SegMem x a b)) ∧
    (relateSpec (.line a b) (.line c d)).ee = .two := by
  have ht : relateSpec (.line a b) (.line c d) = (relateSpec (.line c d) (.line a b)).transpose :=
    relateSpec_transpose (.line c d) (.line a b)
  refine ⟨line_line_ie a b c d hab, ?_, ?_⟩
  · have h1 : ∀ m : IM, m.transpose.ei = m.ie := fun _ => rfl
    rw [ht, h1]
    exact line_line_ie c d a b hcd
  · have : (relateSpec (.line a b) (.line c d)).get .outside .outside = .two := by
      unfold relateSpec
      rw [Spec.relateParts_eq, get_set, if_pos ⟨rfl, rfl⟩]
    exact this

/-- a segment sticking out of another: IE = 1; a sub-segment: IE = F -/
example : (relateSpec (.line ⟨0, 0⟩ ⟨4, 0⟩) (.line ⟨1, 0⟩ ⟨2, 0⟩)).ie = .one :=
  (relateSpec_line_line_exterior_cells _ _ _ _ (by simp) (by simp)).1.1.2
    ⟨⟨3, 0⟩, ⟨⟨3/4, by norm_num, by norm_num, by norm_num, by norm_num⟩, by simp, by simp⟩, by
      rintro ⟨t, h0, h1, hx, _⟩
      simp at hx
      linarith⟩

end Impl3

end Geo.Proofs.C01
