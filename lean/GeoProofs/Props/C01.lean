/-
  C01 — relate() returns the true DE-9IM matrix.
  Property theorems only. Model: GeoModel/RelateSpec.lean (executable specification of DE-9IM),
  GeoModel/Valid.lean (domain).
-/
import GeoModel.RelateSpec

namespace Geo.Proofs.C01
open Geo

/-- [T] transposition is an involution. -/
theorem transpose_transpose (m : IM) : m.transpose.transpose = m := by
  cases m; rfl

/-- [T] reading a cell of the transposed matrix = reading the mirrored cell. -/
theorem transpose_get (m : IM) (a b : Pos) : m.transpose.get a b = m.get b a := by
  cases m; cases a <;> cases b <;> rfl

/-- [T] `set` then `get`. -/
theorem get_set (m : IM) (a b a' b' : Pos) (d : Dim) :
    (m.set a b d).get a' b' = if a = a' ∧ b = b' then d else m.get a' b' := by
  cases m; cases a <;> cases b <;> cases a' <;> cases b' <;> simp [IM.set, IM.get]

/-- [T] `set_at_least` only ever raises the addressed cell to the maximum of old and new. -/
theorem get_setAtLeast (m : IM) (a b a' b' : Pos) (d : Dim) :
    (m.setAtLeast a b d).get a' b' =
      if a = a' ∧ b = b' then (if (m.get a b).rank < d.rank then d else m.get a b) else m.get a' b' := by
  unfold IM.setAtLeast
  split
  · rw [get_set]
  · by_cases h : a = a' ∧ b = b'
    · obtain ⟨rfl, rfl⟩ := h; simp
    · simp [h]

/-- [T] `set_at_least` commutes with transposition. -/
theorem setAtLeast_transpose (m : IM) (a b : Pos) (d : Dim) :
    (m.setAtLeast a b d).transpose = m.transpose.setAtLeast b a d := by
  unfold IM.setAtLeast
  rw [transpose_get]
  split
  · cases m; cases a <;> cases b <;> rfl
  · rfl

/-- [T] the disjoint-envelope shortcut is symmetric: swapping the operands transposes it. -/
theorem computeDisjoint_transpose (da ba db bb : Dim) :
    (computeDisjoint da ba db bb).transpose = computeDisjoint db bb da ba := by
  cases da <;> cases ba <;> cases db <;> cases bb <;> rfl

/-- [T] the DE-9IM string has nine characters, row-major (II IB IE BI BB BE EI EB EE). -/
theorem str_length (m : IM) : m.str.length = 9 := by
  simp [IM.str]

end Geo.Proofs.C01
