import GeoProofs.Props.C18
import GeoProofs.Props.C19
