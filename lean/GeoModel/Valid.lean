/-
  GeoModel.Valid — the *domain* of the topological properties: OGC validity / simplicity,
  decided exactly, by definitions that do not mention geo's own validation code (that code is
  the subject of C14). Used to decide whether a generated case lies inside a property's domain.
-/
import GeoModel.RelateSpec

namespace Geo

def dedupConsecutive : List Pt → List Pt
  | a :: b :: rest => if a == b then dedupConsecutive (b :: rest) else a :: dedupConsecutive (b :: rest)
  | l => l

/-- two segments that are consecutive along a path: they may share exactly the common vertex `v` -/
def adjacentOk (s t : Pt × Pt) (v : Pt) : Bool :=
  match lineIntersection s.1 s.2 t.1 t.2 with
  | some (.single p _) => p == v
  | _ => false

/-- all pairs `(i, j)`, `i < j`, of an indexed segment list satisfy `ok i j si sj` -/
def allPairs (ss : List (Pt × Pt)) (ok : Nat → Nat → (Pt × Pt) → (Pt × Pt) → Bool) : Bool :=
  let idx := ss.zipIdx
  idx.all (fun (s, i) => idx.all (fun (t, j) => if i < j then ok i j s t else true))

/-- a simple closed ring: closed, at least 3 distinct vertices, no two edges meet except
consecutive ones at their common vertex -/
def ringSimple (r0 : List Pt) : Bool :=
  let r := dedupConsecutive r0
  let ss := segs r
  let n := ss.length
  decide (r.head? = r.getLast?) && n ≥ 3 &&
  allPairs ss (fun i j s t =>
    if j == i + 1 then adjacentOk s t s.2
    else if i == 0 && j + 1 == n then adjacentOk t s t.2
    else !lineLine s.1 s.2 t.1 t.2)

/-- a simple line string (open, or closed at its end points only) with ≥ 2 distinct vertices -/
def lineStringSimple (c0 : List Pt) : Bool :=
  let c := dedupConsecutive c0
  let ss := segs c
  let n := ss.length
  let closed := decide (c.head? = c.getLast?)
  n ≥ 1 && (!closed || n ≥ 3) &&
  allPairs ss (fun i j s t =>
    if j == i + 1 then adjacentOk s t s.2
    else if closed && i == 0 && j + 1 == n then adjacentOk t s t.2
    else !lineLine s.1 s.2 t.1 t.2)

def dimLe0 (d : Dim) : Bool := d.rank ≤ 1

def polyOf (ring : List Pt) : Parts := ⟨[], [], [⟨ring, []⟩]⟩

/-! #### connected interior: the rings / touch-points incidence graph must be a forest -/

/-- component label of ring `i` (labels are merged by relabelling) -/
def mergeLabels (labels : List Nat) (a b : Nat) : List Nat := labels.map (fun l => if l == b then a else l)

/-- Process one touch point incident to rings `rs`: returns `none` if two of them were already
connected (a cycle ⇒ the rings enclose a part of the interior), else the merged labelling. -/
def joinAt (labels : List Nat) : List Nat → Option (List Nat)
  | [] => some labels
  | [_] => some labels
  | r1 :: r2 :: rest =>
    match labels[r1]?, labels[r2]? with
    | some l1, some l2 =>
      if l1 == l2 then none else joinAt (mergeLabels labels l1 l2) (r2 :: rest)
    | _, _ => some labels

def joinAll (labels : List Nat) : List (List Nat) → Bool
  | [] => true
  | rs :: rest => match joinAt labels rs with
    | none => false
    | some l => joinAll l rest

/-- The interior of a polygon whose rings are simple and touch only at points is connected iff
the bipartite incidence graph (rings, touch points) has no cycle. -/
def interiorConnected (p : Poly) : Bool :=
  let rings := p.rings.map dedupConsecutive
  let touch := dedupPts (rings.zipIdx.flatMap (fun (r, i) =>
    r.filter (fun v => rings.zipIdx.any (fun (r', j) => i != j && onAnySeg v (segs r')))))
  let incident := touch.map (fun v => (rings.zipIdx.filter (fun (r, _) => onAnySeg v (segs r))).map (·.2))
  joinAll (List.range rings.length) incident

/-- OGC-valid polygon -/
def polyValid (p : Poly) : Bool :=
  polyValidRings p && interiorConnected p
where polyValidRings (p : Poly) : Bool :=
  ringSimple p.ext && p.ints.all ringSimple &&
  p.ints.all (fun h =>
    let m := relateParts (polyOf h) (polyOf p.ext)
    m.ii != .empty && m.ie == .empty && m.be == .empty && dimLe0 m.bb) &&
  allPairs (p.ints.map (fun h => (h.headD ⟨0, 0⟩, h.headD ⟨0, 0⟩))) (fun i j _ _ =>
    match p.ints[i]?, p.ints[j]? with
    | some h1, some h2 =>
      let m := relateParts (polyOf h1) (polyOf h2)
      m.ii == .empty && dimLe0 m.bb
    | _, _ => true)

def partsOfPoly (p : Poly) : Parts := ⟨[], [], [p]⟩

def multiPolyValid (ps : List Poly) : Bool :=
  ps.all polyValid &&
  allPairs (ps.map (fun _ => ((⟨0, 0⟩ : Pt), (⟨0, 0⟩ : Pt)))) (fun i j _ _ =>
    match ps[i]?, ps[j]? with
    | some p1, some p2 =>
      let m := relateParts (partsOfPoly p1) (partsOfPoly p2)
      m.ii == .empty && dimLe0 m.bb
    | _, _ => true)

def multiLineValid (ls : List (List Pt)) : Bool :=
  ls.all lineStringSimple &&
  allPairs (ls.map (fun _ => ((⟨0, 0⟩ : Pt), (⟨0, 0⟩ : Pt)))) (fun i j _ _ =>
    match ls[i]?, ls[j]? with
    | some l1, some l2 =>
      let m := relateParts ⟨[], [l1], []⟩ ⟨[], [l2], []⟩
      m.ii == .empty && m.ib == .empty && m.bi == .empty
    | _, _ => true)

mutual
/-- the geometry is valid (simple linework, valid areal members, non-degenerate Rect/Triangle/Line) -/
def validGeom : Geom → Bool
  | .point _ => true
  | .line a b => a != b
  | .lineString cs => cs.isEmpty || lineStringSimple cs
  | .polygon p => (p.ext.isEmpty && p.ints.isEmpty) || polyValid p
  | .multiPoint _ => true
  | .multiLineString ls => multiLineValid ls
  | .multiPolygon ps => multiPolyValid ps
  | .rect mn mx => decide (mn.x < mx.x) && decide (mn.y < mx.y)
  | .triangle a b c => orient a b c != .col
  | .collection gs => validList gs
def validList : List Geom → Bool
  | [] => true
  | g :: gs => validGeom g && validList gs
end

/-- members of a collection are pairwise disjoint and of one dimension -/
def collectionOk (gs : List Geom) : Bool :=
  let ds := (gs.filter (fun g => !isEmptyG g)).map dims
  (match ds with | [] => true | d :: rest => rest.all (· == d)) &&
  allPairs (gs.map (fun _ => ((⟨0, 0⟩ : Pt), (⟨0, 0⟩ : Pt)))) (fun i j _ _ =>
    match gs[i]?, gs[j]? with
    | some g1, some g2 =>
      let m := relateSpec g1 g2
      m.ii == .empty && m.ib == .empty && m.bi == .empty && m.bb == .empty
    | _, _ => true)

mutual
/-- in the domain of the DE-9IM properties: valid, and collections only with pairwise disjoint
members of a single dimension (nested collections likewise) -/
def inDomain : Geom → Bool
  | .collection gs => collectionOk gs && inDomainList gs
  | g => validGeom g
def inDomainList : List Geom → Bool
  | [] => true
  | g :: gs => inDomain g && inDomainList gs
end

end Geo
