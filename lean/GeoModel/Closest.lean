/-
  GeoModel.Closest — C12 (first half): `ClosestPoint::closest_point` over exact rationals.

  Anchors: geo/src/algorithm/closest_point.rs (impls for Point, Line, LineString, Polygon,
           Triangle, Rect, Multi*, GeometryCollection, Geometry; `closest_of`),
           geo/src/types.rs (`Closest`, `Closest::best_of_two`),
           geo/src/algorithm/intersects/{line,rect,triangle,polygon}.rs (the `intersects(p)`
           kernels: `lineCoord`, `rectCoord`, `triCoord`, `coordPos ≠ Outside`).

  Distances are compared *squared* (`Euclidean.distance(a, p) <= Euclidean.distance(b, p)` is
  monotone in the squared distance); `Euclidean.length(line) == 0` is `start == end`.
-/
import GeoModel.Segment
import GeoModel.Locate

namespace Geo.CP
open Geo

/-- `enum Closest<F>` -/
inductive Closest where
  | intersection (p : Pt)
  | single (p : Pt)
  | indeterminate
  deriving DecidableEq, Repr, Inhabited

def Closest.str : Closest → String
  | .intersection p => "Intersection " ++ p.str
  | .single p => "SinglePoint " ++ p.str
  | .indeterminate => "Indeterminate"

def Closest.isIntersection : Closest → Bool
  | .intersection _ => true
  | _ => false

def Closest.pt? : Closest → Option Pt
  | .intersection p => some p
  | .single p => some p
  | .indeterminate => none

/-- `Point::dot` -/
def dot (a b : Pt) : Rat := a.x * b.x + a.y * b.y

/-- the parameter `t` of the projection of `p` on the line through `a`, `b` -/
def lineParam (a b p : Pt) : Rat := dot (p - a) (b - a) / dot (b - a) (b - a)

/-- `start + (t * x, t * y)` -/
def lineAt (a b : Pt) (t : Rat) : Pt := ⟨a.x + t * (b.x - a.x), a.y + t * (b.y - a.y)⟩

/-- `impl ClosestPoint for Line`: zero length ⇒ `Indeterminate`; `t < 0` ⇒ start; `t > 1` ⇒ end;
otherwise the projection `c`, reported as `Intersection(c)` when `self.intersects(p)`. -/
def lineClosest (a b p : Pt) : Closest :=
  if a = b then .indeterminate else
  let t := lineParam a b p
  if t < 0 then .single a
  else if t > 1 then .single b
  else
    let c := lineAt a b t
    if lineCoord a b p then .intersection c else .single c

/-- `Closest::best_of_two(&self, other, p)`; ties keep `self`. -/
def bestOfTwo (self other : Closest) (p : Pt) : Closest :=
  match self with
  | .indeterminate => other
  | .intersection _ => self
  | .single l =>
    match other with
    | .indeterminate => self
    | .intersection _ => other
    | .single r => if dist2 l p ≤ dist2 r p then self else other

/-- the loop of `closest_of` over the already evaluated elements, with the running `best`:
`best = got.best_of_two(&best, p)` and the early return on `Intersection`. -/
def closestFold (p : Pt) : List Closest → Closest → Closest
  | [], best => best
  | got :: rest, best =>
    let b := bestOfTwo got best p
    if b.isIntersection then b else closestFold p rest b

/-- `closest_of(iter, p)` -/
def closestOf {α : Type} (f : α → Closest) (p : Pt) (l : List α) : Closest :=
  closestFold p (l.map f) .indeterminate

def pointClosest (q p : Pt) : Closest := if q = p then .intersection q else .single q

/-- `impl ClosestPoint for LineString`: `closest_of(self.lines(), p)` -/
def lsClosest (cs : List Pt) (p : Pt) : Closest :=
  closestOf (fun (s : Pt × Pt) => lineClosest s.1 s.2 p) p (segs cs)

/-- `impl ClosestPoint for Polygon`: `intersects(p)` first (`coordinate_position != Outside`),
then the interiors chained with the exterior. -/
def polyClosest (poly : Poly) (p : Pt) : Closest :=
  if coordPos (.polygon poly) p != .outside then .intersection p
  else closestOf (fun r => lsClosest r p) p (poly.ints ++ [poly.ext])

/-- `Triangle::to_lines` -/
def triLines (a b c : Pt) : List (Pt × Pt) := [(a, b), (b, c), (c, a)]

def triClosest (a b c p : Pt) : Closest :=
  if triCoord a b c p then .intersection p
  else closestOf (fun (s : Pt × Pt) => lineClosest s.1 s.2 p) p (triLines a b c)

def rectClosest (mn mx p : Pt) : Closest :=
  if rectCoord mn mx p then .intersection p
  else closestOf (fun (s : Pt × Pt) => lineClosest s.1 s.2 p) p (SM.rectToLines ⟨mn, mx⟩)

mutual
/-- `impl ClosestPoint for Geometry` (delegation) and the per-type impls -/
def closest : Geom → Pt → Closest
  | .point q, p => pointClosest q p
  | .line a b, p => lineClosest a b p
  | .lineString cs, p => lsClosest cs p
  | .polygon poly, p => polyClosest poly p
  | .multiPoint qs, p => closestOf (fun q => pointClosest q p) p qs
  | .multiLineString ls, p => closestOf (fun cs => lsClosest cs p) p ls
  | .multiPolygon ps, p => closestOf (fun poly => polyClosest poly p) p ps
  | .rect mn mx, p => rectClosest mn mx p
  | .triangle a b c, p => triClosest a b c p
  | .collection gs, p => closestFold p (closestList gs p) .indeterminate
/-- the elements of a `GeometryCollection`, each evaluated -/
def closestList : List Geom → Pt → List Closest
  | [], _ => []
  | g :: gs, p => closest g p :: closestList gs p
end

/-! ### The kernel-level `intersects(point)` this code relies on -/

/-- does `p` lie on some non-degenerate segment of the list (a zero-length `Line` answers
`Indeterminate` before it is asked whether it intersects) -/
def onSegsNZ (ss : List (Pt × Pt)) (p : Pt) : Bool :=
  ss.any (fun s => s.1 != s.2 && lineCoord s.1 s.2 p)

def polyHits (poly : Poly) (p : Pt) : Bool :=
  coordPos (.polygon poly) p != .outside || (poly.ints ++ [poly.ext]).any (fun r => onSegsNZ (segs r) p)

mutual
/-- the condition under which `closest_point` answers `Intersection` -/
def hits : Geom → Pt → Bool
  | .point q, p => q == p
  | .line a b, p => a != b && lineCoord a b p
  | .lineString cs, p => onSegsNZ (segs cs) p
  | .polygon poly, p => polyHits poly p
  | .multiPoint qs, p => qs.any (· == p)
  | .multiLineString ls, p => ls.any (fun cs => onSegsNZ (segs cs) p)
  | .multiPolygon ps, p => ps.any (fun poly => polyHits poly p)
  | .rect mn mx, p => rectCoord mn mx p || onSegsNZ (SM.rectToLines ⟨mn, mx⟩) p
  | .triangle a b c, p => triCoord a b c p || onSegsNZ (triLines a b c) p
  | .collection gs, p => hitsList gs p
def hitsList : List Geom → Pt → Bool
  | [], _ => false
  | g :: gs, p => hits g p || hitsList gs p
end

/-! ### Candidate sets (what the fold ranges over) -/

def Poly.ringSegs (poly : Poly) : List (Pt × Pt) := (poly.ints ++ [poly.ext]).flatMap segs

mutual
/-- all segments the fold looks at -/
def segSet : Geom → List (Pt × Pt)
  | .point _ => []
  | .line a b => [(a, b)]
  | .lineString cs => segs cs
  | .polygon poly => Poly.ringSegs poly
  | .multiPoint _ => []
  | .multiLineString ls => ls.flatMap segs
  | .multiPolygon ps => ps.flatMap Poly.ringSegs
  | .rect mn mx => SM.rectToLines ⟨mn, mx⟩
  | .triangle a b c => triLines a b c
  | .collection gs => segSetList gs
def segSetList : List Geom → List (Pt × Pt)
  | [] => []
  | g :: gs => segSet g ++ segSetList gs
end

mutual
/-- all isolated points the fold looks at -/
def ptSet : Geom → List Pt
  | .point q => [q]
  | .multiPoint qs => qs
  | .collection gs => ptSetList gs
  | _ => []
def ptSetList : List Geom → List Pt
  | [] => []
  | g :: gs => ptSet g ++ ptSetList gs
end

end Geo.CP
