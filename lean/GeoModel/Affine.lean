/-
  GeoModel.Affine — C13: the 3×3 homogeneous affine matrix of geo, its algebra, its
  constructors and the trait layers built on it.

  Anchors: geo/src/algorithm/affine_ops.rs (`AffineTransform::{new, identity, compose,
           compose_many, apply, inverse, scale, translate, rotate, skew, *ed}`, `AffineOps`),
           geo/src/algorithm/{rotate,scale,skew,translate}.rs (blanket trait impls),
           geo-types/src/geometry/rect.rs (`Rect::center`).

  The scalar type is a parameter `K`, exactly as `T: CoordNum` is in the Rust code. The same
  definitions are executed at
    * `Rat`  — the exact model;
    * `Int`  — the integer scalar types (`i32`/`i64`; the division is the truncating one);
    * `Fx`   — "checked binary64": a rational that is poisoned as soon as one intermediate result
               of the expression, evaluated in the order in which the Rust code evaluates it, is
               not exactly representable as an f64. A non-poisoned `Fx` result is therefore what
               IEEE-754 arithmetic returns bit for bit, and the driver demands bit-equality
               exactly then.
  The theorems (GeoProofs/Props/C13.lean) are stated for every commutative ring / field `K`.

  Import-free apart from the model's own files (the driver links this).
-/
import GeoModel.Geom
import GeoModel.Orient
import GeoModel.Traverse

namespace Geo

/-- `AffineTransform<T>([[T; 3]; 3])`, all nine entries as stored. -/
structure Affine (K : Type) where
  m00 : K
  m01 : K
  m02 : K
  m10 : K
  m11 : K
  m12 : K
  m20 : K
  m21 : K
  m22 : K
  deriving DecidableEq, Repr

namespace Affine

variable {K : Type}

section ring
variable [Add K] [Mul K] [Sub K] [OfNat K 0] [OfNat K 1]

/-- `AffineTransform::new(a, b, xoff, d, e, yoff)`: third row `[0, 0, 1]`. -/
def new (a b xoff d e yoff : K) : Affine K := ⟨a, b, xoff, d, e, yoff, 0, 0, 1⟩

/-- `Self([[..; 3]; 3])`: the tuple constructor applied to an array literal (used by the definitions
regenerated from the Rust source, `GeoModel/Gen/AffineGen.lean`). -/
def ofRows (r : (K × K × K) × (K × K × K) × (K × K × K)) : Affine K :=
  ⟨r.1.1, r.1.2.1, r.1.2.2, r.2.1.1, r.2.1.2.1, r.2.1.2.2, r.2.2.1, r.2.2.2.1, r.2.2.2.2⟩

/-- `AffineTransform::identity` -/
def identity : Affine K := new 1 0 0 0 1 0

/-- The type invariant: the matrix field is private and every constructor goes through `new`,
so the third row of every value is `[0, 0, 1]` (see `compose_wf`). -/
def WF (m : Affine K) : Prop := m.m20 = 0 ∧ m.m21 = 0 ∧ m.m22 = 1

/-- `compose(&self, other)`: the matrix product `other * self`, all nine entries exactly as
written (products summed left to right). -/
def compose (self other : Affine K) : Affine K :=
  ⟨ (other.m00 * self.m00) + (other.m01 * self.m10) + (other.m02 * self.m20),
    (other.m00 * self.m01) + (other.m01 * self.m11) + (other.m02 * self.m21),
    (other.m00 * self.m02) + (other.m01 * self.m12) + (other.m02 * self.m22),
    (other.m10 * self.m00) + (other.m11 * self.m10) + (other.m12 * self.m20),
    (other.m10 * self.m01) + (other.m11 * self.m11) + (other.m12 * self.m21),
    (other.m10 * self.m02) + (other.m11 * self.m12) + (other.m12 * self.m22),
    (other.m20 * self.m00) + (other.m21 * self.m10) + (other.m22 * self.m20),
    (other.m20 * self.m01) + (other.m21 * self.m11) + (other.m22 * self.m21),
    (other.m20 * self.m02) + (other.m21 * self.m12) + (other.m22 * self.m22) ⟩

/-- `compose_many(&self, transforms)`: `self.compose(fold(identity, |acc, t| acc.compose(t)))`. -/
def composeMany (self : Affine K) (ts : List (Affine K)) : Affine K :=
  self.compose (ts.foldl (fun acc t => acc.compose t) identity)

/-- `apply(&self, coord)`: uses the first two rows only. -/
def apply (m : Affine K) (x y : K) : K × K :=
  (m.m00 * x + m.m01 * y + m.m02, m.m10 * x + m.m11 * y + m.m12)

/-- `AffineTransform::scale(xfact, yfact, origin)` -/
def scale (xfact yfact x0 y0 : K) : Affine K :=
  let xoff := x0 - (x0 * xfact)
  let yoff := y0 - (y0 * yfact)
  new xfact 0 xoff 0 yfact yoff

/-- `AffineTransform::translate(xoff, yoff)` -/
def translate (xoff yoff : K) : Affine K := new 1 0 xoff 0 1 yoff

/-- `scaled` / `translated`: `self.compose(&Self::…)`. -/
def scaled (self : Affine K) (xfact yfact x0 y0 : K) : Affine K := self.compose (scale xfact yfact x0 y0)
def translated (self : Affine K) (xoff yoff : K) : Affine K := self.compose (translate xoff yoff)

/-- The six public accessors `a b xoff d e yoff`. -/
def entries (m : Affine K) : List K := [m.m00, m.m01, m.m02, m.m10, m.m11, m.m12]

/-- `a * e - b * d` -/
def det (m : Affine K) : K := m.m00 * m.m11 - m.m01 * m.m10

end ring

section neg
variable [Add K] [Mul K] [Sub K] [Neg K] [OfNat K 0] [OfNat K 1]

/-- `AffineTransform::rotate(degrees, origin)` with `(cos θ, sin θ)` as parameters
(`degrees.to_radians().sin_cos()` is libm; the correspondence compares it with an enclosure). -/
def rotate (cosT sinT x0 y0 : K) : Affine K :=
  let xoff := x0 - (x0 * cosT) + (y0 * sinT)
  let yoff := y0 - (x0 * sinT) - (y0 * cosT)
  new cosT (-sinT) xoff sinT cosT yoff

/-- The matrix of `AffineTransform::skew` once `tanx`, `tany` are known (after the clamp). -/
def skewT (tanx tany x0 y0 : K) : Affine K :=
  let xoff := -y0 * tanx
  let yoff := -x0 * tany
  new 1 tanx xoff tany 1 yoff

def rotated (self : Affine K) (c s x0 y0 : K) : Affine K := self.compose (rotate c s x0 y0)

/-- `inverse(&self)`: closed form; `None` iff `determinant == 0`. `div` is the scalar type's
division (`/` of a field for floats, truncating division for `i32`/`i64`). The two
`T::from(..)?` conversions are `T → T` and never fail. -/
def inverseWith [DecidableEq K] (div : K → K → K) (m : Affine K) : Option (Affine K) :=
  let a := m.m00
  let b := m.m01
  let xoff := m.m02
  let d := m.m10
  let e := m.m11
  let yoff := m.m12
  let determinant := a * e - b * d
  if determinant = 0 then none else
  let invDet := div 1 determinant
  some (new (e * invDet) (-b * invDet) ((b * yoff - e * xoff) * invDet)
            (-d * invDet) (a * invDet) ((d * xoff - a * yoff) * invDet))

end neg

/-- `inverse` for a scalar type with a field division (`f32`/`f64`, executed at `Rat`). -/
def inverse [Add K] [Mul K] [Sub K] [Neg K] [Div K] [OfNat K 0] [OfNat K 1] [DecidableEq K]
    (m : Affine K) : Option (Affine K) := inverseWith (fun x y => x / y) m

/-- `inverse` for `i32` / `i64`: `T::one() / determinant` is Rust's truncating integer division. -/
def inverseInt (m : Affine Int) : Option (Affine Int) := inverseWith Int.tdiv m

/-- `is_identity`: equality of all nine entries. -/
def isIdentity [Add K] [Mul K] [Sub K] [OfNat K 0] [OfNat K 1] [DecidableEq K] (m : Affine K) : Bool :=
  decide (m = identity)

/-! ### rational instance: points, clamp of `skew`, trait layers -/

def applyPt (m : Affine Rat) (p : Pt) : Pt := let r := m.apply p.x p.y; ⟨r.1, r.2⟩

/-- `2.5e-16` as the f64 it denotes. -/
def skewEps : Rat := (2535301200456459 : Rat) / (10141204801825835211973625643008 : Rat)

/-- `if tan.abs() < 2.5e-16 { tan = 0 }` -/
def skewClamp (t : Rat) : Rat := if rabs t < skewEps then 0 else t

/-- `AffineTransform::skew(xs, ys, origin)` with `tan xs`, `tan ys` as parameters. -/
def skew (tanx tany : Rat) (o : Pt) : Affine Rat := skewT (skewClamp tanx) (skewClamp tany) o.x o.y

end Affine

/-! ### `AffineOps` and the `Rotate` / `Scale` / `Skew` / `Translate` blanket impls

`affine_transform` is `map_coords(|c| transform.apply(c))`, `affine_transform_mut` is
`map_coords_in_place(..)`: both are `mapCoords` of GeoModel/Traverse.lean (their agreement is
C19's correspondence). Each `*_mut` trait method has literally the same body as the functional
one with `affine_transform_mut`, hence one model function per pair. -/

def affineTransform (m : Affine Rat) (g : Geom) : Geom := mapCoords m.applyPt g

/-- `Rect::center`: `((max.x + min.x) / 2, (max.y + min.y) / 2)`. -/
def rectCenter (r : Pt × Pt) : Pt := ⟨(r.2.x + r.1.x) / 2, (r.2.y + r.1.y) / 2⟩

/-- `Translate::translate` -/
def translateG (dx dy : Rat) (g : Geom) : Geom := affineTransform (Affine.translate dx dy) g

/-- `Scale::scale_around_point` -/
def scaleAroundPoint (fx fy : Rat) (o : Pt) (g : Geom) : Geom := affineTransform (Affine.scale fx fy o.x o.y) g

/-- `Scale::scale_xy`: origin = centre of the bounding box; empty geometry ⇒ unchanged. -/
def scaleXY (fx fy : Rat) (g : Geom) : Geom :=
  match boundingRect g with
  | some r => scaleAroundPoint fx fy (rectCenter r) g
  | none => g

/-- `Scale::scale` -/
def scaleG (f : Rat) (g : Geom) : Geom := scaleXY f f g

/-- `Skew::skew_around_point` (tangents as parameters) -/
def skewAroundPoint (tx ty : Rat) (o : Pt) (g : Geom) : Geom := affineTransform (Affine.skew tx ty o) g

/-- `Skew::skew_xy` -/
def skewXY (tx ty : Rat) (g : Geom) : Geom :=
  match boundingRect g with
  | some r => skewAroundPoint tx ty (rectCenter r) g
  | none => g

/-- `Skew::skew` -/
def skewG (t : Rat) (g : Geom) : Geom := skewXY t t g

/-- `Rotate::rotate_around_point` (`(cos, sin)` as parameters) -/
def rotateAroundPoint (c s : Rat) (o : Pt) (g : Geom) : Geom := affineTransform (Affine.rotate c s o.x o.y) g

/-- `Rotate::rotate_around_center` -/
def rotateAroundCenter (c s : Rat) (g : Geom) : Geom :=
  match boundingRect g with
  | some r => rotateAroundPoint c s (rectCenter r) g
  | none => g

/-- `Rotate::rotate_around_centroid`; the centroid (`Centroid::centroid`, property C06) is a
parameter: `none` for an empty geometry ⇒ unchanged. -/
def rotateAroundCentroid (c s : Rat) (centroid : Option Pt) (g : Geom) : Geom :=
  match centroid with
  | some o => rotateAroundPoint c s o g
  | none => g

/-! ### checked binary64 -/

/-- Is `q` exactly a finite IEEE-754 binary64 value (normal or subnormal)? -/
def isF64 (q : Rat) : Bool :=
  let n := q.num.natAbs
  let d := q.den
  if n == 0 then true else
  let k := Nat.log2 d
  if d != 2 ^ k then false else
  let bl := Nat.log2 n + 1
  (bl ≤ 53 || n % 2 ^ (bl - 53) == 0) && k ≤ 1074 && bl ≤ 1024 + k

/-- A rational that is known to be the exact value of the f64 computation so far, or poison. -/
structure Fx where
  v : Option Rat
  deriving DecidableEq, Repr

namespace Fx
def ofRat (q : Rat) : Fx := ⟨if isF64 q then some q else none⟩
def lift2 (f : Rat → Rat → Rat) (a b : Fx) : Fx :=
  match a.v, b.v with
  | some x, some y => ofRat (f x y)
  | _, _ => ⟨none⟩
instance : Add Fx := ⟨lift2 (· + ·)⟩
instance : Sub Fx := ⟨lift2 (· - ·)⟩
instance : Mul Fx := ⟨lift2 (· * ·)⟩
instance : Neg Fx := ⟨fun a => ⟨a.v.map (fun x => -x)⟩⟩
instance : Div Fx := ⟨fun a b => match a.v, b.v with
  | some x, some y => if y = 0 then ⟨none⟩ else ofRat (x / y)
  | _, _ => ⟨none⟩⟩
instance : OfNat Fx 0 := ⟨⟨some 0⟩⟩
instance : OfNat Fx 1 := ⟨⟨some 1⟩⟩
def ok (a : Fx) : Bool := a.v.isSome
end Fx

def Affine.toFx (m : Affine Rat) : Affine Fx :=
  ⟨.ofRat m.m00, .ofRat m.m01, .ofRat m.m02, .ofRat m.m10, .ofRat m.m11, .ofRat m.m12,
   .ofRat m.m20, .ofRat m.m21, .ofRat m.m22⟩

def Affine.fxOk (m : Affine Fx) : Bool :=
  m.m00.ok && m.m01.ok && m.m02.ok && m.m10.ok && m.m11.ok && m.m12.ok && m.m20.ok && m.m21.ok && m.m22.ok

/-- Is `m.apply` exact in f64 on every coordinate of the list? -/
def Affine.fxApplyOk (m : Affine Fx) (cs : List Pt) : Bool :=
  cs.all (fun p => let r := m.apply (Fx.ofRat p.x) (Fx.ofRat p.y); r.1.ok && r.2.ok)

end Geo

/-! ### exact similarities and the quantities the commutation clause talks about -/

namespace Geo

/-- The linear part of `m` is a similarity with squared scale factor `s2`: its columns are
orthogonal and both have squared length `s2`. (Translations, `2^k` scalings, axis swap,
reflections, quarter turns and all their compositions are of this kind, see
`Proofs.C13.sim_*`.) -/
def Affine.simScale2? (m : Affine Rat) : Option Rat :=
  let s2 := m.m00 * m.m00 + m.m10 * m.m10
  if m.m01 * m.m01 + m.m11 * m.m11 = s2 ∧ m.m00 * m.m01 + m.m10 * m.m11 = 0 then some s2 else none

/-- The linear part is a similarity with squared factor `s2` (specification form of
`simScale2?`). -/
def IsSim (m : Affine Rat) (s2 : Rat) : Prop :=
  m.m00 * m.m00 + m.m10 * m.m10 = s2 ∧ m.m01 * m.m01 + m.m11 * m.m11 = s2 ∧
  m.m00 * m.m01 + m.m10 * m.m11 = 0

/-- Exchange of `Clockwise` and `CounterClockwise`. -/
def Ori.flip : Ori → Ori
  | .ccw => .cw
  | .cw => .ccw
  | .col => .col

/-- Generators of the group of maps the property calls "exact in floating point". -/
inductive ExactSim where
  | translate (tx ty : Int)
  | scalePow2 (k : Int)
  | swap
  | reflectX
  | reflectY
  | quarter
  deriving Repr, DecidableEq

def ExactSim.toAffine : ExactSim → Affine Rat
  | .translate tx ty => Affine.translate tx ty
  | .scalePow2 k => Affine.new (pow2 k) 0 0 0 (pow2 k) 0
  | .swap => Affine.new 0 1 0 1 0 0
  | .reflectX => Affine.new (-1) 0 0 0 1 0
  | .reflectY => Affine.new 1 0 0 0 (-1) 0
  | .quarter => Affine.new 0 (-1) 0 1 0 0

/-- Squared scale factor of a generator. -/
def ExactSim.scale2 : ExactSim → Rat
  | .scalePow2 k => pow2 k * pow2 k
  | _ => 1

/-- A chain of generators, composed the way `compose_many` does. -/
def ExactSim.chain (gs : List ExactSim) : Affine Rat :=
  gs.foldl (fun acc g => acc.compose g.toAffine) Affine.identity

/-- `twice_signed_ring_area` (geo/src/algorithm/area.rs): zero for fewer than 3 coordinates or an
open ring, else the sum of `Line::determinant` over the segments shifted by the first coordinate. -/
def detSum (shift : Pt) : List Pt → Rat
  | a :: b :: rest =>
      ((a.x - shift.x) * (b.y - shift.y) - (a.y - shift.y) * (b.x - shift.x)) + detSum shift (b :: rest)
  | _ => 0

def affTwiceSignedRingArea (r : List Pt) : Rat :=
  if r.length < 3 then 0 else
  if r.head? ≠ r.getLast? then 0 else
  match r with
  | [] => 0
  | s :: _ => detSum s r

end Geo
