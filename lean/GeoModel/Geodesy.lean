/-
  GeoModel.Geodesy — the Haversine / Geodesic / Rhumb metric spaces of
  `geo/src/algorithm/line_measures/metric_spaces/{haversine,geodesic,rhumb}.rs`,
  `geo/src/algorithm/rhumb/mod.rs`, `geo/src/utils.rs::normalize_longitude` and
  `geo/src/algorithm/line_measures/length.rs` (C16).

  What is modelled *exactly* is the logic around the formulas: degree normalisation
  (`(deg + 360) % 360`, `normalize_longitude`), lon/lat argument order, the `start == end` /
  `ratio ∈ {0,1}` short-circuits, the `points_along_line` step loop, the `Length` folds, Rhumb's
  antimeridian wrapping and pole reflection, Geodesic's delegation to `geographiclib-rs`.

  The formulas themselves are written once, over an arbitrary carrier `α` with the
  transcendental functions as an *engine parameter* (`Trig α`): the proof files instantiate it
  with `ℝ` and Mathlib's `Real.sin`, …; the driver instantiates it with rationals and the
  truncated series of `GeoModel/GeodesyNum.lean`.  `geographiclib-rs` is an engine parameter too
  (`GeodEngine`).  Every floating-point rounding is a parameter `rnd` (`id` = exact arithmetic,
  `roundF64` = IEEE binary64).
-/
import GeoModel.Segment

namespace Geo.Geodesy
open Geo

/-! ### Degree normalisation (exact) -/

/-- truncation toward zero -/
def truncI (q : Rat) : Int := if q < 0 then -((-q).floor) else q.floor

/-- Rust's `%` on floats (`fmod`): the result is exact and takes the sign of the dividend. -/
def fmodT (x m : Rat) : Rat := x - m * (truncI (x / m) : Rat)

/-- `(degrees + three_sixty) % three_sixty` — last line of `Bearing::bearing` in all three
metric spaces. -/
def normBearing (rnd : Rat → Rat) (deg : Rat) : Rat := fmodT (rnd (deg + 360)) 360

/-- `utils::normalize_longitude` (after the `fix:` commit: a negative remainder is wrapped from
the other side). -/
def normalizeLongitude (rnd : Rat → Rat) (x : Rat) : Rat :=
  let r := fmodT (rnd (x + 540)) 360
  if r < 0 then rnd (r + 180) else rnd (r - 180)

/-- `normalize_longitude` as it was before the fix: `((coord + 540) % 360) - 180`. -/
def normalizeLongitudeOld (x : Rat) : Rat := fmodT (x + 540) 360 - 180

/-! ### `Length` (length.rs) -/

/-- `LineString::length`: `let mut length = 0; for line in self.lines() { length = length + … }` -/
def lengthLS (rnd : Rat → Rat) (dist : Pt → Pt → Rat) (ls : List Pt) : Rat :=
  (segs ls).foldl (fun acc s => rnd (acc + dist s.1 s.2)) 0

/-- `MultiLineString::length`: a fold of the line-string lengths (nested sums, not a flat one). -/
def lengthMLS (rnd : Rat → Rat) (dist : Pt → Pt → Rat) (mls : List (List Pt)) : Rat :=
  mls.foldl (fun acc ls => rnd (acc + lengthLS rnd dist ls)) 0

/-- `Line::length` -/
def lengthLine (dist : Pt → Pt → Rat) (a b : Pt) : Rat := dist a b

/-! ### `points_along_line` step logic (identical in the three metric spaces) -/

/-- `while current_step < 1 { push(current_step); current_step = current_step + interval }` -/
def stepLoop (rnd : Rat → Rat) (interval : Rat) : Nat → Rat → List Rat
  | 0, _ => []
  | fuel + 1, cur =>
    if cur < 1 then cur :: stepLoop rnd interval fuel (rnd (cur + interval)) else []

/-- `number_of_points = (total / max).ceil(); interval = 1 / number_of_points` and the loop. -/
def stepRatios (rnd : Rat → Rat) (total max : Rat) : List Rat :=
  let n : Int := (rnd (total / max)).ceil
  let interval := rnd (1 / (n : Rat))
  stepLoop rnd interval (n.toNat + 2) interval

/-- The shape of `points_along_line`: `at` is the metric space's "point at ratio". -/
def pointsAlong (rnd : Rat → Rat) (total max : Rat) (incl : Bool) (a b : Pt) (pAt : Rat → Pt) : List Pt :=
  if total ≤ max then (if incl then [a, b] else [])
  else (if incl then [a] else []) ++ (stepRatios rnd total max).map pAt ++ (if incl then [b] else [])

/-! ### `point_at_ratio_between` dispatch -/

/-- Haversine and Geodesic: `if start == end || ratio == 0 { return start } if ratio == 1 { return end }` -/
def pointAtRatioSC (a b : Pt) (r : Rat) (calcAt : Rat → Pt) : Pt :=
  if a = b ∨ r = 0 then a else if r = 1 then b else calcAt r

/-! ### Geodesic: delegation to geographiclib-rs -/

/-- `geographiclib_rs::Geodesic`: `inverse(lat1, lon1, lat2, lon2) = (s12, azi1, azi2, a12)`,
`direct(lat1, lon1, azi1, s12) = (lat2, lon2)`. -/
structure GeodEngine where
  inverse : Rat → Rat → Rat → Rat → Rat × Rat × Rat
  direct : Rat → Rat → Rat → Rat → Rat × Rat

namespace Geodesic
variable (E : GeodEngine) (rnd : Rat → Rat)

/-- `self.geoid.inverse(origin.y(), origin.x(), destination.y(), destination.x())` — latitude first -/
def inv (a b : Pt) : Rat × Rat × Rat := E.inverse a.y a.x b.y b.x
def distance (a b : Pt) : Rat := (inv E a b).1
def bearing (a b : Pt) : Rat := normBearing rnd (inv E a b).2.1
/-- `let (lat, lon) = direct(origin.y(), origin.x(), bearing, distance); Point::new(lon, lat)` -/
def destination (a : Pt) (brg d : Rat) : Pt := let r := E.direct a.y a.x brg d; ⟨r.2, r.1⟩
def pointAtRatio (a b : Pt) (r : Rat) : Pt :=
  pointAtRatioSC a b r (fun r => destination E a (inv E a b).2.1 (rnd ((inv E a b).1 * r)))
def pointAtDistance (a b : Pt) (m : Rat) : Pt :=
  if m = 0 then a else destination E a (bearing E rnd a b) m
def pointsAlongLine (a b : Pt) (max : Rat) (incl : Bool) : List Pt :=
  pointsAlong rnd (inv E a b).1 max incl a b
    (fun s => destination E a (inv E a b).2.1 (rnd ((inv E a b).1 * s)))
end Geodesic

/-! ### Formulas over an abstract carrier -/

/-- The transcendental engine. `lt` is the comparison the code branches on. -/
structure Trig (α : Type) where
  sin : α → α
  cos : α → α
  tan : α → α
  asin : α → α
  atan2 : α → α → α
  sqrt : α → α
  hypot : α → α → α
  ln : α → α
  abs : α → α
  toRad : α → α
  toDeg : α → α
  pi : α
  lt : α → α → Bool
  ofRat : Rat → α

section Formulas
variable {α : Type} [Add α] [Sub α] [Mul α] [Div α] [Neg α] [OfNat α 0] [OfNat α 1] (T : Trig α)

/-- a point of the carrier: (x = longitude, y = latitude), degrees -/
abbrev P2 (α : Type) := α × α

/-- `x.powi(2)` -/
def sq (x : α) : α := x * x

/-! #### Haversine (haversine.rs) -/

/-- the `h` of `HaversineMeasure::distance` on its own (same expression as in `havDistance` below;
`havDistance T R a b = R * (2 * asin (sqrt (havH T a b)))` holds by `rfl`) — used by the a posteriori
arcsine certificate of the rational engine and by the accuracy theorems. -/
def havH (a b : P2 α) : α :=
  let two : α := 1 + 1
  let theta1 := T.toRad a.2
  let theta2 := T.toRad b.2
  let dTheta := T.toRad (b.2 - a.2)
  let dLambda := T.toRad (b.1 - a.1)
  sq (T.sin (dTheta / two)) + T.cos theta1 * T.cos theta2 * sq (T.sin (dLambda / two))

/-- `HaversineMeasure::distance` -/
def havDistance (R : α) (a b : P2 α) : α :=
  let two : α := 1 + 1
  let theta1 := T.toRad a.2
  let theta2 := T.toRad b.2
  let dTheta := T.toRad (b.2 - a.2)
  let dLambda := T.toRad (b.1 - a.1)
  let h := sq (T.sin (dTheta / two)) + T.cos theta1 * T.cos theta2 * sq (T.sin (dLambda / two))
  let c := two * T.asin (T.sqrt h)
  R * c

/-- `HaversineMeasure::bearing` before the final normalisation: `atan2(s, c).to_degrees()` -/
def havBearingRaw (a b : P2 α) : α :=
  let lngA := T.toRad a.1; let latA := T.toRad a.2
  let lngB := T.toRad b.1; let latB := T.toRad b.2
  let dLng := lngB - lngA
  let s := T.cos latB * T.sin dLng
  let c := T.cos latA * T.sin latB - T.sin latA * T.cos latB * T.cos dLng
  T.toDeg (T.atan2 s c)

/-- `HaversineMeasure::destination` before `normalize_longitude`: (lng°, lat°) -/
def havDestinationRaw (R : α) (o : P2 α) (bearing meters : α) : P2 α :=
  let cLng := T.toRad o.1
  let cLat := T.toRad o.2
  let brad := T.toRad bearing
  let rad := meters / R
  let lat := T.asin (T.sin cLat * T.cos rad + T.cos cLat * T.sin rad * T.cos brad)
  let lng := T.atan2 (T.sin brad * T.sin rad * T.cos cLat) (T.cos rad - T.sin cLat * T.sin lat) + cLng
  (T.toDeg lng, T.toDeg lat)

/-- `HaversineIntermediateFillCalculation::new(..).d` (angular distance) -/
def havFillD (p1 p2 : P2 α) : α :=
  let two : α := 1 + 1
  let lat1 := T.toRad p1.2; let lon1 := T.toRad p1.1
  let lat2 := T.toRad p2.2; let lon2 := T.toRad p2.1
  let m := T.cos lat1 * T.cos lat2
  let k := T.sqrt (sq (T.sin ((lat1 - lat2) / two)) + m * sq (T.sin ((lon1 - lon2) / two)))
  two * T.asin k

/-- `HaversineIntermediateFillCalculation::point_at_ratio` -/
def havPointAtRatioCalc (p1 p2 : P2 α) (f : α) : P2 α :=
  let lat1 := T.toRad p1.2; let lon1 := T.toRad p1.1
  let lat2 := T.toRad p2.2; let lon2 := T.toRad p2.1
  let d := havFillD T p1 p2
  let n := T.cos lat1 * T.cos lon1
  let o := T.cos lat2 * T.cos lon2
  let p := T.cos lat1 * T.sin lon1
  let q := T.cos lat2 * T.sin lon2
  let r := T.sin lat1
  let s := T.sin lat2
  let a := T.sin ((1 - f) * d) / T.sin d
  let b := T.sin (f * d) / T.sin d
  let x := a * n + b * o
  let y := a * p + b * q
  let z := a * r + b * s
  (T.toDeg (T.atan2 y x), T.toDeg (T.atan2 z (T.hypot x y)))

/-- the computed part of `HaversineMeasure::point_at_ratio_between` (after the `start == end`, `ratio == 0`, `ratio == 1`
shortcuts of `pointAtRatioSC`), with the guard of the `fix:` for points an ulp apart: `d == 0` (the difference is lost in
`to_radians`) returns `start` instead of evaluating `sin(r·d) / sin(d) = 0 / 0` -/
def havPointAtRatioGuarded (p1 p2 : P2 α) (f : α) : P2 α :=
  let d := havFillD T p1 p2
  if !(T.lt d 0) && !(T.lt 0 d) then p1 else havPointAtRatioCalc T p1 p2 f

/-! #### Rhumb (rhumb/mod.rs, metric_spaces/rhumb.rs) -/

/-- antimeridian wrapping in `RhumbCalculations::new`: two *sequential* `if`s -/
def rhumbWrap (dl : α) : α :=
  let two : α := 1 + 1
  let d1 := if T.lt T.pi dl then dl - two * T.pi else dl
  if T.lt d1 (-T.pi) then d1 + two * T.pi else d1

/-- `((phi2/2 + pi/4).tan() / (phi1/2 + pi/4).tan()).ln()` -/
def rhumbDeltaPsi (phi1 phi2 : α) : α :=
  let two : α := 1 + 1
  let four := two + two
  T.ln (T.tan (phi2 / two + T.pi / four) / T.tan (phi1 / two + T.pi / four))

/-- `stretch_factor` (the `fix:` commit): `Δφ/Δψ`, or its mid-latitude expansion when `|Δψ| ≤ 1e-4` -/
def rhumbStretch (phi1 dPhi dPsi : α) : α :=
  let two : α := 1 + 1
  if T.lt (T.ofRat (1 / 10000)) (T.abs dPsi) then dPhi / dPsi
  else
    let phiM := phi1 + dPhi / two
    let tanM := T.tan phiM
    T.cos phiM * (1 - dPhi * dPhi * (1 + two * tanM * tanM) / T.ofRat 24)

structure RhumbCalc (α : Type) where
  phi1 : α
  dLambda : α
  dPhi : α
  dPsi : α

/-- `RhumbCalculations::new` -/
def rhumbCalc (a b : P2 α) : RhumbCalc α :=
  let phi1 := T.toRad a.2
  let phi2 := T.toRad b.2
  { phi1 := phi1, dLambda := rhumbWrap T (T.toRad (b.1 - a.1)),
    dPhi := phi2 - phi1, dPsi := rhumbDeltaPsi T phi1 phi2 }

/-- `RhumbCalculations::theta` -/
def rhumbTheta (c : RhumbCalc α) : α := T.atan2 c.dLambda c.dPsi

/-- `RhumbCalculations::delta` (angular distance) -/
def rhumbDelta (c : RhumbCalc α) : α :=
  let q := rhumbStretch T c.phi1 c.dPhi c.dPsi
  T.sqrt (c.dPhi * c.dPhi + q * q * c.dLambda * c.dLambda)

/-- `Rhumb::distance` -/
def rhumbDistance (R : α) (a b : P2 α) : α := rhumbDelta T (rhumbCalc T a b) * R

/-- `Rhumb::bearing` before the final normalisation -/
def rhumbBearingRaw (a b : P2 α) : α := T.toDeg (rhumbTheta T (rhumbCalc T a b))

/-- `calculate_destination` before `normalize_longitude`: (lambda2°, phi2°) -/
def rhumbDestinationRaw (delta lambda1 phi1 theta : α) : P2 α :=
  let two : α := 1 + 1
  let dPhi := delta * T.cos theta
  let phi2' := phi1 + dPhi
  -- "check for some daft bugger going past the pole, normalise latitude if so"
  let phi2 := if T.lt (T.pi / two) (T.abs phi2') then
      (if T.lt 0 phi2' then T.pi - phi2' else -T.pi - phi2') else phi2'
  let dPsi := rhumbDeltaPsi T phi1 phi2
  let q := rhumbStretch T phi1 dPhi dPsi
  let dLambda := (delta * T.sin theta) / q
  (T.toDeg (lambda1 + dLambda), T.toDeg phi2)

/-- `Rhumb::destination` (raw) -/
def rhumbDestRaw (R : α) (o : P2 α) (bearing distance : α) : P2 α :=
  rhumbDestinationRaw T (distance / R) (T.toRad o.1) (T.toRad o.2) (T.toRad bearing)

/-- `RhumbCalculations::intermediate` (raw): no short-circuits in this metric space -/
def rhumbIntermediateRaw (a b : P2 α) (f : α) : P2 α :=
  let c := rhumbCalc T a b
  rhumbDestinationRaw T (f * rhumbDelta T c) (T.toRad a.1) c.phi1 (rhumbTheta T c)

end Formulas

end Geo.Geodesy
