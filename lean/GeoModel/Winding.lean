/-
  GeoModel.Winding — C05: `winding_order`, `make_cw/ccw_winding`, `orient`.

  Anchors: geo/src/algorithm/winding_order.rs (`impl Winding for LineString`),
           geo/src/utils.rs (`least_index`, `lex_cmp`),
           geo/src/algorithm/orient.rs (`orient`, `impl Orient for {Polygon, MultiPolygon}`).

  The index loops of `winding_order` (`increment`/`decrement` with wrap-around, skipping
  coordinates equal to the pivot) are modelled as scans over the cyclic rotation of the list:
  `next` is the first coordinate different from the pivot in `r[i+1..] ++ r[..i]`, `prev` the first
  such in the reverse direction. The forward loop's `next == i` exit is the scan finding nothing.
-/
import GeoModel.Orient
import GeoModel.PolygonSM

namespace Geo

inductive WO where
  | cw
  | ccw
  deriving DecidableEq, Repr, Inhabited

def WO.str : WO → String
  | .cw => "Clockwise"
  | .ccw => "CounterClockwise"

def woStr : Option WO → String
  | none => "none"
  | some w => w.str

/-- `least_index`: `iter().enumerate().min_by(lex_cmp)` — `min_by` keeps the *first* of equal
minima, i.e. a later element replaces the current best only when strictly smaller. Returns
`(index, point)`; `go` carries the running index. -/
def leastIndexGo : List Pt → Nat → Nat → Pt → Nat × Pt
  | [], _, bi, bp => (bi, bp)
  | p :: rest, j, bi, bp =>
    if lexLt p bp then leastIndexGo rest (j + 1) j p else leastIndexGo rest (j + 1) bi bp

def leastIndex : List Pt → Option (Nat × Pt)
  | [] => none
  | p :: rest => some (leastIndexGo rest 1 0 p)

/-- `LineString::is_closed` -/
def ringClosed (r : List Pt) : Bool := decide (r.head? = r.getLast?)

/-- the coordinates after index `i`, cyclically, up to (excluding) `i` itself -/
def cycAfter (r : List Pt) (i : Nat) : List Pt := r.drop (i + 1) ++ r.take i

/-- the coordinates before index `i`, cyclically backwards, down to (excluding) `i` itself -/
def cycBefore (r : List Pt) (i : Nat) : List Pt := (r.take i).reverse ++ (r.drop (i + 1)).reverse

/-- The pivot triple `(prev, pivot, next)` of `winding_order`, or `none` when every coordinate
equals the pivot. -/
def pivotTriple (r : List Pt) : Option (Pt × Pt × Pt) :=
  match leastIndex r with
  | none => none
  | some (i, p) =>
    match (cycAfter r i).find? (· ≠ p), (cycBefore r i).find? (· ≠ p) with
    | some nx, some pv => some (pv, p, nx)
    | _, _ => none

/-- `Winding::winding_order` for `LineString`. -/
def windingOrder (r : List Pt) : Option WO :=
  if r.length < 4 || !ringClosed r then none
  else match pivotTriple r with
    | none => none
    | some (pv, p, nx) =>
      match orient pv p nx with
      | .ccw => some .ccw
      | .cw => some .cw
      | .col => none

def isCw (r : List Pt) : Bool := windingOrder r == some .cw
def isCcw (r : List Pt) : Bool := windingOrder r == some .ccw

/-- `make_cw_winding` -/
def makeCw (r : List Pt) : List Pt := if windingOrder r = some .ccw then r.reverse else r

/-- `make_ccw_winding` -/
def makeCcw (r : List Pt) : List Pt := if windingOrder r = some .cw then r.reverse else r

/-- `clone_to_winding_order` -/
def toWinding (w : WO) (r : List Pt) : List Pt :=
  match w with
  | .cw => makeCw r
  | .ccw => makeCcw r

/-- `orient::Direction` -/
inductive Direction where
  | default
  | reversed
  deriving DecidableEq, Repr, Inhabited

def Direction.extW : Direction → WO
  | .default => .ccw
  | .reversed => .cw

def Direction.intW : Direction → WO
  | .default => .cw
  | .reversed => .ccw

/-- `orient(poly, direction)`: interiors and exterior cloned to the requested windings, rebuilt
with `Polygon::new` (which closes every ring). -/
def orientPoly (d : Direction) (p : Poly) : Poly :=
  ⟨SM.close (toWinding d.extW p.ext), (p.ints.map (toWinding d.intW)).map SM.close⟩

/-- `impl Orient for MultiPolygon` -/
def orientMulti (d : Direction) (ps : List Poly) : List Poly := ps.map (orientPoly d)

end Geo
