/-
  GeoModel.TRAN2Prelude — second part of the (hand-written, import-free) target vocabulary of the Rust→Lean translator
  (translator/rsexpr.py): `while` loops with `break`, and `Iterator::min_by`. Every definition here is one *explicit
  semantic choice* of the translator (listed in the docstring of rsexpr.py).
-/
import GeoModel.TRANPrelude

namespace Geo.Gen

/-- outcome of one iteration of a `while` body: next iteration, `break`, or `return r` from the enclosing function -/
inductive WStep (σ ρ : Type) where
  | cont (s : σ)
  | brk (s : σ)
  | ret (r : ρ)

/-- `while cond { body }` run for at most `fuel` iterations. `none` = the bound did not suffice (no answer: the translator
makes the enclosing function answer `none` then, so a wrong bound can never produce a wrong value) -/
def whileFuel {σ ρ : Type} : Nat → (σ → Bool) → (σ → WStep σ ρ) → σ → Option (Step σ ρ)
  | 0, cond, _, s => if cond s then none else some (.next s)
  | n + 1, cond, body, s =>
    if cond s then
      match body s with
      | .cont s' => whileFuel n cond body s'
      | .brk s' => some (.next s')
      | .ret r => some (.ret r)
    else some (.next s)

/-- `Iterator::min_by(cmp)`: the first of the minimal elements
(std: `reduce(|x, y| match cmp(&x, &y) { Ordering::Greater => y, _ => x })`) -/
def minBy? {α : Type} (cmp : α → α → Ordering) : List α → Option α
  | [] => none
  | x :: xs => some (xs.foldl (fun best y => if cmp best y == .gt then y else best) x)

end Geo.Gen
