/-
  GeoModel.Prepared — C17: the prepared-geometry state machine.

  Anchors: geo/src/algorithm/relate/geomgraph/index/prepared_geometry.rs (`prepare_geometry`,
  `Relate::geometry_graph` = `clone_for_arg_index`), geomgraph/planar_graph.rs / label.rs
  (`swap_labels`), index/rstar_edge_set_intersector.rs (candidate pairs from envelope queries).

  What differs between the prepared and the plain path is (i) *where the self-noded graph comes
  from* (a cached copy with the label slots swapped for argument index 1, versus a freshly built
  one) and (ii) *which segment pairs are tested* (R-tree envelope candidates versus all pairs).
  The matrix computation after that is shared code and is represented by `relateSpec`.
-/
import GeoModel.RelateSpec

namespace Geo.Prep

/-- A two-slot label (one slot per operand), as in `Label`: `none` = not yet assigned. -/
structure Label where
  slot0 : Option Pos
  slot1 : Option Pos
  deriving DecidableEq, Repr

/-- `Label::swap_args` -/
def Label.swap (l : Label) : Label := ⟨l.slot1, l.slot0⟩

/-- A cached graph, abstractly: labelled items (nodes and edges). Building for argument index
`i` writes positions into slot `i` only. -/
structure Graph where
  items : List (List Pt × Label)
  deriving DecidableEq, Repr

/-- `GeometryGraph::new(idx, g)` followed by `compute_self_nodes`: every item gets its position
w.r.t. `g` in slot `idx`; the other slot stays empty. The list of items depends only on `g`. -/
def build (idx : Nat) (skeleton : List (List Pt × Pos)) : Graph :=
  ⟨skeleton.map (fun (cs, p) => (cs, if idx = 0 then ⟨some p, none⟩ else ⟨none, some p⟩))⟩

/-- `PlanarGraph::swap_labels` -/
def Graph.swapLabels (g : Graph) : Graph := ⟨g.items.map (fun (cs, l) => (cs, l.swap))⟩

/-- `clone_for_arg_index`: a deep copy; labels swapped when the requested index differs from the
index the cache was built for (0). -/
def cloneForArg (cached : Graph) (idx : Nat) : Graph := if idx = 0 then cached else cached.swapLabels

/-- a prepared geometry: the geometry and its cached graph (built once, for index 0) -/
structure Prepared where
  geom : Geom
  cached : Graph

/-- operands of a relate call: plain or prepared (by index into the table of prepared values) -/
inductive Operand where
  | plain (g : Geom)
  | prepared (i : Nat)

structure State where
  table : List Prepared

def State.geomOf (s : State) : Operand → Option Geom
  | .plain g => some g
  | .prepared i => (s.table[i]?).map (·.geom)

/-- One `relate` call. The cached graphs are only ever *cloned*, so the state is returned
unchanged; the matrix is the one of the underlying geometries. -/
def relateStep (s : State) (a b : Operand) : State × Option IM :=
  (s, match s.geomOf a, s.geomOf b with
      | some ga, some gb => some (relateSpec ga gb)
      | _, _ => none)

def runCalls (s : State) : List (Operand × Operand) → List (Option IM)
  | [] => []
  | (a, b) :: rest => let (s', m) := relateStep s a b; m :: runCalls s' rest

/-! ### candidate pairs -/

/-- envelopes of two segments intersect (what the R-tree query returns a superset of) -/
def envelopesIntersect (s t : Pt × Pt) : Bool :=
  let sb := lineBBox s.1 s.2
  let tb := lineBBox t.1 t.2
  rectRect sb.1 sb.2 tb.1 tb.2

end Geo.Prep
