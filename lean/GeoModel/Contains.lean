/-
  GeoModel.Contains — C02: the `Contains` trait (and `Within` = `Contains` with the operands
  swapped), one Lean term per hand-written Rust impl body; the `impl_contains_from_relate!` pairs
  go through the translated mask `Gen.isContains` on the DE-9IM matrix.

  Anchors: geo/src/algorithm/contains/{mod,point,line,line_string,polygon,rect,triangle,geometry,
  geometry_collection}.rs, geo/src/algorithm/within.rs
-/
import GeoModel.Intersects
import GeoModel.RelateSpec
import GeoModel.Area
import GeoModel.Gen.Masks

namespace Geo

/-- `Line: Contains<Coord>` -/
def lineContainsCoord (a b c : Pt) : Bool :=
  if a == b then a == c else (c != a && c != b && lineCoord a b c)

/-- `Line: Contains<Line>` -/
def lineContainsLine (a b c d : Pt) : Bool :=
  if c == d then lineContainsCoord a b c else (lineCoord a b c && lineCoord a b d)

/-- `Line: Contains<LineString>` -/
def lineContainsLineString (a b : Pt) (cs : List Pt) : Bool :=
  match cs with
  | [] => false
  | first :: _ =>
    let allEqual := cs.all (· == first)
    let allIntersects := cs.all (fun c => lineCoord a b c)
    allIntersects && (!allEqual || lineContainsCoord a b first)

/-- `LineString: Contains<Coord>` -/
def lsContainsCoord (cs : List Pt) (c : Pt) : Bool :=
  match cs.head?, cs.getLast? with
  | some f, some l =>
    if c == f || c == l then isClosedLS cs
    else (segs cs).zipIdx.any (fun (s, i) => lineContainsCoord s.1 s.2 c || (i > 0 && c == s.1))
  | _, _ => false

structure CutState where
  s : Pt
  e : Pt
  firstCut : Option Nat
  result : Option Bool     -- `some true` = returned true; `some false` = loop ended by `break`

/-- one iteration of the two-pass truncation loop of `LineString: Contains<Line>` -/
def cutStep (numLines : Nat) (st : CutState) (i : Nat) (seg : Pt × Pt) : CutState :=
  if st.result.isSome then st else
  let stop : Bool :=
    if i ≥ numLines then
      (match st.firstCut with
       | some upto => i ≥ numLines + upto
       | none => true)
    else false
  if stop then { st with result := some false } else
  let hitS := lineCoord seg.1 seg.2 st.s
  let hitE := lineCoord seg.1 seg.2 st.e
  if !hitS && !hitE then st else
  let other := if hitS then st.e else st.s
  if lineCoord seg.1 seg.2 other then { st with result := some true } else
  -- `line.contains(&segment.start)` / `line.contains(&segment.end)` with the *current* line
  let newInside : Option Pt :=
    if lineContainsCoord st.s st.e seg.1 then some seg.1
    else if lineContainsCoord st.s st.e seg.2 then some seg.2
    else none
  match newInside with
  | none => st
  | some ni =>
    let fc := match st.firstCut with | some x => some x | none => some i
    if other == st.s then { st with e := ni, firstCut := fc } else { st with s := ni, firstCut := fc }

/-- `LineString: Contains<Line>` -/
def lsContainsLine (cs : List Pt) (a b : Pt) : Bool :=
  if a == b then lsContainsCoord cs a else
  let ss := segs cs
  let n := ss.length
  let st := (ss ++ ss).zipIdx.foldl (fun st (seg, i) => cutStep n st i seg) ⟨a, b, none, none⟩
  st.result == some true

/-- `LineString: Contains<LineString>` -/
def lsContainsLs (cs ds : List Pt) : Bool :=
  if cs.isEmpty || ds.isEmpty then false else
  -- after the `fix:` (repeated coordinates of `rhs`): zero-length segments are only asked about when there is no proper one
  let proper := (segs ds).filter (fun s => s.1 != s.2)
  if !proper.isEmpty then proper.all (fun s => lsContainsLine cs s.1 s.2)
  else (segs ds).all (fun s => lsContainsLine cs s.1 s.2)

/-- `MultiLineString: Contains<Point>` (after the fix): on a member, and an end point of an even
number of open members -/
def mlsContainsPoint (ls : List (List Pt)) (c : Pt) : Bool :=
  let r := ls.foldl (fun (acc : Bool × Nat) cs =>
    match cs.head?, cs.getLast? with
    | some f, some l =>
      if !isClosedLS cs && (c == f || c == l) then (true, acc.2 + 1)
      else if isxFlat (.lineString cs) (.point c) then (true, acc.2)
      else acc
    | _, _ => acc) (false, 0)
  r.1 && r.2 % 2 == 0

/-- `Polygon: Contains<Coord>` -/
def polyContainsCoord (p : Poly) (c : Pt) : Bool := coordPos (.polygon p) c == .inside

/-- `MultiPolygon: Contains<MultiPoint>` (after the fix) -/
def mpolyContainsMultiPoint (ps : List Poly) (cs : List Pt) : Bool :=
  let rec go : List Pt → Bool → Bool
    | [], anyInside => anyInside
    | c :: rest, anyInside =>
      match coordPos (.multiPolygon ps) c with
      | .outside => false
      | .inside => go rest true
      | .onBoundary => go rest anyInside
  go cs false

/-- `Rect: Contains<Polygon>` -/
def rectContainsPolygon (mn mx : Pt) (p : Poly) : Bool :=
  if p.ext.isEmpty then false else
  if !p.ext.all (fun c => rectCoord mn mx c) then false else
  let pointsInside := (p.ext.filter (fun c => rectContainsCoord mn mx c)).length
  if pointsInside == 0 && p.signedArea == 0 then false else true

/-- `Geometry: Contains<Coord>` on any geometry: `contains(&Point)` of the concrete type -/
def containsCoordFlat (a : Geom) (c : Pt) : Bool :=
  match a with
  | .point p => p == c
  | .line p q => lineContainsCoord p q c
  | .lineString cs => lsContainsCoord cs c
  | .polygon p => polyContainsCoord p c
  | .multiPoint ps => ps.any (· == c)
  | .multiLineString ls => mlsContainsPoint ls c
  | .multiPolygon ps => ps.any (fun p => polyContainsCoord p c)
  | .rect mn mx => rectContainsCoord mn mx c
  | .triangle t0 t1 t2 => triContainsCoord t0 t1 t2 c
  | .collection _ => false

mutual
def containsCoord : Geom → Pt → Bool
  | .collection gs, c => containsCoordAny gs c
  | a, c => containsCoordFlat a c
def containsCoordAny : List Geom → Pt → Bool
  | [], _ => false
  | g :: gs, c => containsCoord g c || containsCoordAny gs c
end

/-- the `impl_contains_from_relate!` path -/
def containsViaRelate (a b : Geom) : Bool := Gen.isContains (relateSpec a b)

/-- `MultiPolygon: Contains<X>` for linear/areal `X`: `rhs.relate(self).is_within()` -/
def withinViaRelate (a b : Geom) : Bool := Gen.isWithin (relateSpec b a)

mutual
/-- `Point: Contains<G>` -/
def pointContains (p : Pt) : Geom → Bool
  | .point q => p == q
  | .line a b => if a == b then a == p else false
  | .lineString cs => if cs.isEmpty then false else cs.all (· == p)
  | .polygon poly => if poly.ext.isEmpty then false else poly.coords.all (· == p)
  | .multiPoint qs => if qs.isEmpty then false else qs.all (· == p)
  | .multiLineString ls =>
      -- after the `fix:`: empty members are skipped
      if ls.all List.isEmpty then false else (ls.filter (fun cs => !cs.isEmpty)).all (fun cs => cs.all (· == p))
  | .multiPolygon ps =>
      if ps.all (·.ext.isEmpty) then false
      else (ps.filter (fun poly => !poly.ext.isEmpty)).all (fun poly => poly.coords.all (· == p))
  | .rect mn mx => mn == mx && mn == p
  | .triangle a b c => a == b && a == c && a == p
  | .collection gs => if dimsList gs == .empty then false else pointContainsAll p gs
def pointContainsAll (p : Pt) : List Geom → Bool
  | [] => true
  | g :: gs => (if dims g == .empty then true else pointContains p g) && pointContainsAll p gs
end

/-- `Geometry: Contains<Geometry>`: the concrete `A: Contains<B>` impl for every pair. -/
def containsM (a b : Geom) : Bool :=
  match a, b with
  | _, .point c => containsCoord a c
  | .point p, _ => pointContains p b
  | .line p q, .line c d => lineContainsLine p q c d
  | .line p q, .lineString cs => lineContainsLineString p q cs
  | .lineString cs, .line c d => lsContainsLine cs c d
  | .lineString cs, .lineString ds => lsContainsLs cs ds
  | .multiPolygon ps, .multiPoint cs => mpolyContainsMultiPoint ps cs
  | .multiPolygon _, _ => withinViaRelate a b
  | .rect mn mx, .rect bmn bmx => rectContainsRect mn mx bmn bmx
  | .rect mn mx, .polygon p => rectContainsPolygon mn mx p
  | _, _ => containsViaRelate a b

/-- `Within` is `Contains` with the operands swapped. -/
def withinM (a b : Geom) : Bool := containsM b a

end Geo
