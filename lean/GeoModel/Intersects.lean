/-
  GeoModel.Intersects — C02: the `Intersects` trait, one Lean term per Rust impl body,
  composed exactly as the trait dispatch composes them (blanket impls for Point / MultiPoint /
  LineString / MultiLineString / MultiPolygon / Geometry / GeometryCollection,
  `symmetric_intersects_impl!`, `has_disjoint_bboxes`).

  Anchors: geo/src/algorithm/intersects/{mod,coordinate,point,line,line_string,polygon,rect,
  triangle,collections}.rs
-/
import GeoModel.Locate

namespace Geo

/-- `has_disjoint_bboxes(a, b)`: both bounding rects exist and `Rect × Rect` does not intersect. -/
def disjointBB (a b : Geom) : Bool :=
  match boundingRect a, boundingRect b with
  | some (amn, amx), some (bmn, bmx) => !rectRect amn amx bmn bmx
  | _, _ => false

def rectPoly (mn mx : Pt) : Poly := ⟨SM.rectToPolygon ⟨mn, mx⟩, []⟩
def triPoly (a b c : Pt) : Poly := ⟨[a, b, c, a], []⟩

/-- `Polygon: Intersects<Coord>`: `coordinate_position != Outside` -/
def polyCoord (p : Poly) (c : Pt) : Bool := coordPos (.polygon p) c != .outside

/-- `LineString: Intersects<Line>` (blanket impl with `G = Line`) -/
def lsLine (cs : List Pt) (a b : Pt) : Bool :=
  if disjointBB (.lineString cs) (.line a b) then false
  else (segs cs).any (fun s => lineLine s.1 s.2 a b)

/-- `Polygon: Intersects<Line>` -/
def polyLine (p : Poly) (a b : Pt) : Bool :=
  lsLine p.ext a b || p.ints.any (fun r => lsLine r a b) || polyCoord p a || polyCoord p b

/-- `LineString: Intersects<Polygon>` (blanket; `Line × Polygon` is the symmetric impl) -/
def lsPoly (cs : List Pt) (p : Poly) : Bool :=
  if disjointBB (.lineString cs) (.polygon p) then false
  else (segs cs).any (fun s => polyLine p s.1 s.2)

/-- `Polygon: Intersects<Polygon>` -/
def polyPoly (p q : Poly) : Bool :=
  if disjointBB (.polygon p) (.polygon q) then false
  else lsPoly q.ext p || q.ints.any (fun r => lsPoly r p) || lsPoly p.ext q

/-- `Line: Intersects<G>` for a non-collection `G` (after resolving the symmetric impls). -/
def lineX (a b : Pt) : Geom → Bool
  | .point q => lineCoord a b q
  | .line c d => lineLine a b c d
  | .multiPoint qs => qs.any (fun q => lineCoord a b q)
  | .lineString cs => lsLine cs a b
  | .multiLineString ls =>
      if disjointBB (.multiLineString ls) (.line a b) then false else ls.any (fun cs => lsLine cs a b)
  | .polygon p => polyLine p a b
  | .multiPolygon ps =>
      if disjointBB (.multiPolygon ps) (.line a b) then false else ps.any (fun p => polyLine p a b)
  | .rect mn mx => rectLine mn mx a b
  | .triangle t0 t1 t2 => polyLine (triPoly t0 t1 t2) a b
  | .collection _ => false

/-- `Coord: Intersects<G>` / `Point: Intersects<G>` for a non-collection `G`. -/
def coordX (c : Pt) : Geom → Bool
  | .point q => c == q
  | .line a b => lineCoord a b c
  | .multiPoint qs => qs.any (fun q => q == c)
  | .lineString cs => lineStringCoord cs c
  | .multiLineString ls =>
      if disjointBB (.multiLineString ls) (.point c) then false else ls.any (fun cs => lineStringCoord cs c)
  | .polygon p => polyCoord p c
  | .multiPolygon ps =>
      if disjointBB (.multiPolygon ps) (.point c) then false else ps.any (fun p => polyCoord p c)
  | .rect mn mx => rectCoord mn mx c
  | .triangle t0 t1 t2 => triCoord t0 t1 t2 c
  | .collection _ => false

/-- `Polygon: Intersects<G>` for a non-collection `G`. -/
def polyX (p : Poly) : Geom → Bool
  | .point q => polyCoord p q
  | .line a b => polyLine p a b
  | .multiPoint qs => qs.any (fun q => polyCoord p q)
  | .lineString cs => lsPoly cs p
  | .multiLineString ls =>
      if disjointBB (.multiLineString ls) (.polygon p) then false else ls.any (fun cs => lsPoly cs p)
  | .polygon q => polyPoly p q
  | .multiPolygon qs =>
      if disjointBB (.multiPolygon qs) (.polygon p) then false else qs.any (fun q => polyPoly q p)
  | .rect mn mx => polyPoly p (rectPoly mn mx)
  | .triangle t0 t1 t2 => polyPoly p (triPoly t0 t1 t2)
  | .collection _ => false

/-- `Rect: Intersects<G>` for a non-collection `G`. -/
def rectX (mn mx : Pt) : Geom → Bool
  | .point q => rectCoord mn mx q
  | .line a b => rectLine mn mx a b
  | .multiPoint qs => qs.any (fun q => rectCoord mn mx q)
  | .lineString cs =>
      if disjointBB (.lineString cs) (.rect mn mx) then false else (segs cs).any (fun s => rectLine mn mx s.1 s.2)
  | .multiLineString ls =>
      if disjointBB (.multiLineString ls) (.rect mn mx) then false
      else ls.any (fun cs =>
        if disjointBB (.lineString cs) (.rect mn mx) then false else (segs cs).any (fun s => rectLine mn mx s.1 s.2))
  | .polygon p => polyPoly p (rectPoly mn mx)
  | .multiPolygon ps =>
      if disjointBB (.multiPolygon ps) (.rect mn mx) then false else ps.any (fun p => polyPoly p (rectPoly mn mx))
  | .rect bmn bmx => rectRect mn mx bmn bmx
  | .triangle t0 t1 t2 => polyPoly (triPoly t0 t1 t2) (rectPoly mn mx)
  | .collection _ => false

/-- `Triangle: Intersects<G>` for a non-collection `G`. -/
def triX (t0 t1 t2 : Pt) : Geom → Bool
  | .point q => triCoord t0 t1 t2 q
  | .line a b => polyLine (triPoly t0 t1 t2) a b
  | .multiPoint qs => qs.any (fun q => triCoord t0 t1 t2 q)
  | .lineString cs =>
      if disjointBB (.lineString cs) (.triangle t0 t1 t2) then false
      else (segs cs).any (fun s => polyLine (triPoly t0 t1 t2) s.1 s.2)
  | .multiLineString ls =>
      if disjointBB (.multiLineString ls) (.triangle t0 t1 t2) then false
      else ls.any (fun cs =>
        if disjointBB (.lineString cs) (.triangle t0 t1 t2) then false
        else (segs cs).any (fun s => polyLine (triPoly t0 t1 t2) s.1 s.2))
  | .polygon p => polyPoly p (triPoly t0 t1 t2)
  | .multiPolygon ps =>
      if disjointBB (.multiPolygon ps) (.triangle t0 t1 t2) then false
      else ps.any (fun p => polyPoly p (triPoly t0 t1 t2))
  | .rect mn mx => polyPoly (triPoly t0 t1 t2) (rectPoly mn mx)
  | .triangle u0 u1 u2 => polyPoly (triPoly t0 t1 t2) (triPoly u0 u1 u2)
  | .collection _ => false

/-- `a.intersects(b)` for non-collection operands (the Geometry enum only delegates). -/
def isxFlat (a b : Geom) : Bool :=
  match a with
  | .point c => coordX c b
  | .line p q => lineX p q b
  | .multiPoint cs => cs.any (fun c => coordX c b)
  | .lineString cs =>
      if disjointBB a b then false else (segs cs).any (fun s => lineX s.1 s.2 b)
  | .multiLineString ls =>
      if disjointBB a b then false
      else ls.any (fun cs =>
        if disjointBB (.lineString cs) b then false else (segs cs).any (fun s => lineX s.1 s.2 b))
  | .polygon p => polyX p b
  | .multiPolygon ps => if disjointBB a b then false else ps.any (fun p => polyX p b)
  | .rect mn mx => rectX mn mx b
  | .triangle t0 t1 t2 => triX t0 t1 t2 b
  | .collection _ => false

mutual
/-- `GeometryCollection: Intersects<G>` with `G` not a collection: bbox rejection, then any member
(nested collections recurse). -/
def isxColl : List Geom → Geom → Bool
  | gs, b => if disjointBB (.collection gs) b then false else isxCollAny gs b
def isxCollAny : List Geom → Geom → Bool
  | [], _ => false
  | g :: gs, b =>
    (match g with
      | .collection hs => isxColl hs b
      | _ => isxFlat g b) || isxCollAny gs b
end

/-- `Y: Intersects<piece>` for a concrete right-hand type `Y` (any type, collections included)
and a primitive piece (`Point`, `Line`, `Rect`, `Triangle` or `Polygon`). -/
def vsPiece (y piece : Geom) : Bool :=
  match y with
  | .collection hs => isxColl hs piece
  | _ => isxFlat y piece

mutual
/-- `Geometry: Intersects<Geometry>` — the entry point used by the harness. With the enum on the
right-hand side every impl funnels into `Y: Intersects<piece>`: the symmetric impls flip the
primitive types (`Coord`, `Line`, `Rect`, `Triangle`, `Polygon`) onto `Geometry: Intersects<piece>`,
and the blanket impls for `MultiPoint` / `LineString` / `MultiLineString` / `MultiPolygon` /
`GeometryCollection` first split the left operand into pieces (with their bbox rejections). -/
def intersectsM : Geom → Geom → Bool
  | .point c, b => vsPiece b (.point c)
  | .line p q, b => vsPiece b (.line p q)
  | .rect mn mx, b => vsPiece b (.rect mn mx)
  | .triangle t0 t1 t2, b => vsPiece b (.triangle t0 t1 t2)
  | .polygon p, b => vsPiece b (.polygon p)
  | .multiPoint cs, b => cs.any (fun c => vsPiece b (.point c))
  | .lineString cs, b =>
      if disjointBB (.lineString cs) b then false else (segs cs).any (fun s => vsPiece b (.line s.1 s.2))
  | .multiLineString ls, b =>
      if disjointBB (.multiLineString ls) b then false
      else ls.any (fun cs =>
        if disjointBB (.lineString cs) b then false else (segs cs).any (fun s => vsPiece b (.line s.1 s.2)))
  | .multiPolygon ps, b =>
      if disjointBB (.multiPolygon ps) b then false else ps.any (fun p => vsPiece b (.polygon p))
  | .collection gs, b => if disjointBB (.collection gs) b then false else intersectsAny gs b
def intersectsAny : List Geom → Geom → Bool
  | [], _ => false
  | g :: gs, b => intersectsM g b || intersectsAny gs b
end

end Geo
