/-
  GeoModel.TRANPrelude — the (hand-written, import-free) target vocabulary of the Rust→Lean translator
  (translator/rsexpr.py) for the statement fragment: loops with early return, the total stand-ins for
  `partial_cmp(..).unwrap()` and `Option::unwrap`, and constant indexing of a `Vec` under a length guard.
  Every definition here is one *explicit semantic choice* of the translator (listed in the docstring of rsexpr.py).
-/
import GeoModel.Geom

namespace Geo.Gen

/-- outcome of one iteration of a `for` body (and of a whole loop): fall through to the next iteration with the
new values of the live mutable variables, or `return r` from the enclosing function -/
inductive Step (σ ρ : Type) where
  | next (s : σ)
  | ret (r : ρ)

/-- `for x in xs { body }` where the body may `return` from the function -/
def loop {α σ ρ : Type} : List α → (α → σ → Step σ ρ) → σ → Step σ ρ
  | [], _, s => .next s
  | x :: xs, body, s =>
    match body x s with
    | .next s' => loop xs body s'
    | .ret r => .ret r

/-- `a.partial_cmp(&b)` on numbers (never `None`: the model has no NaN) -/
def partialCmp? (a b : Rat) : Option Ordering :=
  some (if a < b then .lt else if a == b then .eq else .gt)

/-- `Option::unwrap` as a total function; the panic on `None` is not modelled (the harness reports panics) -/
def unwrap {α : Type} [Inhabited α] : Option α → α
  | some a => a
  | none => default

/-- `v[k]` for a constant `k` on a `Vec`: accepted by the translator only under a dominating length guard,
so the default is unreachable -/
def idx {α : Type} [Inhabited α] (xs : List α) (k : Nat) : α := xs.getD k default

/-- `iter.enumerate()` over a list-backed iterator: (index, element) pairs -/
def enumerate {α : Type} (xs : List α) : List (Nat × α) := xs.zipIdx.map (fun q => (q.2, q.1))

end Geo.Gen
