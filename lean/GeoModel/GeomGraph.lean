/-
  GeoModel.GeomGraph — C17: the concrete topology graph `GeometryGraph::new(arg_index, geometry)`
  builds *before* self-noding, label swapping, and the node insertion step of self-noding.

  Anchors (geo/src/algorithm/relate/geomgraph/):
    geometry_graph.rs    `new`, `add_geometry`, `add_point`, `add_line`, `add_line_string`,
                         `add_polygon`, `add_polygon_ring`, `insert_point`, `insert_boundary_point`,
                         `determine_boundary`, `add_self_intersection_nodes`,
                         `add_self_intersection_node`, `clone_for_arg_index`
    planar_graph.rs      `insert_edge`, `add_node_with_coordinate`, `is_boundary_node`,
                         `swap_labels`, `clone_for_arg_index`
    node_map.rs          `insert_node_with_coordinate`, `find`
    node.rs              `CoordNode::new` (label = `Label::empty_line_or_point()`)
    label.rs             `Label::new`, `swap_args`, `on_position`, `set_on_position`
    topology_position.rs `TopologyPosition::{area, line_or_point, empty_*, get, set_position}`
    edge.rs              `Edge::new`
  geo/src/algorithm/winding_order.rs through GeoModel.Winding (`windingOrder`).

  The node map is a `BTreeMap` keyed by coordinate; it is modelled as an association list in
  first-insertion order with look-up by coordinate equality (`upsertNode`). Iteration order of the
  map (lexicographic) is restored by `sortNodes` where the order is observable (the dump).
  The code as it is: a ring with fewer than 4 distinct consecutive coordinates only triggers a
  warning and is still added; a ring without a winding order is labelled as if clockwise.
-/
import GeoModel.Winding
import GeoModel.Locate

namespace Geo.GG

/-! ### labels -/

/-- `TopologyPosition` -/
inductive TopoPos where
  | area (on left right : Option Pos)
  | lineOrPoint (on : Option Pos)
  deriving DecidableEq, Repr, Inhabited

/-- `TopologyPosition::empty_area` -/
def TopoPos.emptyArea : TopoPos := .area none none none
/-- `TopologyPosition::empty_line_or_point` -/
def TopoPos.emptyLine : TopoPos := .lineOrPoint none

/-- `TopologyPosition::get(Direction::On)` -/
def TopoPos.on : TopoPos → Option Pos
  | .area on _ _ => on
  | .lineOrPoint on => on

/-- `TopologyPosition::set_position(Direction::On, p)` -/
def TopoPos.setOn (t : TopoPos) (p : Pos) : TopoPos :=
  match t with
  | .area _ l r => .area (some p) l r
  | .lineOrPoint _ => .lineOrPoint (some p)

/-- `TopologyPosition::flip`: left and right exchanged -/
def TopoPos.flip : TopoPos → TopoPos
  | .area on l r => .area on r l
  | .lineOrPoint on => .lineOrPoint on

/-- `Label`: `geometry_topologies[0]`, `geometry_topologies[1]` -/
structure Label where
  a : TopoPos
  b : TopoPos
  deriving DecidableEq, Repr, Inhabited

/-- `geometry_topologies[idx]` (argument indices are 0 and 1; anything else reads slot 1) -/
def Label.get (l : Label) (idx : Nat) : TopoPos := if idx = 0 then l.a else l.b

def Label.set (l : Label) (idx : Nat) (t : TopoPos) : Label :=
  if idx = 0 then { l with a := t } else { l with b := t }

/-- `Label::empty_line_or_point` -/
def Label.emptyLine : Label := ⟨.emptyLine, .emptyLine⟩
/-- `Label::empty_area` -/
def Label.emptyArea : Label := ⟨.emptyArea, .emptyArea⟩

/-- `Label::new(geom_index, position)`: the other slot is the empty position of the same shape -/
def Label.new (idx : Nat) (t : TopoPos) : Label :=
  match t with
  | .lineOrPoint _ => Label.emptyLine.set idx t
  | .area _ _ _ => Label.emptyArea.set idx t

/-- `Label::swap_args` -/
def Label.swap (l : Label) : Label := ⟨l.b, l.a⟩

/-- `Label::flip` -/
def Label.flip (l : Label) : Label := ⟨l.a.flip, l.b.flip⟩

/-- `Label::on_position(geom_index)` -/
def Label.onPos (l : Label) (idx : Nat) : Option Pos := (l.get idx).on

/-- `Label::set_on_position(geom_index, position)` -/
def Label.setOn (l : Label) (idx : Nat) (p : Pos) : Label := l.set idx ((l.get idx).setOn p)

/-! ### graph -/

/-- `Edge` as built by `Edge::new`: coordinates and label (`is_isolated = true`, no intersections) -/
structure Edge where
  coords : List Pt
  label : Label
  deriving DecidableEq, Repr, Inhabited

/-- `CoordNode` -/
structure Node where
  coord : Pt
  label : Label
  deriving DecidableEq, Repr, Inhabited

/-- `GeometryGraph` (the part `new` fills in): node map, edge vector, and the
`use_boundary_determination_rule` flag. -/
structure Graph where
  nodes : List Node
  edges : List Edge
  useRule : Bool
  deriving DecidableEq, Repr, Inhabited

/-- `PlanarGraph::new()`, `use_boundary_determination_rule: true` -/
def Graph.empty : Graph := ⟨[], [], true⟩

/-- `NodeMap::insert_node_with_coordinate(c)` followed by a label update `f`: the node with that
coordinate if there is one, otherwise a new `CoordNode::new(c)`. -/
def upsertNode (c : Pt) (f : Label → Label) : List Node → List Node
  | [] => [⟨c, f Label.emptyLine⟩]
  | n :: ns => if n.coord = c then ⟨n.coord, f n.label⟩ :: ns else n :: upsertNode c f ns

/-- `NodeMap::find` -/
def findNode (c : Pt) : List Node → Option Node
  | [] => none
  | n :: ns => if n.coord = c then some n else findNode c ns

/-- the `on` position in slot `idx` of the node at `c`, if any -/
def Graph.nodeOn (G : Graph) (idx : Nat) (c : Pt) : Option Pos :=
  match findNode c G.nodes with
  | some n => n.label.onPos idx
  | none => none

/-- `PlanarGraph::insert_edge` -/
def insertEdge (e : Edge) (G : Graph) : Graph := { G with edges := G.edges ++ [e] }

/-- `GeometryGraph::insert_point(arg_index, coord, position)` -/
def insertPoint (idx : Nat) (c : Pt) (p : Pos) (G : Graph) : Graph :=
  { G with nodes := upsertNode c (fun l => l.setOn idx p) G.nodes }

/-- `GeometryGraph::determine_boundary` (the SFS mod-2 rule) -/
def determineBoundary (boundaryCount : Nat) : Pos :=
  if boundaryCount % 2 = 1 then .onBoundary else .inside

/-- the label update of `insert_boundary_point`: the previous count is 1 iff the node is
currently `OnBoundary` in this slot, then one is added. -/
def boundaryUpdate (idx : Nat) (l : Label) : Label :=
  l.setOn idx (determineBoundary ((if l.onPos idx = some .onBoundary then 1 else 0) + 1))

/-- `GeometryGraph::insert_boundary_point` -/
def insertBoundaryPoint (idx : Nat) (c : Pt) (G : Graph) : Graph :=
  { G with nodes := upsertNode c (boundaryUpdate idx) G.nodes }

/-- "remove repeated coords": a coordinate is pushed unless it equals the last one pushed -/
def dedupFrom (prev : Pt) : List Pt → List Pt
  | [] => []
  | c :: rest => if c = prev then dedupFrom prev rest else c :: dedupFrom c rest

def dedup : List Pt → List Pt
  | [] => []
  | c :: rest => c :: dedupFrom c rest

/-- `GeometryGraph::add_point` -/
def addPoint (idx : Nat) (p : Pt) (G : Graph) : Graph := insertPoint idx p .inside G

/-- the label of a line edge: `Label::new(arg_index, TopologyPosition::line_or_point(Inside))` -/
def lineLabel (idx : Nat) : Label := Label.new idx (.lineOrPoint (some .inside))

/-- `GeometryGraph::add_line` -/
def addLine (idx : Nat) (a b : Pt) (G : Graph) : Graph :=
  insertEdge ⟨[a, b], lineLabel idx⟩ (insertBoundaryPoint idx b (insertBoundaryPoint idx a G))

/-- `GeometryGraph::add_line_string` -/
def addLineString (idx : Nat) (cs : List Pt) (G : Graph) : Graph :=
  match dedup cs with
  | [] => G                                   -- `line_string.is_empty()`
  | [c] => addPoint idx c G                   -- "Treating invalid linestring as point"
  | first :: rest =>
    let coords := first :: rest
    let last := coords.getLast?.getD first
    insertEdge ⟨coords, lineLabel idx⟩ (insertBoundaryPoint idx last (insertBoundaryPoint idx first G))

/-- the `(left, right)` choice of `add_polygon_ring` from the ring's `winding_order` -/
def ringSides (ring : List Pt) (cwLeft cwRight : Pos) : Pos × Pos :=
  match windingOrder ring with
  | some .cw => (cwLeft, cwRight)
  | some .ccw => (cwRight, cwLeft)
  | none => (cwLeft, cwRight)

/-- the edge `add_polygon_ring` inserts -/
def ringEdge (idx : Nat) (ring : List Pt) (cwLeft cwRight : Pos) : Edge :=
  let s := ringSides ring cwLeft cwRight
  ⟨dedup ring, Label.new idx (.area (some .onBoundary) (some s.1) (some s.2))⟩

/-- `GeometryGraph::add_polygon_ring` -/
def addPolygonRing (idx : Nat) (ring : List Pt) (cwLeft cwRight : Pos) (G : Graph) : Graph :=
  match dedup ring with
  | [] => G                                   -- `linear_ring.is_empty()`
  | first :: _ =>
    insertPoint idx first .onBoundary (insertEdge (ringEdge idx ring cwLeft cwRight) G)

def addHoles (idx : Nat) : List (List Pt) → Graph → Graph
  | [], G => G
  | h :: hs, G => addHoles idx hs (addPolygonRing idx h .inside .outside G)

/-- `GeometryGraph::add_polygon` -/
def addPolygon (idx : Nat) (p : Poly) (G : Graph) : Graph :=
  addHoles idx p.ints (addPolygonRing idx p.ext .outside .inside G)

def addPoints (idx : Nat) : List Pt → Graph → Graph
  | [], G => G
  | p :: ps, G => addPoints idx ps (addPoint idx p G)

def addLineStrings (idx : Nat) : List (List Pt) → Graph → Graph
  | [], G => G
  | l :: ls, G => addLineStrings idx ls (addLineString idx l G)

def addPolygons (idx : Nat) : List Poly → Graph → Graph
  | [], G => G
  | p :: ps, G => addPolygons idx ps (addPolygon idx p G)

/-- `Rect::to_polygon` -/
def rectPolygon (mn mx : Pt) : Poly :=
  ⟨[⟨mx.x, mn.y⟩, ⟨mx.x, mx.y⟩, ⟨mn.x, mx.y⟩, ⟨mn.x, mn.y⟩, ⟨mx.x, mn.y⟩], []⟩

/-- `Triangle::to_polygon` -/
def trianglePolygon (a b c : Pt) : Poly := ⟨[a, b, c, a], []⟩

mutual
/-- `GeometryGraph::add_geometry`. The leading `if` of each clause is `geometry.is_empty()` as it
resolves for that variant (inherent `is_empty` of `MultiPoint` / `GeometryCollection`). -/
def addGeometry (idx : Nat) : Geom → Graph → Graph
  | .point p, G => addPoint idx p G
  | .line a b, G => addLine idx a b G
  | .lineString cs, G => if cs.isEmpty then G else addLineString idx cs G
  | .polygon p, G => if p.ext.isEmpty then G else addPolygon idx p G
  | .multiPoint ps, G => if ps.isEmpty then G else addPoints idx ps G
  | .multiLineString ls, G => if ls.all List.isEmpty then G else addLineStrings idx ls G
  | .multiPolygon ps, G =>
    if ps.all (·.ext.isEmpty) then G
    else addPolygons idx ps { G with useRule := false }
  | .rect mn mx, G => addPolygon idx (rectPolygon mn mx) G
  | .triangle a b c, G => addPolygon idx (trianglePolygon a b c) G
  | .collection gs, G => if gs.isEmpty then G else addGeometries idx gs G
def addGeometries (idx : Nat) : List Geom → Graph → Graph
  | [], G => G
  | g :: gs, G => addGeometries idx gs (addGeometry idx g G)
end

/-- `GeometryGraph::new(arg_index, geometry)` -/
def buildGraph (idx : Nat) (g : Geom) : Graph := addGeometry idx g Graph.empty

/-! ### label swapping -/

def Node.swap (n : Node) : Node := ⟨n.coord, n.label.swap⟩
def Edge.swap (e : Edge) : Edge := ⟨e.coords, e.label.swap⟩

/-- `PlanarGraph::swap_labels` -/
def Graph.swapLabels (G : Graph) : Graph := ⟨G.nodes.map Node.swap, G.edges.map Edge.swap, G.useRule⟩

/-- `GeometryGraph::clone_for_arg_index` on a cache built for index 0 (`assert_eq!(from, 0)`) -/
def cloneForArg (cached : Graph) (idx : Nat) : Graph := if idx = 0 then cached else cached.swapLabels

/-! ### the node-insertion step of self-noding

`compute_self_nodes` first records edge intersections on the edges (through `lineIntersection`,
C11) and then calls `add_self_intersection_nodes`, which is modelled here over the recorded
intersection coordinates `ixs` (one list per edge, in edge order, each in intersection-list order).
-/

/-- `PlanarGraph::is_boundary_node` -/
def isBoundaryNode (idx : Nat) (c : Pt) (G : Graph) : Bool :=
  match findNode c G.nodes with
  | some n => n.label.onPos idx == some .onBoundary
  | none => false

/-- `GeometryGraph::add_self_intersection_node` -/
def addSelfIntersectionNode (idx : Nat) (c : Pt) (p : Pos) (G : Graph) : Graph :=
  if isBoundaryNode idx c G then G
  else if p = .onBoundary && G.useRule then insertBoundaryPoint idx c G
  else insertPoint idx c p G

def addSelfIntersectionCoords (idx : Nat) (p : Pos) : List Pt → Graph → Graph
  | [], G => G
  | c :: cs, G => addSelfIntersectionCoords idx p cs (addSelfIntersectionNode idx c p G)

/-- the outer loop over `positions_and_intersections` (an edge without an `on` position would
panic in the code — "all edge labels should have an `on` position by now"; skipped here) -/
def addSelfIntersectionItems (idx : Nat) : List (Option Pos × List Pt) → Graph → Graph
  | [], G => G
  | (none, _) :: rest, G => addSelfIntersectionItems idx rest G
  | (some p, cs) :: rest, G => addSelfIntersectionItems idx rest (addSelfIntersectionCoords idx p cs G)

/-- `GeometryGraph::add_self_intersection_nodes` -/
def addSelfIntersectionNodes (idx : Nat) (ixs : List (List Pt)) (G : Graph) : Graph :=
  addSelfIntersectionItems idx ((G.edges.zip ixs).map (fun (e, cs) => (e.label.onPos idx, cs))) G

/-! ### canonical order (for comparing with the node map's iteration order) -/

def insertNodeSorted (n : Node) : List Node → List Node
  | [] => [n]
  | m :: ms => if lexLt m.coord n.coord then m :: insertNodeSorted n ms else n :: m :: ms

/-- nodes in `lex_cmp` order of their coordinates, like `BTreeMap` iteration -/
def sortNodes (ns : List Node) : List Node := ns.foldr insertNodeSorted []

/-! ### the mod-2 rule, as a specification -/

/-- how many times `p` occurs as an end point of the line string `l` (first and last coordinate,
if it has at least two distinct consecutive coordinates; a closed one counts twice) -/
def endpointCount1 (p : Pt) (l : List Pt) : Nat :=
  match dedup l with
  | [] => 0
  | [_] => 0
  | first :: rest =>
    (if first = p then 1 else 0) + (if (first :: rest).getLast?.getD first = p then 1 else 0)

/-- how many times `p` occurs as an end point of the line strings `ls` -/
def endpointCount (p : Pt) : List (List Pt) → Nat
  | [] => 0
  | l :: ls => endpointCount1 p l + endpointCount p ls

/-- `l` collapses to the single point `p` ("Treating invalid linestring as point") -/
def collapsesTo (p : Pt) (l : List Pt) : Bool := dedup l == [p]

end Geo.GG
