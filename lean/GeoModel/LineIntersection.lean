/-
  GeoModel.LineIntersection — C11: the decision tree of `line_intersection`, with the exact
  (Cramer) intersection point in place of the conditioned float solver.

  Anchor: geo/src/algorithm/line_intersection.rs
-/
import GeoModel.Segment
import GeoModel.PolygonSM

namespace Geo

inductive LI where
  | single (pt : Pt) (proper : Bool)
  | collinear (a b : Pt)
  deriving DecidableEq, Repr

/-- `Line::bounding_rect` = `Rect::new(start, end)` -/
def lineBBox (a b : Pt) : Pt × Pt := let r := SM.rectNew a b; (r.mn, r.mx)

/-- `collinear_intersection`: the ten-row match on the four envelope-membership bits, in
source order, with the `if` guards. -/
def collinearIntersection (p1 p2 q1 q2 : Pt) : Option LI :=
  let pb := lineBBox p1 p2
  let qb := lineBBox q1 q2
  let a := rectCoord pb.1 pb.2 q1   -- p_bounds ∋ q.start
  let b := rectCoord pb.1 pb.2 q2   -- p_bounds ∋ q.end
  let c := rectCoord qb.1 qb.2 p1   -- q_bounds ∋ p.start
  let d := rectCoord qb.1 qb.2 p2   -- q_bounds ∋ p.end
  if a && b then some (.collinear q1 q2)
  else if c && d then some (.collinear p1 p2)
  else if a && !b && c && !d && q1 == p1 then some (.single q1 false)
  else if a && c then some (.collinear q1 p1)
  else if a && !b && !c && d && q1 == p2 then some (.single q1 false)
  else if a && d then some (.collinear q1 p2)
  else if !a && b && c && !d && q2 == p1 then some (.single q2 false)
  else if b && c then some (.collinear q2 p1)
  else if !a && b && !c && d && q2 == p2 then some (.single q2 false)
  else if b && d then some (.collinear q2 p2)
  else none

/-- Exact intersection point of the two supporting lines (Cramer's rule); only called when the
lines are not parallel. -/
def properPoint (p1 p2 q1 q2 : Pt) : Pt :=
  let px := p1.y - p2.y
  let py := p2.x - p1.x
  let pw := p1.x * p2.y - p2.x * p1.y
  let qx := q1.y - q2.y
  let qy := q2.x - q1.x
  let qw := q1.x * q2.y - q2.x * q1.y
  let xw := py * qw - qy * pw
  let yw := qx * pw - px * qw
  let w := px * qy - qx * py
  ⟨xw / w, yw / w⟩

/-- `line_intersection(p, q)` -/
def lineIntersection (p1 p2 q1 q2 : Pt) : Option LI :=
  let pb := lineBBox p1 p2
  let qb := lineBBox q1 q2
  if !rectRect pb.1 pb.2 qb.1 qb.2 then none else
  let pq1 := orient p1 p2 q1
  let pq2 := orient p1 p2 q2
  if (pq1 == .cw && pq2 == .cw) || (pq1 == .ccw && pq2 == .ccw) then none else
  let qp1 := orient q1 q2 p1
  let qp2 := orient q1 q2 p2
  if (qp1 == .cw && qp2 == .cw) || (qp1 == .ccw && qp2 == .ccw) then none else
  if pq1 == .col && pq2 == .col && qp1 == .col && qp2 == .col then collinearIntersection p1 p2 q1 q2 else
  if pq1 == .col || pq2 == .col || qp1 == .col || qp2 == .col then
    let pt :=
      if p1 == q1 || p1 == q2 then p1
      else if p2 == q1 || p2 == q2 then p2
      else if pq1 == .col then q1
      else if pq2 == .col then q2
      else if qp1 == .col then p1
      else p2
    some (.single pt false)
  else some (.single (properPoint p1 p2 q1 q2) true)

end Geo
