/-
  GeoModel.ValidationSpec — C14: the *specification* side. What "well-formed" means and what it
  means for a reported error to name a ring / member that has the reported defect — stated with
  `ringSimple`, `relateParts` (the executable DE-9IM specification) and plain coordinate facts,
  never with geo's validation code or its model (`GeoModel/Validation.lean`).

  Conventions fixed here (they are the reading of the property text used by the check):
  * an empty ring is an absent ring, a polygon whose exterior is empty is the empty polygon
    (`HasDimensions::is_empty`), empty geometries are well-formed — as in JTS and OGC;
  * the property text does not ask for a connected interior, and geo documents that it does not
    check it: `polySpec` is `Geo.polyValid` without `interiorConnected`;
  * a ring with a non-finite coordinate is not a curve at all: every ring-local complaint about it
    names a ring that has a defect; `NonFiniteCoord` must point at a non-finite coordinate;
  * relations *between* rings (members) are judged by `relateParts` when both rings are simple
    (both members well-formed); a complaint about a pair one of which is itself malformed is accepted.
-/
import GeoModel.Validation

namespace Geo.V
open Geo

/-! ### well-formedness -/

def holeInside (ext h : List Pt) : Bool :=
  let m := relateParts (polyOf h) (polyOf ext)
  m.ii != .empty && m.ie == .empty && m.be == .empty

/-- the hole lies inside the shell and is not the whole of it (DESIGN §7 C14: "every hole ⊆ closed
shell region and not equal to it") -/
def holeStrictlyInside (ext h : List Pt) : Bool :=
  holeInside ext h && (relateParts (polyOf h) (polyOf ext)).ei != .empty

def ringsShareLine (a b : List Pt) : Bool := (relateParts (polyOf a) (polyOf b)).bb == .one
def ringsShareArea (a b : List Pt) : Bool := (relateParts (polyOf a) (polyOf b)).ii != .empty

/-- non-empty holes only -/
def Poly.solid (p : Poly) : Poly := ⟨p.ext, p.ints.filter (fun r => !r.isEmpty)⟩

/-- finite polygon: every (non-empty) ring simple, holes inside the shell, rings meet at points only -/
def polySpec (p : Poly) : Bool := p.ext.isEmpty || polyValid.polyValidRings (Poly.solid p)

def membersShareArea (p q : Poly) : Bool :=
  (relateParts (partsOfPoly (Poly.solid p)) (partsOfPoly (Poly.solid q))).ii != .empty
def membersShareLine (p q : Poly) : Bool :=
  (relateParts (partsOfPoly (Poly.solid p)) (partsOfPoly (Poly.solid q))).bb == .one

def pairsOk {α} (f : α → α → Bool) : List α → Bool
  | [] => true
  | a :: rest => rest.all (f a) && pairsOk f rest

def multiPolySpec (ps : List Poly) : Bool :=
  ps.all polySpec && pairsOk (fun p q => !membersShareArea p q && !membersShareLine p q) ps

/-- at least two different coordinates -/
def lineStringSpec (cs : List Pt) : Bool := cs.isEmpty || cs.any (fun c => cs.any (fun d => c != d))

def polySpecX (p : XPoly) : Bool :=
  p.ext.isEmpty || (match p.toPoly? with | some q => polySpec q | none => false)

mutual
/-- The property's notion of a well-formed geometry. -/
def validSpec : XGeom → Bool
  | .point p => !notFinite p
  | .line a b => (match a.toPt?, b.toPt? with | some p, some q => p != q | _, _ => false)
  | .lineString cs => (match ringToPts? cs with | some q => lineStringSpec q | none => false)
  | .polygon p => polySpecX p
  | .multiPoint ps => ps.all (fun p => !notFinite p)
  | .multiLineString ls =>
      ls.all (fun cs => match ringToPts? cs with | some q => lineStringSpec q | none => false)
  | .multiPolygon ps =>
      ps.all polySpecX &&
      pairsOk (fun p q => match p.toPoly?, q.toPoly? with
        | some a, some b => !membersShareArea a b && !membersShareLine a b
        | _, _ => true) ps
  | .rect mn mx => !notFinite mn && !notFinite mx
  | .triangle a b c => (match a.toPt?, b.toPt?, c.toPt? with
      | some p, some q, some r => orient p q r != .col
      | _, _, _ => false)
  | .collection gs => validSpecList gs
def validSpecList : List XGeom → Bool
  | [] => true
  | g :: gs => validSpec g && validSpecList gs
end

/-- interior connectedness (NOT part of the property; reported as a class tag only) -/
def polyConnectedX (p : XPoly) : Bool :=
  match p.toPoly? with
  | some q => q.ext.isEmpty || interiorConnected (Poly.solid q)
  | none => true

/-! ### defect classes (evidence tags / clause names) -/

def ringClass (r : List Pt) : List String :=
  if r.isEmpty then [] else
  if (dedupConsecutive r).length < 4 then ["too-few-points"] else
  if !ringSimple r then ["ring-not-simple"] else []

def polyClasses (p : XPoly) : List String :=
  if p.ext.isEmpty then [] else
  (if p.rings.any (fun r => r.any notFinite) then ["non-finite"] else []) ++
  match p.toPoly? with
  | none => []
  | some q0 =>
    let q := Poly.solid q0
    let rc := (q.ext :: q.ints).flatMap ringClass
    if !rc.isEmpty then rc else
    (if q.ints.any (fun h => !holeInside q.ext h) then ["hole-not-inside-shell"] else []) ++
    (if q.ints.any (fun h => ringsShareLine h q.ext) then ["hole-shell-share-line"] else []) ++
    (if !pairsOk (fun a b => !ringsShareArea a b) q.ints then ["holes-overlap"] else []) ++
    (if !pairsOk (fun a b => !ringsShareLine a b) q.ints then ["holes-share-line"] else []) ++
    (if !interiorConnected q then ["interior-disconnected"] else [])

/-! ### soundness of a reported error -/

def getRing (p : XPoly) : Role → Option XRing
  | .ext => some p.ext
  | .int i => p.ints[i]?

def getRingQ (p : Poly) : Role → Option (List Pt)
  | .ext => some p.ext
  | .int i => p.ints[i]?

def ringPairOutOfDomain (a b : List Pt) : Bool := !ringSimple a || !ringSimple b

def polyErrSound (p : XPoly) : PolyErr → Bool
  | .tooFew role => (match getRing p role with
      | some r => !r.isEmpty && (match ringToPts? r with
          | some q => decide ((dedupConsecutive q).length < 4)
          | none => true)
      | none => false)
  | .selfInt role => (match getRing p role with
      | some r => !r.isEmpty && (match ringToPts? r with
          | some q => !ringSimple q
          | none => true)
      | none => false)
  | .nonFinite role i => (match getRing p role with
      | some r => (match r[i]? with | some c => notFinite c | none => false)
      | none => false)
  | .notContained role => (match role, p.toPoly? with
      | .int k, some q => (match q.ints[k]? with
          | some h => !h.isEmpty && !q.ext.isEmpty && (ringPairOutOfDomain q.ext h || !holeStrictlyInside q.ext h)
          | none => false)
      | _, _ => false)
  | .onLine a b => (match p.toPoly? with
      | some q => (match getRingQ q a, getRingQ q b with
          | some ra, some rb => a != b && !ra.isEmpty && !rb.isEmpty &&
              (ringPairOutOfDomain ra rb || ringsShareLine ra rb)
          | _, _ => false)
      | none => false)
  | .onArea a b => (match p.toPoly? with
      | some q => (match getRingQ q a, getRingQ q b with
          | some ra, some rb => a != b && !ra.isEmpty && !rb.isEmpty &&
              (ringPairOutOfDomain ra rb || ringsShareArea ra rb)
          | _, _ => false)
      | none => false)

def multiPolyErrSound (ps : List XPoly) : MPolyErr → Bool
  | .poly i e => (match ps[i]? with | some p => polyErrSound p e | none => false)
  | .overlap i j => (match ps[i]?, ps[j]? with
      | some p, some q => (match p.toPoly?, q.toPoly? with
          | some a, some b => i != j && (!polySpec a || !polySpec b || membersShareArea a b)
          | _, _ => false)
      | _, _ => false)
  | .touchLine i j => (match ps[i]?, ps[j]? with
      | some p, some q => (match p.toPoly?, q.toPoly? with
          | some a, some b => i != j && (!polySpec a || !polySpec b || membersShareLine a b)
          | _, _ => false)
      | _, _ => false)

def lineStringErrSound (cs : List XPt) : LsErr → Bool
  | .tooFew => !cs.isEmpty && (match ringToPts? cs with
      | some q => !lineStringSpec q
      | none => true)
  | .nonFinite i => (match cs[i]? with | some c => notFinite c | none => false)

def errSound : XGeom → GErr → Bool
  | .point p, .pt => notFinite p
  | .line a b, .ln e => (match e with
      | .identical => (match a.toPt?, b.toPt? with | some p, some q => p == q | _, _ => true)
      | .nonFinite i => (match [a, b][i]? with | some c => notFinite c | none => false))
  | .lineString cs, .ls e => lineStringErrSound cs e
  | .polygon p, .pg e => polyErrSound p e
  | .multiPoint ps, .mpt i => (match ps[i]? with | some c => notFinite c | none => false)
  | .multiLineString ls, .mls i e => (match ls[i]? with | some cs => lineStringErrSound cs e | none => false)
  | .multiPolygon ps, .mpg e => multiPolyErrSound ps e
  | .rect mn mx, .rc (.nonFinite i) => (match [mn, mx][i]? with | some c => notFinite c | none => false)
  | .triangle a b c, .tr e => (match e with
      | .nonFinite i => (match [a, b, c][i]? with | some c => notFinite c | none => false)
      | .identical i j => (match [a, b, c][i]?, [a, b, c][j]? with
          | some u, some v => i != j && (match u.toPt?, v.toPt? with | some p, some q => p == q | _, _ => true)
          | _, _ => false)
      | .collinear => (match a.toPt?, b.toPt?, c.toPt? with
          | some p, some q, some r => orient p q r == .col
          | _, _, _ => true))
  | .collection gs, .gc i e => (match gs[i]? with | some g => errSound g e | none => false)
  | _, _ => false

end Geo.V
