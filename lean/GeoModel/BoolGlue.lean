/-
  GeoModel.BoolGlue — C04: geo's glue around the overlay engine `i_overlay`.

  Anchors: geo/src/algorithm/bool_ops/mod.rs (`BooleanOps::{rings, boolean_op, clip}`, `unary_union`,
           `impl BooleanOps for {Polygon, MultiPolygon}`),
           geo/src/algorithm/bool_ops/i_overlay_integration.rs (`convert::{ring_to_shape_path,
           line_string_from_path, polygon_from_shape, multi_polygon_from_shapes,
           multi_line_string_from_paths}`, `impl From<OpType> for OverlayRule`).

  The engine itself is NOT modelled: it is the parameter `Engine` (three functions, one per way
  geo calls it). Everything geo does before and after those calls is mirrored line by line. What
  the engine is assumed to do is `EngineSpec` in GeoModel/BoolSpec.lean.
-/
import GeoModel.Winding
import GeoModel.RelateSpec

namespace Geo.BoolGlue
open Geo

/-- an i_overlay contour: implicitly closed -/
abbrev Path := List Pt
/-- an i_overlay shape: first path outer boundary, the rest holes -/
abbrev Shape := List Path

/-- `bool_ops::OpType` -/
inductive OpType where
  | intersection
  | union
  | difference
  | xor
  deriving DecidableEq, Repr, Inhabited

/-- `i_overlay::core::overlay_rule::OverlayRule` (all seven variants of the engine) -/
inductive OverlayRule where
  | subject
  | clip
  | intersect
  | union
  | difference
  | inverseDifference
  | xor
  deriving DecidableEq, Repr, Inhabited

/-- `i_overlay::core::fill_rule::FillRule` -/
inductive FillRule where
  | evenOdd
  | nonZero
  | positive
  | negative
  deriving DecidableEq, Repr, Inhabited

def OverlayRule.str : OverlayRule → String
  | .subject => "Subject" | .clip => "Clip" | .intersect => "Intersect" | .union => "Union"
  | .difference => "Difference" | .inverseDifference => "InverseDifference" | .xor => "Xor"

def FillRule.str : FillRule → String
  | .evenOdd => "EvenOdd" | .nonZero => "NonZero" | .positive => "Positive" | .negative => "Negative"

def OpType.all : List OpType := [.intersection, .union, .difference, .xor]

def OpType.str : OpType → String
  | .intersection => "intersection" | .union => "union" | .difference => "difference" | .xor => "xor"

/-- `impl From<OpType> for OverlayRule` -/
def opToRule : OpType → OverlayRule
  | .intersection => .intersect
  | .union => .union
  | .difference => .difference
  | .xor => .xor

/-- The overlay engine, as geo calls it:
* `overlay subject clip rule fill` — `subject.overlay(&clip, rule, fill)` (`SingleFloatOverlay`);
* `single subject fill` — `FloatOverlay::with_subj(&subject).overlay(OverlayRule::Subject, fill)`;
* `clip lines shape fill invert boundaryIncluded` — `lines.clip_by(&shape, fill, ClipRule{..})`. -/
structure Engine where
  overlay : List Path → List Path → OverlayRule → FillRule → List Shape
  single : List Path → FillRule → List Shape
  clip : List Path → List Path → FillRule → Bool → Bool → List Path

/-- remove the trailing run of coordinates equal to `a` -/
def dropTrailing (a : Pt) : List Pt → List Pt
  | [] => []
  | b :: t =>
    let t' := dropTrailing a t
    if t'.isEmpty && b == a then [] else b :: t'

/-- the `while coords.len() > 1 && coords.last() == coords.first()` loop of `ring_to_shape_path`
(after the `fix:` commit): everything after the first coordinate loses its trailing copies of the
first coordinate. -/
def stripClosing : List Pt → List Pt
  | [] => []
  | a :: t => a :: dropTrailing a t

/-- `convert::ring_to_shape_path`: empty ⇒ empty; otherwise all but the last coordinate, then
(fix) strip the remaining trailing copies of the first coordinate. -/
def ringToShapePath (r : List Pt) : Path :=
  if r.isEmpty then [] else stripClosing r.dropLast

/-- `ring_to_shape_path` as on the pinned tree (kept for the record, DESIGN §8 F5) -/
def ringToShapePathPinned (r : List Pt) : Path :=
  if r.isEmpty then [] else r.dropLast

/-- `convert::line_string_from_path` -/
def lineStringFromPath (p : Path) : List Pt := p

/-- the closure of `polygon_from_shape`: `line_string.close(); line_string.0.reverse()` -/
def ringFromPath (p : Path) : List Pt := (SM.close (lineStringFromPath p)).reverse

/-- `convert::polygon_from_shape`: first ring is the exterior (an empty `LineString` when the shape has
no path), `Polygon::new` closes every ring once more. -/
def polygonFromShape (sh : Shape) : Poly :=
  match sh.map ringFromPath with
  | [] => ⟨SM.close [], []⟩
  | e :: is => ⟨SM.close e, is.map SM.close⟩

/-- `convert::multi_polygon_from_shapes` -/
def multiPolygonFromShapes (ss : List Shape) : List Poly := ss.map polygonFromShape

/-- `convert::multi_line_string_from_paths` -/
def multiLineStringFromPaths (ps : List Path) : List (List Pt) := ps.map lineStringFromPath

/-- `BooleanOps::rings` for `MultiPolygon` (`Polygon` = a single member): per member the exterior,
then its interiors. -/
def rings (ps : List Poly) : List (List Pt) := ps.flatMap Poly.rings

/-- `BooleanOps::boolean_op` -/
def booleanOp (E : Engine) (a b : List Poly) (op : OpType) : List Poly :=
  let subject := (rings a).map ringToShapePath
  let clip := (rings b).map ringToShapePath
  let shapes := E.overlay subject clip (opToRule op) .evenOdd
  multiPolygonFromShapes shapes

/-- the `winding_order` accumulator of `unary_union`: the first ring that *has* a winding order
decides (`if winding_order.is_none() { winding_order = ring.winding_order() }`). -/
def firstWinding : List (List Pt) → Option WO
  | [] => none
  | r :: rs => match windingOrder r with
    | some w => some w
    | none => firstWinding rs

/-- the fill rule `unary_union` chooses -/
def unaryFillRule (rs : List (List Pt)) : FillRule :=
  if firstWinding rs = some .cw then .positive else .negative

/-- `unary_union` (each boppable contributes its rings in order) -/
def unaryUnion (E : Engine) (boppables : List (List Poly)) : List Poly :=
  let rs := boppables.flatMap rings
  let subject := rs.map ringToShapePath
  let shapes := E.single subject (unaryFillRule rs)
  multiPolygonFromShapes shapes

/-- `BooleanOps::clip` -/
def clip (E : Engine) (a : List Poly) (mls : List (List Pt)) (invert : Bool) : List (List Pt) :=
  let subject : List Path := mls
  let clipPaths := (rings a).map ringToShapePath
  let paths := E.clip subject clipPaths .evenOdd invert true
  multiLineStringFromPaths paths

end Geo.BoolGlue
