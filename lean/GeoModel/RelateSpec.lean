/-
  GeoModel.RelateSpec — C01: an executable *specification* of the DE-9IM matrix.

  This is deliberately NOT a port of the JTS-style topology graph that geo implements
  (geo/src/algorithm/relate/**). It is the simplest executable definition of DE-9IM:

   1. `parts g`     — isolated points, curves, areal members of a geometry;
   2. `locate g p`  — exact point location (interior / boundary / exterior) with the mod-2 rule
                      for curve end points and "union of ring boundaries" for areal members,
                      using its own winding computation (independent of geo's `ringPos`);
   3. atoms of the planar arrangement of all segments of A ∪ B: vertices `V` (end points,
      isolated points, pairwise intersection points), midpoints of the elementary sub-segments,
      and for each sub-segment the two face samples `m ± δ·n` with `δ` a *symbolic
      infinitesimal* (numbers `a + b·δ` ordered lexicographically);
   4. cell `(X, Y)` = max dimension of an atom located `X` w.r.t. A and `Y` w.r.t. B.
-/
import GeoModel.Segment
import GeoModel.Locate
import GeoModel.LineIntersection

namespace Geo

/-! ### Intersection matrix -/

/-- 3×3 matrix of dimensions, rows = position w.r.t. A, columns = position w.r.t. B, each in the
order Inside, OnBoundary, Outside (the order of the 9-character DE-9IM string). -/
structure IM where
  ii : Dim
  ib : Dim
  ie : Dim
  bi : Dim
  bb : Dim
  be : Dim
  ei : Dim
  eb : Dim
  ee : Dim
  deriving DecidableEq, Repr

def IM.empty : IM := ⟨.empty, .empty, .empty, .empty, .empty, .empty, .empty, .empty, .empty⟩

def IM.get (m : IM) : Pos → Pos → Dim
  | .inside, .inside => m.ii | .inside, .onBoundary => m.ib | .inside, .outside => m.ie
  | .onBoundary, .inside => m.bi | .onBoundary, .onBoundary => m.bb | .onBoundary, .outside => m.be
  | .outside, .inside => m.ei | .outside, .onBoundary => m.eb | .outside, .outside => m.ee

def IM.set (m : IM) (a b : Pos) (d : Dim) : IM :=
  match a, b with
  | .inside, .inside => { m with ii := d } | .inside, .onBoundary => { m with ib := d }
  | .inside, .outside => { m with ie := d } | .onBoundary, .inside => { m with bi := d }
  | .onBoundary, .onBoundary => { m with bb := d } | .onBoundary, .outside => { m with be := d }
  | .outside, .inside => { m with ei := d } | .outside, .onBoundary => { m with eb := d }
  | .outside, .outside => { m with ee := d }

/-- `set_at_least` -/
def IM.setAtLeast (m : IM) (a b : Pos) (d : Dim) : IM :=
  if (m.get a b).rank < d.rank then m.set a b d else m

def IM.transpose (m : IM) : IM := ⟨m.ii, m.bi, m.ei, m.ib, m.bb, m.eb, m.ie, m.be, m.ee⟩

def IM.str (m : IM) : String :=
  String.ofList [m.ii.char, m.ib.char, m.ie.char, m.bi.char, m.bb.char, m.be.char, m.ei.char, m.eb.char, m.ee.char]

def Dim.ofChar? : Char → Option Dim
  | 'F' => some .empty | '0' => some .zero | '1' => some .one | '2' => some .two | _ => none

def IM.parse? (s : String) : Option IM :=
  match s.toList.map Dim.ofChar? with
  | [some a, some b, some c, some d, some e, some f, some g, some h, some i] => some ⟨a, b, c, d, e, f, g, h, i⟩
  | _ => none

/-! ### Parts -/

structure Parts where
  pts : List Pt
  curves : List (List Pt)
  areas : List Poly
  deriving Repr

def Parts.append (a b : Parts) : Parts := ⟨a.pts ++ b.pts, a.curves ++ b.curves, a.areas ++ b.areas⟩

mutual
def parts : Geom → Parts
  | .point p => ⟨[p], [], []⟩
  | .line a b => ⟨[], [[a, b]], []⟩
  | .lineString cs => ⟨[], [cs], []⟩
  | .polygon p => ⟨[], [], [p]⟩
  | .multiPoint ps => ⟨ps, [], []⟩
  | .multiLineString ls => ⟨[], ls, []⟩
  | .multiPolygon ps => ⟨[], [], ps⟩
  | .rect mn mx => ⟨[], [], [⟨SM.rectToPolygon ⟨mn, mx⟩, []⟩]⟩
  | .triangle a b c => ⟨[], [], [⟨[a, b, c, a], []⟩]⟩
  | .collection gs => partsList gs
def partsList : List Geom → Parts
  | [] => ⟨[], [], []⟩
  | g :: gs => (parts g).append (partsList gs)
end

def Poly.rings (p : Poly) : List (List Pt) := p.ext :: p.ints

def Parts.areaSegs (ps : Parts) : List (Pt × Pt) := (ps.areas.flatMap Poly.rings).flatMap segs
def Parts.curveSegs (ps : Parts) : List (Pt × Pt) := ps.curves.flatMap segs
def Parts.allSegs (ps : Parts) : List (Pt × Pt) := ps.curveSegs ++ ps.areaSegs

/-! ### Symbolic-infinitesimal points and the winding number -/

/-- A point `(x0 + x1·δ, y0 + y1·δ)` with `δ` a positive infinitesimal. -/
structure EPt where
  x0 : Rat
  x1 : Rat
  y0 : Rat
  y1 : Rat
  deriving Repr

def EPt.ofPt (p : Pt) : EPt := ⟨p.x, 0, p.y, 0⟩

/-- `a0 + a1·δ ≤ b0 + b1·δ` (lexicographic) -/
def eLe (a0 a1 b0 b1 : Rat) : Bool := a0 < b0 || (a0 == b0 && a1 ≤ b1)
def eLt (a0 a1 b0 b1 : Rat) : Bool := a0 < b0 || (a0 == b0 && a1 < b1)

/-- sign of `cross s e p` for a perturbed `p` (linear in `p`, so no `δ²` term):
`cross = c0 + c1·δ`; returns `1`, `-1` or `0`. -/
def eCrossSign (s e : Pt) (p : EPt) : Int :=
  let c0 := (e.x - s.x) * (p.y0 - e.y) - (e.y - s.y) * (p.x0 - e.x)
  let c1 := (e.x - s.x) * p.y1 - (e.y - s.y) * p.x1
  if c0 > 0 then 1 else if c0 < 0 then -1 else if c1 > 0 then 1 else if c1 < 0 then -1 else 0

/-- Winding number of a closed ring around a point *not on the ring* (Sunday's algorithm:
upward edges with the point strictly left count +1, downward edges with the point strictly
right count −1; half-open in y). -/
def windingE (p : EPt) (ring : List Pt) : Int :=
  (segs ring).foldl (fun w (s, e) =>
    if eLe s.y 0 p.y0 p.y1 then
      if eLt p.y0 p.y1 e.y 0 then (if eCrossSign s e p > 0 then w + 1 else w) else w
    else
      if eLe e.y 0 p.y0 p.y1 then (if eCrossSign s e p < 0 then w - 1 else w) else w) 0

/-- inside the polygon (point off all its rings): inside the shell and outside every hole -/
def insidePolyE (p : EPt) (poly : Poly) : Bool :=
  windingE p poly.ext != 0 && poly.ints.all (fun h => windingE p h == 0)

/-! ### Exact point location (the specification of interior / boundary / exterior) -/

def onAnySeg (p : Pt) (ss : List (Pt × Pt)) : Bool := ss.any (fun (a, b) => lineCoord a b p)

/-- number of end points of *open* curves equal to `p` (both ends counted) -/
def endpointCount (p : Pt) (curves : List (List Pt)) : Nat :=
  curves.foldl (fun n c =>
    match c.head?, c.getLast? with
    | some f, some l => if f == l then n else n + (if p == f then 1 else 0) + (if p == l then 1 else 0)
    | _, _ => n) 0

def locateParts (ps : Parts) (p : Pt) : Pos :=
  if ps.areas.any (fun poly => !(onAnySeg p (poly.rings.flatMap segs)) && insidePolyE (EPt.ofPt p) poly) then .inside
  else if onAnySeg p ps.areaSegs || ps.areas.any (fun poly => poly.rings.any (fun r => r == [p])) then .onBoundary
  else if onAnySeg p ps.curveSegs then
    (if endpointCount p ps.curves % 2 == 1 then .onBoundary else .inside)
  else if ps.pts.any (· == p) then .inside
  else .outside

def locate (g : Geom) (p : Pt) : Pos := locateParts (parts g) p

/-- location of a face sample (perturbed point, never on a segment or point of the arrangement) -/
def locateFace (ps : Parts) (p : EPt) : Pos :=
  if ps.areas.any (insidePolyE p) then .inside else .outside

/-! ### Arrangement atoms -/

def dedupPts (l : List Pt) : List Pt :=
  l.foldl (fun acc p => if acc.any (· == p) then acc else p :: acc) []

/-- intersection vertices of two segments (single point; overlaps contribute no new vertex) -/
def segVertex (s t : Pt × Pt) : List Pt :=
  match lineIntersection s.1 s.2 t.1 t.2 with
  | some (.single p _) => [p]
  | _ => []

def pairVertices : List (Pt × Pt) → List Pt
  | [] => []
  | s :: rest => rest.flatMap (segVertex s) ++ pairVertices rest

/-- insertion sort by squared distance from `a` (points collinear with a segment from `a`) -/
def insertByDist (a : Pt) (p : Pt) : List Pt → List Pt
  | [] => [p]
  | q :: qs => if dist2 a p ≤ dist2 a q then p :: q :: qs else q :: insertByDist a p qs

def sortByDist (a : Pt) (l : List Pt) : List Pt := l.foldr (insertByDist a) []

structure Atom where
  dim : Dim
  posA : Pos
  posB : Pos

def midpoint (a b : Pt) : Pt := ⟨(a.x + b.x) / 2, (a.y + b.y) / 2⟩

/-- atoms contributed by one segment: midpoints of its elementary sub-segments (dim 1) and the
two face samples beside each (dim 2) -/
def segAtoms (pa pb : Parts) (verts : List Pt) (s : Pt × Pt) : List Atom :=
  let (a, b) := s
  if a == b then [] else
  let on := sortByDist a (verts.filter (fun v => lineCoord a b v))
  let n : Pt := ⟨-(b.y - a.y), b.x - a.x⟩
  (segs on).flatMap (fun (u, v) =>
    if u == v then [] else
    let m := midpoint u v
    let l : EPt := ⟨m.x, n.x, m.y, n.y⟩
    let r : EPt := ⟨m.x, -n.x, m.y, -n.y⟩
    [⟨.one, locateParts pa m, locateParts pb m⟩,
     ⟨.two, locateFace pa l, locateFace pb l⟩,
     ⟨.two, locateFace pa r, locateFace pb r⟩])

def relateParts (pa pb : Parts) : IM :=
  let ss := (pa.allSegs ++ pb.allSegs)
  let ends := ss.flatMap (fun (a, b) => [a, b])
  -- single-coordinate rings / curves contribute their coordinate as a vertex
  let singles := (pa.curves ++ pb.curves ++ (pa.areas ++ pb.areas).flatMap Poly.rings).flatMap
    (fun c => match c with | [p] => [p] | _ => [])
  let verts := dedupPts (ends ++ singles ++ pa.pts ++ pb.pts ++ pairVertices ss)
  let vAtoms : List Atom := verts.map (fun v => ⟨.zero, locateParts pa v, locateParts pb v⟩)
  let sAtoms := ss.flatMap (segAtoms pa pb verts)
  let m := (vAtoms ++ sAtoms).foldl (fun m a => m.setAtLeast a.posA a.posB a.dim) IM.empty
  -- the unbounded face belongs to both exteriors
  m.set .outside .outside .two

/-- The DE-9IM matrix of `(A, B)` by the definition. -/
def relateSpec (a b : Geom) : IM := relateParts (parts a) (parts b)

/-! ### `compute_disjoint` — the shortcut the code takes when the envelopes are disjoint -/

/-- `IntersectionMatrix::compute_disjoint` on `empty()` (all `F`), then `EE = 2`. -/
def computeDisjoint (da ba db bb : Dim) : IM :=
  let m := IM.empty
  let m := if da != .empty then
      let m := m.set .inside .outside da
      if ba != .empty then m.set .onBoundary .outside ba else m
    else m
  let m := if db != .empty then
      let m := m.set .outside .inside db
      if bb != .empty then m.set .outside .onBoundary bb else m
    else m
  m.set .outside .outside .two

end Geo
