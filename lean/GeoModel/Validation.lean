/-
  GeoModel.Validation — C14: the model of geo's `Validation` trait.

  Anchors: geo/src/algorithm/validation/{mod,utils,coord,point,line,line_string,polygon,
  multi_point,multi_line_string,multi_polygon,rect,triangle,geometry,geometry_collection}.rs
  (after the two `fix:` commits of branch ag-C14: chained segments that run back over one another
  are a self-intersection; ring/element relations are skipped once a non-finite coordinate was
  reported).

  The Rust trait has ONE body per type, `visit_validation(handler)`, generic in the handler's
  error type; `validation_errors` runs it with a handler that pushes and returns `Ok`,
  `check_validation` with the handler `Err`, `is_valid = check_validation().is_ok()`. The model
  keeps exactly that shape: one visitor per type, generic in a monad `m` (the handler is
  `ε → m PUnit`), instantiated with `StateM (List ε)` (collecting) and `Except ε` (fail-fast).

  Coordinates may be non-finite (`XNum`). Two things the code computes are not modelled and enter
  as an `Oracle`: `relate` (instantiated by the driver and the theorems with the *specification*
  `relateSpec`; after the fix it is only ever called on finite geometries) and the outcome of the
  pairwise segment test on a ring that contains a non-finite coordinate (robust `orient2d` on
  NaN/∞). All theorems hold for every oracle.
-/
import GeoModel.Valid

namespace Geo.V
open Geo

/-! ### Coordinates that may be non-finite -/

structure XPt where
  x : XNum
  y : XNum
  deriving DecidableEq, Repr, Inhabited

/-- f64 `==`: NaN differs from everything, itself included -/
def feq : XNum → XNum → Bool
  | .fin a, .fin b => a == b
  | .pinf, .pinf => true
  | .ninf, .ninf => true
  | _, _ => false

/-- f64 `<` -/
def flt : XNum → XNum → Bool
  | .fin a, .fin b => decide (a < b)
  | .ninf, .fin _ => true
  | .ninf, .pinf => true
  | .fin _, .pinf => true
  | _, _ => false

/-- `Coord: PartialEq` (derived) -/
def ceq (a b : XPt) : Bool := feq a.x b.x && feq a.y b.y

/-- `utils::check_coord_is_not_finite` -/
def notFinite (c : XPt) : Bool := if c.x.isFinite && c.y.isFinite then false else true

def XPt.toPt? (c : XPt) : Option Pt :=
  match c.x, c.y with
  | .fin a, .fin b => some ⟨a, b⟩
  | _, _ => none

def XPt.ofPt (p : Pt) : XPt := ⟨.fin p.x, .fin p.y⟩

abbrev XRing := List XPt

def ringToPts? (r : XRing) : Option (List Pt) := r.mapM XPt.toPt?

structure XPoly where
  ext : XRing
  ints : List XRing
  deriving DecidableEq, Repr, Inhabited

def XPoly.rings (p : XPoly) : List XRing := p.ext :: p.ints

def XPoly.toPoly? (p : XPoly) : Option Poly :=
  match ringToPts? p.ext, p.ints.mapM ringToPts? with
  | some e, some is => some ⟨e, is⟩
  | _, _ => none

inductive XGeom where
  | point (p : XPt)
  | line (a b : XPt)
  | lineString (cs : List XPt)
  | polygon (p : XPoly)
  | multiPoint (ps : List XPt)
  | multiLineString (ls : List (List XPt))
  | multiPolygon (ps : List XPoly)
  | rect (mn mx : XPt)
  | triangle (a b c : XPt)
  | collection (gs : List XGeom)
  deriving Repr, Inhabited

/-! ### Error values (`Invalid*` enums) -/

/-- `RingRole` -/
inductive Role where
  | ext
  | int (i : Nat)
  deriving DecidableEq, Repr

inductive LnErr where
  | identical
  | nonFinite (i : Nat)
  deriving DecidableEq, Repr

inductive LsErr where
  | tooFew
  | nonFinite (i : Nat)
  deriving DecidableEq, Repr

inductive PolyErr where
  | tooFew (r : Role)
  | selfInt (r : Role)
  | nonFinite (r : Role) (i : Nat)
  | notContained (r : Role)
  | onLine (a b : Role)
  | onArea (a b : Role)
  deriving DecidableEq, Repr

inductive MPolyErr where
  | poly (i : Nat) (e : PolyErr)
  | overlap (i j : Nat)
  | touchLine (i j : Nat)
  deriving DecidableEq, Repr

inductive RcErr where
  | nonFinite (i : Nat)
  deriving DecidableEq, Repr

inductive TrErr where
  | nonFinite (i : Nat)
  | identical (i j : Nat)
  | collinear
  deriving DecidableEq, Repr

/-- `InvalidGeometry` (the wrapper variant is the constructor; `InvalidPoint` has one value) -/
inductive GErr where
  | pt
  | ln (e : LnErr)
  | ls (e : LsErr)
  | pg (e : PolyErr)
  | mpt (i : Nat)
  | mls (i : Nat) (e : LsErr)
  | mpg (e : MPolyErr)
  | rc (e : RcErr)
  | tr (e : TrErr)
  | gc (i : Nat) (e : GErr)
  deriving DecidableEq, Repr

/-! ### Ring-local checks (`utils.rs`) -/

/-- `Vec::dedup` with an arbitrary (partial) equality: an element equal to the last *retained*
one is dropped. -/
def dedupBy {α} (eq : α → α → Bool) : List α → List α
  | [] => []
  | a :: rest => a :: go a rest
where go (last : α) : List α → List α
  | [] => []
  | b :: rest => if eq b last then go last rest else b :: go b rest

/-- `check_too_few_points(geom, is_ring)`: fewer than 4 (ring) / 2 (line string) coordinates
after `remove_repeated_points` -/
def tooFew (r : XRing) (isRing : Bool) : Bool :=
  if (dedupBy ceq r).length < (if isRing then 4 else 2) then true else false

/-- `same_side` closure of `chained_lines_overlap` -/
def sameSide (a o b : Rat) : Bool :=
  (decide (a > o) && decide (b > o)) || (decide (a < o) && decide (b < o))

/-- `chained_lines_overlap(line, other_line)` (added by the F8 fix): two segments, one starting
where the other ends, leave that coordinate in the same direction along one line -/
def chainedOverlap (l o : Pt × Pt) : Bool :=
  if l.1 == l.2 || o.1 == o.2 then false
  else
    let pv := if l.2 == o.1 then l.2 else l.1
    let p := if l.2 == o.1 then l.1 else l.2
    let q := if l.2 == o.1 then o.2 else o.1
    orient p pv q == .col && (sameSide p.x pv.x q.x || sameSide p.y pv.y q.y)

/-- the body of the double loop of `linestring_has_self_intersection` for one ordered pair of
distinct segments -/
def pairBad (l o : Pt × Pt) : Bool :=
  lineLine l.1 l.2 o.1 o.2 && ((l.1 != o.2 && l.2 != o.1) || chainedOverlap l o)

/-- `linestring_has_self_intersection` on finite coordinates -/
def hasSelfIntersection (r : List Pt) : Bool :=
  let ls := (segs r).zipIdx
  ls.any (fun li => ls.any (fun oj => li.2 != oj.2 && pairBad li.1 oj.1))

/-- What the model does not compute itself. -/
structure Oracle where
  /-- `a.relate(b)`, on finite geometries -/
  rel : Geom → Geom → IM
  /-- `linestring_has_self_intersection` on a ring with a non-finite coordinate -/
  selfIntNF : XRing → Bool

def selfInt (o : Oracle) (r : XRing) : Bool :=
  match ringToPts? r with
  | some q => hasSelfIntersection q
  | none => o.selfIntNF r

/-- `IntersectionMatrix::is_contains` (`T*****FF*`) -/
def isContains (m : IM) : Bool := m.ii != .empty && m.ei == .empty && m.eb == .empty

/-! ### The visitors (`visit_validation`), generic in the handler's monad -/

section visitors
variable {m : Type → Type} [Monad m]

/-- `if cond { handle_validation_error(e)?; }` -/
def emit {ε : Type} (h : ε → m PUnit) (c : Bool) (e : ε) : m PUnit := if c then h e else pure ⟨⟩

/-- Point / Coord -/
def visitPoint (h : PUnit → m PUnit) (p : XPt) : m PUnit := emit h (notFinite p) ⟨⟩

/-- Line -/
def visitLine (h : LnErr → m PUnit) (a b : XPt) : m PUnit := do
  emit h (notFinite a) (.nonFinite 0)
  emit h (notFinite b) (.nonFinite 1)
  emit h (ceq a b) .identical

/-- LineString -/
def visitLineString (h : LsErr → m PUnit) (cs : List XPt) : m PUnit :=
  if cs.isEmpty then pure ⟨⟩ else do
    emit h (tooFew cs false) .tooFew
    cs.zipIdx.forM (fun ci => emit h (notFinite ci.1) (.nonFinite ci.2))

def roleOf (idx : Nat) : Role := if idx == 0 then .ext else .int (idx - 1)

/-- the per-ring part of the Polygon visitor -/
def visitRing (o : Oracle) (h : PolyErr → m PUnit) (role : Role) (ring : XRing) : m PUnit :=
  if ring.isEmpty then pure ⟨⟩ else do
    (if tooFew ring true then h (.tooFew role)
     else if selfInt o ring then h (.selfInt role)
     else pure ⟨⟩)
    ring.zipIdx.forM (fun ci => emit h (notFinite ci.1) (.nonFinite role ci.2))

/-- the ring-versus-ring part of the Polygon visitor (finite coordinates) -/
def visitRingPairs (o : Oracle) (h : PolyErr → m PUnit) (q : Poly) : m PUnit :=
  q.ints.zipIdx.forM (fun hi =>
    if hi.1.isEmpty then pure ⟨⟩ else do
      emit h (!isContains (o.rel (.polygon ⟨q.ext, []⟩) (.lineString hi.1))) (.notContained (.int hi.2))
      emit h ((o.rel (.polygon ⟨q.ext, []⟩) (.lineString hi.1)).bi == .one) (.onLine .ext (.int hi.2))
      (q.ints.zipIdx.drop (hi.2 + 1)).forM (fun hj => do
        emit h ((o.rel (.polygon ⟨hi.1, []⟩) (.polygon ⟨hj.1, []⟩)).ii == .two) (.onArea (.int hi.2) (.int hj.2))
        emit h ((o.rel (.polygon ⟨hi.1, []⟩) (.polygon ⟨hj.1, []⟩)).bb == .one) (.onLine (.int hi.2) (.int hj.2))))

/-- Polygon -/
def visitPolygon (o : Oracle) (h : PolyErr → m PUnit) (p : XPoly) : m PUnit :=
  if p.ext.isEmpty then pure ⟨⟩ else do
    p.rings.zipIdx.forM (fun ri => visitRing o h (roleOf ri.2) ri.1)
    -- `if has_non_finite_coord { return Ok(()) }`
    match p.toPoly? with
    | none => pure ⟨⟩
    | some q => visitRingPairs o h q

/-- MultiPoint -/
def visitMultiPoint (h : Nat → m PUnit) (ps : List XPt) : m PUnit :=
  ps.zipIdx.forM (fun pi => visitPoint (fun _ => h pi.2) pi.1)

/-- MultiLineString -/
def visitMultiLineString (h : Nat → LsErr → m PUnit) (ls : List (List XPt)) : m PUnit :=
  ls.zipIdx.forM (fun li => visitLineString (h li.2) li.1)

/-- the element-versus-element part of the MultiPolygon visitor for one pair -/
def visitMemberPair (o : Oracle) (h : MPolyErr → m PUnit) (p : XPoly) (i : Nat) (p2 : XPoly) (j : Nat) :
    m PUnit :=
  match p.toPoly?, p2.toPoly? with
  | some q, some q2 => do
    emit h ((o.rel (.polygon q) (.polygon q2)).ii == .two) (.overlap i j)
    emit h ((o.rel (.polygon q) (.polygon q2)).bb == .one) (.touchLine i j)
  | _, _ => pure ⟨⟩

/-- MultiPolygon -/
def visitMultiPolygon (o : Oracle) (h : MPolyErr → m PUnit) (ps : List XPoly) : m PUnit :=
  ps.zipIdx.forM (fun pi => do
    visitPolygon o (fun e => h (.poly pi.2 e)) pi.1
    (ps.zipIdx.drop (pi.2 + 1)).forM (fun pj => visitMemberPair o h pi.1 pi.2 pj.1 pj.2))

/-- Rect (`min()` then `max()`) -/
def visitRect (h : RcErr → m PUnit) (mn mx : XPt) : m PUnit := do
  emit h (notFinite mn) (.nonFinite 0)
  emit h (notFinite mx) (.nonFinite 1)

/-- `robust_check_points_are_collinear`: `orient2d(..) == 0.`; a NaN/∞ determinant is not `0.` -/
def collinearX (a b c : XPt) : Bool :=
  match a.toPt?, b.toPt?, c.toPt? with
  | some p, some q, some r => orient p q r == .col
  | _, _, _ => false

/-- Triangle -/
def visitTriangle (h : TrErr → m PUnit) (a b c : XPt) : m PUnit := do
  emit h (notFinite a) (.nonFinite 0)
  emit h (notFinite b) (.nonFinite 1)
  emit h (notFinite c) (.nonFinite 2)
  emit h (ceq a b) (.identical 0 1)
  emit h (ceq a c) (.identical 0 2)
  emit h (ceq b c) (.identical 1 2)
  emit h (!(ceq a b || ceq a c || ceq b c) && collinearX a b c) .collinear

mutual
/-- Geometry -/
def visitGeom (o : Oracle) (h : GErr → m PUnit) : XGeom → m PUnit
  | .point p => visitPoint (fun _ => h .pt) p
  | .line a b => visitLine (fun e => h (.ln e)) a b
  | .lineString cs => visitLineString (fun e => h (.ls e)) cs
  | .polygon p => visitPolygon o (fun e => h (.pg e)) p
  | .multiPoint ps => visitMultiPoint (fun i => h (.mpt i)) ps
  | .multiLineString ls => visitMultiLineString (fun i e => h (.mls i e)) ls
  | .multiPolygon ps => visitMultiPolygon o (fun e => h (.mpg e)) ps
  | .rect mn mx => visitRect (fun e => h (.rc e)) mn mx
  | .triangle a b c => visitTriangle (fun e => h (.tr e)) a b c
  | .collection gs => visitList o h 0 gs
/-- GeometryCollection: members in order, errors wrapped with the member index -/
def visitList (o : Oracle) (h : GErr → m PUnit) (i : Nat) : List XGeom → m PUnit
  | [] => pure ⟨⟩
  | g :: gs => do
    visitGeom o (fun e => h (.gc i e)) g
    visitList o h (i + 1) gs
end

end visitors

/-! ### The three observables (`mod.rs`) -/

/-- `validation_errors`: the visitor with the handler `|e| { v.push(e); Ok(()) }` -/
def validationErrors (o : Oracle) (g : XGeom) : List GErr :=
  ((visitGeom (m := StateM (List GErr)) o (fun e => modify (fun acc => acc ++ [e])) g).run []).2

/-- `check_validation`: the visitor with the handler `Err` -/
def checkValidation (o : Oracle) (g : XGeom) : Except GErr PUnit :=
  visitGeom (m := Except GErr) o (fun e => .error e) g

/-- `is_valid = check_validation().is_ok()` -/
def isValid (o : Oracle) (g : XGeom) : Bool :=
  match checkValidation o g with
  | .ok _ => true
  | .error _ => false

/-! ### The error list, written as a plain function (what both visitors are proved to follow) -/

def ringErrs (o : Oracle) (role : Role) (ring : XRing) : List PolyErr :=
  if ring.isEmpty then [] else
    (if tooFew ring true then [.tooFew role] else if selfInt o ring then [.selfInt role] else []) ++
    ring.zipIdx.flatMap (fun ci => if notFinite ci.1 then [PolyErr.nonFinite role ci.2] else [])

def holePairErrs (o : Oracle) (h1 : List Pt) (i1 : Nat) (h2 : List Pt) (i2 : Nat) : List PolyErr :=
  (if (o.rel (.polygon ⟨h1, []⟩) (.polygon ⟨h2, []⟩)).ii == .two then [PolyErr.onArea (.int i1) (.int i2)] else []) ++
  (if (o.rel (.polygon ⟨h1, []⟩) (.polygon ⟨h2, []⟩)).bb == .one then [PolyErr.onLine (.int i1) (.int i2)] else [])

def ringPairErrs (o : Oracle) (q : Poly) : List PolyErr :=
  q.ints.zipIdx.flatMap (fun hi =>
    if hi.1.isEmpty then [] else
      (if !isContains (o.rel (.polygon ⟨q.ext, []⟩) (.lineString hi.1)) then [PolyErr.notContained (.int hi.2)] else []) ++
      (if (o.rel (.polygon ⟨q.ext, []⟩) (.lineString hi.1)).bi == .one then [PolyErr.onLine .ext (.int hi.2)] else []) ++
      (q.ints.zipIdx.drop (hi.2 + 1)).flatMap (fun hj => holePairErrs o hi.1 hi.2 hj.1 hj.2))

def polyErrs (o : Oracle) (p : XPoly) : List PolyErr :=
  if p.ext.isEmpty then [] else
    p.rings.zipIdx.flatMap (fun ri => ringErrs o (roleOf ri.2) ri.1) ++
    (match p.toPoly? with
     | none => []
     | some q => ringPairErrs o q)

def memberPairErrs (o : Oracle) (p : XPoly) (i : Nat) (p2 : XPoly) (j : Nat) : List MPolyErr :=
  match p.toPoly?, p2.toPoly? with
  | some q, some q2 =>
    (if (o.rel (.polygon q) (.polygon q2)).ii == .two then [MPolyErr.overlap i j] else []) ++
    (if (o.rel (.polygon q) (.polygon q2)).bb == .one then [MPolyErr.touchLine i j] else [])
  | _, _ => []

def multiPolyErrs (o : Oracle) (ps : List XPoly) : List MPolyErr :=
  ps.zipIdx.flatMap (fun pi =>
    (polyErrs o pi.1).map (MPolyErr.poly pi.2) ++
    (ps.zipIdx.drop (pi.2 + 1)).flatMap (fun pj => memberPairErrs o pi.1 pi.2 pj.1 pj.2))

def lineErrs (a b : XPt) : List LnErr :=
  (if notFinite a then [LnErr.nonFinite 0] else []) ++ (if notFinite b then [LnErr.nonFinite 1] else []) ++
  (if ceq a b then [LnErr.identical] else [])

def lineStringErrs (cs : List XPt) : List LsErr :=
  if cs.isEmpty then [] else
    (if tooFew cs false then [LsErr.tooFew] else []) ++
    cs.zipIdx.flatMap (fun ci => if notFinite ci.1 then [LsErr.nonFinite ci.2] else [])

def rectErrs (mn mx : XPt) : List RcErr :=
  (if notFinite mn then [RcErr.nonFinite 0] else []) ++ (if notFinite mx then [RcErr.nonFinite 1] else [])

def triangleErrs (a b c : XPt) : List TrErr :=
  (if notFinite a then [TrErr.nonFinite 0] else []) ++ (if notFinite b then [TrErr.nonFinite 1] else []) ++
  (if notFinite c then [TrErr.nonFinite 2] else []) ++
  (if ceq a b then [TrErr.identical 0 1] else []) ++ (if ceq a c then [TrErr.identical 0 2] else []) ++
  (if ceq b c then [TrErr.identical 1 2] else []) ++
  (if !(ceq a b || ceq a c || ceq b c) && collinearX a b c then [TrErr.collinear] else [])

mutual
def geomErrs (o : Oracle) : XGeom → List GErr
  | .point p => if notFinite p then [.pt] else []
  | .line a b => (lineErrs a b).map GErr.ln
  | .lineString cs => (lineStringErrs cs).map GErr.ls
  | .polygon p => (polyErrs o p).map GErr.pg
  | .multiPoint ps => ps.zipIdx.flatMap (fun pi => if notFinite pi.1 then [GErr.mpt pi.2] else [])
  | .multiLineString ls => ls.zipIdx.flatMap (fun li => (lineStringErrs li.1).map (GErr.mls li.2))
  | .multiPolygon ps => (multiPolyErrs o ps).map GErr.mpg
  | .rect mn mx => (rectErrs mn mx).map GErr.rc
  | .triangle a b c => (triangleErrs a b c).map GErr.tr
  | .collection gs => listErrs o 0 gs
def listErrs (o : Oracle) (i : Nat) : List XGeom → List GErr
  | [] => []
  | g :: gs => (geomErrs o g).map (GErr.gc i) ++ listErrs o (i + 1) gs
end

end Geo.V
