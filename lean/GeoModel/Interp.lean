/-
  GeoModel.Interp — C15: interpolation, location and densification along a line (Euclidean).

  Anchors (georust/geo):
    geo/src/algorithm/line_measures/interpolate_line.rs   InterpolatableLine for Line / LineString
    geo/src/algorithm/line_measures/metric_spaces/euclidean/mod.rs   point_at_{distance,ratio}_between
    geo/src/algorithm/line_measures/length.rs             Length for Line / LineString
    geo/src/algorithm/line_measures/densify.rs            densify_between, Densifiable impls
    geo/src/algorithm/line_interpolate_point.rs           deprecated LineInterpolatePoint
    geo/src/algorithm/line_locate_point.rs                LineLocatePoint
    geo-types/src/geometry/line_string.rs                 lines(), rev_lines()
    geo-types/src/private_utils.rs                        line_segment_distance

  Numbers are exact rationals. Square roots never enter the model: every segment length goes
  through an abstract parameter `len : Pt → Pt → Rat` (the theorems state what they need of it as
  hypotheses; the driver instantiates it with the exact rational root where it exists and a
  2^-80-tight rational enclosure otherwise).

  Core Lean only.
-/
import GeoModel.Geom
import GeoModel.PolygonSM

namespace Geo.Interp
open Geo

/-- Segment length (`Euclidean.distance(start, end)` = `hypot` of the difference). -/
abbrev Len := Pt → Pt → Rat

/-- `LineString::lines()`: `self.0.windows(2)` as `Line::new(w[0], w[1])`. -/
def segs : List Pt → List (Pt × Pt)
  | a :: b :: rest => (a, b) :: segs (b :: rest)
  | _ => []

/-- `LineString::rev_lines()`: `windows(2).rev()` as `Line::new(w[1], w[0])`. -/
def revSegs (cs : List Pt) : List (Pt × Pt) := (segs cs).reverse.map (fun s => (s.2, s.1))

/-- Sum of the segment lengths (`length = length + line.length(..)` from zero; addition of
rationals is exact so the fold order is immaterial). -/
def sumLen (len : Len) : List (Pt × Pt) → Rat
  | [] => 0
  | s :: rest => len s.1 s.2 + sumLen len rest

/-- `Length for LineString`. -/
def lsLength (len : Len) (cs : List Pt) : Rat := sumLen len (segs cs)

/-! ### Euclidean `InterpolatePoint` -/

/-- `Euclidean::point_at_ratio_between`: `start + diff * ratio`. -/
def lerp (a b : Pt) (t : Rat) : Pt := ⟨a.x + (b.x - a.x) * t, a.y + (b.y - a.y) * t⟩

/-- `Euclidean::point_at_distance_between`: `start + diff * distance / total_distance`.
In f64 a zero `total_distance` yields NaN; here `x / 0 = 0`. Theorems `walk_pos` / the Line
clamps show the callers never reach it with a zero-length segment. -/
def pointAtDistanceBetween (len : Len) (a b : Pt) (d : Rat) : Pt :=
  ⟨a.x + (b.x - a.x) * d / len a b, a.y + (b.y - a.y) * d / len a b⟩

/-! ### `InterpolatableLine for Line` -/

def linePointAtRatioFromStart (a b : Pt) (r : Rat) : Pt :=
  if r ≤ 0 then a else if r ≥ 1 then b else lerp a b r

def linePointAtRatioFromEnd (a b : Pt) (r : Rat) : Pt :=
  if r ≤ 0 then b else if r ≥ 1 then a else lerp b a r

def linePointAtDistanceFromStart (len : Len) (a b : Pt) (d : Rat) : Pt :=
  if d ≤ 0 then a else if d ≥ len a b then b else pointAtDistanceBetween len a b d

def linePointAtDistanceFromEnd (len : Len) (a b : Pt) (d : Rat) : Pt :=
  if d ≤ 0 then b else if d ≥ len a b then a else pointAtDistanceBetween len b a d

/-! ### `InterpolatableLine for LineString` -/

/-- The `for segment in …` loop: subtract segment lengths while `segment_length <
distance_remaining` (strict), stop at the first segment that is not shorter than what remains.
Returns that segment and the remaining distance; `none` = loop ran off the end. -/
def walk (len : Len) : List (Pt × Pt) → Rat → Option (Pt × Pt × Rat)
  | [], _ => none
  | (a, b) :: rest, d =>
    if len a b < d then walk len rest (d - len a b) else some (a, b, d)

def lsPointAtDistanceFromStart (len : Len) (cs : List Pt) (d : Rat) : Option Pt :=
  if d ≤ 0 then cs.head? else
  match walk len (segs cs) d with
  | some (a, b, r) => some (pointAtDistanceBetween len a b r)
  | none => cs.getLast?

def lsPointAtDistanceFromEnd (len : Len) (cs : List Pt) (d : Rat) : Option Pt :=
  if d ≤ 0 then cs.getLast? else
  match walk len (revSegs cs) d with
  | some (a, b, r) => some (pointAtDistanceBetween len a b r)
  | none => cs.head?

def lsPointAtRatioFromStart (len : Len) (cs : List Pt) (r : Rat) : Option Pt :=
  lsPointAtDistanceFromStart len cs (r * lsLength len cs)

def lsPointAtRatioFromEnd (len : Len) (cs : List Pt) (r : Rat) : Option Pt :=
  lsPointAtDistanceFromEnd len cs (r * lsLength len cs)

/-! ### deprecated `LineInterpolatePoint` (finite coordinates) -/

/-- `Line::line_interpolate_point` for a finite fraction: out-of-range fractions are replaced
by 0 / 1. (With finite coordinates the result is always `Some`.) -/
def lineInterpolatePoint (a b : Pt) (f : Rat) : Option Pt :=
  if 0 ≤ f ∧ f ≤ 1 then some (lerp a b f)
  else if f < 0 then some (lerp a b 0) else some (lerp a b 1)

/-- the `for segment in self.lines()` loop of the deprecated code (after the `fix:` commit): the
first segment with `cum_length + length >= fractional_length`; a zero-length segment yields its
start (before the fix: `0/0` = NaN, hence `None`), otherwise the fraction
`(fractional_length - cum_length) / length` of the segment. -/
def lipGo (len : Len) (fl : Rat) : List (Pt × Pt) → Rat → Option Pt
  | [], _ => none
  | (a, b) :: rest, cum =>
    let l := len a b
    if cum + l ≥ fl then
      if l = 0 then lineInterpolatePoint a b 0
      else lineInterpolatePoint a b ((fl - cum) / l)
    else lipGo len fl rest (cum + l)

/-- The pinned (pre-fix) loop, kept for the record: on a zero-length segment the quotient is
`0/0` = NaN (→ `None`) or `±x/0` = ±∞ (→ clamped). -/
def lipGoPinned (len : Len) (fl : Rat) : List (Pt × Pt) → Rat → Option Pt
  | [], _ => none
  | (a, b) :: rest, cum =>
    let l := len a b
    if cum + l ≥ fl then
      if l = 0 then
        (if fl - cum = 0 then none
         else if fl - cum < 0 then lineInterpolatePoint a b (-1) else lineInterpolatePoint a b 2)
      else lineInterpolatePoint a b ((fl - cum) / l)
    else lipGoPinned len fl rest (cum + l)

/-- `LineString::line_interpolate_point` (after the `fix:` commit: a single coordinate is
returned for every fraction; before it the loop found no segment and the result was `None`). -/
def lsLineInterpolatePoint (len : Len) (cs : List Pt) (f : Rat) : Option Pt :=
  let f' := if 0 ≤ f ∧ f ≤ 1 then f else if f < 0 then 0 else 1
  match lipGo len (lsLength len cs * f') (segs cs) 0 with
  | some p => some p
  | none =>
    match cs with
    | [a] => lineInterpolatePoint a a 0
    | _ => none

def lsLineInterpolatePointPinned (len : Len) (cs : List Pt) (f : Rat) : Option Pt :=
  let f' := if 0 ≤ f ∧ f ≤ 1 then f else if f < 0 then 0 else 1
  lipGoPinned len (lsLength len cs * f') (segs cs) 0

/-! ### `LineLocatePoint` -/

def clamp01 (l : Rat) : Rat := rmin (rmax l 0) 1

/-- `Line::line_locate_point` (finite input): projection parameter clamped to `[0,1]`,
zero for a zero-length line. -/
def lineLocatePoint (a b p : Pt) : Rat :=
  let vx := b.x - a.x
  let vy := b.y - a.y
  let vsq := vx * vx + vy * vy
  if vsq = 0 then 0 else
    clamp01 ((vx * (p.x - a.x) + vy * (p.y - a.y)) / vsq)

/-- square of `private_utils::line_segment_distance(point, start, end)` (the code compares the
distances; squaring is monotone on non-negatives). -/
def segDistSq (p a b : Pt) : Rat :=
  let sq (u v : Pt) : Rat := (u.x - v.x) * (u.x - v.x) + (u.y - v.y) * (u.y - v.y)
  if a = b then sq p a else
  let dx := b.x - a.x
  let dy := b.y - a.y
  let d2 := dx * dx + dy * dy
  let r := ((p.x - a.x) * dx + (p.y - a.y) * dy) / d2
  if r ≤ 0 then sq p a
  else if r ≥ 1 then sq p b
  else
    let s := ((a.y - p.y) * dx - (a.x - p.x) * dy) / d2
    s * s * d2

/-- loop state of `LineString::line_locate_point`: cumulative length, closest distance so far
(`none` = +∞), fraction numerator `cum + segment_fraction * segment_length`. -/
def locateGo (len : Len) (p : Pt) : List (Pt × Pt) → Rat → Option Rat → Rat → Rat
  | [], _, _, best => best
  | (a, b) :: rest, cum, closest, best =>
    let dsq := segDistSq p a b
    let l := len a b
    let fr := lineLocatePoint a b p
    let better := match closest with
      | none => true
      | some c => decide (dsq < c)
    if better then locateGo len p rest (cum + l) (some dsq) (cum + fr * l)
    else locateGo len p rest (cum + l) closest best

/-- `LineString::line_locate_point` (finite input). -/
def lsLineLocatePoint (len : Len) (cs : List Pt) (p : Pt) : Rat :=
  let tot := lsLength len cs
  if tot = 0 then 0 else locateGo len p (segs cs) 0 none 0 / tot

/-! ### `Densify` -/

/-- `(distance / max).ceil().to_u64()` -/
def numSegments (len : Len) (a b : Pt) (mx : Rat) : Nat := (Rat.ceil (len a b / mx)).toNat

/-- `densify_between`: the interior points `k/n`, `k = 1 … n-1` (`frac = 1/n`,
`ratio = frac * k`), nothing for `n ≤ 1`. -/
def densifyBetween (len : Len) (a b : Pt) (mx : Rat) : List Pt :=
  let n := numSegments len a b mx
  let frac : Rat := 1 / (n : Rat)
  (List.range' 1 (n - 1)).map (fun (k : Nat) => lerp a b (frac * (k : Rat)))

/-- `Densifiable for Line` (output is a LineString). -/
def densifyLine (len : Len) (a b : Pt) (mx : Rat) : List Pt :=
  [a] ++ densifyBetween len a b mx ++ [b]

/-- the `lines().for_each` body over all segments -/
def densifySegs (len : Len) (mx : Rat) : List (Pt × Pt) → List Pt
  | [] => []
  | (a, b) :: rest => a :: (densifyBetween len a b mx ++ densifySegs len mx rest)

/-- `Densifiable for LineString`: empty stays empty; otherwise every segment start followed by
its interior points, then the final coordinate. -/
def densifyLS (len : Len) (cs : List Pt) (mx : Rat) : List Pt :=
  match cs.getLast? with
  | none => []
  | some z => densifySegs len mx (segs cs) ++ [z]

/-- `Densifiable for Polygon`: `Polygon::new` of the densified rings (re-closes). -/
def densifyPoly (len : Len) (p : Poly) (mx : Rat) : Poly :=
  ⟨SM.close (densifyLS len p.ext mx), p.ints.map (fun r => SM.close (densifyLS len r mx))⟩

/-- `Rect::to_polygon` -/
def rectToPoly (mn mx : Pt) : Poly :=
  ⟨[⟨mx.x, mn.y⟩, ⟨mx.x, mx.y⟩, ⟨mn.x, mx.y⟩, ⟨mn.x, mn.y⟩, ⟨mx.x, mn.y⟩], []⟩

/-- `Triangle::to_polygon` -/
def triToPoly (a b c : Pt) : Poly := ⟨[a, b, c, a], []⟩

/-- `Densify::densify` on the geometry types that implement `Densifiable`. -/
def densify (len : Len) (mx : Rat) : Geom → Option Geom
  | .line a b => some (.lineString (densifyLine len a b mx))
  | .lineString cs => some (.lineString (densifyLS len cs mx))
  | .multiLineString ls => some (.multiLineString (ls.map (fun l => densifyLS len l mx)))
  | .polygon p => some (.polygon (densifyPoly len p mx))
  | .multiPolygon ps => some (.multiPolygon (ps.map (fun p => densifyPoly len p mx)))
  | .rect mn mxp => some (.polygon (densifyPoly len (rectToPoly mn mxp) mx))
  | .triangle a b c => some (.polygon (densifyPoly len (triToPoly a b c) mx))
  | _ => none

end Geo.Interp
