/-
  GeoModel.RelateImplTop — C01: model of the implementation of `relate`, part 3:
  `RelateOperation::compute_intersection_matrix`, statement by statement.

  Anchor: geo/src/algorithm/relate/relate_operation.rs (`compute_intersection_matrix`),
          geo/src/algorithm/relate/mod.rs (`Relate::relate`, `Relate::geometry_graph`),
          geomgraph/intersection_matrix.rs (`empty_disjoint`, `compute_disjoint`).
-/
import GeoModel.RelateImplNodes

namespace Geo.RI
open Geo.GG

/-- `IntersectionMatrix::empty_disjoint()` followed by `compute_disjoint(a, b)` -/
def disjointIM (a b : Geom) : IM :=
  computeDisjoint (dims a) (boundaryDims a) (dims b) (boundaryDims b)

/-- the envelope test at the head of `compute_intersection_matrix`: both bounding rectangles
exist and `Rect: Intersects<Rect>` -/
def envelopesMeet (a b : Geom) : Bool :=
  match boundingRect a, boundingRect b with
  | some ra, some rb => rectRect ra.1 ra.2 rb.1 rb.2
  | _, _ => false

/-- the self-noded graph of an operand: `geometry_graph(idx)` of a plain geometry followed by
`compute_self_nodes` -/
def freshGraph (ar : Arith) (idx : Nat) (g : Geom) : RGraph := (RGraph.new idx g).selfNode ar

/-- `compute_edge_intersections`: the two graphs with the mutual intersections recorded on their
edges, `has_proper_intersection`, `has_proper_interior_intersection` -/
def mutualGraphs (ar : Arith) (ga gb : RGraph) : RGraph × RGraph × Bool × Bool :=
  let mu := edgeIntersections ar ga gb
  ({ ga with edges := mu.ea }, { gb with edges := mu.eb }, mu.hasProper, mu.hasProperInterior)

/-- the two self-noded graphs with their mutual intersections recorded -/
def nodedGraphs (ar : Arith) (a b : Geom) : RGraph × RGraph × Bool × Bool :=
  mutualGraphs ar (freshGraph ar 0 a) (freshGraph ar 1 b)

/-- the node map after `compute_intersection_nodes` ×2, `copy_nodes_and_labels` ×2 and
`label_isolated_nodes` -/
def labeledNodes (a b : Geom) (ga gb : RGraph) : Option (List RNode) :=
  let ns := intersectionNodes 0 ga.edges []
  let ns := intersectionNodes 1 gb.edges ns
  match copyNodes 0 (sortNodes ga.nodes) ns with
  | none => none
  | some ns =>
    match copyNodes 1 (sortNodes gb.nodes) ns with
    | none => none
    | some ns => some (ns.map (labelIsolatedNode a b))

/-- the part of `compute_intersection_matrix` after the two calls of `compute_self_nodes`, given
the self-noded graphs `ga0`, `gb0` of the operands (`none`: the code panics) -/
def relateGraphs (ar : Arith) (a b : Geom) (ga0 gb0 : RGraph) : Option IM :=
  let (ga, gb, hasProper, hasProperInterior) := mutualGraphs ar ga0 gb0
  match labeledNodes a b ga gb with
  | none => none
  | some ns =>
    let m := properIM (dims a) (dims b) hasProper hasProperInterior (computeDisjoint .empty .empty .empty .empty)
    match endsForEdges ga.edges with
    | none => none
    | some endsA =>
      let ns := insertEdgeEnds ar endsA ns
      match endsForEdges gb.edges with
      | none => none
      | some endsB =>
        let ns := insertEdgeEnds ar endsB ns
        match labelIsolatedEdges b 1 ga.edges, labelIsolatedEdges a 0 gb.edges with
        | some isoA, some isoB =>
          let m := (isoA ++ isoB).foldl (fun m l => edgeUpdateIM l m) m
          updateNodes a b ns m
        | _, _ => none

/-- the part of `compute_intersection_matrix` after the envelope test, for plain operands -/
def relateGraph (ar : Arith) (a b : Geom) : Option IM :=
  relateGraphs ar a b (freshGraph ar 0 a) (freshGraph ar 1 b)

/-- `RelateOperation::compute_intersection_matrix` (`none`: the code panics), in the arithmetic
`ar` -/
def relateImplWith (ar : Arith) (a b : Geom) : Option IM :=
  if envelopesMeet a b then relateGraph ar a b else some (disjointIM a b)

/-- `RelateOperation::compute_intersection_matrix` in exact arithmetic (`none`: the code panics) -/
def relateImpl? (a b : Geom) : Option IM := relateImplWith Arith.exact a b

/-! ### prepared operands (C17)

`PreparedGeometry` caches the graph built for argument index 0 and self-noded once
(`prepare_geometry`); `geometry_graph(idx)` hands out `clone_for_arg_index(idx)`: a deep copy,
with the two label slots of every node and edge exchanged when `idx = 1`. Bounding rectangle and
`HasDimensions` are those of the geometry. -/

/-- `Edge::swap_label_args` -/
def REdge.swap (e : REdge) : REdge := { e with label := e.label.swap }

/-- `PlanarGraph::swap_labels` -/
def RGraph.swapLabels (r : RGraph) : RGraph :=
  { r with nodes := r.nodes.map Node.swap, edges := r.edges.map REdge.swap }

/-- `GeometryGraph::clone_for_arg_index(idx)` of a graph built for index 0 -/
def RGraph.cloneForArg (r : RGraph) (idx : Nat) : RGraph :=
  if idx = 0 then r else { r.swapLabels with idx := idx }

/-- `PreparedGeometry::geometry_graph(idx)` -/
def preparedGraph (ar : Arith) (idx : Nat) (g : Geom) : RGraph := (freshGraph ar 0 g).cloneForArg idx

/-- `relate` with each operand plain (`false`) or prepared (`true`) -/
def relatePreparedWith (ar : Arith) (pa pb : Bool) (a b : Geom) : Option IM :=
  if envelopesMeet a b then
    relateGraphs ar a b (if pa then preparedGraph ar 0 a else freshGraph ar 0 a)
      (if pb then preparedGraph ar 1 b else freshGraph ar 1 b)
  else some (disjointIM a b)

end Geo.RI

namespace Geo

/-- `a.relate(&b)` as the implementation computes it; where the code panics the value is the
matrix `empty_disjoint()` it starts from (use `RI.relateImpl?` to tell the two apart). -/
def relateImpl (a b : Geom) : IM :=
  (RI.relateImpl? a b).getD (computeDisjoint .empty .empty .empty .empty)

end Geo
