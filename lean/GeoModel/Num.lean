/-
  GeoModel.Num — exact numbers for the model.

  The model never uses floats. A finite IEEE-754 binary64 value crosses the boundary as its
  16-hex-digit bit pattern (`h3ff0000000000000`) or, when it is an integer, as a decimal
  literal; both decode to an exact `Rat`.

  Import-free (core Lean only) so that the driver links as a `lean_exe`.
-/

namespace Geo

/-- Extended number as it appears on the wire: a finite rational, or one of the three
non-finite f64 classes. -/
inductive XNum where
  | fin (q : Rat)
  | nan
  | pinf
  | ninf
  deriving Repr, DecidableEq, Inhabited

def XNum.toRat? : XNum → Option Rat
  | .fin q => some q
  | _ => none

def XNum.isFinite : XNum → Bool
  | .fin _ => true
  | _ => false

/-- `2^e` as a rational for an integer exponent. -/
def pow2 (e : Int) : Rat :=
  if e ≥ 0 then ((2 ^ e.toNat : Nat) : Rat) else 1 / ((2 ^ (-e).toNat : Nat) : Rat)

/-- Decode an IEEE-754 binary64 bit pattern (as a natural number `< 2^64`). -/
def ofBits (b : Nat) : XNum :=
  let sign : Nat := b / 2 ^ 63 % 2
  let expo : Nat := b / 2 ^ 52 % 2 ^ 11
  let frac : Nat := b % 2 ^ 52
  if expo = 2047 then
    if frac = 0 then (if sign = 0 then .pinf else .ninf) else .nan
  else
    let mant : Nat := if expo = 0 then frac else frac + 2 ^ 52
    let e : Int := if expo = 0 then -1074 else (expo : Int) - 1075
    let mag : Rat := (mant : Rat) * pow2 e
    .fin (if sign = 0 then mag else -mag)

def hexDigit? (c : Char) : Option Nat :=
  if '0' ≤ c ∧ c ≤ '9' then some (c.toNat - '0'.toNat)
  else if 'a' ≤ c ∧ c ≤ 'f' then some (c.toNat - 'a'.toNat + 10)
  else if 'A' ≤ c ∧ c ≤ 'F' then some (c.toNat - 'A'.toNat + 10)
  else none

def parseHex? (cs : List Char) : Option Nat :=
  if cs.isEmpty then none else
  cs.foldl (fun acc c => match acc, hexDigit? c with
    | some a, some d => some (a * 16 + d)
    | _, _ => none) (some 0)

/-- Parse a number token: decimal integer, `p/q` rational, `h<16 hex digits>` f64 bits,
or one of `nan`, `inf`, `-inf`. -/
def parseXNum? (s : String) : Option XNum :=
  match s.toList with
  | 'h' :: rest => (parseHex? rest).map ofBits
  | _ =>
    if s = "nan" then some .nan
    else if s = "inf" then some .pinf
    else if s = "-inf" then some .ninf
    else match s.splitOn "/" with
      | [a] => a.toInt?.map (fun i => .fin (i : Rat))
      | [a, b] => match a.toInt?, b.toNat? with
          | some i, some n => if n = 0 then none else some (.fin ((i : Rat) / (n : Rat)))
          | _, _ => none
      | _ => none

def parseRat? (s : String) : Option Rat := (parseXNum? s).bind XNum.toRat?

/-- Canonical printing of a rational: `n` or `n/d`. -/
def ratStr (q : Rat) : String :=
  if q.den = 1 then toString q.num else toString q.num ++ "/" ++ toString q.den

def sgn (q : Rat) : Int := if q > 0 then 1 else if q < 0 then -1 else 0

def rabs (q : Rat) : Rat := if q < 0 then -q else q

def rmin (a b : Rat) : Rat := if a ≤ b then a else b
def rmax (a b : Rat) : Rat := if a ≤ b then b else a

/-- Unit roundoff of binary64, `2^-53`. -/
def uRound : Rat := 1 / (9007199254740992 : Rat)

/-- Is `q` exactly representable as a finite f64 with an *integer* value below `2^53`
in magnitude? (Used to decide when bit-exact agreement may be demanded.) -/
def isSmallInt (q : Rat) : Bool := q.den = 1 && q.num.natAbs < 9007199254740992

/-- Integer square root by Newton iteration (floor). -/
def isqrt (n : Nat) : Nat := Nat.sqrt n

/-- Exact rational square root if `q` is a perfect square of a rational. -/
def exactSqrt? (q : Rat) : Option Rat :=
  if q < 0 then none else
  let n := q.num.natAbs
  let d := q.den
  let sn := Nat.sqrt n
  let sd := Nat.sqrt d
  if sn * sn = n ∧ sd * sd = d then some ((sn : Rat) / (sd : Rat)) else none

/-- Rational enclosure `[lo, hi]` of `sqrt q` (for `q ≥ 0`) with relative width `≤ 2^-k`. -/
def sqrtInterval (q : Rat) (k : Nat := 80) : Rat × Rat :=
  if q ≤ 0 then (0, 0) else
  match exactSqrt? q with
  | some r => (r, r)
  | none =>
    -- scale so that the integer sqrt has at least k bits
    let n := q.num.natAbs
    let d := q.den
    -- sqrt (n/d) = sqrt (n*d) / d ; scale n*d by 4^s
    let m := n * d
    let bits := Nat.log2 m + 1
    let s := if bits ≥ 2 * k then 0 else (2 * k - bits) / 2 + 1
    let ms := m * 4 ^ s
    let r := Nat.sqrt ms
    let den : Rat := (d : Rat) * ((2 ^ s : Nat) : Rat)
    ((r : Rat) / den, ((r + 1 : Nat) : Rat) / den)

end Geo
