/-
  GeoModel.GeodesyNum — a rational engine for `Geodesy.Trig`: the transcendental functions as
  truncated series / Newton iterations on a 2^-100 grid (regime T of DESIGN.md §3.2).

  Accuracy: proved in GeoProofs/Lemmas/C16Q*.lean for sin, cos (2^-92 on [-piQ, piQ), 2^-91 up to
  |x| = 1000), sqrt (one grid step) and `piQ` (2e-40); asin through the a posteriori certificate
  `asinCert` below (2^-42 given the certificate; atan2 likewise, 2^-41 against `Complex.arg`; the true
  errors are about 1e-27 away from |x| = 1 and 1e-14 at it). `ln` is not
  implemented (the Rhumb formulas are not evaluated by the driver).
-/
import GeoModel.Geodesy

namespace Geo.GeodesyNum
open Geo Geo.Geodesy

def grid : Nat := 2 ^ 100

/-- round down to the 2^-100 grid (keeps denominators bounded) -/
def rd (q : Rat) : Rat := ((q * (grid : Rat)).floor : Int) / (grid : Rat)

def piQ : Rat := 3141592653589793238462643383279502884197 / 1000000000000000000000000000000000000000

/-- reduce to [-π, π] -/
def reduce (x : Rat) : Rat :=
  let k : Int := (x / (2 * piQ) + 1 / 2).floor
  x - 2 * piQ * (k : Rat)

/-- Σ_{k<n} (-1)^k y^(2k+s)/(2k+s)!  with first term `t0` (s = 1: sine, s = 0: cosine) -/
def series (y2 : Rat) (s : Nat) : Nat → Nat → Rat → Rat → Rat
  | 0, _, _, acc => acc
  | fuel + 1, k, term, acc =>
    let term' := rd (-term * y2 / (((2 * k + 1 + s) * (2 * k + 2 + s) : Nat) : Rat))
    series y2 s fuel (k + 1) term' (acc + term')

def sinQ (x : Rat) : Rat :=
  let y := rd (reduce x)
  series (y * y) 1 32 0 y y

def cosQ (x : Rat) : Rat :=
  let y := rd (reduce x)
  series (y * y) 0 32 0 1 1

def sqrtQ (q : Rat) : Rat :=
  if q ≤ 0 then 0 else
  let n := (q * (grid : Rat) * (grid : Rat)).floor.toNat
  (Nat.sqrt n : Rat) / (grid : Rat)

/-- Newton iteration for `sin y = x` -/
def asinQ (x : Rat) : Rat :=
  if x ≥ 1 then piQ / 2 else if x ≤ -1 then -piQ / 2 else
  let y0 : Rat :=
    if rabs x ≤ 9 / 10 then x
    else (if x > 0 then 1 else -1) * (piQ / 2 - sqrtQ (2 * (1 - rabs x)))
  let step (y : Rat) : Rat :=
    let c := cosQ y
    if c == 0 then y else rd (y - (sinQ y - x) / c)
  (List.range 10).foldl (fun y _ => step y) y0

/-- `atan2 y x` through the better conditioned of asin(y/r), asin(x/r) -/
def atan2Q (y x : Rat) : Rat :=
  if x == 0 && y == 0 then 0 else
  let r := sqrtQ (x * x + y * y)
  if r == 0 then 0 else
  if rabs y ≤ rabs x then
    let a := asinQ (y / r)          -- in [-π/4, π/4]
    if x > 0 then a else if y ≥ 0 then piQ - a else -piQ - a
  else
    let a := asinQ (x / r)          -- angle from the y axis
    if y > 0 then piQ / 2 - a else -piQ / 2 + a

/-! ### a posteriori certificate for the Newton arcsine

The convergence of the Newton iteration in `asinQ` is not proved. Instead its *result* is checked with
the engine's own (proved: GeoProofs/Lemmas/C16Q*.lean) sine: the result lies in the right quarter turn up
to `asinTol` and its sine is within `asinResTol` of the target. `ratAsin_close_partial` /
`haversine_distance_engine_close_partial` turn this into a bound against `Real.arcsin`; the driver
evaluates the certificate on every Haversine pair and reports a failure as a model mismatch. -/

def asinTol : Rat := 1 / ((2 ^ 44 : Nat) : Rat)
def asinResTol : Rat := 1 / ((2 ^ 90 : Nat) : Rat)

def asinCert (x : Rat) : Bool :=
  let a := asinQ x
  decide ((if 0 ≤ x then -asinTol else -(piQ / 2) - asinTol) ≤ a) &&
  decide (a ≤ (if x ≤ 0 then asinTol else piQ / 2 + asinTol)) &&
  decide (rabs (sinQ a - x) ≤ asinResTol)

def ratTrig : Trig Rat :=
  { sin := sinQ, cos := cosQ, tan := fun x => sinQ x / cosQ x, asin := asinQ, atan2 := atan2Q,
    sqrt := sqrtQ, hypot := fun x y => sqrtQ (x * x + y * y), ln := fun _ => 0,
    abs := rabs, toRad := fun d => rd (d * piQ / 180), toDeg := fun r => rd (r * 180 / piQ),
    pi := piQ, lt := fun a b => decide (a < b), ofRat := id }

/-- the certificate for the arcsine evaluated inside `havDistance ratTrig R a b` -/
def havCert (a b : P2 Rat) : Bool := asinCert (sqrtQ (havH ratTrig a b))

end Geo.GeodesyNum
