/-
  GeoModel.RelateImplNodes — C01: model of the implementation of `relate`, part 2: the node map
  of the relate operation, `EdgeEndBuilder`, `EdgeEnd` ordering, `EdgeEndBundle`,
  `EdgeEndBundleStar` / `LabeledEdgeEndBundleStar`, and the matrix updates.

  Anchors (geo/src/algorithm/relate/):
    relate_operation.rs            `RelateNodeFactory`, `insert_edge_ends`, `compute_intersection_nodes`,
                                   `copy_nodes_and_labels`, `label_isolated_nodes`, `label_isolated_node`,
                                   `label_isolated_edges`, `label_isolated_edge`, `update_intersection_matrix`,
                                   `compute_proper_intersection_im`
    edge_end_builder.rs            `compute_ends_for_edges`, `compute_ends_for_edge`,
                                   `create_edge_end_for_prev`, `create_edge_end_for_next`
    geomgraph/edge_end.rs          `EdgeEnd::new`, `EdgeEndKey::compare_direction`
    geomgraph/quadrant.rs          `Quadrant::new`
    geomgraph/edge_end_bundle.rs   `insert`, `into_labeled`, `compute_label_on`, `compute_label_side`
    geomgraph/edge_end_bundle_star.rs  `insert`, `into_labeled`, `compute_labeling`, `propagate_side_labels`
    geomgraph/node.rs              `set_label_boundary`, `set_label_on_position`, `is_isolated`,
                                   `update_intersection_matrix`
    geomgraph/edge.rs              `Edge::update_intersection_matrix`
    geomgraph/intersection_matrix.rs  `set_at_least`, `set_at_least_if_in_both`, `set_at_least_from_string`
    geomgraph/node_map.rs          `insert_node_with_coordinate` (a `BTreeMap` keyed by `lex_cmp`)

  `BTreeMap` / `BTreeSet`.  A key is located by comparing the *new* key with the stored keys from
  the left (`Greater`: go on, `Equal`: found, `Less`: insert here); the sorted association lists
  below do exactly that.  For a comparison that is a consistent order this is the map's behaviour
  for any size; `EdgeEndKey::compare_direction` is consistent among the edge ends of one node
  (common origin, exact orientation) except for an edge end of length zero (only the two ends of a
  `Line` with equal end points), where the linear scan is what a `BTreeMap` does up to its leaf
  capacity of 11 keys — more than 11 distinct directions together with a zero-length `Line` at one
  node is outside the model.
-/
import GeoModel.RelateImpl

namespace Geo.RI
open Geo.GG

/-! ### edge ends -/

/-- `EdgeEnd` (`key.coord_0`, `key.coord_1`, label; `delta` and `quadrant` are functions of the
two coordinates) -/
structure EdgeEnd where
  c0 : Pt
  c1 : Pt
  label : Label
  deriving DecidableEq, Repr, Inhabited

/-- `delta = coord_1 - coord_0` -/
def EdgeEnd.delta (ar : Arith) (e : EdgeEnd) : Pt := ⟨ar.sub e.c1.x e.c0.x, ar.sub e.c1.y e.c0.y⟩

/-- `Quadrant::new(dx, dy)`: `NE = 0 < NW = 1 < SW = 2 < SE = 3` (derive order), `none` for `(0, 0)` -/
def quadrant (d : Pt) : Option Nat :=
  if d.x == 0 && d.y == 0 then none
  else if d.y ≥ 0 then (if d.x ≥ 0 then some 0 else some 1)
  else (if d.x ≥ 0 then some 3 else some 2)

/-- the fall-through arm of `compare_direction`: `orient2d(other.coord_0, other.coord_1, self.coord_1)` -/
def cmpOrient (self other : EdgeEnd) : Ordering :=
  match orient other.c0 other.c1 self.c1 with
  | .cw => .lt
  | .ccw => .gt
  | .col => .eq

/-- `EdgeEndKey::compare_direction(self, other)` -/
def cmpDir (ar : Arith) (self other : EdgeEnd) : Ordering :=
  if self.delta ar == other.delta ar then .eq else
  match quadrant (self.delta ar), quadrant (other.delta ar) with
  | some q1, some q2 =>
    if q1 > q2 then .gt else if q1 < q2 then .lt else cmpOrient self other
  | _, _ => cmpOrient self other

/-- `EdgeEndBundle` (`coordinate`, `edge_ends`) together with its map key (the key of the edge end
that created the entry) -/
structure Bundle where
  key : EdgeEnd
  ends : List EdgeEnd
  deriving DecidableEq, Repr, Inhabited

/-- `EdgeEndBundleStar::insert`: `edge_map.entry(key).or_insert_with(..).insert(edge_end)` -/
def starInsert (ar : Arith) (e : EdgeEnd) : List Bundle → List Bundle
  | [] => [⟨e, [e]⟩]
  | b :: bs =>
    match cmpDir ar e b.key with
    | .gt => b :: starInsert ar e bs
    | .eq => ⟨b.key, b.ends ++ [e]⟩ :: bs
    | .lt => ⟨e, [e]⟩ :: b :: bs

/-! ### `EdgeEndBuilder` -/

/-- `create_edge_end_for_prev` (`none`: slice index out of range) -/
def endForPrev (e : REdge) (cur : EI) (prev : Option EI) : Option (List EdgeEnd) :=
  let go (iPrev : Nat) : Option (List EdgeEnd) :=
    match e.coords[iPrev]? with
    | none => none
    | some c =>
      let coordPrev := match prev with
        | some p => if p.seg ≥ iPrev then p.coord else c
        | none => c
      some [⟨cur.coord, coordPrev, e.label.flip⟩]
  if cur.dist == 0 then
    (if cur.seg == 0 then some [] else go (cur.seg - 1))
  else go cur.seg

/-- `create_edge_end_for_next` (`none`: slice index out of range) -/
def endForNext (e : REdge) (cur : EI) (next : Option EI) : Option (List EdgeEnd) :=
  let iNext := cur.seg + 1
  if iNext ≥ e.coords.length && next.isNone then some [] else
  match e.coords[iNext]? with
  | none => none
  | some c =>
    let coordNext := match next with
      | some n => if n.seg == cur.seg then n.coord else c
      | none => c
    some [⟨cur.coord, coordNext, e.label⟩]

/-- the loop of `compute_ends_for_edge` over the intersection list -/
def endsLoop (e : REdge) : Option EI → List EI → Option (List EdgeEnd)
  | _, [] => some []
  | prev, cur :: rest =>
    match endForPrev e cur prev, endForNext e cur rest.head?, endsLoop e (some cur) rest with
    | some a, some b, some c => some (a ++ b ++ c)
    | _, _, _ => none

/-- `EdgeEndBuilder::compute_ends_for_edge` (adds the two end points to the intersection list first) -/
def endsForEdge (e : REdge) : Option (List EdgeEnd) := endsLoop e none e.addEndpoints.eis

/-- `EdgeEndBuilder::compute_ends_for_edges` -/
def endsForEdges : List REdge → Option (List EdgeEnd)
  | [] => some []
  | e :: es =>
    match endsForEdge e, endsForEdges es with
    | some a, some b => some (a ++ b)
    | _, _ => none

/-! ### the node map of the relate operation -/

/-- `RelateNodeFactory::Node = (CoordNode, EdgeEndBundleStar)` -/
structure RNode where
  coord : Pt
  label : Label
  star : List Bundle
  deriving DecidableEq, Repr, Inhabited

/-- `RelateNodeFactory::create_node` -/
def RNode.new (c : Pt) : RNode := ⟨c, Label.emptyLine, []⟩

/-- `NodeMap::insert_node_with_coordinate(c)` followed by an update `f` of the entry; the list is
kept in `lex_cmp` order, which is the iteration order of the map. -/
def upsertR (c : Pt) (f : RNode → RNode) : List RNode → List RNode
  | [] => [f (RNode.new c)]
  | n :: ns =>
    if c == n.coord then f n :: ns
    else if lexLt c n.coord then f (RNode.new c) :: n :: ns
    else n :: upsertR c f ns

/-- `CoordNode::set_label_boundary` (mod-2 rule) -/
def setLabelBoundary (l : Label) (idx : Nat) : Label :=
  match l.onPos idx with
  | some .onBoundary => l.setOn idx .inside
  | some .inside => l.setOn idx .onBoundary
  | _ => l.setOn idx .onBoundary

/-- body of the inner loop of `compute_intersection_nodes` -/
def intersectionNodeUpdate (edgePos : Option Pos) (idx : Nat) (n : RNode) : RNode :=
  if edgePos == some .onBoundary then { n with label := setLabelBoundary n.label idx }
  else if n.label.isEmptyAt idx then { n with label := n.label.setOn idx .inside }
  else n

def intersectionNodesOfEdge (edgePos : Option Pos) (idx : Nat) : List EI → List RNode → List RNode
  | [], ns => ns
  | ei :: rest, ns =>
    intersectionNodesOfEdge edgePos idx rest (upsertR ei.coord (intersectionNodeUpdate edgePos idx) ns)

/-- `RelateOperation::compute_intersection_nodes(graph, geom_index)` -/
def intersectionNodes (idx : Nat) : List REdge → List RNode → List RNode
  | [], ns => ns
  | e :: es, ns => intersectionNodes idx es (intersectionNodesOfEdge (e.label.onPos idx) idx e.eis ns)

/-- `RelateOperation::copy_nodes_and_labels(graph, geom_index)` over the graph's nodes (in map
order); `none`: "node should have been labeled by now" -/
def copyNodes (idx : Nat) : List Node → List RNode → Option (List RNode)
  | [], ns => some ns
  | g :: gs, ns =>
    match g.label.onPos idx with
    | none => none
    | some p => copyNodes idx gs (upsertR g.coord (fun n => { n with label := n.label.setOn idx p }) ns)

/-- one node of `label_isolated_nodes` -/
def labelIsolatedNode (a b : Geom) (n : RNode) : RNode :=
  if n.label.geometryCount == 1 then
    if n.label.isEmptyAt 0 then { n with label := n.label.setAll 0 (coordPos a n.coord) }
    else { n with label := n.label.setAll 1 (coordPos b n.coord) }
  else n

/-- `RelateOperation::insert_edge_ends` -/
def insertEdgeEnds (ar : Arith) : List EdgeEnd → List RNode → List RNode
  | [], ns => ns
  | e :: es, ns => insertEdgeEnds ar es (upsertR e.c0 (fun n => { n with star := starInsert ar e n.star }) ns)

/-! ### `EdgeEndBundle::into_labeled` -/

/-- `compute_label_on`: boundary edges by the mod-2 rule, else interior if any; otherwise the
label is left as it is -/
def computeLabelOn (ends : List EdgeEnd) (l : Label) (idx : Nat) : Label :=
  let bc := (ends.filter (fun e => e.label.onPos idx == some .onBoundary)).length
  let foundInterior := ends.any (fun e => e.label.onPos idx == some .inside)
  let position : Option Pos :=
    if bc > 0 then some (determineBoundary bc) else if foundInterior then some .inside else none
  match position with
  | some p => l.setOn idx p
  | none => l

/-- the loop of `compute_label_side` (`side`: the accessor for `Left` or `Right`) -/
def sideLoop (side : Label → Nat → Option Pos) (idx : Nat) : List EdgeEnd → Option Pos → Option Pos
  | [], acc => acc
  | e :: es, acc =>
    if e.label.isArea then
      match side e.label idx with
      | some .inside => some .inside
      | some .outside => sideLoop side idx es (some .outside)
      | _ => sideLoop side idx es acc
    else sideLoop side idx es acc

/-- the per-geometry step of `into_labeled` -/
def bundleLabelStep (ends : List EdgeEnd) (isArea : Bool) (l : Label) (idx : Nat) : Label :=
  let l := computeLabelOn ends l idx
  if isArea then
    let l := match sideLoop Label.leftPos idx ends none with
      | some p => l.setLeft idx p
      | none => l
    match sideLoop Label.rightPos idx ends none with
    | some p => l.setRight idx p
    | none => l
  else l

/-- `EdgeEndBundle::into_labeled`: the label of the bundle -/
def bundleLabel (ends : List EdgeEnd) : Label :=
  let isArea := ends.any (fun e => e.label.isArea)
  let l := if isArea then Label.emptyArea else Label.emptyLine
  bundleLabelStep ends isArea (bundleLabelStep ends isArea l 0) 1

/-! ### `LabeledEdgeEndBundleStar::compute_labeling` -/

/-- first loop of `propagate_side_labels`: the `Left` position of the last area bundle that has one -/
def startPosition (idx : Nat) : List Label → Option Pos → Option Pos
  | [], acc => acc
  | l :: ls, acc =>
    startPosition idx ls
      (if l.isGeomArea idx then (match l.leftPos idx with | some p => some p | none => acc) else acc)

/-- second loop of `propagate_side_labels` (`none`: "found single null side") -/
def propagateLoop (idx : Nat) : List Label → Pos → Option (List Label)
  | [], _ => some []
  | l :: ls, cur =>
    let l := if (l.onPos idx).isNone then l.setOn idx cur else l
    if l.isGeomArea idx then
      match l.rightPos idx with
      | some _ =>
        (match l.leftPos idx with
         | none => none
         | some lp => (propagateLoop idx ls lp).map (l :: ·))
      | none =>
        (propagateLoop idx ls cur).map ((l.setRight idx cur).setLeft idx cur :: ·)
    else (propagateLoop idx ls cur).map (l :: ·)

/-- `propagate_side_labels(geom_index)` -/
def propagateSideLabels (idx : Nat) (ls : List Label) : Option (List Label) :=
  match startPosition idx ls none with
  | none => some ls
  | some start => propagateLoop idx ls start

/-- `has_dimensional_collapse_edge[geom_index]` as the loop leaves it: the value for the *last*
bundle of the star (each iteration overwrites) -/
def collapseFlag (idx : Nat) (ls : List Label) : Bool :=
  match ls.getLast? with
  | some l => l.isLineAt idx && l.onPos idx == some .onBoundary
  | none => false

/-- third loop of `compute_labeling`, for one bundle and one geometry -/
def fillEmpty (g : Geom) (collapsed : Bool) (c : Pt) (l : Label) (idx : Nat) : Label :=
  if l.isAnyEmptyAt idx then
    let p : Pos :=
      if collapsed then .outside
      else if dims g == .two then coordPos g c else .outside
    l.setAllIfEmpty idx p
  else l

/-- `EdgeEndBundleStar::into_labeled(graph_a, graph_b)`: the labels of the bundles of the star at
`c`, in map order -/
def starLabels (a b : Geom) (c : Pt) (star : List Bundle) : Option (List Label) :=
  let ls := star.map (fun bd => bundleLabel bd.ends)
  match propagateSideLabels 0 ls with
  | none => none
  | some ls =>
    match propagateSideLabels 1 ls with
    | none => none
    | some ls =>
      let c0 := collapseFlag 0 ls
      let c1 := collapseFlag 1 ls
      some (ls.map (fun l => fillEmpty b c1 c (fillEmpty a c0 c l 0) 1))

/-! ### matrix updates -/

/-- `IntersectionMatrix::set_at_least_if_in_both` -/
def setAtLeastIfBoth (m : IM) (pa pb : Option Pos) (d : Dim) : IM :=
  match pa, pb with
  | some x, some y => m.setAtLeast x y d
  | _, _ => m

/-- `Edge::update_intersection_matrix(label, im)` -/
def edgeUpdateIM (l : Label) (m : IM) : IM :=
  let m := setAtLeastIfBoth m (l.onPos 0) (l.onPos 1) .one
  if l.isArea then
    let m := setAtLeastIfBoth m (l.leftPos 0) (l.leftPos 1) .two
    setAtLeastIfBoth m (l.rightPos 0) (l.rightPos 1) .two
  else m

/-- `CoordNode::update_intersection_matrix` (`none`: "found partial label") -/
def nodeUpdateIM (l : Label) (m : IM) : Option IM :=
  if l.geometryCount ≥ 2 then some (setAtLeastIfBoth m (l.onPos 0) (l.onPos 1) .zero) else none

def dimOfChar (c : Char) : Dim := (Dim.ofChar? c).getD .empty

/-- `IntersectionMatrix::set_at_least_from_string` on a well-formed 9-character string -/
def setAtLeastFromString (m : IM) (s : String) : IM :=
  match s.toList.map dimOfChar with
  | [a, b, c, d, e, f, g, h, i] =>
    ⟨m.ii.max a, m.ib.max b, m.ie.max c, m.bi.max d, m.bb.max e, m.be.max f, m.ei.max g, m.eb.max h, m.ee.max i⟩
  | _ => m

/-- `RelateOperation::compute_proper_intersection_im` -/
def properIM (da db : Dim) (hasProper hasProperInterior : Bool) (m : IM) : IM :=
  match da, db with
  | .two, .two => if hasProper then setAtLeastFromString m "212101212" else m
  | .two, .one =>
    let m := if hasProper then setAtLeastFromString m "FFF0FFFF2" else m
    if hasProperInterior then setAtLeastFromString m "1FFFFF1FF" else m
  | .one, .two =>
    let m := if hasProper then setAtLeastFromString m "F0FFFFFF2" else m
    if hasProperInterior then setAtLeastFromString m "1F1FFFFFF" else m
  | .one, .one => if hasProperInterior then setAtLeastFromString m "0FFFFFFFF" else m
  | _, _ => m

/-- `RelateOperation::label_isolated_edge(edge, target_index, target)`; `none`: "can't create
empty edge" -/
def labelIsolatedEdge (target : Geom) (targetIdx : Nat) (e : REdge) : Option Label :=
  if (dims target).rank > Dim.zero.rank then
    match e.coords.head? with
    | none => none
    | some c => some (e.label.setAll targetIdx (coordPos target c))
  else some (e.label.setAll targetIdx .outside)

/-- `RelateOperation::label_isolated_edges(this_graph, target_graph, target_index)`: the labels of
the edges pushed to `isolated_edges` -/
def labelIsolatedEdges (target : Geom) (targetIdx : Nat) : List REdge → Option (List Label)
  | [] => some []
  | e :: es =>
    if e.isolated then
      match labelIsolatedEdge target targetIdx e, labelIsolatedEdges target targetIdx es with
      | some l, some ls => some (l :: ls)
      | _, _ => none
    else labelIsolatedEdges target targetIdx es

/-- the node loop of `RelateOperation::update_intersection_matrix` -/
def updateNodes (a b : Geom) : List RNode → IM → Option IM
  | [], m => some m
  | n :: ns, m =>
    match starLabels a b n.coord n.star with
    | none => none
    | some ls =>
      match nodeUpdateIM n.label m with
      | none => none
      | some m => updateNodes a b ns (ls.foldl (fun m l => edgeUpdateIM l m) m)

end Geo.RI
