/-
  GeoModel.Geom — the geometry tree of geo-types, over exact rationals.
-/
import GeoModel.Num

namespace Geo

structure Pt where
  x : Rat
  y : Rat
  deriving DecidableEq, Repr, Inhabited

instance : Add Pt := ⟨fun a b => ⟨a.x + b.x, a.y + b.y⟩⟩
instance : Sub Pt := ⟨fun a b => ⟨a.x - b.x, a.y - b.y⟩⟩

def Pt.smul (k : Rat) (p : Pt) : Pt := ⟨k * p.x, k * p.y⟩

abbrev Ring := List Pt

structure Poly where
  ext : Ring
  ints : List Ring
  deriving DecidableEq, Repr, Inhabited

/-- Mirrors `geo_types::Geometry` (with `GeometryCollection` nesting). -/
inductive Geom where
  | point (p : Pt)
  | line (a b : Pt)
  | lineString (cs : List Pt)
  | polygon (p : Poly)
  | multiPoint (ps : List Pt)
  | multiLineString (ls : List (List Pt))
  | multiPolygon (ps : List Poly)
  | rect (mn mx : Pt)
  | triangle (a b c : Pt)
  | collection (gs : List Geom)
  deriving Repr, Inhabited

def Pt.str (p : Pt) : String := ratStr p.x ++ " " ++ ratStr p.y

def ptsStr (ps : List Pt) : String :=
  toString ps.length ++ String.join (ps.map (fun p => " " ++ p.str))

def Poly.str (p : Poly) : String :=
  toString (p.ints.length + 1) ++ " " ++ ptsStr p.ext ++
    String.join (p.ints.map (fun r => " " ++ ptsStr r))

partial def Geom.str : Geom → String
  | .point p => "PT " ++ p.str
  | .line a b => "LN " ++ a.str ++ " " ++ b.str
  | .lineString cs => "LS " ++ ptsStr cs
  | .polygon p => "PG " ++ p.str
  | .multiPoint ps => "MPT " ++ ptsStr ps
  | .multiLineString ls => "MLS " ++ toString ls.length ++ String.join (ls.map (fun l => " " ++ ptsStr l))
  | .multiPolygon ps => "MPG " ++ toString ps.length ++ String.join (ps.map (fun p => " " ++ p.str))
  | .rect a b => "RC " ++ a.str ++ " " ++ b.str
  | .triangle a b c => "TR " ++ a.str ++ " " ++ b.str ++ " " ++ c.str
  | .collection gs => "GC " ++ toString gs.length ++ String.join (gs.map (fun g => " " ++ g.str))

end Geo
