/-
  GeoModel.MonoBuild — C10: `monotone_subdivision`, the builder of the monotone pieces, mirrored as the
  code is (`none` = the code panics: `unwrap` on an empty slot, index out of range, `assert!`, `expect`).

  Anchors: geo/src/algorithm/monotone/builder.rs (`monotone_subdivision`, `Builder::{from_polygons_iter, build,
           process_next_pt}`, `Chain::{from_segment_pair, fix_top, swap_at_top, push, finish_with}`, `Info`),
           geo/src/algorithm/monotone/mono_poly.rs (`MonoPoly::new`).
  The sweep underneath is `GeoModel/MonoBuildSweep.lean`.
-/
import GeoModel.MonoBuildSweep

namespace Geo.MonoBuild
open Geo Geo.Mono

/-! ### Chains -/

/-- `self.chains[i].take().unwrap()` -/
def St.takeChain (st : St) (i : Nat) : Option (List Pt × St) :=
  match st.chains[i]? with
  | some (some c) => some (c, { st with chains := st.chains.set i none })
  | _ => none

/-- `self.chains[i].as_mut().unwrap().push(pt)` -/
def St.pushChain (st : St) (i : Nat) (pt : Pt) : Option St :=
  st.modifyChain i (fun c => some (c ++ [pt]))

/-- `Chain::finish_with(self, other)`: the `assert!` on equal first and last coordinates, then
`MonoPoly::new(other.0, self.0)` (top = `other`, bottom = `self`) -/
def finishWith (self other : List Pt) : Option MonoPoly :=
  match self.head?, other.head?, self.getLast?, other.getLast? with
  | some a, some b, some c, some d => if a == b && c == d then some ⟨other, self⟩ else none
  | _, _, _, _ => none

/-- `Chain::swap_at_top(pt)`: returns the new content of `self` and the two chains `[first, second]` -/
def swapAtTop (c : List Pt) (pt : Pt) : Option (List Pt × List Pt × List Pt) :=
  match c.getLast? with
  | none => none
  | some top =>
    let c1 := c.dropLast
    match c1.getLast? with
    | none => none
    | some prev =>
      let oldChain := c1 ++ [pt]
      let newChain := [prev, pt]
      let self' := [prev, top]
      if (LoP.from prev top).gt (LoP.from prev pt) then some (self', oldChain, newChain)
      else some (self', newChain, oldChain)

/-- write through `seg.payload()` -/
def St.setInfo (st : St) (i : Nat) (f : Info → Info) : Option St :=
  match st.segs[i]? with
  | some s => some { st with segs := st.segs.set i { s with info := f s.info } }
  | none => none

def St.rightOf (st : St) (i : Nat) : Option Pt := (st.lineOf i).map LoP.right

/-! ### `process_next_pt` -/

/-- Step 3: `while let Some(first) = iter.next() { let second = iter.next().unwrap(); … }` over the drained
incoming segments -/
def reduceIncoming (pt : Pt) : List Nat → St → Option St
  | first :: second :: rest, st =>
    match st.infoOf first, st.infoOf second with
    | some fi, some si =>
      match st.takeChain fi.chainIdx with
      | none => none
      | some (fc, st) =>
        match st.takeChain si.chainIdx with
        | none => none
        | some (sc, st) =>
          match fi.help with
          | some (h0, h1) =>
            match st.setInfo first (fun i => { i with help := none }) with
            | none => none
            | some st =>
              match st.takeChain h0 with
              | none => none
              | some (fhc, st) =>
                match st.takeChain h1 with
                | none => none
                | some (shc, st) =>
                  match finishWith fc (fhc ++ [pt]), finishWith (shc ++ [pt]) sc with
                  | some m1, some m2 => reduceIncoming pt rest { st with outputs := st.outputs ++ [m1, m2] }
                  | _, _ => none
          | none =>
            match finishWith fc sc with
            | some m => reduceIncoming pt rest { st with outputs := st.outputs ++ [m] }
            | none => none
    | _, _ => none
  | [_], _ => none
  | [], st => some st

/-- the "help on the last incoming segment" block (appears twice in the code): if `seg` has a registered
help `[h0, h1]`, finish `seg`'s chain with `h0` and continue on `h1`; otherwise continue on `seg`'s chain -/
def lastIdx (pt : Pt) (seg : Nat) (st : St) : Option (St × Nat) :=
  match st.infoOf seg with
  | none => none
  | some inf =>
    match inf.help with
    | some (h0, h1) =>
      match st.takeChain h0 with
      | none => none
      | some (fhc, st) =>
        match st.takeChain inf.chainIdx with
        | none => none
        | some (fc, st) =>
          match st.pushChain h1 pt with
          | none => none
          | some st =>
            match finishWith fc (fhc ++ [pt]) with
            | some m => some ({ st with outputs := st.outputs ++ [m] }, h1)
            | none => none
    | none => some (st, inf.chainIdx)

/-- the `let in_chains = …` block; `incoming` is what is left after the reduction (at most two in practice) -/
def inChains (pt : Pt) (bot : Option Nat) (botHelp : Option (Nat × Nat)) (incoming : List Nat) (st : St) :
    Option (St × Option Nat × Option Nat) :=
  match botHelp with
  | some (h0, h1) =>
    match bot with
    | none => none
    | some b =>
      match st.setInfo b (fun i => { i with help := none }) with
      | none => none
      | some st =>
        match incoming with
        | in0 :: restIn =>
          match st.infoOf in0 with
          | none => none
          | some i0 =>
            match st.takeChain i0.chainIdx with
            | none => none
            | some (sc, st) =>
              match st.takeChain h1 with
              | none => none
              | some (shc, st) =>
                match st.pushChain h0 pt with
                | none => none
                | some st =>
                  match finishWith (shc ++ [pt]) sc with
                  | none => none
                  | some m =>
                    let st := { st with outputs := st.outputs ++ [m] }
                    match restIn with
                    | [] => some (st, some h0, none)
                    | in1 :: _ =>
                      match lastIdx pt in1 st with
                      | none => none
                      | some (st, li) => some (st, some h0, some li)
        | [] =>
          match st.pushChain h0 pt with
          | none => none
          | some st =>
            match st.pushChain h1 pt with
            | none => none
            | some st => some (st, some h0, some h1)
  | none =>
    match incoming.getLast? with
    | none => some (st, none, none)
    | some lastIn =>
      match lastIdx pt lastIn st with
      | none => none
      | some (st, li) =>
        if incoming.length == 1 then some (st, some li, none)
        else
          match incoming.head? with
          | none => none
          | some in0 =>
            match st.infoOf in0 with
            | none => none
            | some i0 => some (st, some i0.chainIdx, some li)

/-- Step 4: every drained pair of outgoing segments starts a new region -/
def startOutgoing (pt : Pt) : List Nat → St → Option St
  | first :: second :: rest, st =>
    match st.rightOf first, st.rightOf second with
    | some bot, some top =>
      let n := st.chains.length
      let st := { st with chains := st.chains ++ [some [pt, bot], some [pt, top]] }
      match st.setInfo first (fun i => { i with nextIsInside := true, chainIdx := n }) with
      | none => none
      | some st =>
        match st.setInfo second (fun i => { i with nextIsInside := false, chainIdx := n + 1 }) with
        | none => none
        | some st => startOutgoing pt rest st
    | _, _ => none
  | [_], _ => none
  | [], st => some st

/-- `v.drain(start..ub)`: the drained range and what stays -/
def drainRange (v : List Nat) (start ub : Nat) : List Nat × List Nat :=
  ((v.take ub).drop start, v.take start ++ v.drop ub)

/-- `if let Some(b) = bot_segment { b.payload().helper_chain.set(Some(idx)) }` -/
def setHelper (bot : Option Nat) (idx : Nat) (st : St) : Option St :=
  match bot with
  | some b => st.setInfo b (fun i => { i with helperChain := some idx })
  | none => some st

/-- Step 5: tie up incoming and outgoing -/
def tieUp (pt : Pt) (bot : Option Nat) (botRegion : Bool) (outgoing : List Nat) (st : St) :
    Option Nat × Option Nat → Option St
  | (none, none) =>
    match outgoing with
    | [] => some st
    | [first, second] =>
      match bot with
      | none => none
      | some b =>
        match st.infoOf b, st.rightOf first, st.rightOf second with
        | some bi, some r1, some r2 =>
          let idx := bi.helperChain.getD bi.chainIdx
          match st.chains[idx]? with
          | some (some c) =>
            match swapAtTop c pt with
            | none => none
            | some (self', n0, n1) =>
              let n := st.chains.length
              let st := { st with chains := st.chains.set idx (some self') ++ [some (n0 ++ [r1]), some (n1 ++ [r2])] }
              match st.setInfo first (fun i => { i with nextIsInside := false, chainIdx := n }) with
              | none => none
              | some st =>
                match st.setInfo second (fun i => { i with nextIsInside := true, chainIdx := n + 1 }) with
                | none => none
                | some st => st.setInfo b (fun i => { i with helperChain := some n })
          | _ => none
        | _, _, _ => none
    | _ => none   -- assert!(outgoing.len() == 2)
  | (some idx, none) =>
    match outgoing with
    | [first] =>
      match st.rightOf first with
      | none => none
      | some r =>
        match st.pushChain idx r with
        | none => none
        | some st =>
          match st.setInfo first (fun i => { i with nextIsInside := !botRegion, chainIdx := idx }) with
          | none => none
          | some st => setHelper bot idx st
    | _ => none   -- assert!(outgoing.len() == 1)
  | (some idx, some jdx) =>
    match outgoing with
    | [] =>
      match bot with
      | none => none
      | some b =>
        match st.setInfo b (fun i => { i with help := some (idx, jdx) }) with
        | none => none
        | some st => setHelper bot idx st
    | [first, second] =>
      match st.rightOf first, st.rightOf second with
      | some r1, some r2 =>
        match st.pushChain idx r1 with
        | none => none
        | some st =>
          match st.pushChain jdx r2 with
          | none => none
          | some st =>
            match st.setInfo first (fun i => { i with nextIsInside := false, chainIdx := idx }) with
            | none => none
            | some st =>
              match st.setInfo second (fun i => { i with nextIsInside := true, chainIdx := jdx }) with
              | none => none
              | some st => setHelper bot idx st
      | _, _ => none
    | _ => none   -- assert!(outgoing.len() == 2)
  | (none, some _) => none   -- unreachable!()

/-- `Builder::process_next_pt`: `none` = panic, `some (st, false)` = no event left -/
def processNextPt (fuel : Nat) (st : St) : Option (St × Bool) :=
  -- Step 1
  match nextPoint fuel { st with incoming := [], outgoing := [] } with
  | none => none
  | some (st, none) => some (st, false)
  | some (st, some pt) =>
    match sortBy st.segCmp? st.incoming, sortBy st.segCmp? st.outgoing with
    | some incoming, some outgoing =>
      -- Step 2
      let bot := st.prevActive pt
      let botInfo := bot.bind st.infoOf
      let botRegion := (botInfo.map (·.nextIsInside)).getD false
      let botHelp := botInfo.bind (·.help)
      let startIdx := if botRegion then 1 else 0
      -- Step 3
      let nIn := incoming.length
      let dIn := drainRange incoming startIdx (nIn - (nIn - startIdx) % 2)
      match (if incoming.isEmpty then some st else reduceIncoming pt dIn.1 st) with
      | none => none
      | some st =>
        let incoming := if incoming.isEmpty then incoming else dIn.2
        match inChains pt bot botHelp incoming st with
        | none => none
        | some (st, ic) =>
          -- Step 4
          let nOut := outgoing.length
          let dOut := drainRange outgoing startIdx (nOut - (nOut - startIdx) % 2)
          match (if outgoing.isEmpty then some st else startOutgoing pt dOut.1 st) with
          | none => none
          | some st =>
            let outgoing := if outgoing.isEmpty then outgoing else dOut.2
            -- Step 5
            match tieUp pt bot botRegion outgoing st ic with
            | none => none
            | some st => some (st, true)
    | _, _ => none

/-- `while self.process_next_pt() {}` -/
def buildLoop (hfuel : Nat) : Nat → St → Option St
  | 0, _ => none
  | fuel + 1, st =>
    match processNextPt hfuel st with
    | none => none
    | some (st, false) => some st
    | some (st, true) => buildLoop hfuel fuel st

/-- the lines of `Builder::from_polygons_iter`: exterior then interiors, `ls.lines()`, zero-length lines dropped -/
def inputLines (ps : List Poly) : List LoP :=
  (ps.flatMap (fun p => (p.ext :: p.ints).flatMap segs)).filterMap
    (fun (a, b) => if a == b then none else some (LoP.from a b))

/-- `SimpleSweep::new`: one `RcSegment` per line, `events.extend(segment.events())` in order -/
def initGo : List LoP → St → St
  | [], st => st
  | l :: ls, st =>
    let i := st.segs.length
    let e1 : Ev := ⟨l.left, if l.isLine then .lineLeft else .pointLeft, i⟩
    let e2 : Ev := ⟨l.right, if l.isLine then .lineRight else .pointRight, i⟩
    initGo ls { st with segs := st.segs ++ [⟨l, {}⟩], events := heapExtend2 st.events e1 e2 }

def initState (ps : List Poly) : St :=
  initGo (inputLines ps) ⟨[], [], [], [], [], [], []⟩

/-- Fuel of the model's loops. With `n` input lines there are `2n` end points; every split cuts a segment at one of
them lying strictly inside it, so the sum over all segments of the number of end points strictly inside (at most
`2n·n`) drops with every split, while a split queues three events: `#events + 3·(that sum) ≤ 2n + 6n²` never grows and
drops with every event popped. Each popped event costs at most three levels of the nested recursion
(`handle_event` → round → `while`), hence `3·(6n² + 2n) + 3`. Theorem `monotone_fuel_irrelevant` (Props/C10): any larger
fuel gives the same answer, so `none` is never an artefact of this bound. -/
def fuelFor (n : Nat) : Nat := 18 * n * n + 6 * n + 8

/-- `Builder::from_polygons_iter(polygons).build()` up to the final state; `none` = the code panics -/
def buildState (ps : List Poly) : Option St :=
  let st := initState ps
  let fuel := fuelFor st.segs.length
  buildLoop fuel fuel st

/-- `monotone_subdivision(polygons)`; `none` = the code panics -/
def monotoneSubdivision (ps : List Poly) : Option (List MonoPoly) :=
  (buildState ps).map (·.outputs)

end Geo.MonoBuild
