/-
  GeoModel.DetGlue — the output side of geo's glue around the overlay engine, for C20.

  Anchors: geo/src/algorithm/bool_ops/mod.rs (`BooleanOps::boolean_op`, `clip`, `unary_union`),
  geo/src/algorithm/bool_ops/i_overlay_integration.rs (`convert::polygon_from_shape`,
  `multi_polygon_from_shapes`, `multi_line_string_from_paths`, `line_string_from_path`).

  The engine (`i_overlay`, which runs parts of its splitter on the rayon pool when geo's default
  `multithreading` feature is on) is NOT modelled: it enters as a *relation* `Engine inputs out`
  ("`out` is an answer the engine may give for `inputs`" — under some schedule). What is
  modelled is everything geo does with the answer. `ring_to_shape_path` (the input side) is a
  parameter `toPath`, so that nothing here depends on how rings are converted.

  Core Lean only.
-/
import GeoModel.Geom
import GeoModel.Parse

namespace Geo.DetGlue
open Geo

abbrev Path := List Pt
abbrev Shape := List Path

/-- `OpType` -/
inductive Op where
  | intersection | union | difference | xor
  deriving DecidableEq, Repr

/-- `FillRule` values used by geo -/
inductive Fill where
  | evenOdd | positive | negative
  deriving DecidableEq, Repr

/-- `line_string_from_path`: the coordinates, unchanged -/
def lineStringFromPath (p : Path) : List Pt := p

/-- `polygon_from_shape`: every path is closed (`LineString::close`) and reversed (the engine
winds the other way round); the first is the exterior; `Polygon::new` closes once more (a no-op
on a reversed closed ring, kept because the code does it). An empty shape gives the empty polygon. -/
def polygonFromShape (s : Shape) : Poly :=
  match s.map (fun p => (P.closeRing (lineStringFromPath p)).reverse) with
  | [] => ⟨P.closeRing [], []⟩
  | e :: rest => ⟨P.closeRing e, rest.map P.closeRing⟩

/-- `multi_polygon_from_shapes` -/
def multiPolygonFromShapes (ss : List Shape) : List Poly := ss.map polygonFromShape

/-- `multi_line_string_from_paths` -/
def multiLineStringFromPaths (ps : List Path) : List (List Pt) := ps.map lineStringFromPath

/-- `BooleanOps::rings` of a `MultiPolygon` (exterior, then interiors, polygon by polygon) -/
def rings (mp : List Poly) : List Ring := mp.flatMap (fun p => p.ext :: p.ints)

/-- what the overlay engine may answer: subject paths, clip paths, operation, fill rule ↦ shapes -/
abbrev OverlayEngine := List Path → List Path → Op → Fill → List Shape → Prop
/-- what the string-clip engine may answer: line strings, clip paths, `invert` ↦ paths -/
abbrev ClipEngine := List Path → List Path → Bool → List Path → Prop

/-- `out` is a possible result of `a.boolean_op(b, op)` -/
def BoolOp (E : OverlayEngine) (toPath : Ring → Path) (a b : List Poly) (op : Op) (out : List Poly) : Prop :=
  ∃ shapes, E ((rings a).map toPath) ((rings b).map toPath) op .evenOdd shapes ∧
    out = multiPolygonFromShapes shapes

/-- `out` is a possible result of `a.clip(mls, invert)` -/
def Clip (E : ClipEngine) (toPath : Ring → Path) (a : List Poly) (mls : List (List Pt)) (invert : Bool)
    (out : List (List Pt)) : Prop :=
  ∃ paths, E mls ((rings a).map toPath) invert paths ∧ out = multiLineStringFromPaths paths

/-- `unary_union`: the fill rule follows the winding of the first ring that has one
(`winding : Ring → Option Bool`, `some true` = clockwise) -/
def unaryFill (winding : Ring → Option Bool) (rs : List Ring) : Fill :=
  match rs.findSome? winding with
  | some true => .positive
  | _ => .negative

/-- `out` is a possible result of `unary_union(polys)`; the engine runs with the subject only
(`OverlayRule::Subject`, modelled as `Op.union` against an empty clip) -/
def UnaryUnion (E : OverlayEngine) (toPath : Ring → Path) (winding : Ring → Option Bool)
    (mps : List (List Poly)) (out : List Poly) : Prop :=
  let rs := mps.flatMap rings
  ∃ shapes, E (rs.map toPath) [] .union (unaryFill winding rs) shapes ∧
    out = multiPolygonFromShapes shapes

/-! ### triangulation glue (geo/src/algorithm/triangulate_earcut.rs, triangulate_delaunay.rs) -/

/-- a triangle as the three corners in the order geo emits them -/
abbrev Tri3 := Pt × Pt × Pt

/-- `Iter::triangle_index_to_coord` on the flattened vertex list `[x0, y0, x1, y1, …]` -/
def vertexAt (verts : List Rat) (i : Nat) : Pt := ⟨verts.getD (2 * i) 0, verts.getD (2 * i + 1) 0⟩

/-- `earcut_triangles_iter`: indices are *popped* three at a time from the end of the engine's
index list, so triangles come out last-first with their corners in reverse. Leftover indices
(fewer than three) end the iteration. -/
def popTriangles (verts : List Rat) : List Nat → List Tri3
  | i1 :: i2 :: i3 :: rest => (vertexAt verts i1, vertexAt verts i2, vertexAt verts i3) :: popTriangles verts rest
  | _ => []

def trianglesOfIndices (verts : List Rat) (idx : List Nat) : List Tri3 := popTriangles verts idx.reverse

/-- `flat_line_string_coords_2` over exterior then interiors -/
def flatCoords (p : Poly) : List Rat := (p.ext :: p.ints).flatMap (fun r => r.flatMap (fun c => [c.x, c.y]))

/-- `interior_indexes`: vertex offset at which each interior starts -/
def interiorIndexes (p : Poly) : List Nat :=
  (p.ints.foldl (fun (acc : List Nat × Nat) r => (acc.1 ++ [acc.2], acc.2 + r.length)) ([], p.ext.length)).1

/-- what `earcutr::earcut(vertices, hole_indices, 2)` may answer -/
abbrev EarcutEngine := List Rat → List Nat → List Nat → Prop

/-- `out` is a possible result of `polygon.earcut_triangles()` -/
def EarcutTriangles (E : EarcutEngine) (p : Poly) (out : List Tri3) : Prop :=
  ∃ idx, E (flatCoords p) (interiorIndexes p) idx ∧ out = trianglesOfIndices (flatCoords p) idx

/-- `triangulation_to_triangles`: the engine's inner faces, in the engine's order -/
def trianglesOfFaces (faces : List Tri3) : List Tri3 := faces.map (fun f => (f.1, f.2.1, f.2.2))

/-- `constrained_triangulation`: the triangles of the outer triangulation whose centroid the
geometry contains (`inside : Tri3 → Bool`), in the same order -/
def constrainedOfOuter (inside : Tri3 → Bool) (outer : List Tri3) : List Tri3 := outer.filter inside

end Geo.DetGlue
