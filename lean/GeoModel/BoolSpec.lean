/-
  GeoModel.BoolSpec — C04: what the overlay engine is *assumed* to do (`EngineSpec`), the region
  semantics used to state it (winding numbers, fill rules, rule tables), and the exact executable
  *oracle* the driver evaluates on the implementation's output (exact areas, exact intersection area,
  sample-point membership, ring direction, clip coverage and length conservation).

  Nothing here mirrors geo code; geo's glue is GeoModel/BoolGlue.lean.
-/
import GeoModel.BoolGlue
import GeoModel.Area
import GeoModel.Valid

namespace Geo.BoolSpec
open Geo Geo.BoolGlue

/-! ### Winding numbers (Sunday's crossing rule, half-open in y; the point is off the edges) -/

/-- contribution of the directed edge `s → e` to the winding number around `p` -/
def edgeW (p s e : Pt) : Int :=
  if s.y ≤ p.y then
    (if p.y < e.y then (if cross s e p > 0 then 1 else 0) else 0)
  else
    (if e.y ≤ p.y then (if cross s e p < 0 then -1 else 0) else 0)

def wind (p : Pt) : List (Pt × Pt) → Int
  | [] => 0
  | (s, e) :: t => edgeW p s e + wind p t

/-- the edges of an implicitly closed engine path -/
def closedSegs (q : Path) : List (Pt × Pt) := segs (q ++ q.take 1)

def windPath (p : Pt) (q : Path) : Int := wind p (closedSegs q)

def windPaths (p : Pt) : List Path → Int
  | [] => 0
  | q :: t => windPath p q + windPaths p t

/-- an explicitly closed geo ring -/
def windRing (p : Pt) (r : List Pt) : Int := wind p (segs r)

def windRings (p : Pt) : List (List Pt) → Int
  | [] => 0
  | r :: t => windRing p r + windRings p t

/-! ### Fill rules and rule tables of the engine -/

/-- which winding counts are "filled". The engine counts in its own axis convention, in which a
path that is clockwise in geo's (mathematical) axes counts `+1`: its count is the *negated*
mathematical winding number (see `fillRegion`). -/
def filled : FillRule → Int → Bool
  | .evenOdd, c => c % 2 != 0
  | .nonZero, c => c != 0
  | .positive, c => decide (c > 0)
  | .negative, c => decide (c < 0)

def fillRegion (f : FillRule) (paths : List Path) (p : Pt) : Bool := filled f (-(windPaths p paths))

/-- the Boolean combination an `OverlayRule` stands for (`a` = in subject, `b` = in clip) -/
def ruleCombine : OverlayRule → Bool → Bool → Bool
  | .subject, a, _ => a
  | .clip, _, b => b
  | .intersect, a, b => a && b
  | .union, a, b => a || b
  | .difference, a, b => a && !b
  | .inverseDifference, a, b => b && !a
  | .xor, a, b => a != b

/-- the set operation an `OpType` stands for, operand order explicit -/
def opCombine : OpType → Bool → Bool → Bool
  | .intersection, a, b => a && b
  | .union, a, b => a || b
  | .difference, a, b => a && !b
  | .xor, a, b => a != b

/-! ### Regions of engine output and of geo polygons -/

/-- inside an engine shape: inside the outer path, outside every hole -/
def shapeInside (p : Pt) : Shape → Bool
  | [] => false
  | o :: hs => windPath p o != 0 && hs.all (fun h => windPath p h == 0)

def shapesInside (p : Pt) (ss : List Shape) : Bool := ss.any (shapeInside p)

/-- inside a geo polygon (point off its rings): inside the shell, outside every hole -/
def polyInside (p : Pt) (poly : Poly) : Bool :=
  windRing p poly.ext != 0 && poly.ints.all (fun h => windRing p h == 0)

def mpInside (p : Pt) (ps : List Poly) : Bool := ps.any (polyInside p)

/-- even-odd region of a list of geo rings (what `FillRule::EvenOdd` makes of an operand) -/
def evenOddRings (p : Pt) (rs : List (List Pt)) : Bool := windRings p rs % 2 != 0

/-- on some segment of some path / line string -/
def onLines (p : Pt) (ls : List (List Pt)) : Bool := ls.any (fun l => onAnySeg p (segs l) || l == [p])

/-! ### The engine assumption -/

/-- what the engine demands of an implicitly closed path: no repeated closing point -/
def pathOk (q : Path) : Bool := q.length ≤ 1 || q.getLast? != q.head?

/-- twice the signed area enclosed by an implicitly closed path -/
def pathArea2 (q : Path) : Rat := shoelace2 (SM.close q)

/-- an engine shape: at least the outer path; outer clockwise, holes counter-clockwise in geo's axes -/
def shapeOk : Shape → Bool
  | [] => false
  | o :: hs => decide (pathArea2 o < 0) && hs.all (fun h => decide (pathArea2 h > 0))

/-- **[A] the assumed specification of the overlay engine.** `far p paths` is the (abstract) set of
points farther from every input path than the engine's fixed-point snapping tolerance; the
statements are required only for input paths without a repeated closing point. -/
structure EngineSpec (E : Engine) (far : Pt → List Path → Prop) : Prop where
  overlay_region : ∀ (s c : List Path) (r : OverlayRule) (f : FillRule) (p : Pt),
    (∀ q ∈ s ++ c, pathOk q = true) → far p (s ++ c) →
    shapesInside p (E.overlay s c r f) = ruleCombine r (fillRegion f s p) (fillRegion f c p)
  overlay_shape : ∀ (s c : List Path) (r : OverlayRule) (f : FillRule),
    (∀ q ∈ s ++ c, pathOk q = true) → ∀ sh ∈ E.overlay s c r f, shapeOk sh = true
  single_region : ∀ (s : List Path) (f : FillRule) (p : Pt),
    (∀ q ∈ s, pathOk q = true) → far p s →
    shapesInside p (E.single s f) = fillRegion f s p
  single_shape : ∀ (s : List Path) (f : FillRule),
    (∀ q ∈ s, pathOk q = true) → ∀ sh ∈ E.single s f, shapeOk sh = true
  clip_region : ∀ (l c : List Path) (f : FillRule) (invert : Bool) (p : Pt),
    (∀ q ∈ c, pathOk q = true) → far p c → onLines p l = true →
    onLines p (E.clip l c f invert true) = (fillRegion f c p != invert)
  clip_subset : ∀ (l c : List Path) (f : FillRule) (invert incl : Bool) (p : Pt),
    far p c → onLines p (E.clip l c f invert incl) = true → onLines p l = true

/-! ### The oracle: exact areas -/

def sumR : List Rat → Rat
  | [] => 0
  | a :: t => a + sumR t

/-- area of a polygon whose holes lie in its shell: `(|shell| − Σ|hole|)` -/
def polyArea (p : Poly) : Rat :=
  (rabs (shoelace2 p.ext) - sumR (p.ints.map (fun h => rabs (shoelace2 h)))) / 2

def mpArea (ps : List Poly) : Rat := sumR (ps.map polyArea)

/-- a counter-clockwise triangle with a weight `±1` -/
structure WTri where
  a : Pt
  b : Pt
  c : Pt
  w : Rat

/-- fan of signed triangles `(O, a, b)` over the edges of a ring: `Σ w·1[T]` is the indicator of the
region enclosed by a simple ring (`sgn` = `+1` shell / `−1` hole, already multiplied by the sign of the
ring's own direction) -/
def ringFan (o : Pt) (sgn : Rat) (r : List Pt) : List WTri :=
  (segs r).filterMap (fun (a, b) =>
    let d := cross o a b
    if d > 0 then some ⟨o, a, b, sgn⟩ else if d < 0 then some ⟨o, b, a, -sgn⟩ else none)

def dirSign (r : List Pt) : Rat := if shoelace2 r < 0 then -1 else 1

def polyFan (o : Pt) (p : Poly) : List WTri :=
  ringFan o (dirSign p.ext) p.ext ++ p.ints.flatMap (fun h => ringFan o (-(dirSign h)) h)

def mpFan (o : Pt) (ps : List Poly) : List WTri := ps.flatMap (polyFan o)

/-- Sutherland–Hodgman: the part of the convex polygon `poly` on the left of `u → v` -/
def clipHalf (u v : Pt) (poly : List Pt) : List Pt :=
  match poly with
  | [] => []
  | h :: _ => go (poly ++ [h])
where go : List Pt → List Pt
  | p :: q :: rest =>
    let dp := cross u v p
    let dq := cross u v q
    let x : Pt := (let t := dp / (dp - dq); ⟨p.x + t * (q.x - p.x), p.y + t * (q.y - p.y)⟩)
    let out := if dp ≥ 0 then (if dq ≥ 0 then [q] else [x]) else (if dq ≥ 0 then [x, q] else [])
    out ++ go (q :: rest)
  | _ => []

def triBoxDisjoint (s t : WTri) : Bool :=
  let mn (a b c : Rat) := rmin a (rmin b c)
  let mx (a b c : Rat) := rmax a (rmax b c)
  mx s.a.x s.b.x s.c.x ≤ mn t.a.x t.b.x t.c.x || mx t.a.x t.b.x t.c.x ≤ mn s.a.x s.b.x s.c.x ||
  mx s.a.y s.b.y s.c.y ≤ mn t.a.y t.b.y t.c.y || mx t.a.y t.b.y t.c.y ≤ mn s.a.y s.b.y s.c.y

/-- exact area of the intersection of two counter-clockwise triangles -/
def triTriArea (s t : WTri) : Rat :=
  if triBoxDisjoint s t then 0 else
  let poly := clipHalf t.c t.a (clipHalf t.b t.c (clipHalf t.a t.b [s.a, s.b, s.c]))
  match poly with
  | [] => 0
  | h :: _ => shoelace2 (poly ++ [h]) / 2

/-- exact area of `A ∩ B` for valid (multi)polygons: `Σᵢⱼ wᵢ wⱼ · area(Tᵢ ∩ Tⱼ)` -/
def interArea (o : Pt) (a b : List Poly) : Rat :=
  let fa := mpFan o a
  let fb := mpFan o b
  sumR (fa.map (fun s => sumR (fb.map (fun t => s.w * t.w * triTriArea s t))))

/-- expected exact area of each operation from `|A|`, `|B|`, `|A ∩ B|` -/
def expectedArea (op : OpType) (aA aB aI : Rat) : Rat :=
  match op with
  | .intersection => aI
  | .union => aA + aB - aI
  | .difference => aA - aI
  | .xor => aA + aB - 2 * aI

/-! ### The oracle: tolerance, sample points, distances -/

def allCoords (rs : List (List Pt)) : List Pt := rs.flatten

def bbox (cs : List Pt) : Option (Pt × Pt) :=
  match cs with
  | [] => none
  | c :: t => some (t.foldl (fun (mn, mx) p => (⟨rmin mn.x p.x, rmin mn.y p.y⟩, ⟨rmax mx.x p.x, rmax mx.y p.y⟩)) (c, c))

/-- upper bound of the total edge length (L1 length of every edge) -/
def perimeterUp (rs : List (List Pt)) : Rat :=
  sumR ((rs.flatMap segs).map (fun (a, b) => rabs (b.x - a.x) + rabs (b.y - a.y)))

def twoPow29 : Rat := 536870912

/-- `D·2^-29` with `D` bounded above by width + height of the bounding box: the engine snaps to a
fixed-point grid of about `D·2^-30` -/
def snapTol (bb : Pt × Pt) : Rat := ((bb.2.x - bb.1.x) + (bb.2.y - bb.1.y)) / twoPow29

/-- area tolerance `4·perimeter·D·2^-29` (with the upper bounds above) -/
def areaTol (bb : Pt × Pt) (rs : List (List Pt)) : Rat := 4 * perimeterUp rs * snapTol bb

/-- distance tolerance: a point counts as "farther than the snapping tolerance" beyond this -/
def distTol (bb : Pt × Pt) : Rat := 8 * snapTol bb

/-- squared distance from a point to a segment, exact -/
def distSeg2 (p a b : Pt) : Rat :=
  let d := dist2 a b
  if d == 0 then dist2 p a else
  let t := ((p.x - a.x) * (b.x - a.x) + (p.y - a.y) * (b.y - a.y)) / d
  let t := if t < 0 then 0 else if t > 1 then 1 else t
  dist2 p ⟨a.x + t * (b.x - a.x), a.y + t * (b.y - a.y)⟩

/-- `p` is within `tol` of one of the segments -/
def nearSegs (p : Pt) (ss : List (Pt × Pt)) (tol : Rat) : Bool :=
  ss.any (fun (a, b) => distSeg2 p a b ≤ tol * tol)

/-- sample points `(x0 + u·(i/2 + 3/8), y0 + u·(j/2 + 5/16))` covering the bounding box and a margin -/
def samplePoints (bb : Pt × Pt) (u : Rat) : List Pt :=
  let nx := (((bb.2.x - bb.1.x) / u) * 2).ceil.toNat + 2
  let ny := (((bb.2.y - bb.1.y) / u) * 2).ceil.toNat + 2
  let off (k : Nat) : Rat := (((k : Int) - 1 : Int) : Rat) / 2
  (List.range nx).flatMap (fun (i : Nat) => (List.range ny).map (fun (j : Nat) =>
    (⟨bb.1.x + u * (off i + 3 / 8), bb.1.y + u * (off j + 5 / 16)⟩ : Pt)))

/-- inside a (multi)polygon by the *specification* `Geo.locate` -/
def insideSpec (ps : List Poly) (p : Pt) : Bool := locate (.multiPolygon ps) p == .inside

/-! ### The oracle: result shape -/

/-- result rings: exterior counter-clockwise, holes clockwise, every ring closed and non-empty -/
def windingClause (ps : List Poly) : String :=
  if ps.any (fun p => p.ext.isEmpty || !(ringClosed p.ext) || p.ints.any (fun h => h.isEmpty || !(ringClosed h))) then "ring-not-closed"
  else if ps.any (fun p => !(decide (shoelace2 p.ext > 0))) then "exterior-not-ccw"
  else if ps.any (fun p => p.ints.any (fun h => !(decide (shoelace2 h < 0)))) then "hole-not-cw"
  else ""

/-- membership clause: at every sample point far from the input edges, `inside result ⇔ expected` -/
def membershipOk (samples : List Pt) (inputSegs : List (Pt × Pt)) (tol : Rat) (res : List Poly)
    (expected : Pt → Bool) : Bool :=
  samples.all (fun p => nearSegs p inputSegs tol || insideSpec res p == expected p)

/-! ### The oracle: clip -/

def lengthInterval (ls : List (List Pt)) : Rat × Rat :=
  (ls.flatMap segs).foldl (fun (lo, hi) (a, b) => let (l, h) := sqrtInterval (dist2 a b); (lo + l, hi + h)) (0, 0)

/-- parameters of the sample points on each segment of the subject line strings -/
def clipParams : List Rat := [1/16, 3/16, 5/16, 7/16, 9/16, 11/16, 13/16, 15/16]

def lerp (a b : Pt) (t : Rat) : Pt := ⟨a.x + t * (b.x - a.x), a.y + t * (b.y - a.y)⟩

/-- `near` a list of line strings: within `tol` of one of their segments (or single coordinates) -/
def nearLines (p : Pt) (ls : List (List Pt)) (tol : Rat) : Bool :=
  nearSegs p (ls.flatMap segs) tol || ls.any (fun l => match l with | [c] => dist2 p c ≤ tol * tol | _ => false)

/-- clip clauses: pieces lie on the subject; samples of the subject strictly inside are in `resin`
only, strictly outside in `resout` only, on the polygon boundary in `resin` (the polygon is closed;
a transversal crossing is in both); total length conserved. Returns the name of the first failed clause, or "". -/
def clipClause (poly : List Poly) (ls resin resout : List (List Pt)) (tol : Rat) : String :=
  let bnd := (poly.flatMap Poly.rings).flatMap segs
  let lsegs := ls.flatMap segs
  if !((resin ++ resout).flatten.all (fun v => nearSegs v lsegs tol)) then "clip-piece-off-the-line"
  else
    let bad := lsegs.findSome? (fun (a, b) =>
      if a == b then none else
      clipParams.findSome? (fun t =>
        let q := lerp a b t
        let nin := nearLines q resin tol
        let nout := nearLines q resout tol
        if nearSegs q bnd (2 * tol) then
          -- the polygon is a closed set: a part on its boundary is a part inside it
          (if nin then none else if nout then some "clip-boundary-part-only-in-inverted" else some "clip-boundary-part-lost")
        else if insideSpec poly q then
          (if !nin then some "clip-inside-part-missing" else if nout then some "clip-inside-part-in-inverted" else none)
        else
          (if !nout then some "clip-outside-part-missing" else if nin then some "clip-outside-part-kept" else none)))
    match bad with
    | some c => c
    | none =>
      -- pieces: midpoints of their segments are on the right side
      let sideBad (pieces : List (List Pt)) (wantInside : Bool) : Bool :=
        (pieces.flatMap segs).any (fun (a, b) =>
          let m := lerp a b (1/2)
          !(nearSegs m bnd (2 * tol)) && insideSpec poly m != wantInside)
      if sideBad resin true then "clip-piece-outside"
      else if sideBad resout false then "clip-inverted-piece-inside"
      else
        let (l0, l1) := lengthInterval ls
        let (i0, i1) := lengthInterval resin
        let (o0, o1) := lengthInterval resout
        let nv : Nat := (resin ++ resout).flatten.length + 2
        let lt := 2 * (nv : Rat) * tol
        if i0 + o0 > l1 + lt || i1 + o1 < l0 - lt then "clip-length-not-conserved" else ""

end Geo.BoolSpec
