/-
  GeoModel.Stitch — triangle stitching (geo/src/algorithm/stitch.rs), the only code in
  geo / geo-types that keeps state in hash maps (grep: `HashMap`, `HashSet`).

  The two maps of `stitch_multipolygon_from_lines` (`parents_of`, `polygons_idxs`) are modelled
  as *maps with an explicit iteration order*: `assemble it₁ it₂ …` iterates `parents_of` in the
  order `it₁ keys` and `polygons_idxs` in the order `it₂ keys`.

  * pinned code (`std::collections::HashMap`, randomly seeded `RandomState`): `it₁`, `it₂` are
    arbitrary permutations, different on every call;
  * after `fix: stitch_triangulation keeps ring bookkeeping in ordered maps` (`BTreeMap`):
    both are `sortKeys` (a B-tree map iterates in ascending key order, whatever its insertion
    history) — `assembleFixed`.

  `Polygon::contains(LineString)` and `Polygon::contains(Polygon)` are relate-backed in geo;
  they enter this model as the parameter `Cont` (the driver instantiates it with the DE-9IM
  specification of `GeoModel.RelateSpec`).

  Core Lean only.
-/
import GeoModel.Geom
import GeoModel.Parse

namespace Geo.Stitch
open Geo

abbrev Ln := Pt × Pt

structure Tri where
  a : Pt
  b : Pt
  c : Pt
  deriving DecidableEq, Repr, Inhabited

/-- the two relate-backed containment tests used by stitch.rs, both on bare rings:
`ls outer ring` = `Polygon::new(outer, []).contains(&LineString(ring))`,
`pg outer ring` = `Polygon::new(outer, []).contains(&Polygon::new(ring, []))`. -/
structure Cont where
  ls : Ring → Ring → Bool
  pg : Ring → Ring → Bool

/-! ### `ccw_lines`, `same_line`, `find_boundary_lines` -/

/-- `triangle_winding_order`: sign of `(b - a) × (c - a)` -/
def triCross (t : Tri) : Rat :=
  (t.b.x - t.a.x) * (t.c.y - t.a.y) - (t.b.y - t.a.y) * (t.c.x - t.a.x)

/-- `ccw_lines`: `to_lines()` when counter-clockwise, else (clockwise *or degenerate*) the
reversed edge list `[(b,a),(a,c),(c,b)]`. -/
def ccwLines (t : Tri) : List Ln :=
  if triCross t > 0 then [(t.a, t.b), (t.b, t.c), (t.c, t.a)]
  else [(t.b, t.a), (t.a, t.c), (t.c, t.b)]

/-- `same_line` -/
def sameLine (l1 l2 : Ln) : Bool :=
  (l1.1 == l2.1 && l1.2 == l2.2) || (l1.1 == l2.2 && l2.1 == l1.2)

/-- one step of the fold in `find_boundary_lines`: remove the first stored line equal to the
new one (`position` + `remove`), else push. -/
def boundaryStep (acc : List Ln) (l : Ln) : List Ln :=
  match acc.findIdx? (fun x => sameLine x l) with
  | some i => acc.eraseIdx i
  | none => acc ++ [l]

def findBoundaryLines (lines : List Ln) : List Ln := lines.foldl boundaryStep []

/-! ### `try_stitch`, `stitch_rings_from_lines` -/

def tryStitch (a b : List Pt) : Option (List Pt) :=
  match a.head?, a.getLast?, b.head?, b.getLast? with
  | some af, some al, some bf, some bl =>
    if al == bf then some (a ++ b.drop 1)
    else if af == bl then some (b ++ a.drop 1)
    else none
  | _, _, _, _ => none

/-- `ring_parts.iter().enumerate().find_map(..)` -/
def findStitch (last : List Pt) : List (List Pt) → Nat → Option (Nat × List Pt)
  | [], _ => none
  | p :: ps, j =>
    match tryStitch last p with
    | some np => some (j, np)
    | none => findStitch last ps (j + 1)

/-- the `while let Some(last_part) = ring_parts.pop()` loop; `none` = `Err(IncompleteRing)`.
Every round removes at least one part, so `fuel = parts.length + 1` is never exhausted. -/
def stitchLoop : Nat → List (List Pt) → List Ring → Option (List Ring)
  | 0, parts, rings => if parts.isEmpty then some rings else none
  | fuel + 1, parts, rings =>
    match parts.getLast? with
    | none => some rings
    | some last =>
      let rest := parts.dropLast
      match findStitch last rest 0 with
      | none => none
      | some (j, comp) =>
        let rest' := rest.eraseIdx j
        if comp.head? == comp.getLast? && !comp.isEmpty then stitchLoop fuel rest' (rings ++ [comp])
        else stitchLoop fuel (rest' ++ [comp]) rings

def stitchRingsFromLines (lines : List Ln) : Option (List Ring) :=
  let parts := lines.map (fun l => [l.1, l.2])
  stitchLoop (parts.length + 1) parts []

/-! ### the two maps of `stitch_multipolygon_from_lines` -/

/-- `find_parent_idxs` -/
def findParentIdxs (C : Cont) (rings : List Ring) (i : Nat) : List Nat :=
  (List.range rings.length).filter (fun j => i != j && C.ls (rings.getD j []) (rings.getD i []))

/-- `parents_of`, as a table indexed by ring (keys `0 … n-1`, each inserted once) -/
def parentsTable (C : Cont) (rings : List Ring) : List (List Nat) :=
  (List.range rings.length).map (findParentIdxs C rings)

/-- `Iterator::max_by_key`: the *last* element with the maximal key -/
def maxByKeyLast (key : Nat → Nat) : List Nat → Option Nat
  | [] => none
  | x :: xs => some (xs.foldl (fun best y => if key y ≥ key best then y else best) x)

/-- `find_direct_parent`: `parents_of.get` succeeds exactly for ring indices `< n` -/
def findDirectParent (par : Nat → List Nat) (n : Nat) (parentRings : List Nat) : Option Nat :=
  maxByKeyLast (fun i => (par i).length) (parentRings.filter (· < n))

/-- `polygons_idxs : Map<usize, Vec<usize>>`: the keys in insertion order and the value of each
key (`[]` for keys never touched). How the keys are *iterated* is not part of the map value: it
is the `it` parameter of `assemble`. -/
structure IdxMap where
  keys : List Nat
  val : Nat → List Nat

def IdxMap.empty : IdxMap := ⟨[], fun _ => []⟩

/-- `entry(k).or_default()` -/
def IdxMap.ensure (m : IdxMap) (k : Nat) : IdxMap :=
  if k ∈ m.keys then m else ⟨m.keys ++ [k], m.val⟩

/-- `entry(k).or_default().push(c)` -/
def IdxMap.push (m : IdxMap) (k c : Nat) : IdxMap :=
  ⟨(m.ensure k).keys, fun j => if j = k then m.val j ++ [c] else m.val j⟩

/-- body of `for (ring_index, parent_idxs) in parents_of.iter()` -/
def step (par : Nat → List Nat) (n : Nat) (m : IdxMap) (i : Nat) : IdxMap :=
  if (par i).length % 2 == 0 then m.ensure i
  else match findDirectParent par n (par i) with
    | some dp => m.push dp i
    | none => m

def buildIdxs (par : Nat → List Nat) (n : Nat) (order : List Nat) : IdxMap :=
  order.foldl (step par n) .empty

/-- `Polygon::new(exterior, interiors)` on ring indices -/
def polyOfIdx (rings : List Ring) (k : Nat) (children : List Nat) : Poly :=
  ⟨P.closeRing (rings.getD k []), children.map (fun c => P.closeRing (rings.getD c []))⟩

/-- The second half of `stitch_multipolygon_from_lines`, with the iteration orders of the two
maps explicit: `it₁` for `parents_of.iter()`, `it₂` for `polygons_idxs.into_iter()`. -/
def assemble (it₁ it₂ : List Nat → List Nat) (rings : List Ring) (par : Nat → List Nat) : List Poly :=
  let m := buildIdxs par rings.length (it₁ (List.range rings.length))
  (it₂ m.keys).map (fun k => polyOfIdx rings k (m.val k))

/-- insertion into an ascending list -/
def insertKey (k : Nat) : List Nat → List Nat
  | [] => [k]
  | x :: xs => if k ≤ x then k :: x :: xs else x :: insertKey k xs

/-- ascending iteration order of a `BTreeMap<usize, _>` -/
def sortKeys (ks : List Nat) : List Nat := ks.foldr insertKey []

/-- after the fix (`BTreeMap`): both maps iterate in ascending ring index -/
def assembleFixed (rings : List Ring) (par : Nat → List Nat) : List Poly :=
  assemble sortKeys sortKeys rings par

/-! ### `find_and_fix_holes_in_exterior` -/

/-- the fold over the exterior's coordinates: `(points, rings)` -/
def splitStep (st : List Pt × List Ring) (c : Pt) : List Pt × List Ring :=
  match st.1.findIdx? (· == c) with
  | some pos => ((st.1.take pos) ++ [c], st.2 ++ [st.1.drop pos ++ [c]])
  | none => (st.1 ++ [c], st.2)

/-- the rings cut out of an exterior (leftover coordinates last), degenerate ones (`len < 3`)
dropped, each closed by `Polygon::new` -/
def splitExterior (ext : Ring) : List Ring :=
  let st := ext.foldl splitStep ([], [])
  ((st.2 ++ [st.1]).filter (fun r => r.length ≥ 3)).map P.closeRing

/-- `find_outmost_ring`: first ring containing all the others -/
def findOutmost (C : Cont) (rings : List Ring) : Option Nat :=
  (List.range rings.length).find? (fun i =>
    (List.range rings.length).all (fun j => i == j || C.pg (rings.getD i []) (rings.getD j [])))

def findAndFixHoles (C : Cont) (p : Poly) : Poly :=
  let rings := splitExterior p.ext
  match findOutmost C rings with
  | some o => ⟨P.closeRing (rings.getD o []), (p.ints ++ rings.eraseIdx o).map P.closeRing⟩
  | none => p

/-! ### `stitch_triangles` -/

def boundaryOf (tris : List Tri) : List Ln := findBoundaryLines (tris.flatMap ccwLines)

/-- `stitch_triangles` after the fix; `none` = `Err(IncompleteRing)` -/
def stitchTriangles (C : Cont) (tris : List Tri) : Option (List Poly) :=
  match stitchRingsFromLines (boundaryOf tris) with
  | none => none
  | some rings =>
    let tbl := parentsTable C rings
    some ((assembleFixed rings (fun i => tbl.getD i [])).map (findAndFixHoles C))

/-- the pinned code, for given iteration orders of its two hash maps -/
def stitchTrianglesHash (it₁ it₂ : List Nat → List Nat) (C : Cont) (tris : List Tri) : Option (List Poly) :=
  match stitchRingsFromLines (boundaryOf tris) with
  | none => none
  | some rings =>
    let tbl := parentsTable C rings
    some ((assemble it₁ it₂ rings (fun i => tbl.getD i [])).map (findAndFixHoles C))

end Geo.Stitch
