/-
  GeoModel.Tiling — C10: the exact tiling checker.

  `tiles rule pieces target` decides, in exact arithmetic, the four clauses of the property for a
  list of pieces (closed rings: triangles or monotone pieces) against a target areal geometry
  (the polygon / multipolygon, or the convex hull for the unconstrained Delaunay triangulation):

   1. every piece vertex is admissible (`rule`): a coordinate of the target (triangulations) or
      not outside the target (monotone pieces);
   2. the exact shoelace areas of the pieces sum to the exact area of the target
      (`specRing` / `specUnsigned` — the C05 specification, not geo's area code);
   3. the pieces are pairwise interior-disjoint: the Interior/Interior cell of `relateSpec` (the
      C01 specification of DE-9IM) is `F`; pieces with zero area have an empty interior;
   4. every piece lies in the target: its sample points (vertices, edge midpoints, points one and
      two thirds along every edge, vertex centroid of triangles) are not `outside` by `locate`
      (the C01 point-location specification), and no piece edge properly crosses a target edge.

  None of this refers to geo's own code.
-/
import GeoModel.RelateSpec
import GeoModel.Area
import GeoModel.Traverse

namespace Geo.Tiling

/-- ring of a triangle -/
def triRing (a b c : Pt) : List Pt := [a, b, c, a]

/-- exact (unsigned) shoelace area of a closed ring -/
def pieceArea (r : List Pt) : Rat := rabs (specRing r)

def pieceGeom (r : List Pt) : Geom := .polygon ⟨r, []⟩

/-- axis-parallel boxes of two rings have disjoint interiors (then so have the rings) -/
def boxesApart (a b : List Pt) : Bool :=
  match getBoundingRect a, getBoundingRect b with
  | some (amn, amx), some (bmn, bmx) =>
    decide (amx.x ≤ bmn.x) || decide (bmx.x ≤ amn.x) || decide (amx.y ≤ bmn.y) || decide (bmx.y ≤ amn.y)
  | _, _ => true

/-- clause 3 for one pair -/
def interiorsDisjoint (a b : List Pt) : Bool :=
  pieceArea a == 0 || pieceArea b == 0 || boxesApart a b ||
    (relateSpec (pieceGeom a) (pieceGeom b)).ii == .empty

def pairwiseDisjoint : List (List Pt) → Bool
  | [] => true
  | a :: rest => rest.all (interiorsDisjoint a) && pairwiseDisjoint rest

def lerp (a b : Pt) (t : Rat) : Pt := ⟨a.x + t * (b.x - a.x), a.y + t * (b.y - a.y)⟩

/-- sample points of a closed ring -/
def samplePoints (r : List Pt) : List Pt :=
  let edgePts := (segs r).flatMap (fun (a, b) => [a, lerp a b (1/2), lerp a b (1/3), lerp a b (2/3)])
  match r with
  | [a, b, c, _] => ⟨(a.x + b.x + c.x) / 3, (a.y + b.y + c.y) / 3⟩ :: edgePts
  | _ => edgePts

/-- proper crossing of two segments: each strictly separates the end points of the other -/
def properCross (a b c d : Pt) : Bool :=
  let o1 := cross a b c; let o2 := cross a b d; let o3 := cross c d a; let o4 := cross c d b
  ((o1 > 0 && o2 < 0) || (o1 < 0 && o2 > 0)) && ((o3 > 0 && o4 < 0) || (o3 < 0 && o4 > 0))

/-- clause 4 for one piece -/
def pieceInside (target : Geom) (r : List Pt) : Bool :=
  (samplePoints r).all (fun q => locate target q != .outside) &&
  (segs r).all (fun (a, b) => ((parts target).areaSegs).all (fun (c, d) => !properCross a b c d))

inductive VertexRule where
  | targetCoordinate
  | notOutside

/-- clause 1 for one piece -/
def verticesOk (rule : VertexRule) (target : Geom) (r : List Pt) : Bool :=
  match rule with
  | .targetCoordinate => r.all (fun v => (coordsIter target).contains v)
  | .notOutside => r.all (fun v => locate target v != .outside)

def areaSum (pieces : List (List Pt)) : Rat := sumRat (pieces.map pieceArea)

/-- The first failing clause (empty string: all four hold). -/
def tilesClause (rule : VertexRule) (pieces : List (List Pt)) (target : Geom) : String :=
  if !(pieces.all (fun r => r.length ≥ 4 && r.head? == r.getLast?)) then "piece-not-a-closed-ring"
  else if !(pieces.all (verticesOk rule target)) then
    (match rule with | .targetCoordinate => "corner-not-a-polygon-vertex" | .notOutside => "piece-vertex-outside")
  else if !(pieces.all (pieceInside target)) then "piece-not-inside"
  else if !(pairwiseDisjoint pieces) then "pieces-overlap"
  else if areaSum pieces != specUnsigned target then
    (if areaSum pieces < specUnsigned target then "area-missing" else "area-excess")
  else ""

/-- the tiling checker -/
def tiles (rule : VertexRule) (pieces : List (List Pt)) (target : Geom) : Bool :=
  tilesClause rule pieces target == ""

end Geo.Tiling
