/-
  GeoModel.Traverse — C19: coordinate traversal, counting, lines, mapping, bounding boxes,
  extremes on the geometry tree.

  Anchors: geo/src/algorithm/{coords_iter,lines_iter,map_coords,bounding_rect,extremes}.rs,
           geo-types/src/private_utils.rs (get_bounding_rect, get_min_max).

  Each function mirrors the *separately written* per-type Rust impl (e.g. `coords_count` is
  arithmetic, not `coords_iter().count()`), so the consistency theorems are not definitional.
-/
import GeoModel.Geom
import GeoModel.PolygonSM

namespace Geo

/-! ### coords_iter -/

def Poly.coords (p : Poly) : List Pt := p.ext ++ p.ints.flatten

/-- `Rect::coords_iter`: (max.x,min.y), (max.x,max.y), (min.x,max.y), (min.x,min.y). -/
def rectCoords (mn mx : Pt) : List Pt :=
  [⟨mx.x, mn.y⟩, ⟨mx.x, mx.y⟩, ⟨mn.x, mx.y⟩, ⟨mn.x, mn.y⟩]

mutual
def coordsIter : Geom → List Pt
  | .point p => [p]
  | .line a b => [a, b]
  | .lineString cs => cs
  | .polygon p => p.coords
  | .multiPoint ps => ps
  | .multiLineString ls => ls.flatten
  | .multiPolygon ps => (ps.map Poly.coords).flatten
  | .rect mn mx => rectCoords mn mx
  | .triangle a b c => [a, b, c]
  | .collection gs => coordsIterList gs
def coordsIterList : List Geom → List Pt
  | [] => []
  | g :: gs => coordsIter g ++ coordsIterList gs
end

/-! ### coords_count (separately written arithmetic) -/

def Poly.count (p : Poly) : Nat := p.ext.length + (p.ints.map List.length).sum

mutual
def coordsCount : Geom → Nat
  | .point _ => 1
  | .line _ _ => 2
  | .lineString cs => cs.length
  | .polygon p => p.count
  | .multiPoint ps => ps.length
  | .multiLineString ls => (ls.map List.length).sum
  | .multiPolygon ps => (ps.map Poly.count).sum
  | .rect _ _ => 4
  | .triangle _ _ _ => 3
  | .collection gs => coordsCountList gs
def coordsCountList : List Geom → Nat
  | [] => 0
  | g :: gs => coordsCount g + coordsCountList gs
end

/-! ### exterior_coords_iter -/

mutual
def exteriorCoords : Geom → List Pt
  | .point p => [p]
  | .line a b => [a, b]
  | .lineString cs => cs
  | .polygon p => p.ext
  | .multiPoint ps => ps
  | .multiLineString ls => ls.flatten
  | .multiPolygon ps => (ps.map Poly.ext).flatten
  | .rect mn mx => rectCoords mn mx
  | .triangle a b c => [a, b, c]
  | .collection gs => exteriorCoordsList gs
def exteriorCoordsList : List Geom → List Pt
  | [] => []
  | g :: gs => exteriorCoords g ++ exteriorCoordsList gs
end

/-! ### lines_iter (only the types that implement `LinesIter`) -/

/-- `slice::windows(2)` -/
def windows2 : List Pt → List (Pt × Pt)
  | a :: b :: rest => (a, b) :: windows2 (b :: rest)
  | _ => []

def Poly.lines (p : Poly) : List (Pt × Pt) := windows2 p.ext ++ (p.ints.map windows2).flatten

def linesIter : Geom → Option (List (Pt × Pt))
  | .line a b => some [(a, b)]
  | .lineString cs => some (windows2 cs)
  | .multiLineString ls => some ((ls.map windows2).flatten)
  | .polygon p => some p.lines
  | .multiPolygon ps => some ((ps.map Poly.lines).flatten)
  | .rect mn mx => some (SM.rectToLines ⟨mn, mx⟩)
  | .triangle a b c => some [(a, b), (b, c), (c, a)]
  | _ => none

/-! ### map_coords -/

/-- `Polygon::new` on rational coordinates (closing each ring). -/
def Poly.mk' (ext : List Pt) (ints : List (List Pt)) : Poly := ⟨SM.close ext, ints.map SM.close⟩

def Poly.map (f : Pt → Pt) (p : Poly) : Poly := Poly.mk' (p.ext.map f) (p.ints.map (·.map f))

/-- `Rect::new` as a pair of corners. -/
def rectNewPts (a b : Pt) : Pt × Pt := let r := SM.rectNew a b; (r.mn, r.mx)

/-- `Point::cross_prod`: `(b.x - a.x) * (c.y - a.y) - (b.y - a.y) * (c.x - a.x)`. -/
def crossProd (a b c : Pt) : Rat := (b.x - a.x) * (c.y - a.y) - (b.y - a.y) * (c.x - a.x)

/-- `Triangle::new`: re-orders the corners to counter-clockwise (`(v3,v2,v1)` when the cross
product is negative; unchanged when positive or zero). -/
def triangleNew (a b c : Pt) : Pt × Pt × Pt :=
  if crossProd a b c < 0 then (c, b, a) else (a, b, c)

mutual
def mapCoords (f : Pt → Pt) : Geom → Geom
  | .point p => .point (f p)
  | .line a b => .line (f a) (f b)
  | .lineString cs => .lineString (cs.map f)
  | .polygon p => .polygon (p.map f)
  | .multiPoint ps => .multiPoint (ps.map f)
  | .multiLineString ls => .multiLineString (ls.map (·.map f))
  | .multiPolygon ps => .multiPolygon (ps.map (Poly.map f))
  | .rect mn mx => let r := rectNewPts (f mn) (f mx); .rect r.1 r.2
  | .triangle a b c => let t := triangleNew (f a) (f b) (f c); .triangle t.1 t.2.1 t.2.2
  | .collection gs => .collection (mapCoordsList f gs)
def mapCoordsList (f : Pt → Pt) : List Geom → List Geom
  | [] => []
  | g :: gs => mapCoords f g :: mapCoordsList f gs
end

/-- `collect::<Result<Vec<_>,E>>()`: first failure in iteration order wins. -/
def tryMapList {α β ε} (f : α → Except ε β) : List α → Except ε (List β)
  | [] => .ok []
  | a :: as => match f a with
    | .error e => .error e
    | .ok b => match tryMapList f as with
      | .error e => .error e
      | .ok bs => .ok (b :: bs)

def Poly.tryMap {ε} (f : Pt → Except ε Pt) (p : Poly) : Except ε Poly :=
  match tryMapList f p.ext with
  | .error e => .error e
  | .ok e' => match tryMapList (tryMapList f) p.ints with
    | .error e => .error e
    | .ok is' => .ok (Poly.mk' e' is')

mutual
def tryMapCoords {ε} (f : Pt → Except ε Pt) : Geom → Except ε Geom
  | .point p => match f p with | .error e => .error e | .ok q => .ok (.point q)
  | .line a b => match f a with
    | .error e => .error e
    | .ok a' => match f b with | .error e => .error e | .ok b' => .ok (.line a' b')
  | .lineString cs => match tryMapList f cs with | .error e => .error e | .ok r => .ok (.lineString r)
  | .polygon p => match p.tryMap f with | .error e => .error e | .ok r => .ok (.polygon r)
  | .multiPoint ps => match tryMapList f ps with | .error e => .error e | .ok r => .ok (.multiPoint r)
  | .multiLineString ls => match tryMapList (tryMapList f) ls with
    | .error e => .error e | .ok r => .ok (.multiLineString r)
  | .multiPolygon ps => match tryMapList (Poly.tryMap f) ps with
    | .error e => .error e | .ok r => .ok (.multiPolygon r)
  | .rect mn mx => match f mn with
    | .error e => .error e
    | .ok a => match f mx with
      | .error e => .error e
      | .ok b => let r := rectNewPts a b; .ok (.rect r.1 r.2)
  | .triangle a b c => match f a with
    | .error e => .error e
    | .ok a' => match f b with
      | .error e => .error e
      | .ok b' => match f c with
        | .error e => .error e
        | .ok c' => let t := triangleNew a' b' c'; .ok (.triangle t.1 t.2.1 t.2.2)
  | .collection gs => match tryMapCoordsList f gs with
    | .error e => .error e | .ok r => .ok (.collection r)
def tryMapCoordsList {ε} (f : Pt → Except ε Pt) : List Geom → Except ε (List Geom)
  | [] => .ok []
  | g :: gs => match tryMapCoords f g with
    | .error e => .error e
    | .ok g' => match tryMapCoordsList f gs with
      | .error e => .error e
      | .ok gs' => .ok (g' :: gs')
end

/-! ### bounding_rect -/

/-- `get_min_max(p, min, max)`: `if p > max {(min,p)} else if p < min {(p,max)} else {(min,max)}` -/
def getMinMax (p mn mx : Rat) : Rat × Rat :=
  if p > mx then (mn, p) else if p < mn then (p, mx) else (mn, mx)

/-- `get_bounding_rect`: running fold, result through `Rect::new`. -/
def getBoundingRect : List Pt → Option (Pt × Pt)
  | [] => none
  | p :: rest =>
    let (xr, yr) := rest.foldl (fun (acc : (Rat × Rat) × (Rat × Rat)) q =>
      (getMinMax q.x acc.1.1 acc.1.2, getMinMax q.y acc.2.1 acc.2.2)) ((p.x, p.x), (p.y, p.y))
    some (rectNewPts ⟨xr.1, yr.1⟩ ⟨xr.2, yr.2⟩)

/-- `partial_min` / `partial_max` from geo/src/utils.rs: `if a < b {a} else {b}` / `if a > b {a} else {b}`. -/
def partialMin (a b : Rat) : Rat := if a < b then a else b
def partialMax (a b : Rat) : Rat := if a > b then a else b

def bboxMerge (a b : Pt × Pt) : Pt × Pt :=
  rectNewPts ⟨partialMin a.1.x b.1.x, partialMin a.1.y b.1.y⟩ ⟨partialMax a.2.x b.2.x, partialMax a.2.y b.2.y⟩

def bboxFoldStep (acc : Option (Pt × Pt)) (next : Option (Pt × Pt)) : Option (Pt × Pt) :=
  match acc, next with
  | none, none => none
  | some r, none => some r
  | none, some r => some r
  | some r1, some r2 => some (bboxMerge r1 r2)

mutual
def boundingRect : Geom → Option (Pt × Pt)
  | .point p => some (rectNewPts p p)
  | .line a b => some (rectNewPts a b)
  | .lineString cs => getBoundingRect cs
  | .polygon p => getBoundingRect p.ext
  | .multiPoint ps => getBoundingRect ps
  | .multiLineString ls => getBoundingRect ls.flatten
  | .multiPolygon ps => getBoundingRect (ps.map Poly.ext).flatten
  | .rect mn mx => some (mn, mx)
  | .triangle a b c => getBoundingRect [a, b, c]
  | .collection gs => boundingRectList none gs
def boundingRectList (acc : Option (Pt × Pt)) : List Geom → Option (Pt × Pt)
  | [] => acc
  | g :: gs => boundingRectList (bboxFoldStep acc (boundingRect g)) gs
end

/-! ### extremes -/

structure Extreme where
  index : Nat
  coord : Pt
  deriving Repr, DecidableEq

structure Outcome where
  xMin : Extreme
  yMin : Extreme
  xMax : Extreme
  yMax : Extreme
  deriving Repr, DecidableEq

def extremesStep (o : Outcome) (ic : Nat × Pt) : Outcome :=
  let (index, coord) := ic
  let o := if coord.x < o.xMin.coord.x then { o with xMin := ⟨index, coord⟩ } else o
  let o := if coord.y < o.yMin.coord.y then { o with yMin := ⟨index, coord⟩ } else o
  let o := if coord.x > o.xMax.coord.x then { o with xMax := ⟨index, coord⟩ } else o
  let o := if coord.y > o.yMax.coord.y then { o with yMax := ⟨index, coord⟩ } else o
  o

def enumFrom' (n : Nat) : List Pt → List (Nat × Pt)
  | [] => []
  | p :: ps => (n, p) :: enumFrom' (n + 1) ps

def extremesOf : List Pt → Option Outcome
  | [] => none
  | p :: rest =>
    let e : Extreme := ⟨0, p⟩
    some ((enumFrom' 1 rest).foldl extremesStep ⟨e, e, e, e⟩)

def extremes (g : Geom) : Option Outcome := extremesOf (exteriorCoords g)

end Geo
