/-
  GeoModel.Simplify — Ramer-Douglas-Peucker and Visvalingam-Whyatt simplification (C09).

  Anchors: geo/src/algorithm/simplify.rs (`compute_rdp`, `rdp`, `calculate_rdp_indices`, the
  `Simplify`/`SimplifyIdx` impls), geo/src/algorithm/simplify_vw.rs (`visvalingam_indices`,
  `recompute_triangles`, `visvalingam`, `vwp_wrapper`, `visvalingam_preserve`, `tree_intersect`,
  the `SimplifyVw`/`SimplifyVwIdx`/`SimplifyVwPreserve` impls), geo-types/src/private_utils.rs
  (`line_segment_distance`), geo/src/algorithm/intersects/line.rs (Line x Line, Line x Coord),
  and `std::collections::BinaryHeap` (the priority queue, mirrored operation by operation so
  that ties between equal areas are resolved as in the implementation).

  The model mirrors the code after the two `fix:` commits of C09 (one-coordinate input of
  `compute_rdp`; `epsilon <= 0` guard of `simplify_vw_idx`). The pinned behaviour is kept as
  `computeRdpPinned` / `simplifyVwIdxPinned` for the witness lemmas.

  Distances are kept squared (`d² > ε²` for `ε > 0`), areas are exact rationals.
  Import-free core Lean.
-/
import GeoModel.Orient
import GeoModel.PolygonSM

namespace Geo.Simp
open Geo

/-! ### RDP -/

/-- `line_segment_distance(p, a, b)` squared, in exact arithmetic. The branch conditions are the
ones of the code: `start == end`, `r <= 0`, `r >= 1` with `r = t / d2` (and `d2 > 0`). -/
def segDist2 (p a b : Pt) : Rat :=
  if a = b then dist2 p a else
  let dx := b.x - a.x
  let dy := b.y - a.y
  let d2 := dx * dx + dy * dy
  let t := (p.x - a.x) * dx + (p.y - a.y) * dy
  if t ≤ 0 then dist2 p a
  else if d2 ≤ t then dist2 p b
  else
    let c := (a.y - p.y) * dx - (a.x - p.x) * dy
    c * c / d2

/-- `RdpIndex { coord, index }` as a pair. -/
abbrev RI := Pt × Nat

/-- the fold that finds the farthest vertex: `if distance >= farthest_distance { (index, distance) }`
over the slice positions `pos, pos+1, …`, starting from `acc`. -/
def farthestGo (a b : Pt) : List RI → Nat → Nat × Rat → Nat × Rat
  | [], _, acc => acc
  | x :: rest, pos, acc =>
    let d := segDist2 x.1 a b
    farthestGo a b rest (pos + 1) (if acc.2 ≤ d then (pos, d) else acc)

/-- `.take(len - 1).skip(1)`: everything but the first and the last element. -/
def interior {α : Type} (xs : List α) : List α := xs.tail.dropLast

/-- (farthest_index, farthest_distance²) of a slice with respect to its first-last line. -/
def farthest (first last : RI) (xs : List RI) : Nat × Rat :=
  farthestGo first.1 last.1 (interior xs) 1 (0, 0)

/-- `compute_rdp::<T, INITIAL_MIN>(rdp_indices, &mut simplified_len, epsilon)`:
`(slice, simplified_len) ↦ (kept, simplified_len')`. `mn` is `INITIAL_MIN`, `e2` is `ε²`.
Recursion on fuel (the slice length suffices: both sub-slices are strictly shorter). -/
def computeRdp (mn : Nat) (e2 : Rat) : Nat → List RI → Nat → List RI × Nat
  | 0, xs, sl => (xs, sl)
  | fuel + 1, xs, sl =>
    match xs with
    | [] => ([], sl)
    | first :: _ =>
      -- (after the fix) `if rdp_indices.len() <= 2 { return rdp_indices.to_owned(); }`
      if xs.length ≤ 2 then (xs, sl) else
      let last := xs.getLast?.getD first
      let (fi, fd) := farthest first last xs
      if fd > e2 then
        let (a, sl1) := computeRdp mn e2 fuel (xs.take (fi + 1)) sl
        let (b, sl2) := computeRdp mn e2 fuel (xs.drop fi) sl1
        (a.dropLast ++ b, sl2)
      else
        let culled := xs.length - 2
        let newLen := sl - culled
        if newLen < mn then (xs, sl) else ([first, last], newLen)

/-- `rdp::<_, _, INITIAL_MIN>(coords, epsilon)` -/
def rdp (mn : Nat) (cs : List Pt) (eps : Rat) : List Pt :=
  if eps ≤ 0 then cs else
  let xs := cs.zipIdx
  (computeRdp mn (eps * eps) xs.length xs xs.length).1.map (·.1)

/-- `calculate_rdp_indices::<_, INITIAL_MIN>(enumerate(coords), epsilon)` -/
def rdpIdx (mn : Nat) (cs : List Pt) (eps : Rat) : List Nat :=
  let xs := cs.zipIdx
  if eps ≤ 0 then xs.map (·.2) else
  (computeRdp mn (eps * eps) xs.length xs xs.length).1.map (·.2)

/-- The pinned (pre-fix) `compute_rdp` on a one-element slice with wrapping `usize` arithmetic
(release build): `number_culled = 1 - 2` wraps to `2^64 - 1`, `new_length = simplified_len -
number_culled` wraps to `simplified_len + 1`, and `[first, last]` duplicates the element. Only
the one-element case differs from `computeRdp`; kept for the witness lemma. -/
def computeRdpPinnedSingle (mn : Nat) (x : RI) (sl : Nat) : List RI × Nat :=
  let newLen := (sl + 18446744073709551616 - 18446744073709551615) % 18446744073709551616
  if newLen < mn then ([x], sl) else ([x, x], newLen)

def simplifyLS (cs : List Pt) (eps : Rat) : List Pt := rdp 2 cs eps
def simplifyIdxLS (cs : List Pt) (eps : Rat) : List Nat := rdpIdx 2 cs eps

/-- `Polygon::new` closes every ring. -/
def polyNew (ext : List Pt) (ints : List (List Pt)) : Poly := ⟨SM.close ext, ints.map SM.close⟩

def simplifyPoly (p : Poly) (eps : Rat) : Poly :=
  polyNew (rdp 4 p.ext eps) (p.ints.map (fun r => rdp 4 r eps))

/-! ### The priority queue: `std::collections::BinaryHeap<VScore>` -/

structure VScore where
  left : Nat
  current : Nat
  right : Nat
  area : Rat
  intersector : Bool
  deriving Repr, Inhabited, DecidableEq

/-- `Ord for VScore`: `self.cmp(other) = other.area.partial_cmp(&self.area)`, so
`self <= other ⇔ other.area <= self.area` (a max-heap on this order is a min-heap on area). -/
def VScore.le (a b : VScore) : Bool := b.area ≤ a.area
def VScore.lt (a b : VScore) : Bool := b.area < a.area

abbrev Heap := List VScore

/-- `sift_up(start, pos)` with the hole element `elt` held out of the vector. -/
def siftUpGo (elt : VScore) (start : Nat) : Nat → Heap → Nat → Heap
  | 0, d, pos => d.set pos elt
  | f + 1, d, pos =>
    if pos > start then
      let parent := (pos - 1) / 2
      match d[parent]? with
      | none => d.set pos elt
      | some p =>
        if elt.le p then d.set pos elt
        else siftUpGo elt start f (d.set pos p) parent
    else d.set pos elt

def siftUp (d : Heap) (start pos : Nat) : Heap :=
  match d[pos]? with
  | none => d
  | some elt => siftUpGo elt start (pos + 1) d pos

/-- `sift_down_range(pos, end)` -/
def siftDownGo (elt : VScore) (en : Nat) : Nat → Heap → Nat → Heap
  | 0, d, pos => d.set pos elt
  | f + 1, d, pos =>
    let child := 2 * pos + 1
    if child ≤ en - 2 then
      match d[child]?, d[child + 1]? with
      | some c0, some c1 =>
        -- `child += (hole.get(child) <= hole.get(child + 1)) as usize`
        let (child, c) := if c0.le c1 then (child + 1, c1) else (child, c0)
        -- `if hole.element() >= hole.get(child) { return }`
        if c.le elt then d.set pos elt
        else siftDownGo elt en f (d.set pos c) child
      | _, _ => d.set pos elt
    else
      match d[child]? with
      | some c =>
        if child = en - 1 ∧ elt.lt c then (d.set pos c).set child elt else d.set pos elt
      | none => d.set pos elt

def siftDown (d : Heap) (pos : Nat) : Heap :=
  match d[pos]? with
  | none => d
  | some elt => siftDownGo elt d.length d.length d pos

/-- the descent of `sift_down_to_bottom`: returns the vector with the hole moved to a leaf and
the leaf position. -/
def toBottomGo (en : Nat) : Nat → Heap → Nat → Heap × Nat
  | 0, d, pos => (d, pos)
  | f + 1, d, pos =>
    let child := 2 * pos + 1
    if child ≤ en - 2 then
      match d[child]?, d[child + 1]? with
      | some c0, some c1 =>
        let (child, c) := if c0.le c1 then (child + 1, c1) else (child, c0)
        toBottomGo en f (d.set pos c) child
      | _, _ => (d, pos)
    else
      match d[child]? with
      | some c => if child = en - 1 then (d.set pos c, child) else (d, pos)
      | none => (d, pos)

/-- `sift_down_to_bottom(0)` -/
def siftDownToBottom (d : Heap) : Heap :=
  match d[0]? with
  | none => d
  | some elt =>
    let (d', pos) := toBottomGo d.length d.length d 0
    siftUpGo elt 0 (pos + 1) d' pos

/-- `BinaryHeap::pop` -/
def heapPop (d : Heap) : Option (VScore × Heap) :=
  match d.getLast? with
  | none => none
  | some item =>
    let d' := d.dropLast
    match d'.head? with
    | none => some (item, d')
    | some top => some (top, siftDownToBottom (d'.set 0 item))

/-- `BinaryHeap::push` -/
def heapPush (d : Heap) (item : VScore) : Heap := siftUp (d ++ [item]) 0 d.length

/-- `rebuild`: `n = len / 2; while n > 0 { n -= 1; sift_down(n) }` -/
def rebuildGo : Nat → Heap → Heap
  | 0, d => d
  | n + 1, d => rebuildGo n (siftDown d n)

/-- `iter.collect::<BinaryHeap<_>>()` = `BinaryHeap::from(vec)` -/
def heapFrom (v : List VScore) : Heap := rebuildGo (v.length / 2) v

/-! ### Visvalingam-Whyatt -/

/-- `Triangle::unsigned_area`: `|Σ determinant(line)| / 2` over the three sides. -/
def triArea (a b c : Pt) : Rat :=
  rabs ((a.x * b.y - a.y * b.x) + (b.x * c.y - b.y * c.x) + (c.x * a.y - c.y * a.x)) / 2

/-- the `adjacent` vector as a function of the index; `(0, 0)` marks a deleted vertex -/
abbrev Adj := Nat → Int × Int

def adjInit : Adj := fun i => if i = 0 then (-1, 1) else ((i : Int) - 1, (i : Int) + 1)

def Adj.set (a : Adj) (i : Nat) (v : Int × Int) : Adj := fun j => if j = i then v else a j

def coordAt (cs : List Pt) (i : Nat) : Pt := cs.getD i ⟨0, 0⟩

/-- the initial triangles `orig.triangles().enumerate().map(..)` -/
def initScores (cs : List Pt) : List VScore :=
  (List.range (cs.length - 2)).map (fun i =>
    { left := i, current := i + 1, right := i + 2,
      area := triArea (coordAt cs i) (coordAt cs (i + 1)) (coordAt cs (i + 2)), intersector := false })

/-- one entry of `choices` in `recompute_triangles` -/
def recomputeOne (s : VScore) (cs : List Pt) (pq : Heap) (ai : Int) (cur : Nat) (bi : Int)
    (max : Nat) (eps : Rat) : Heap :=
  -- `if ai as usize >= max || bi as usize >= max { continue }` (a negative i32 casts to a huge usize)
  if ai < 0 ∨ ai ≥ max ∨ bi < 0 ∨ bi ≥ max then pq else
  let area := triArea (coordAt cs ai.toNat) (coordAt cs cur) (coordAt cs bi.toNat)
  let area := if s.intersector && decide (cur < s.current) then -eps else area
  heapPush pq { left := ai.toNat, current := cur, right := bi.toNat, area := area, intersector := false }

/-- `recompute_triangles(&smallest, orig, &mut pq, ll, left, right, rr, max, epsilon)` -/
def recompute (s : VScore) (cs : List Pt) (pq : Heap) (ll : Int) (left right : Nat) (rr : Int)
    (max : Nat) (eps : Rat) : Heap :=
  let pq := recomputeOne s cs pq ll left right max eps
  recomputeOne s cs pq left right rr max eps

/-- the three writes that take `current` out of the simulated linked list -/
def unlink (adj : Adj) (left current right : Nat) (ll rr : Int) : Adj :=
  ((adj.set left (ll, right)).set right (left, rr)).set current (0, 0)

/-- the main loop of `visvalingam_indices` -/
def vwLoop (cs : List Pt) (eps : Rat) (max : Nat) : Nat → Adj → Heap → Adj
  | 0, adj, _ => adj
  | fuel + 1, adj, pq =>
    match heapPop pq with
    | none => adj
    | some (s, pq) =>
      if s.area > eps then adj else
      let (left, right) := adj s.current
      if left ≠ s.left ∨ right ≠ s.right then vwLoop cs eps max fuel adj pq else
      let ll := (adj s.left).1
      let rr := (adj s.right).2
      let adj := unlink adj s.left s.current s.right ll rr
      let pq := recompute s cs pq ll s.left s.right rr max eps
      vwLoop cs eps max fuel adj pq

/-- number of heap pops that can ever happen: `n - 2` initial entries plus two per removal -/
def vwFuel (n : Nat) : Nat := 3 * n + 1

/-- `visvalingam_indices(orig, epsilon)` -/
def visvalingamIndices (cs : List Pt) (eps : Rat) : List Nat :=
  if cs.length < 3 then List.range cs.length else
  let adj := vwLoop cs eps cs.length (vwFuel cs.length) adjInit (heapFrom (initScores cs))
  (List.range cs.length).filter (fun i => adj i != (0, 0))

/-- `visvalingam(orig, epsilon)`: `orig.iter().zip(subset.iter()).map(|(_, s)| orig[*s])` -/
def visvalingam (cs : List Pt) (eps : Rat) : List Pt :=
  if eps ≤ 0 then cs else
  (cs.zip (visvalingamIndices cs eps)).map (fun p => coordAt cs p.2)

/-- `LineString::simplify_vw_idx` (after the fix: `epsilon <= 0` returns every index) -/
def simplifyVwIdx (cs : List Pt) (eps : Rat) : List Nat :=
  if eps ≤ 0 then List.range cs.length else visvalingamIndices cs eps

/-- pinned behaviour of `simplify_vw_idx` (no guard); kept for the witness lemma -/
def simplifyVwIdxPinned (cs : List Pt) (eps : Rat) : List Nat := visvalingamIndices cs eps

def simplifyVwPoly (p : Poly) (eps : Rat) : Poly :=
  polyNew (visvalingam p.ext eps) (p.ints.map (fun r => visvalingam r eps))

/-! ### Topology-preserving Visvalingam-Whyatt -/

abbrev Seg := Pt × Pt

/-- `value_in_between` -/
def valueInBetween (v b1 b2 : Rat) : Bool :=
  if b1 < b2 then decide (b1 ≤ v) && decide (v ≤ b2) else decide (b2 ≤ v) && decide (v ≤ b1)

/-- `point_in_rect` -/
def pointInRect (v b1 b2 : Pt) : Bool := valueInBetween v.x b1.x b2.x && valueInBetween v.y b1.y b2.y

/-- `Intersects<Coord> for Line` -/
def lineIntersectsCoord (l : Seg) (c : Pt) : Bool :=
  orient l.1 l.2 c == Ori.col && pointInRect c l.1 l.2

/-- `Intersects<Line> for Line` (`self = s`, `line = l`), branch for branch -/
def lineIntersects (s l : Seg) : Bool :=
  if s.1 = s.2 then lineIntersectsCoord l s.1 else
  let c11 := orient s.1 s.2 l.1
  let c12 := orient s.1 s.2 l.2
  if c11 ≠ c12 then
    let c21 := orient l.1 l.2 s.1
    let c22 := orient l.1 l.2 s.2
    c21 ≠ c22
  else if c11 = Ori.col then
    pointInRect l.1 s.1 s.2 || pointInRect l.2 s.1 s.2 || pointInRect s.2 l.1 l.2 || pointInRect s.2 l.1 l.2
  else false

/-- closed-box overlap: what `locate_in_envelope_intersecting` selects ([A] the R-tree query is
complete and exact) -/
def boxesMeet (mn1 mx1 mn2 mx2 : Pt) : Bool :=
  decide (mn1.x ≤ mx2.x) && decide (mn2.x ≤ mx1.x) && decide (mn1.y ≤ mx2.y) && decide (mn2.y ≤ mx1.y)

/-- `tree_intersect(tree, triangle, orig)`; the tree is the multiset of its segments -/
def treeIntersect (tree : List Seg) (s : VScore) (cs : List Pt) : Bool :=
  let a := coordAt cs s.left
  let c := coordAt cs s.current
  let b := coordAt cs s.right
  let mn : Pt := ⟨rmin (rmin a.x c.x) b.x, rmin (rmin a.y c.y) b.y⟩
  let mx : Pt := ⟨rmax (rmax a.x c.x) b.x, rmax (rmax a.y c.y) b.y⟩
  tree.any (fun cand =>
    let cmn : Pt := ⟨rmin cand.1.x cand.2.x, rmin cand.1.y cand.2.y⟩
    let cmx : Pt := ⟨rmax cand.1.x cand.2.x, rmax cand.1.y cand.2.y⟩
    boxesMeet cmn cmx mn mx &&
    cand.1 != a && cand.1 != b && cand.2 != a && cand.2 != b && lineIntersects (a, b) cand)

/-- `tree.remove(&line)`: `none` when absent (the `assert!` panics) -/
def treeRemove (tree : List Seg) (l : Seg) : Option (List Seg) :=
  if tree.contains l then some (tree.erase l) else none

/-- the main loop of `visvalingam_preserve::<T, INITIAL_MIN, MIN_POINTS>`; `none` = panic -/
def vwpLoop (cs : List Pt) (eps : Rat) (max imin mpts : Nat) :
    Nat → Adj → Heap → Nat → List Seg → Option (Adj × List Seg)
  | 0, adj, _, _, tree => some (adj, tree)
  | fuel + 1, adj, pq, counter, tree =>
    match heapPop pq with
    | none => some (adj, tree)
    | some (s, pq) =>
      if s.area > eps then some (adj, tree) else
      if counter ≤ imin then some (adj, tree) else
      let (left, right) := adj s.current
      if left ≠ s.left ∨ right ≠ s.right then vwpLoop cs eps max imin mpts fuel adj pq counter tree else
      let s := { s with intersector := treeIntersect tree s cs }
      if s.intersector && decide (counter ≤ mpts) then some (adj, tree) else
      let ll := (adj s.left).1
      let rr := (adj s.right).2
      let adj := unlink adj s.left s.current s.right ll rr
      let counter := counter - 1
      let lp := coordAt cs s.left
      let mp := coordAt cs s.current
      let rp := coordAt cs s.right
      match treeRemove tree (lp, mp) with
      | none => none
      | some tree =>
        match treeRemove tree (mp, rp) with
        | none => none
        | some tree =>
          let tree := (lp, rp) :: tree
          let pq := recompute s cs pq ll s.left s.right rr max eps
          vwpLoop cs eps max imin mpts fuel adj pq counter tree

/-- `visvalingam_preserve::<T, INITIAL_MIN, MIN_POINTS>(orig, epsilon, tree)` -/
def visvalingamPreserve (imin mpts : Nat) (cs : List Pt) (eps : Rat) (tree : List Seg) :
    Option (List Pt × List Seg) :=
  if cs.length < 3 ∨ eps ≤ 0 then some (cs, tree) else
  match vwpLoop cs eps cs.length imin mpts (vwFuel cs.length) adjInit (heapFrom (initScores cs))
      cs.length tree with
  | none => none
  | some (adj, tree) =>
    some (cs.zipIdx.filterMap (fun p => if adj p.2 != (0, 0) then some p.1 else none), tree)

/-- `LineString::lines()` -/
def linesOf (cs : List Pt) : List Seg := cs.zip cs.tail

/-- the rings of `vwp_wrapper` after the shell, sharing the tree -/
def vwpRings (imin mpts : Nat) (eps : Rat) : List (List Pt) → List Seg → Option (List (List Pt))
  | [], _ => some []
  | r :: rs, tree =>
    match visvalingamPreserve imin mpts r eps tree with
    | none => none
    | some (r', tree) =>
      match vwpRings imin mpts eps rs tree with
      | none => none
      | some rs' => some (r' :: rs')

/-- `vwp_wrapper::<_, INITIAL_MIN, MIN_POINTS>(exterior, interiors, epsilon)` -/
def vwpWrapper (imin mpts : Nat) (ext : List Pt) (ints : List (List Pt)) (eps : Rat) :
    Option (List (List Pt)) :=
  vwpRings imin mpts eps (ext :: ints) (linesOf ext ++ (ints.map linesOf).flatten)

def simplifyVwPreserveLS (cs : List Pt) (eps : Rat) : Option (List Pt) :=
  match vwpWrapper 2 4 cs [] eps with
  | some [r] => some r
  | _ => none

def simplifyVwPreservePoly (p : Poly) (eps : Rat) : Option Poly :=
  match vwpWrapper 4 5 p.ext p.ints eps with
  | some (e :: is) => some (polyNew e is)
  | _ => none

end Geo.Simp
