/-
  GeoModel.Locate — `CoordinatePosition` (the `(is_inside, boundary_count)` accumulator, one
  clause per type) and `HasDimensions`, mirroring the Rust code after the `fix:` commits
  (Triangle edges; MultiPolygon shared vertices). The MultiLineString clause mirrors the
  pinned behaviour (members add to the caller's counter), see known finding K9.

  Anchors: geo/src/algorithm/coordinate_position.rs, geo/src/algorithm/dimensions.rs,
           geo-types/src/private_utils.rs (bounding rect through GeoModel.Traverse).
-/
import GeoModel.Segment
import GeoModel.Traverse

namespace Geo

/-- accumulator of `calculate_coordinate_position` -/
structure PosAcc where
  inside : Bool
  bcount : Nat
  deriving Repr, DecidableEq

def PosAcc.result (a : PosAcc) : Pos :=
  if a.bcount % 2 == 1 then .onBoundary else if a.inside then .inside else .outside

def isClosedLS (cs : List Pt) : Bool := decide (cs.head? = cs.getLast?)

/-- `LineString: Intersects<Coord>` through the blanket impl: bbox rejection, then any segment. -/
def lineStringCoord (cs : List Pt) (p : Pt) : Bool :=
  match getBoundingRect cs with
  | none => (segs cs).any (fun (a, b) => lineCoord a b p)
  | some (mn, mx) =>
    -- has_disjoint_bboxes(ls, coord): coord bbox = Rect::new(c, c); Rect×Rect
    if !rectRect mn mx p p then false else (segs cs).any (fun (a, b) => lineCoord a b p)

def calcPoint (q p : Pt) (acc : PosAcc) : PosAcc :=
  if q == p then { acc with inside := true } else acc

def calcLine (a b p : Pt) (acc : PosAcc) : PosAcc :=
  if a == b then calcPoint a p acc
  else if p == a || p == b then { acc with bcount := acc.bcount + 1 }
  else if lineCoord a b p then { acc with inside := true }
  else acc

def calcLineString (cs : List Pt) (p : Pt) (acc : PosAcc) : PosAcc :=
  match cs with
  | [] => acc
  | [_] => acc
  | [a, b] => calcLine a b p acc
  | _ =>
    match getBoundingRect cs with
    | none => acc
    | some (mn, mx) =>
      if !rectCoord mn mx p then acc
      else if !isClosedLS cs && (some p == cs.head? || some p == cs.getLast?) then
        { acc with bcount := acc.bcount + 1 }
      else if lineStringCoord cs p then { acc with inside := true }
      else acc

/-- Triangle (after the fix): on any edge ⇒ one boundary hit; else strictly same non-collinear
orientation w.r.t. the three edges ⇒ inside; `inside` is never cleared. -/
def calcTriangle (a b c p : Pt) (acc : PosAcc) : PosAcc :=
  let o0 := orient a b p; let o1 := orient b c p; let o2 := orient c a p
  let onB := (o0 == .col && pointInRect p a b) || (o1 == .col && pointInRect p b c) ||
    (o2 == .col && pointInRect p c a)
  if onB then { acc with bcount := acc.bcount + 1 }
  else if (o0 == o1 && o0 != .col) && (o1 == o2 && o1 != .col) then { acc with inside := true }
  else acc

def calcRect (mn mx p : Pt) (acc : PosAcc) : PosAcc :=
  if p.x < mn.x then acc else
  if p.y < mn.y then acc else
  if mx.x < p.x then acc else
  if mx.y < p.y then acc else
  let boundary := p.x == mn.x || p.y == mn.y || mx.x == p.x || mx.y == p.y
  if boundary then { acc with bcount := acc.bcount + 1 } else { acc with inside := true }

/-- holes loop of the Polygon impl: `some acc'` = returned from inside the loop -/
def calcHoles (p : Pt) : List (List Pt) → PosAcc → PosAcc
  | [], acc => { acc with inside := true }
  | h :: hs, acc => match ringPos p h with
    | .outside => calcHoles p hs acc
    | .onBoundary => { acc with bcount := acc.bcount + 1 }
    | .inside => acc

def calcPolygon (poly : Poly) (p : Pt) (acc : PosAcc) : PosAcc :=
  if poly.ext.isEmpty then acc else
  match ringPos p poly.ext with
  | .outside => acc
  | .onBoundary => { acc with bcount := acc.bcount + 1 }
  | .inside => calcHoles p poly.ints acc

/-- MultiPolygon (after the fix): members count locally; one boundary hit if any. -/
def calcMultiPolygon (ps : List Poly) (p : Pt) (acc : PosAcc) : PosAcc :=
  let r := ps.foldl (fun a poly => calcPolygon poly p a) { inside := acc.inside, bcount := 0 }
  { inside := r.inside, bcount := if r.bcount > 0 then acc.bcount + 1 else acc.bcount }

mutual
def calcPos : Geom → Pt → PosAcc → PosAcc
  | .point q, p, acc => calcPoint q p acc
  | .line a b, p, acc => calcLine a b p acc
  | .lineString cs, p, acc => calcLineString cs p acc
  | .polygon poly, p, acc => calcPolygon poly p acc
  | .multiPoint qs, p, acc => if qs.any (· == p) then { acc with inside := true } else acc
  | .multiLineString ls, p, acc => ls.foldl (fun a cs => calcLineString cs p a) acc
  | .multiPolygon ps, p, acc => calcMultiPolygon ps p acc
  | .rect mn mx, p, acc => calcRect mn mx p acc
  | .triangle a b c, p, acc => calcTriangle a b c p acc
  | .collection gs, p, acc => calcPosList gs p acc
def calcPosList : List Geom → Pt → PosAcc → PosAcc
  | [], _, acc => acc
  | g :: gs, p, acc => calcPosList gs p (calcPos g p acc)
end

/-- `CoordinatePosition::coordinate_position` -/
def coordPos (g : Geom) (p : Pt) : Pos := (calcPos g p ⟨false, 0⟩).result

/-! ### HasDimensions -/

/-- `Dimensions`, in declaration order (`derive(Ord)`). -/
inductive Dim where
  | empty
  | zero
  | one
  | two
  deriving DecidableEq, Repr, Inhabited

def Dim.rank : Dim → Nat
  | .empty => 0 | .zero => 1 | .one => 2 | .two => 3

def Dim.max (a b : Dim) : Dim := if a.rank ≥ b.rank then a else b

def Dim.str : Dim → String
  | .empty => "Empty" | .zero => "ZeroDimensional" | .one => "OneDimensional" | .two => "TwoDimensional"

/-- DE-9IM character -/
def Dim.char : Dim → Char
  | .empty => 'F' | .zero => '0' | .one => '1' | .two => '2'

def lsDims (cs : List Pt) : Dim :=
  match cs with
  | [] => .empty
  | f :: _ => if cs.any (· != f) then .one else .zero

def lsBoundaryDims (cs : List Pt) : Dim :=
  if isClosedLS cs then .empty else
  match lsDims cs with
  | .one => .zero
  | _ => .empty

def polyDims (p : Poly) : Dim :=
  match p.ext with
  | [] => .empty
  | first :: rest =>
    match rest.dropWhile (· == first) with
    | [] => .zero
    | second :: rest2 =>
      if rest2.any (fun c => c != first && c != second) then .two else .one

def boundaryOfDims : Dim → Dim
  | .empty => .empty | .zero => .empty | .one => .zero | .two => .one

def mlsDims (ls : List (List Pt)) : Dim :=
  -- loop with early return on OneDimensional; `max = ZeroDimensional` assignment otherwise
  if ls.any (fun l => lsDims l == .one) then .one
  else if ls.any (fun l => lsDims l == .zero) then .zero else .empty

def mpolyDims (ps : List Poly) : Dim := ps.foldl (fun m p => m.max (polyDims p)) .empty

def rectDims (mn mx : Pt) : Dim :=
  if mn == mx then .zero else if mn.x == mx.x || mn.y == mx.y then .one else .two

def triDims (a b c : Pt) : Dim :=
  if orient a b c == .col then (if a == b && b == c then .zero else .one) else .two

mutual
def dims : Geom → Dim
  | .point _ => .zero
  | .line a b => if a == b then .zero else .one
  | .lineString cs => lsDims cs
  | .polygon p => polyDims p
  | .multiPoint ps => if ps.isEmpty then .empty else .zero
  | .multiLineString ls => mlsDims ls
  | .multiPolygon ps => mpolyDims ps
  | .rect mn mx => rectDims mn mx
  | .triangle a b c => triDims a b c
  | .collection gs => dimsList gs
def dimsList : List Geom → Dim
  | [] => .empty
  | g :: gs => (dims g).max (dimsList gs)
end

mutual
def boundaryDims : Geom → Dim
  | .point _ => .empty
  | .line a b => if a == b then .empty else .zero
  | .lineString cs => lsBoundaryDims cs
  | .polygon p => boundaryOfDims (polyDims p)
  | .multiPoint _ => .empty
  | .multiLineString ls =>
      -- `MultiLineString::is_closed` (all members closed) ⇒ Empty; otherwise (after the `fix:`)
      -- the mod-2 rule: ZeroDimensional iff some coordinate is an end point of an odd number of
      -- open members
      if ls.all isClosedLS then .empty else
      let ends := (ls.filter (fun cs => !isClosedLS cs)).flatMap (fun cs =>
        match cs.head?, cs.getLast? with | some f, some l => [f, l] | _, _ => [])
      if ends.any (fun e => (ends.filter (· == e)).length % 2 == 1) then .zero else .empty
  | .multiPolygon ps => boundaryOfDims (mpolyDims ps)
  | .rect mn mx => boundaryOfDims (rectDims mn mx)
  | .triangle a b c => boundaryOfDims (triDims a b c)
  | .collection gs => boundaryDimsList gs
def boundaryDimsList : List Geom → Dim
  | [] => .empty
  | g :: gs => (boundaryDims g).max (boundaryDimsList gs)
end

mutual
def isEmptyG : Geom → Bool
  | .point _ => false
  | .line _ _ => false
  | .lineString cs => cs.isEmpty
  | .polygon p => p.ext.isEmpty
  | .multiPoint ps => ps.isEmpty
  | .multiLineString ls => ls.all List.isEmpty
  | .multiPolygon ps => ps.all (·.ext.isEmpty)
  | .rect _ _ => false
  | .triangle _ _ _ => false
  | .collection gs => isEmptyList gs
def isEmptyList : List Geom → Bool
  | [] => true
  | g :: gs => isEmptyG g && isEmptyList gs
end

/-- `HasDimensions::is_empty` as reached through the `Geometry` enum. The delegate macro calls
`g.is_empty()` on the payload, which for `GeometryCollection` (and `MultiPoint`) resolves to the
*inherent* method of geo-types (`self.0.is_empty()`), not to the `HasDimensions` impl: a collection
whose only members are empty collections is reported non-empty. (`isEmptyG` above is the point-set
notion; they differ only on nested empty collections.) -/
def isEmptyEnum : Geom → Bool
  | .collection gs => gs.isEmpty
  | g => isEmptyG g

end Geo
