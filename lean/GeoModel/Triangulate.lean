/-
  GeoModel.Triangulate — C10: geo's own glue around the triangulation engines.

  Anchors: geo/src/algorithm/triangulate_earcut.rs (`polygon_to_earcutr_input`,
           `flat_line_string_coords_2`, `Iter::next`, `triangle_index_to_coord`),
           geo/src/algorithm/triangulate_delaunay.rs (`constrained_triangulation`: the
           centroid-inside filter over the outer triangulation),
           geo/src/algorithm/stitch.rs (`ccw_lines`, `same_line`, `find_boundary_lines`),
           geo/src/algorithm/winding_order.rs (`triangle_winding_order`).

  The engines themselves (`earcutr::earcut`, spade's (constrained) Delaunay triangulation) are
  NOT modelled: their outputs are parameters here and are decided per case by the tiling checker
  (GeoModel/Tiling.lean).
-/
import GeoModel.Geom
import GeoModel.Traverse

namespace Geo.Tri

abbrev Tri := Pt × Pt × Pt

/-! ### ear-cut glue -/

/-- `flat_line_string_coords_2`: pushes `x`, `y` of every coordinate onto `vertices`. -/
def flatInto (vertices : List Rat) (ls : List Pt) : List Rat :=
  ls.foldl (fun v c => v ++ [c.x, c.y]) vertices

structure EarcutInput where
  vertices : List Rat
  interiorIndexes : List Nat
  deriving Repr, DecidableEq

/-- one iteration of the loop over `polygon.interiors()`:
`interior_indexes.push(vertices.len() / 2); flat_line_string_coords_2(interior, &mut vertices)` -/
def earcutStep (acc : EarcutInput) (interior : List Pt) : EarcutInput :=
  ⟨flatInto acc.vertices interior, acc.interiorIndexes ++ [acc.vertices.length / 2]⟩

/-- `flat_line_string_coords_2` after the `fix:` (repeated vertices): a coordinate equal to the one pushed
just before it *for the same ring* is skipped, i.e. every run of equal consecutive coordinates is pushed once. -/
def dedupRuns : List Pt → List Pt
  | a :: b :: rest => if a == b then dedupRuns (b :: rest) else a :: dedupRuns (b :: rest)
  | l => l

/-- the polygon whose rings are what `flat_line_string_coords_2` pushes -/
def dedupRings (p : Poly) : Poly := ⟨dedupRuns p.ext, p.ints.map dedupRuns⟩

/-- the two loops of `polygon_to_earcutr_input` over rings that are pushed in full -/
def earcutInputOf (p : Poly) : EarcutInput :=
  p.ints.foldl earcutStep ⟨flatInto [] p.ext, []⟩

/-- `polygon_to_earcutr_input` -/
def polygonToEarcutInput (p : Poly) : EarcutInput := earcutInputOf (dedupRings p)

/-- `Iter::triangle_index_to_coord` (`none` = index out of bounds, a panic in Rust) -/
def indexToCoord (vertices : List Rat) (i : Nat) : Option Pt :=
  match vertices[i * 2]?, vertices[i * 2 + 1]? with
  | some x, some y => some ⟨x, y⟩
  | _, _ => none

/-- The triangles in the order `Iter::next` yields them, given the index vector *reversed*
(`next` pops three indices from the back; a remainder of fewer than three ends the iteration). -/
def decodeRev (vertices : List Rat) : List Nat → Option (List Tri)
  | i1 :: i2 :: i3 :: rest =>
    match indexToCoord vertices i1, indexToCoord vertices i2, indexToCoord vertices i3,
      decodeRev vertices rest with
    | some a, some b, some c, some ts => some ((a, b, c) :: ts)
    | _, _, _, _ => none
  | _ => some []

/-- `earcut_triangles` given the engine's `triangle_indices` (`none` = panic) -/
def earcutTriangles (vertices : List Rat) (triangleIndices : List Nat) : Option (List Tri) :=
  decodeRev vertices triangleIndices.reverse

/-! ### constrained Delaunay: inside filter -/

/-- centroid of a non-degenerate triangle: `(t.0 + t.1 + t.2) / 3` -/
def centroid (t : Tri) : Pt := ⟨(t.1.x + t.2.1.x + t.2.2.x) / 3, (t.1.y + t.2.1.y + t.2.2.y) / 3⟩

/-- `constrained_triangulation`: the faces of the outer triangulation whose centroid the
geometry `contains` (strictly inside). -/
def constrainedFilter (contains : Pt → Bool) (outer : List Tri) : List Tri :=
  outer.filter (fun t => contains (centroid t))

/-! ### stitching: boundary lines -/

/-- `triangle_winding_order`: sign of `ab × ac` (`some true` = counter-clockwise) -/
def triangleWinding (t : Tri) : Option Bool :=
  let (a, b, c) := t
  let cp := (b.x - a.x) * (c.y - a.y) - (b.y - a.y) * (c.x - a.x)
  if cp < 0 then some false else if cp = 0 then none else some true

/-- `ccw_lines` -/
def ccwLines (t : Tri) : List (Pt × Pt) :=
  let (a, b, c) := t
  match triangleWinding t with
  | some true => [(a, b), (b, c), (c, a)]
  | _ => [(b, a), (a, c), (c, b)]

/-- `same_line`: equal or inverted -/
def sameLine (l1 l2 : Pt × Pt) : Bool :=
  (l1.1 == l2.1 && l1.2 == l2.2) || (l1.1 == l2.2 && l2.1 == l1.2)

/-- `lines.iter().position(pred)` followed by `lines.remove(idx)`: `none` if nothing matches -/
def eraseFirst (pred : (Pt × Pt) → Bool) : List (Pt × Pt) → Option (List (Pt × Pt))
  | [] => none
  | l :: ls => if pred l then some ls else (eraseFirst pred ls).map (l :: ·)

/-- the fold step of `find_boundary_lines` -/
def boundaryStep (lines : List (Pt × Pt)) (newLine : Pt × Pt) : List (Pt × Pt) :=
  match eraseFirst (fun l => sameLine l newLine) lines with
  | some rest => rest
  | none => lines ++ [newLine]

/-- `find_boundary_lines` -/
def findBoundaryLines (lines : List (Pt × Pt)) : List (Pt × Pt) := lines.foldl boundaryStep []

/-- the line list `stitch_triangles` builds: `triangles.flat_map(ccw_lines)` -/
def stitchLines (ts : List Tri) : List (Pt × Pt) := ts.flatMap ccwLines

end Geo.Tri
