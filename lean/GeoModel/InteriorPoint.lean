/-
  GeoModel.InteriorPoint — C12 (second half): `InteriorPoint::interior_point` over exact rationals.

  Anchors: geo/src/algorithm/interior_point.rs (all impls and
           `polygon_interior_point_with_segment_length`), geo/src/algorithm/centroid.rs (through
           GeoModel.Centroid; segment lengths enter through the parameter `len`),
           geo/src/algorithm/dimensions.rs (through `Geo.dims`),
           geo/src/algorithm/sweep/** — NOT mirrored: `Intersections::from_iter(lines)` is
           replaced by what it is documented to compute, the `line_intersection` of every
           polygon edge with the scan line (each pair once). Multiplicities can only add
           zero-width candidates at crossing points, which are ranked after every candidate of
           positive width.

  `polygon.relate(&midpoint)` enters through the parameter `loc` (the driver instantiates it with
  the specification `Geo.locate`; relate itself is the subject of C01).
  Euclidean distances are compared squared.
-/
import GeoModel.Segment
import GeoModel.Locate
import GeoModel.LineIntersection
import GeoModel.Centroid
import GeoModel.Traverse

namespace Geo.IP
open Geo

/-- `Iterator::min_by(cmp)`: fold keeping the accumulated element unless `cmp(acc, new)` is
`Greater` (so the first minimal element wins). `lt new acc` ⇔ `cmp(acc, new) == Greater`. -/
def minByKey {α : Type} (lt : α → α → Bool) : List α → Option α
  | [] => none
  | a :: as => some (as.foldl (fun x y => if lt y x then y else x) a)

/-- `Euclidean.distance(y, c) < Euclidean.distance(x, c)` -/
def closer (c : Pt) (y x : Pt) : Bool := decide (dist2 y c < dist2 x c)

/-- `impl InteriorPoint for LineString`: `None` / the start point for 1–2 coordinates / the
non-endpoint vertex closest to the centroid (`none` in the last arm stands for the `expect`). -/
def lsInterior (len : Pt → Pt → Rat) (cs : List Pt) : Option Pt :=
  match cs with
  | [] => none
  | [a] => some a
  | [a, _] => some a
  | _ :: rest =>
    match Cen.centroid len (.lineString cs) with
    | none => none
    | some c => minByKey (closer c) rest.dropLast

/-- `impl InteriorPoint for MultiLineString` -/
def mlsInterior (len : Pt → Pt → Rat) (ls : List (List Pt)) : Option Pt :=
  match Cen.centroid len (.multiLineString ls) with
  | none => none
  | some c => minByKey (closer c) (ls.filterMap (lsInterior len))

/-- `impl InteriorPoint for MultiPoint` -/
def mptInterior (len : Pt → Pt → Rat) (ps : List Pt) : Option Pt :=
  match Cen.centroid len (.multiPoint ps) with
  | none => none
  | some c => minByKey (closer c) ps

/-! ### the polygon scan line -/

/-- `LineOrPoint::from(Line)`: end points in sweep order (x, then y) -/
def ordered (e : Pt × Pt) : Pt × Pt := if lexLt e.2 e.1 then (e.2, e.1) else e

/-- `y_mid`: the middle of the bounds unless a vertex has that ordinate; then the average with the
ordinate of the next-closest vertex (first minimal `|y − y_mid|` in traversal order), if any. -/
def yMid (mn mx : Pt) (coords : List Pt) : Rat :=
  let y0 := (mn.y + mx.y) / 2
  if coords.any (fun c => c.y == y0) then
    match minByKey (fun (y x : Rat) => decide (rabs (y - y0) < rabs (x - y0)))
        ((coords.filter (fun c => !(c.y == y0))).map (·.y)) with
    | some c => (y0 + c) / 2
    | none => y0
  else y0

/-- abscissae pushed for one polygon edge against the scan line `sa–sb` -/
def hitXs (sa sb : Pt) (e : Pt × Pt) : List Rat :=
  let o := ordered e
  match lineIntersection o.1 o.2 sa sb with
  | none => []
  | some (.single pt _) => [pt.x]
  | some (.collinear u v) => [u.x, v.x]

/-- stable insertion sort (`sort` / `sort_by` on short lists; structural, so the kernel can
evaluate the model): `a` goes before the first `b` with `le a b` -/
def insertBy {α : Type} (le : α → α → Bool) (a : α) : List α → List α
  | [] => [a]
  | b :: bs => if le a b then a :: b :: bs else b :: insertBy le a bs

def isort {α : Type} (le : α → α → Bool) (l : List α) : List α := l.foldr (insertBy le) []

/-- consecutive pairs of the sorted abscissae: `(midpoint.x, length)` -/
def pairsMid : List Rat → List (Rat × Rat)
  | a :: b :: rest => ((a + b) / 2, b - a) :: pairsMid (b :: rest)
  | _ => []

/-- the candidate list in the order it is tried: midpoints of consecutive crossings, widest first
(`sort_by(|a, b| b.1.total_cmp(&a.1))`, stable) -/
def scanCands (poly : Poly) (mn mx : Pt) : List (Pt × Rat) :=
  let ym := yMid mn mx poly.coords
  let sa : Pt := ⟨mn.x, ym⟩
  let sb : Pt := ⟨mx.x, ym⟩
  let xs := isort (fun a b => decide (a ≤ b)) (poly.lines.flatMap (hitXs sa sb))
  let cands := isort (fun a b => decide (a.2 ≥ b.2)) (pairsMid xs)
  cands.map (fun c => ((⟨c.1, ym⟩ : Pt), c.2))

/-- the verification loop: first candidate that `intersects`; its width counts only if
`contains` -/
def firstVerified (loc : Pt → Pos) (cands : List (Pt × Rat)) : Option (Pt × Rat) :=
  match cands.find? (fun c => loc c.1 != .outside) with
  | some c => some (c.1, if loc c.1 == .inside then c.2 else 0)
  | none => none

/-- `polygon_interior_point_with_segment_length` -/
def polyScan (loc : Pt → Pos) (poly : Poly) : Option (Pt × Rat) :=
  match poly.ext with
  | [c] => some (c, 0)
  | _ =>
    match getBoundingRect poly.ext with
    | none => none
    | some (mn, mx) =>
      match firstVerified loc (scanCands poly mn mx) with
      | some r => some r
      | none => poly.coords.head?.map (fun c => (c, 0))

/-- `impl InteriorPoint for Polygon` -/
def polyInterior (locOf : Poly → Pt → Pos) (poly : Poly) : Option Pt :=
  (polyScan (locOf poly) poly).map (·.1)

/-- `impl InteriorPoint for MultiPolygon`: the first candidate of maximal width -/
def mpolyInterior (locOf : Poly → Pt → Pos) (ps : List Poly) : Option Pt :=
  (minByKey (fun (y x : Pt × Rat) => decide (y.2 > x.2))
    (ps.filterMap (fun poly => polyScan (locOf poly) poly))).map (·.1)

/-- key order of the `GeometryCollection` impl: `(Reverse(dimensions), distance)` -/
def collLt (c : Pt) (y x : Pt × Dim) : Bool :=
  decide (y.2.rank > x.2.rank) || (y.2.rank == x.2.rank && closer c y.1 x.1)

mutual
/-- `impl InteriorPoint for Geometry` (delegation, `Point` results wrapped in `Some`) -/
def interior (len : Pt → Pt → Rat) (locOf : Poly → Pt → Pos) : Geom → Option Pt
  | .point p => some p
  | .line a _ => some a
  | .lineString cs => lsInterior len cs
  | .polygon poly => polyInterior locOf poly
  | .multiPoint ps => mptInterior len ps
  | .multiLineString ls => mlsInterior len ls
  | .multiPolygon ps => mpolyInterior locOf ps
  | .rect mn mx => some (Cen.rectCenter mn mx)
  | .triangle a b c => Cen.centroid len (.triangle a b c)
  | .collection gs =>
    match Cen.centroid len (.collection gs) with
    | none => none
    | some c => (minByKey (collLt c) (interiorCands len locOf gs)).map (·.1)
/-- `filter_map` over the members: `(interior point, dimensions)` -/
def interiorCands (len : Pt → Pt → Rat) (locOf : Poly → Pt → Pos) : List Geom → List (Pt × Dim)
  | [] => []
  | g :: gs =>
    match interior len locOf g with
    | some p => (p, dims g) :: interiorCands len locOf gs
    | none => interiorCands len locOf gs
end

end Geo.IP
