/-
  GeoModel.Orient — the orientation kernel over exact numbers.

  Anchors: geo/src/algorithm/kernels/mod.rs (`Kernel::orient2d`, `square_euclidean_distance`,
  `dot_product_sign`), kernels/robust.rs (floats: the sign of the exact determinant, delegated to
  the `robust` crate), kernels/simple.rs (integers: the formula below evaluated in the type).
-/
import GeoModel.Geom

namespace Geo

/-- `Orientation`, in declaration order (`derive(PartialOrd, Ord)` makes the order semantics:
`CounterClockwise < Clockwise < Collinear`). -/
inductive Ori where
  | ccw
  | cw
  | col
  deriving DecidableEq, Repr, Inhabited

def Ori.str : Ori → String
  | .ccw => "CounterClockwise"
  | .cw => "Clockwise"
  | .col => "Collinear"

def Ori.parse? : String → Option Ori
  | "CounterClockwise" => some .ccw
  | "Clockwise" => some .cw
  | "Collinear" => some .col
  | _ => none

/-- derive(Ord) rank -/
def Ori.rank : Ori → Nat
  | .ccw => 0
  | .cw => 1
  | .col => 2

/-- `(q.x - p.x) * (r.y - q.y) - (q.y - p.y) * (r.x - q.x)` — the determinant of
`Kernel::orient2d`, in exact arithmetic. -/
def cross (p q r : Pt) : Rat := (q.x - p.x) * (r.y - q.y) - (q.y - p.y) * (r.x - q.x)

/-- `orient2d`: the sign of `cross` (what `RobustKernel` guarantees for floats). -/
def orient (p q r : Pt) : Ori :=
  let c := cross p q r
  if c > 0 then .ccw else if c < 0 then .cw else .col

/-- `square_euclidean_distance` -/
def dist2 (p q : Pt) : Rat := (p.x - q.x) * (p.x - q.x) + (p.y - q.y) * (p.y - q.y)

/-- `dot_product_sign(u, v) = orient2d(0, u, (-v.y, v.x))` -/
def dotProductSign (u v : Pt) : Ori := orient ⟨0, 0⟩ u ⟨0 - v.y, v.x⟩

/-- `lex_cmp` (geo/src/utils.rs): compare by x, then y. -/
def lexLt (a b : Pt) : Bool := a.x < b.x || (a.x == b.x && a.y < b.y)

end Geo
