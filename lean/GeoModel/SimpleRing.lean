/-
  GeoModel.SimpleRing — a decidable *specification* of "simple closed ring" (used by the C05
  driver to decide which rings are in the domain of the winding clause; not a model of geo code).

  A closed coordinate list is simple when, after merging runs of repeated coordinates, it has at
  least three vertices, non-adjacent edges are disjoint, and adjacent edges meet only in their
  shared vertex (no fold-back).
-/
import GeoModel.Orient

namespace Geo

def dedupConsec : List Pt → List Pt
  | a :: b :: rest => if a = b then dedupConsec (b :: rest) else a :: dedupConsec (b :: rest)
  | l => l

/-- `p` collinear with `a b` is assumed; is it inside the closed box of `a b`? -/
def inBox (a b p : Pt) : Bool :=
  rmin a.x b.x ≤ p.x && p.x ≤ rmax a.x b.x && rmin a.y b.y ≤ p.y && p.y ≤ rmax a.y b.y

/-- closed segments `ab` and `cd` share a point (exact; CLRS `SEGMENTS-INTERSECT`) -/
def segsMeet (a b c d : Pt) : Bool :=
  let d1 := cross c d a
  let d2 := cross c d b
  let d3 := cross a b c
  let d4 := cross a b d
  if ((d1 > 0 && d2 < 0) || (d1 < 0 && d2 > 0)) && ((d3 > 0 && d4 < 0) || (d3 < 0 && d4 > 0)) then true
  else if d1 == 0 && inBox c d a then true
  else if d2 == 0 && inBox c d b then true
  else if d3 == 0 && inBox a b c then true
  else if d4 == 0 && inBox a b d then true
  else false

/-- edges `s→p` and `s→q` from a shared vertex overlap beyond `s` -/
def foldsBack (s p q : Pt) : Bool :=
  cross s p q == 0 && (p.x - s.x) * (q.x - s.x) + (p.y - s.y) * (q.y - s.y) > 0

def simpleRing (r : List Pt) : Bool :=
  if r.length < 4 || r.head? ≠ r.getLast? then false else
  let v := (dedupConsec r).toArray        -- v[0] = v[m], consecutive entries differ
  let m := v.size - 1
  if m < 3 then false else
  (List.range m).all fun i =>
    (List.range m).all fun j =>
      if j ≤ i then true else
      let a := v[i]!; let b := v[i + 1]!; let c := v[j]!; let d := v[j + 1]!
      if j = i + 1 then !foldsBack b a d                 -- share b = c
      else if i = 0 && j = m - 1 then !foldsBack a b c   -- share a = d
      else !segsMeet a b c d

end Geo
