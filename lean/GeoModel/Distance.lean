/-
  GeoModel.Distance — C07: `Distance::distance(&Euclidean, a, b)` for every ordered pair of the ten
  geometry types, with **squared** distances in exact rationals.

  Anchors: geo/src/algorithm/line_measures/metric_spaces/euclidean/distance.rs (every impl and the
           four dispatch macros, `nearest_neighbour_distance`, `ring_contains_coord`),
           geo-types/src/private_utils.rs (`line_segment_distance`, `point_line_euclidean_distance`,
           `point_line_string_euclidean_distance`, `line_string_contains_point`),
           geo/src/algorithm/intersects/{line,line_string,polygon}.rs (the short-circuits).

  Conventions. Every f64 distance `v` of the code corresponds to the rational `v²` here; `f64::min`
  of distances is `min` of squares. The initial value `Bounded::max_value()` of the `fold`s is the
  extra element `DV.inf` (neutral for `min`). `DV.panic` records the `unwrap()`/index panics the
  code has on empty line strings (sticky: any panic makes the call panic).

  [A] `nearest_neighbour_distance` asks an `rstar` R-tree for the nearest segment of a vertex; the
  model takes the minimum over *all* segments (the tree is an optimisation: `nearest_neighbor`
  returns an element of minimal `distance_2`, and `distance_2` of a `Line` is the square of the same
  `point_line_euclidean_distance`).
-/
import GeoModel.Segment
import GeoModel.Locate
import GeoModel.F64

namespace Geo

/-! ### values -/

/-- a squared distance, `+∞` (= the `f64::MAX` start value of an empty fold) or a panic -/
inductive DV where
  | panic
  | fin (q : Rat)
  | inf
  deriving DecidableEq, Repr, Inhabited

/-- `f64::min` on distances (monotone in the square); a panic anywhere is a panic -/
def DV.min : DV → DV → DV
  | .panic, _ => .panic
  | _, .panic => .panic
  | .inf, b => b
  | a, .inf => a
  | .fin x, .fin y => .fin (if x ≤ y then x else y)

/-- `iter.fold(max_value, |acc, x| acc.min(f(x)))` -/
def foldMin {α} (f : α → DV) (l : List α) : DV := l.foldl (fun acc x => acc.min (f x)) .inf

def DV.str : DV → String
  | .panic => "panic"
  | .fin q => ratStr q
  | .inf => "inf"

/-! ### point × segment: `line_segment_distance` -/

/-- `line_segment_distance(point, start, end)²`:
`start == end` ⇒ `|p − start|`; `r ≤ 0` ⇒ `|p − start|`; `r ≥ 1` ⇒ `|p − end|`; otherwise
`|s| · hypot(dx, dy)` with `s = cross / d²`. -/
def psd2 (p a b : Pt) : Rat :=
  if a == b then dist2 p a else
  let dx := b.x - a.x
  let dy := b.y - a.y
  let d2 := dx * dx + dy * dy
  let r := ((p.x - a.x) * dx + (p.y - a.y) * dy) / d2
  if r ≤ 0 then dist2 p a
  else if r ≥ 1 then dist2 p b
  else
    let s := ((a.y - p.y) * dx - (a.x - p.x) * dy) / d2
    s * s * d2

/-- the value `line_segment_distance(p, line.start, line.end)` of one segment in a fold -/
def segD (p : Pt) (se : Pt × Pt) : DV := .fin (psd2 p se.1 se.2)

/-- `Point × Point`: `hypot(dx, dy)` -/
def ptPt2 (p q : Pt) : DV := .fin (dist2 p q)

/-- `Point × Line` -/
def ptLine2 (p a b : Pt) : DV := .fin (psd2 p a b)

/-! ### `line_string_contains_point` (tolerance based, evaluated in emulated f64) -/

/-- f64 machine epsilon `2^-52` -/
def f64Eps : Rat := 1 / (4503599627370496 : Rat)

def fdiv (a b : Rat) : Rat := roundF64 (a / b)

/-- one segment of the loop in `line_string_contains_point`: `t_x`, `t_y` are rounded quotients of
rounded differences; the generic case accepts `|t_x − t_y| ≤ ε`. -/
def segContainsTol (p s e : Pt) : Bool :=
  let dx := fsub e.x s.x
  let dy := fsub e.y s.y
  if dx == 0 then
    if dy == 0 then p == s
    else
      let t := fdiv (fsub p.y s.y) dy
      p.x == s.x && decide (0 ≤ t) && decide (t ≤ 1)
  else if dy == 0 then
    let t := fdiv (fsub p.x s.x) dx
    p.y == s.y && decide (0 ≤ t) && decide (t ≤ 1)
  else
    let tx := fdiv (fsub p.x s.x) dx
    let ty := fdiv (fsub p.y s.y) dy
    decide (rabs (fsub tx ty) ≤ f64Eps) && decide (0 ≤ tx) && decide (tx ≤ 1)

/-- `point_contains_point`: `relative_eq!(hypot as f32, 0.0)`, i.e. `|d| ≤ f32::EPSILON = 2^-23`
(up to the f32 rounding of `d`, irrelevant on the inputs the check accepts: a one-coordinate line
string is invalid). -/
def ptContainsPtTol (a b : Pt) : Bool := decide (dist2 a b ≤ (1 / (8388608 : Rat)) * (1 / (8388608 : Rat)))

/-- `line_string_contains_point` -/
def lsContainsPointTol (cs : List Pt) (p : Pt) : Bool :=
  match cs with
  | [] => false
  | [c] => ptContainsPtTol c p
  | _ => cs.any (· == p) || (segs cs).any (fun (s, e) => segContainsTol p s e)

/-- `Point × LineString`: `point_line_string_euclidean_distance` -/
def ptLs2 (p : Pt) (cs : List Pt) : DV :=
  if lsContainsPointTol cs p || cs.isEmpty then .fin 0
  else foldMin (segD p) (segs cs)

/-! ### the `intersects` short-circuits -/

/-- `has_disjoint_bboxes` -/
def bboxDisjoint (ra rb : Option (Pt × Pt)) : Bool :=
  match ra, rb with
  | some (amn, amx), some (bmn, bmx) => !rectRect amn amx bmn bmx
  | _, _ => false

/-- `LineString: Intersects<Line>` (blanket impl: bbox rejection, then `any` segment) -/
def lsLineIntersects (cs : List Pt) (a b : Pt) : Bool :=
  if bboxDisjoint (getBoundingRect cs) (some (rectNewPts a b)) then false
  else (segs cs).any (fun (s, e) => lineLine s e a b)

/-- `Polygon: Intersects<Coord>`: `coordinate_position != Outside` -/
def polyCoordIntersects (poly : Poly) (p : Pt) : Bool :=
  (calcPolygon poly p ⟨false, 0⟩).result != .outside

/-- `Polygon: Intersects<Line>` -/
def polyLineIntersects (poly : Poly) (a b : Pt) : Bool :=
  lsLineIntersects poly.ext a b || poly.ints.any (fun r => lsLineIntersects r a b) ||
    polyCoordIntersects poly a || polyCoordIntersects poly b

/-- `LineString: Intersects<Polygon>` -/
def lsPolyIntersects (cs : List Pt) (poly : Poly) : Bool :=
  if bboxDisjoint (getBoundingRect cs) (getBoundingRect poly.ext) then false
  else (segs cs).any (fun (s, e) => polyLineIntersects poly s e)

/-- `LineString: Intersects<LineString>` -/
def lsLsIntersects (as bs : List Pt) : Bool :=
  if bboxDisjoint (getBoundingRect as) (getBoundingRect bs) then false
  else (segs as).any (fun (s, e) => lsLineIntersects bs s e)

/-- `Polygon: Intersects<Polygon>` -/
def polyPolyIntersects (a b : Poly) : Bool :=
  if bboxDisjoint (getBoundingRect a.ext) (getBoundingRect b.ext) then false
  else lsPolyIntersects b.ext a || b.ints.any (fun r => lsPolyIntersects r a) || lsPolyIntersects a.ext b

/-! ### the kernels of distance.rs -/

/-- `Point × Polygon` -/
def ptPoly2 (p : Pt) (poly : Poly) : DV :=
  if poly.ext.isEmpty || polyCoordIntersects poly p then .fin 0
  else (foldMin (fun r => ptLs2 p r) poly.ints).min
    (foldMin (segD p) (segs poly.ext))

/-- `Line × Line`: zero when they intersect, else the minimum of the four end point distances -/
def lineLine2 (a b c d : Pt) : DV :=
  if lineLine a b c d then .fin 0
  else (((ptLine2 a c d).min (ptLine2 b c d)).min (ptLine2 c a b)).min (ptLine2 d a b)

/-- `Line × LineString` -/
def lineSegD (a b : Pt) (se : Pt × Pt) : DV := lineLine2 a b se.1 se.2

def lineLs2 (a b : Pt) (cs : List Pt) : DV := foldMin (lineSegD a b) (segs cs)

/-- `Line × Polygon` -/
def linePoly2 (a b : Pt) (poly : Poly) : DV :=
  if polyLineIntersects poly a b then .fin 0
  else foldMin (fun r => lineLs2 a b r) (poly.ext :: poly.ints)

/-- one direction of `nearest_neighbour_distance`: for every vertex `q` of `qs` the nearest segment
of `cs` (`tree.nearest_neighbor(&q).unwrap()` — a panic when `cs` has no segment) -/
def nnOneWay (cs qs : List Pt) : DV :=
  foldMin (fun q => if (segs cs).isEmpty then DV.panic
    else foldMin (segD q) (segs cs)) qs

/-- `nearest_neighbour_distance(geom1, geom2)` -/
def nnDist2 (g1 g2 : List Pt) : DV := (nnOneWay g1 g2).min (nnOneWay g2 g1)

/-- `ring_contains_coord` -/
def ringContainsCoord (ring : List Pt) (c : Pt) : Bool := ringPos c ring == .inside

/-- `LineString × LineString` -/
def lsLs2 (as bs : List Pt) : DV :=
  if lsLsIntersects as bs then .fin 0 else nnDist2 as bs

/-- `LineString × Polygon`: `!interiors.is_empty() && ring_contains_coord(exterior, line_string.0[0])`
(the index panics on an empty line string) -/
def lsPoly2 (cs : List Pt) (poly : Poly) : DV :=
  if lsPolyIntersects cs poly then .fin 0
  else if !poly.ints.isEmpty && cs.isEmpty then .panic
  else if !poly.ints.isEmpty && ringContainsCoord poly.ext (cs.headD ⟨0, 0⟩) then
    foldMin (fun r => nnDist2 cs r) poly.ints
  else nnDist2 cs poly.ext

/-- `Polygon × Polygon`: intersects ⇒ 0; `b` inside the exterior ring of `a` (which has holes) ⇒
minimum over the holes of `a`; the same with the roles exchanged; else exterior to exterior.
(`exterior().0[0]` panics on an empty exterior.) -/
def polyPoly2 (a b : Poly) : DV :=
  if polyPolyIntersects a b then .fin 0
  else if !a.ints.isEmpty && b.ext.isEmpty then .panic
  else if !a.ints.isEmpty && ringContainsCoord a.ext (b.ext.headD ⟨0, 0⟩) then
    foldMin (fun r => nnDist2 b.ext r) a.ints
  else if !b.ints.isEmpty && a.ext.isEmpty then .panic
  else if !b.ints.isEmpty && ringContainsCoord b.ext (a.ext.headD ⟨0, 0⟩) then
    foldMin (fun r => nnDist2 a.ext r) b.ints
  else nnDist2 a.ext b.ext

/-! ### dispatch -/

/-- `Rect::to_polygon` -/
def dRectPoly (mn mx : Pt) : Poly := ⟨SM.rectToPolygon ⟨mn, mx⟩, []⟩
/-- `Triangle::to_polygon` -/
def dTriPoly (a b c : Pt) : Poly := ⟨SM.triangleToPolygon a b c, []⟩

/-- the six single-part types, after `to_polygon`; `swapGG` tells which operand order the
Rect/Triangle macros hand to `Polygon × Polygon` -/
inductive Base where
  | pt (p : Pt)
  | ln (a b : Pt)
  | ls (cs : List Pt)
  | pg (p : Poly)
  | rc (mn mx : Pt)
  | tr (a b c : Pt)
  deriving Repr

def Base.ofGeom? : Geom → Option Base
  | .point p => some (.pt p)
  | .line a b => some (.ln a b)
  | .lineString cs => some (.ls cs)
  | .polygon p => some (.pg p)
  | .rect mn mx => some (.rc mn mx)
  | .triangle a b c => some (.tr a b c)
  | _ => none

/-- distance between two single-part operands, following the impls and the
`symmetric_distance_impl!` / `impl_euclidean_distance_for_polygonlike_geometry!` expansions:
* `(Tri, Tri)`, `(Rect, Rect)`: `distance(&a.to_polygon(), b)` → `(Polygon, b)` is the symmetric
  impl → `distance(b, &Polygon)` → `distance(&b.to_polygon(), &a.to_polygon())`: **swapped**;
* `(Tri, Rect)`: `(Polygon(a), Rect)` → `(Rect, Polygon(a))` → `(Polygon(b), Polygon(a))`: swapped;
  `(Rect, Tri)` → `(Tri, Rect)` with the operands exchanged: straight;
* `(Polygon, Tri|Rect)` → `(Tri|Rect, Polygon)` → swapped; `(Tri|Rect, Polygon)`: straight. -/
def baseD : Base → Base → DV
  | .pt p, .pt q => ptPt2 p q
  | .pt p, .ln a b => ptLine2 p a b
  | .pt p, .ls cs => ptLs2 p cs
  | .pt p, .pg g => ptPoly2 p g
  | .pt p, .rc mn mx => ptPoly2 p (dRectPoly mn mx)
  | .pt p, .tr a b c => ptPoly2 p (dTriPoly a b c)
  | .ln a b, .pt p => ptLine2 p a b
  | .ln a b, .ln c d => lineLine2 a b c d
  | .ln a b, .ls cs => lineLs2 a b cs
  | .ln a b, .pg g => linePoly2 a b g
  | .ln a b, .rc mn mx => linePoly2 a b (dRectPoly mn mx)
  | .ln a b, .tr x y z => linePoly2 a b (dTriPoly x y z)
  | .ls cs, .pt p => ptLs2 p cs
  | .ls cs, .ln a b => lineLs2 a b cs
  | .ls cs, .ls ds => lsLs2 cs ds
  | .ls cs, .pg g => lsPoly2 cs g
  | .ls cs, .rc mn mx => lsPoly2 cs (dRectPoly mn mx)
  | .ls cs, .tr a b c => lsPoly2 cs (dTriPoly a b c)
  | .pg g, .pt p => ptPoly2 p g
  | .pg g, .ln a b => linePoly2 a b g
  | .pg g, .ls cs => lsPoly2 cs g
  | .pg g, .pg h => polyPoly2 g h
  | .pg g, .rc mn mx => polyPoly2 (dRectPoly mn mx) g
  | .pg g, .tr a b c => polyPoly2 (dTriPoly a b c) g
  | .rc mn mx, .pt p => ptPoly2 p (dRectPoly mn mx)
  | .rc mn mx, .ln a b => linePoly2 a b (dRectPoly mn mx)
  | .rc mn mx, .ls cs => lsPoly2 cs (dRectPoly mn mx)
  | .rc mn mx, .pg h => polyPoly2 (dRectPoly mn mx) h
  | .rc mn mx, .rc mn' mx' => polyPoly2 (dRectPoly mn' mx') (dRectPoly mn mx)
  | .rc mn mx, .tr a b c => polyPoly2 (dRectPoly mn mx) (dTriPoly a b c)
  | .tr a b c, .pt p => ptPoly2 p (dTriPoly a b c)
  | .tr a b c, .ln x y => linePoly2 x y (dTriPoly a b c)
  | .tr a b c, .ls cs => lsPoly2 cs (dTriPoly a b c)
  | .tr a b c, .pg h => polyPoly2 (dTriPoly a b c) h
  | .tr a b c, .rc mn mx => polyPoly2 (dRectPoly mn mx) (dTriPoly a b c)
  | .tr a b c, .tr x y z => polyPoly2 (dTriPoly x y z) (dTriPoly a b c)

/-- coarse class of a geometry for the dispatch tables -/
inductive Kind where
  | base | mpt | mls | mpg | gc
  deriving DecidableEq, Repr

def kindOf : Geom → Kind
  | .multiPoint _ => .mpt
  | .multiLineString _ => .mls
  | .multiPolygon _ => .mpg
  | .collection _ => .gc
  | _ => .base

/-- members of a Multi* as geometries -/
def multiMembers : Geom → List Geom
  | .multiPoint ps => ps.map .point
  | .multiLineString ls => ls.map .lineString
  | .multiPolygon ps => ps.map .polygon
  | _ => []

def collMembers : Geom → List Geom
  | .collection gs => gs
  | _ => []

/-- One dispatch step of `distance(a, b)`: either the single-part call it ends in (`inl`) or the
ordered operand pairs `(x, y)` of the calls `distance(x, y)` it folds `min` over (`inr`),
following the four macros (`impl_euclidean_distance_for_iter_geometry!`,
`…_for_geometry_and_variant!`, the `Geometry × Geometry` impl and `symmetric_distance_impl!`):

* `(Multi a, Multi b)` of the same kind: fold `m ∈ a` of `distance(m, b)` → symmetric →
  fold `m' ∈ b` of `distance(m', m)` (operands exchanged);
* `(MultiPoint a, b)`: fold `distance(p, b)`; `(a, MultiPoint b)`, `a` not a MultiPoint: symmetric →
  fold `distance(q, a)`; likewise `MultiLineString` (when no MultiPoint is involved) and
  `MultiPolygon` (when neither of the former is);
* `(GC a, GC b)`: fold `g ∈ a` of `distance(&Geometry g, b)` → symmetric → `distance(b, g)`;
* `(GC a, base b)`: fold of `distance(&Geometry g, b)` → symmetric → `distance(b, g)`;
  `(base a, GC b)` → symmetric → fold of `distance(&Geometry g, a)` → `distance(a, g)`. -/
def expand (a b : Geom) : Sum (List (Base × Base)) (List (Geom × Geom)) :=
  match kindOf a, kindOf b with
  | .base, .base =>
    .inl (match Base.ofGeom? a, Base.ofGeom? b with
      | some x, some y => [(x, y)]
      | _, _ => [])
  | .mpt, .mpt => .inr ((multiMembers a).flatMap (fun p => (multiMembers b).map (fun q => (q, p))))
  | .mpt, _ => .inr ((multiMembers a).map (fun p => (p, b)))
  | _, .mpt => .inr ((multiMembers b).map (fun q => (q, a)))
  | .mls, .mls => .inr ((multiMembers a).flatMap (fun p => (multiMembers b).map (fun q => (q, p))))
  | .mls, _ => .inr ((multiMembers a).map (fun p => (p, b)))
  | _, .mls => .inr ((multiMembers b).map (fun q => (q, a)))
  | .mpg, .mpg => .inr ((multiMembers a).flatMap (fun p => (multiMembers b).map (fun q => (q, p))))
  | .mpg, _ => .inr ((multiMembers a).map (fun p => (p, b)))
  | _, .mpg => .inr ((multiMembers b).map (fun q => (q, a)))
  | .gc, .gc => .inr ((collMembers a).map (fun g => (b, g)))
  | .gc, .base => .inr ((collMembers a).map (fun g => (b, g)))
  | .base, .gc => .inr ((collMembers b).map (fun h => (a, h)))

/-- The ordered list of single-part calls `(x, y)` (meaning `distance(x, y)` on base types) that
`distance(a, b)` folds `min` over; `fuel` bounds the number of dispatch steps. -/
def callsF : Nat → Geom → Geom → List (Base × Base)
  | 0, _, _ => []
  | fuel + 1, a, b =>
    match expand a b with
    | .inl r => r
    | .inr subs => subs.flatMap (fun xy => callsF fuel xy.1 xy.2)

mutual
/-- number of dispatch steps an operand can cause: 1 for a single-part type, 2 for a Multi*, two
more than its deepest member for a collection -/
def geomW : Geom → Nat
  | .collection gs => geomWList gs + 2
  | .multiPoint _ => 2
  | .multiLineString _ => 2
  | .multiPolygon _ => 2
  | _ => 1
def geomWList : List Geom → Nat
  | [] => 0
  | g :: gs => Nat.max (geomW g) (geomWList gs)
end

/-- enough fuel (every dispatch step lowers `geomW a + geomW b`, see `callsF_fuel`) -/
def callsFuel (a b : Geom) : Nat := geomW a + geomW b

def calls (a b : Geom) : List (Base × Base) := callsF (callsFuel a b) a b

/-- `Distance::distance(&Euclidean, &Geometry a, &Geometry b)²` -/
def distG (a b : Geom) : DV := foldMin (fun (xy : Base × Base) => baseD xy.1 xy.2) (calls a b)

end Geo
