/-
  GeoModel.F64 — exact emulation of IEEE-754 binary64 rounding on rationals (round to nearest,
  ties to even), used only to *measure* generator quality: it tells us on which inputs a naive
  floating-point evaluation of a predicate would have given the wrong sign.
-/
import GeoModel.Orient

namespace Geo

/-- floor(log2 |q|) for q ≠ 0 -/
def ilog2 (q : Rat) : Int :=
  let n := q.num.natAbs
  let d := q.den
  -- candidate from bit lengths, corrected by at most one step
  let e : Int := (Nat.log2 n : Int) - (Nat.log2 d : Int)
  if rabs q < pow2 e then e - 1 else if rabs q ≥ pow2 (e + 1) then e + 1 else e

/-- round a non-negative rational to the nearest integer, ties to even -/
def roundHalfEven (q : Rat) : Int :=
  let f := q.floor
  let r := q - (f : Rat)
  if r < 1/2 then f else if r > 1/2 then f + 1 else if f % 2 == 0 then f else f + 1

/-- nearest binary64 value (no overflow handling; subnormals handled) -/
def roundF64 (q : Rat) : Rat :=
  if q == 0 then 0 else
  let e := ilog2 q
  let e' : Int := if e < -1022 then -1022 else e
  let ulp := pow2 (e' - 52)
  let m := roundHalfEven (rabs q / ulp)
  let v := (m : Rat) * ulp
  if q < 0 then -v else v

def fsub (a b : Rat) : Rat := roundF64 (a - b)
def fmul (a b : Rat) : Rat := roundF64 (a * b)

/-- the `Kernel::orient2d` default formula evaluated in emulated f64 arithmetic -/
def naiveCross (p q r : Pt) : Rat :=
  fsub (fmul (fsub q.x p.x) (fsub r.y q.y)) (fmul (fsub q.y p.y) (fsub r.x q.x))

def naiveOrient (p q r : Pt) : Ori :=
  let c := naiveCross p q r
  if c > 0 then .ccw else if c < 0 then .cw else .col

end Geo
