/-
  GeoModel.PolygonSM — C18: the `Polygon` / `Rect` API as a state machine, and the
  representation conversions of geo-types.

  Anchors: geo-types/src/geometry/{polygon,line_string,rect,triangle,line,mod}.rs

  The coordinate type is an arbitrary `α` with decidable equality (finite f64 under `==`);
  mutator closures are *arbitrary* functions (the theorems quantify over them); the small
  edit language below is only what the correspondence harness can drive.
-/
import GeoModel.Geom

namespace Geo.SM

variable {α : Type} [DecidableEq α]

/-- `LineString::is_closed`: `self.0.first() == self.0.last()` (empty counts as closed). -/
def isClosed (r : List α) : Bool := decide (r.head? = r.getLast?)

/-- `LineString::close`: push a copy of the first coordinate unless already closed. -/
def close (r : List α) : List α :=
  if isClosed r then r else
    match r with
    | [] => r
    | a :: _ => r ++ [a]

structure State (α : Type) where
  ext : List α
  ints : List (List α)
  deriving Repr

instance [DecidableEq α] : DecidableEq (State α) := fun a b =>
  if h : a.ext = b.ext ∧ a.ints = b.ints then
    isTrue (by cases a; cases b; simp_all)
  else isFalse (by intro h'; subst h'; simp at h)

/-- A ring closure: the new ring and whether it returned `Ok` (`true`) or `Err`. -/
abbrev RingFn (α : Type) := List α → List α × Bool

/-- A closure over `&mut [LineString]`: it may rewrite every ring but cannot change how many
there are. Modelled as an arbitrary function whose result is truncated / padded back to the
original length by `fitLen` (the borrow checker enforces this in Rust). -/
abbrev RingsFn (α : Type) := List (List α) → List (List α) × Bool

def fitLen (orig new : List (List α)) : List (List α) :=
  (new.take orig.length) ++ (orig.drop new.length)

inductive Op (α : Type) where
  | new (ext : List α) (ints : List (List α))       -- Polygon::new / into_inner + new
  | exteriorMut (f : RingFn α)                        -- result flag ignored
  | tryExteriorMut (f : RingFn α)
  | interiorsMut (f : RingsFn α)                      -- result flag ignored
  | tryInteriorsMut (f : RingsFn α)
  | interiorsPush (r : List α)

/-- `Polygon::new` -/
def mkNew (ext : List α) (ints : List (List α)) : State α :=
  ⟨close ext, ints.map close⟩

/-- One API call. The `Bool` is the `Result` (`true` = `Ok(())`; infallible calls give `true`).

`tryExteriorMut` / `tryInteriorsMut` mirror the code *after* the `fix:` commit in /repo:
the touched rings are re-closed on both the `Ok` and the `Err` exit. -/
def step (s : State α) : Op α → State α × Bool
  | .new e is => (mkNew e is, true)
  | .exteriorMut f => (⟨close (f s.ext).1, s.ints⟩, true)
  | .tryExteriorMut f => let (e, ok) := f s.ext; (⟨close e, s.ints⟩, ok)
  | .interiorsMut f => (⟨s.ext, (fitLen s.ints (f s.ints).1).map close⟩, true)
  | .tryInteriorsMut f =>
      let (is, ok) := f s.ints
      (⟨s.ext, (fitLen s.ints is).map close⟩, ok)
  | .interiorsPush r => (⟨s.ext, s.ints ++ [close r]⟩, true)

/-- The pinned (pre-fix) behaviour of the fallible mutators, kept for the record: on `Err`
the `?` returns before `close()` runs. -/
def stepPinned (s : State α) : Op α → State α × Bool
  | .tryExteriorMut f =>
      let (e, ok) := f s.ext
      if ok then (⟨close e, s.ints⟩, true) else (⟨e, s.ints⟩, false)
  | .tryInteriorsMut f =>
      let (is, ok) := f s.ints
      if ok then (⟨s.ext, (fitLen s.ints is).map close⟩, true)
      else (⟨s.ext, fitLen s.ints is⟩, false)
  | op => step s op

def run (s : State α) (ops : List (Op α)) : State α :=
  ops.foldl (fun st op => (step st op).1) s

/-- The structural invariant: every ring is closed. -/
def Inv (s : State α) : Prop := isClosed s.ext = true ∧ ∀ r ∈ s.ints, isClosed r = true

def invB (s : State α) : Bool := isClosed s.ext && s.ints.all isClosed

/-! ### Edit language used by the harness (a concrete family of closures) -/

inductive Edit (α : Type) where
  | push (c : α)
  | pop
  | clear
  | set (i : Nat) (c : α)
  | swap (i j : Nat)
  | trunc (n : Nat)
  | ins (i : Nat) (c : α)
  | rev
  deriving Repr

def Edit.apply (r : List α) : Edit α → List α
  | .push c => r ++ [c]
  | .pop => r.dropLast
  | .clear => []
  | .set i c => if i < r.length then r.set i c else r
  | .swap i j =>
      match r[i]?, r[j]? with
      | some a, some b => (r.set i b).set j a
      | _, _ => r
  | .trunc n => r.take n
  | .ins i c => if i ≤ r.length then r.insertIdx i c else r
  | .rev => r.reverse

def applyEdits (es : List (Edit α)) (r : List α) : List α := es.foldl Edit.apply r

inductive RingsEdit (α : Type) where
  | ring (i : Nat) (es : List (Edit α))
  | rswap (i j : Nat)
  deriving Repr

def RingsEdit.apply (rs : List (List α)) : RingsEdit α → List (List α)
  | .ring i es => match rs[i]? with
      | some r => rs.set i (applyEdits es r)
      | none => rs
  | .rswap i j => match rs[i]?, rs[j]? with
      | some a, some b => (rs.set i b).set j a
      | _, _ => rs

def applyRingsEdits (es : List (RingsEdit α)) (rs : List (List α)) : List (List α) :=
  es.foldl RingsEdit.apply rs

/-! ### Rect -/

structure RectS where
  mn : Pt
  mx : Pt
  deriving Repr, DecidableEq

/-- `Rect::new`: component-wise `if c1.x < c2.x {(c1.x,c2.x)} else {(c2.x,c1.x)}`. -/
def rectNew (c1 c2 : Pt) : RectS :=
  let (mnx, mxx) := if c1.x < c2.x then (c1.x, c2.x) else (c2.x, c1.x)
  let (mny, mxy) := if c1.y < c2.y then (c1.y, c2.y) else (c2.y, c1.y)
  ⟨⟨mnx, mny⟩, ⟨mxx, mxy⟩⟩

def rectValid (r : RectS) : Bool := r.mn.x ≤ r.mx.x && r.mn.y ≤ r.mx.y

/-- `set_min`: assign, then `assert_valid_bounds` (`none` = panic). -/
def rectSetMin (r : RectS) (c : Pt) : Option RectS :=
  let r' : RectS := ⟨c, r.mx⟩
  if rectValid r' then some r' else none

def rectSetMax (r : RectS) (c : Pt) : Option RectS :=
  let r' : RectS := ⟨r.mn, c⟩
  if rectValid r' then some r' else none

inductive RectOp where
  | setMin (c : Pt)
  | setMax (c : Pt)

def rectStep (r : RectS) : RectOp → Option RectS
  | .setMin c => rectSetMin r c
  | .setMax c => rectSetMax r c

/-- Run setters until one panics; returns the states after each successful call and whether
a panic ended the history. -/
def rectRun (r : RectS) : List RectOp → List RectS × Bool
  | [] => ([], false)
  | op :: ops => match rectStep r op with
    | none => ([], true)
    | some r' => let (l, p) := rectRun r' ops; (r' :: l, p)

/-! ### Conversions -/

/-- `impl From<Rect> for Polygon` (starts at the min corner). -/
def rectToPolygonFrom (r : RectS) : List Pt :=
  [⟨r.mn.x, r.mn.y⟩, ⟨r.mx.x, r.mn.y⟩, ⟨r.mx.x, r.mx.y⟩, ⟨r.mn.x, r.mx.y⟩, ⟨r.mn.x, r.mn.y⟩]

/-- `Rect::to_polygon` (starts at `(max.x, min.y)`). -/
def rectToPolygon (r : RectS) : List Pt :=
  [⟨r.mx.x, r.mn.y⟩, ⟨r.mx.x, r.mx.y⟩, ⟨r.mn.x, r.mx.y⟩, ⟨r.mn.x, r.mn.y⟩, ⟨r.mx.x, r.mn.y⟩]

/-- `Rect::to_lines` -/
def rectToLines (r : RectS) : List (Pt × Pt) :=
  [(⟨r.mx.x, r.mn.y⟩, ⟨r.mx.x, r.mx.y⟩), (⟨r.mx.x, r.mx.y⟩, ⟨r.mn.x, r.mx.y⟩),
   (⟨r.mn.x, r.mx.y⟩, ⟨r.mn.x, r.mn.y⟩), (⟨r.mn.x, r.mn.y⟩, ⟨r.mx.x, r.mn.y⟩)]

/-- `impl From<Triangle> for Polygon` / `Triangle::to_polygon`: `[a,b,c,a]` through
`Polygon::new` (which closes — already closed). -/
def triangleToPolygon (a b c : Pt) : List Pt := close [a, b, c, a]

/-- `impl From<Line> for LineString`. -/
def lineToLineString (a b : Pt) : List Pt := [a, b]

end Geo.SM
