/-
  GeoModel.MonoPoly — C10: point location in a monotone piece (`MonoPoly`), `into_polygon`,
  `MonotonicPolygons: Intersects<Coord>`, and the *between-the-chains* specification.

  Anchors: geo/src/algorithm/monotone/mono_poly.rs (`bounding_segment`, `bounding_segment_lex`
           [added by the `fix:` commit], `calculate_coordinate_position`, `into_polygon`, `new`),
           geo/src/algorithm/monotone/mod.rs (`MonotonicPolygons::intersects`).

  The sweep that *builds* the chains (monotone/builder.rs, sweep.rs, segment.rs) is modelled separately in
  GeoModel/MonoBuildSweep.lean and GeoModel/MonoBuild.lean (compared with the code by `C10.monobuild`); for the
  point queries of `C10.mono` the pieces are taken from the implementation and decided by the tiling checker.

  The chains of a piece are strictly increasing in the lexicographic order (x, then y); they may
  contain vertical segments. After the fix the bounding segments are selected by comparing whole
  coordinates lexicographically (`lexLt`), which is what makes the orientation tests below valid
  for vertical segments too.
-/
import GeoModel.Segment
import GeoModel.Traverse
import GeoModel.Locate

namespace Geo.Mono

structure MonoPoly where
  top : List Pt
  bot : List Pt
  deriving Repr, DecidableEq

/-- `slice::partition_point(pred)` on a slice that is partitioned by `pred` (all elements
satisfying it come first — guaranteed for a sorted chain): the number of leading elements that
satisfy the predicate. (std's binary search is a trusted engine; on a partitioned slice its
result is this number.) -/
def partitionPoint (pred : Pt → Bool) : List Pt → Nat
  | [] => 0
  | c :: cs => if pred c then partitionPoint pred cs + 1 else 0

/-- `self.top.0[i]` (the Rust code panics when out of range; chains have ≥ 2 coordinates) -/
def nth (l : List Pt) (i : Nat) : Pt := l.getD i ⟨0, 0⟩

/-- `MonoPoly::bounding_segment(x)` — the public method, selecting by `x` only (unchanged by the
fix; no longer used by point location). `none` also stands for the out-of-range panic when `x` is
beyond the last coordinate. -/
def boundingSegment (m : MonoPoly) (x : Rat) : Option ((Pt × Pt) × (Pt × Pt)) :=
  let ti := partitionPoint (fun c => c.x < x) m.top
  if ti == 0 && (nth m.top 0).x != x then none else
  let bi := partitionPoint (fun c => c.x < x) m.bot
  if bi == 0 then some ((nth m.top 0, nth m.top 1), (nth m.bot 0, nth m.bot 1)) else
  if ti ≥ m.top.length || bi ≥ m.bot.length then none else
  some ((nth m.top (ti - 1), nth m.top ti), (nth m.bot (bi - 1), nth m.bot bi))

/-- `MonoPoly::bounding_segment_lex(coord)`: for each chain the segment `(p, q)` with
`p <lex coord ≤lex q`, the first segments if `coord` is the common start, `none` if `coord` is
before the start or after the end. -/
def boundingSegmentLex (m : MonoPoly) (p : Pt) : Option ((Pt × Pt) × (Pt × Pt)) :=
  let ti := partitionPoint (fun c => lexLt c p) m.top
  if ti == 0 && nth m.top 0 != p then none else
  let bi := partitionPoint (fun c => lexLt c p) m.bot
  if ti == m.top.length || bi == m.bot.length then none else
  if ti == 0 || bi == 0 then some ((nth m.top 0, nth m.top 1), (nth m.bot 0, nth m.bot 1)) else
  some ((nth m.top (ti - 1), nth m.top ti), (nth m.bot (bi - 1), nth m.bot bi))

/-- the two orientation tests of `calculate_coordinate_position`, given the bounding segments -/
def classify (ts te bs be p : Pt) (acc : PosAcc) : PosAcc :=
  match orient ts p te with
  | .cw => acc
  | .col => { inside := true, bcount := acc.bcount + 1 }
  | .ccw =>
    match orient bs p be with
    | .ccw => acc
    | .col => { inside := true, bcount := acc.bcount + 1 }
    | .cw => { acc with inside := true }

/-- `MonoPoly::calculate_coordinate_position` (after the fix) -/
def calcMono (m : MonoPoly) (p : Pt) (acc : PosAcc) : PosAcc :=
  match getBoundingRect (m.top ++ m.bot) with
  | none => acc
  | some (mn, mx) =>
    if !rectCoord mn mx p then acc else
    match boundingSegmentLex m p with
    | none => acc
    | some ((ts, te), (bs, be)) => classify ts te bs be p acc

/-- `coordinate_position` of one piece -/
def monoPos (m : MonoPoly) (p : Pt) : Pos := (calcMono m p ⟨false, 0⟩).result

/-- `MonoPoly: Intersects<Coord>` -/
def monoIntersects (m : MonoPoly) (p : Pt) : Bool := monoPos m p != .outside

/-- `MonotonicPolygons: Intersects<Coord>` -/
def monotonicIntersects (ms : List MonoPoly) (p : Pt) : Bool := ms.any (fun m => monoIntersects m p)

/-- `MonoPoly::into_polygon`: top chain followed by the reversed bottom chain without its first
coordinate; `Polygon::new` closes the ring if it is open. -/
def intoPolygon (m : MonoPoly) : Poly :=
  let ring := m.top ++ (m.bot.reverse.drop 1)
  let ring := if ring.head? = ring.getLast? then ring else
    match ring with
    | [] => ring
    | a :: _ => ring ++ [a]
  ⟨ring, []⟩

/-! ### Specification: between the chains -/

/-- `a ≤lex b` -/
def lexLe (a b : Pt) : Bool := !lexLt b a

/-- strictly increasing in the lexicographic order -/
def lexSorted : List Pt → Bool
  | a :: b :: rest => lexLt a b && lexSorted (b :: rest)
  | _ => true

/-- the documented precondition of `MonoPoly::new` that the point location relies on -/
def wellFormed (m : MonoPoly) : Bool :=
  lexSorted m.top && lexSorted m.bot && decide (m.top.length ≥ 2) && decide (m.bot.length ≥ 2) &&
  decide (m.top.head? = m.bot.head?) && decide (m.top.getLast? = m.bot.getLast?)

/-- the sides of `p` relative to a chain: some segment `(a, b)` of the chain with
`a ≤lex p ≤lex b` has `p` strictly to its left (above) / on its line / strictly to its right. -/
def sideAny (chain : List Pt) (p : Pt) (s : Ori) : Bool :=
  (segs chain).any (fun (a, b) => lexLe a p && lexLe p b && orient a b p == s)

def above (chain : List Pt) (p : Pt) : Bool := sideAny chain p .ccw
def onChain (chain : List Pt) (p : Pt) : Bool := sideAny chain p .col
def below (chain : List Pt) (p : Pt) : Bool := sideAny chain p .cw

/-- at `p` the chains are ordered (the documented precondition "the top chain is above the bottom
chain"): what lies above the top chain lies above the bottom chain, and what lies below the bottom
chain lies below the top chain. -/
def orderedAt (m : MonoPoly) (p : Pt) : Bool :=
  (!above m.top p || above m.bot p) && (!below m.bot p || below m.top p)

/-- `self.bounds.intersects(coord)` -/
def inBounds (m : MonoPoly) (p : Pt) : Bool :=
  match getBoundingRect (m.top ++ m.bot) with
  | none => false
  | some (mn, mx) => rectCoord mn mx p

/-- between-the-chains classification of a coordinate -/
def specPos (m : MonoPoly) (p : Pt) : Pos :=
  if onChain m.top p || onChain m.bot p then .onBoundary
  else if below m.top p && above m.bot p then .inside
  else .outside

end Geo.Mono
