/-
  Driver operations for C05 (planar area, winding order, orient).

  `same`  — implementation output vs the *model* (GeoModel/Area.lean, GeoModel/Winding.lean).
  `prop`  — implementation output vs the *specification* (textbook shoelace without shift,
            exact area sign of simple rings, ring-set preservation), independent of the model.

  Numeric regimes: when every coordinate is an integer and the per-case bound `exactBudget ≤ 2^52`
  holds, every f64 intermediate of the implementation is an integer or half-integer below 2^53,
  the f64 computation is exact and bit-equality is demanded. Otherwise
  `|impl − exact| ≤ 4·n·2^-53·D·(D+M) + n·2^-1021` per polygon (n coordinates, D bounding-box
  diagonal, M largest |coordinate|; the last term is the underflow floor), and for a collection of
  k members `2·Σ tolᵢ + 2·k·2^-53·Σ|areaᵢ|`.
-/
import GeoModel.Parse
import GeoModel.Area
import GeoModel.Winding
import GeoModel.SimpleRing

namespace Geo.Ops.C05
open Geo Geo.P

/-! ### tolerance and exactness -/

def two52 : Rat := 4503599627370496

def listMax (l : List Rat) : Rat := l.foldl rmax 0

/-- (D upper bound, M) of a coordinate list -/
def extent (cs : List Pt) : Rat × Rat :=
  match cs with
  | [] => (0, 0)
  | p :: _ =>
    let mnx := cs.foldl (fun m q => rmin m q.x) p.x
    let mxx := cs.foldl (fun m q => rmax m q.x) p.x
    let mny := cs.foldl (fun m q => rmin m q.y) p.y
    let mxy := cs.foldl (fun m q => rmax m q.y) p.y
    let w := mxx - mnx
    let h := mxy - mny
    let d := (sqrtInterval (w * w + h * h)).2
    let m := listMax (cs.map (fun q => rmax (rabs q.x) (rabs q.y)))
    (d, m)

def tolCoords (cs : List Pt) : Rat :=
  let n : Rat := (cs.length : Nat)
  let (d, m) := extent cs
  4 * n * uRound * d * (d + m) + n * pow2 (-1021)

def polyCoords (p : Poly) : List Pt := p.ext ++ p.ints.flatten

partial def tolGeom : Geom → Rat
  | .polygon p => tolCoords (polyCoords p)
  | .rect mn mx => tolCoords (polyCoords (rectToPoly mn mx))
  | .triangle a b c => tolCoords [a, b, c, a]
  | .multiPolygon ps =>
    let k : Rat := (ps.length : Nat)
    2 * sumRat (ps.map (fun p => tolCoords (polyCoords p))) +
      2 * k * uRound * sumRat (ps.map (fun p => rabs (specPoly p)))
  | .collection gs =>
    let k : Rat := (gs.length : Nat)
    2 * sumRat (gs.map tolGeom) + 2 * k * uRound * sumRat (gs.map specUnsigned)
  | _ => 0

def isInt (q : Rat) : Bool := q.den = 1 && rabs q ≤ two52

/-- `n·2·B²` for one ring after the shift to its first coordinate (`B` = largest shifted
|coordinate|): bounds every partial sum of the shoelace fold. `none` if a coordinate is not an
integer. -/
def ringBudget (r : List Pt) : Option Rat :=
  if !(r.all (fun p => isInt p.x && isInt p.y)) then none else
  match r with
  | [] => some 0
  | s :: _ =>
    let b := listMax (r.map (fun p => rmax (rabs (p.x - s.x)) (rabs (p.y - s.y))))
    some ((r.length : Nat) * 2 * b * b)

def sumOpt (l : List (Option Rat)) : Option Rat :=
  l.foldl (fun acc x => match acc, x with
    | some a, some b => some (a + b)
    | _, _ => none) (some 0)

def polyBudget (p : Poly) : Option Rat := sumOpt (ringBudget p.ext :: p.ints.map ringBudget)

partial def exactBudget : Geom → Option Rat
  | .polygon p => polyBudget p
  | .rect mn mx => polyBudget (rectToPoly mn mx)       -- covers `width*height` as well
  | .triangle a b c => ringBudget [a, b, c, a]
  | .multiPolygon ps => sumOpt (ps.map polyBudget)
  | .collection gs => sumOpt (gs.map exactBudget)
  | _ => some 0

def isExact (g : Geom) : Bool :=
  match exactBudget g with
  | some b => b ≤ two52
  | none => false

def near (exact : Bool) (tol a b : Rat) : Bool := if exact then a == b else rabs (a - b) ≤ tol

/-! ### C05.area -/

structure AreaOut where
  signed : Rat
  unsigned : Rat
  poly : Option (Rat × Rat)

def areaOut : P AreaOut := do
  lit "signed"; let s ← rat
  lit "unsigned"; let u ← rat
  let t ← peek?
  if t == some "poly" then do
    let _ ← tok; let a ← rat; let b ← rat
    pure ⟨s, u, some (a, b)⟩
  else pure ⟨s, u, none⟩

def tagOf (g : Geom) : String := (g.str.splitOn " ").head!

def polyClass (p : Poly) : String :=
  let e := specRing p.ext
  let hs := p.ints.map specRing
  "ext=" ++ (if e > 0 then "ccw" else if e < 0 then "cw" else "flat") ++
  " holes=" ++ toString p.ints.length ++
  (if hs.any (· > 0) && hs.any (· < 0) then " mixed-holes" else
   if hs.any (· > 0) then " ccw-holes" else if hs.any (· < 0) then " cw-holes" else "")

/-- The polygon-form model/spec of a Rect or Triangle. -/
def polyForm : Geom → Option Poly
  | .rect mn mx => some (rectToPoly mn mx)
  | .triangle a b c => some (triToPoly a b c)
  | _ => none

def propArea (g : Geom) (o : AreaOut) (exact : Bool) (tol : Rat) : String :=
  let ss := specSigned g
  let su := specUnsigned g
  let ty := tagOf g
  let coll := ty == "MPG" || ty == "GC"
  if !near exact tol o.signed ss then
    (if coll then "FAIL:collection-signed-ne-sum-of-members"
     else if ty == "TR" then "FAIL:triangle-signed-ne-shoelace"
     else if ty == "RC" then "FAIL:rect-signed-ne-shoelace"
     else "FAIL:signed-ne-shoelace")
  else if !near exact tol o.unsigned su then
    (if coll then "FAIL:collection-unsigned-ne-sum-of-members" else "FAIL:unsigned-ne-abs-shoelace")
  else if !coll && o.unsigned != rabs o.signed then "FAIL:unsigned-ne-abs-signed"
  else
    let formClause := match o.poly, polyForm g with
      | some (ps, pu), some pf =>
        if !near exact tol ps (specPoly pf) || !near exact tol pu (rabs (specPoly pf)) then "FAIL:polygon-form-ne-shoelace"
        else if !near exact (2 * tol) ps o.signed || !near exact (2 * tol) pu o.unsigned then "FAIL:area-ne-polygon-form"
        else ""
      | none, none => ""
      | _, _ => "FAIL:polygon-form-missing"
    if formClause != "" then formClause
    else match g with
      | .polygon p =>
        let e := specRing p.ext
        let holes := sumRat (p.ints.map (fun h => rabs (specRing h)))
        -- sign clause: in domain when the holes do not outweigh the exterior and the exact area
        -- is resolvable (always, in the exact regime)
        if holes < rabs e && (exact || rabs ss > tol) then
          if (o.signed > 0) == (e > 0) && (o.signed < 0) == (e < 0) then "PASS"
          else "FAIL:sign-ne-exterior-winding"
        else "PASS"
      | _ => "PASS"

partial def depth : Geom → Nat
  | .collection gs => 1 + (gs.map depth).foldl max 0
  | _ => 0

partial def allCoords : Geom → List Pt
  | .point p => [p]
  | .line a b => [a, b]
  | .lineString cs => cs
  | .polygon p => polyCoords p
  | .multiPoint ps => ps
  | .multiLineString ls => ls.flatten
  | .multiPolygon ps => (ps.map polyCoords).flatten
  | .rect mn mx => [mn, mx]
  | .triangle a b c => [a, b, c]
  | .collection gs => (gs.map allCoords).flatten

/-- `impl Area for Polygon` branches on the sign of the *rounded* exterior area; when holes are
present the result jumps by `2·(Σ|holes| − |ext|)` across that branch. Outside the exact regime an
exterior whose exact area is below the rounding tolerance is a near-tie (DESIGN §3.3). -/
def polyNearTie (p : Poly) : Bool :=
  rabs (specRing p.ext) ≤ tolCoords (polyCoords p) &&
    sumRat (p.ints.map (fun h => rabs (specRing h))) > 0

partial def geomNearTie : Geom → Bool
  | .polygon p => polyNearTie p
  | .multiPolygon ps => ps.any polyNearTie
  | .collection gs => gs.any geomNearTie
  | _ => false

def handleArea (inp out : List String) : String :=
  match P.run geometry inp, P.run areaOut out with
  | some g, some o =>
    let exact := isExact g
    let tol := tolGeom g
    if !exact && geomNearTie g then skip "near-tie-exterior-sign" else
    let ms := signedArea g
    let mu := unsignedArea g
    let formSame := match o.poly, polyForm g with
      | some (ps, pu), some pf => near exact tol ps pf.signedArea && near exact tol pu pf.unsignedArea
      | none, none => true
      | _, _ => false
    let same := near exact tol o.signed ms && near exact tol o.unsigned mu && formSame
    let (d, m) := extent (allCoords g)
    let cls := "type=" ++ tagOf g ++ (if exact then " regime=G" else " regime=R") ++
      (match g with | .polygon p => " " ++ polyClass p | _ => "") ++
      (if depth g > 0 then " depth=" ++ toString (depth g) else "") ++
      (if d > 0 && m ≥ 1048576 * d then " far" else "") ++
      (if specUnsigned g == 0 then " triv" else "")
    reply same (propArea g o exact tol) cls
      ("signed " ++ ratStr ms ++ " unsigned " ++ ratStr mu) (String.intercalate " " out)
  | _, _ => "ERR parse"

/-! ### C05.wind -/

def optWO : P (Option WO) := do
  let t ← tok
  match t with
  | "none" => pure none
  | "Clockwise" => pure (some .cw)
  | "CounterClockwise" => pure (some .ccw)
  | _ => fail

structure WindOut where
  w : Option WO
  cw : Bool
  ccw : Bool

def windOut : P WindOut := do
  let w ← optWO
  lit "cw"; let a ← bool
  lit "ccw"; let b ← bool
  pure ⟨w, a, b⟩

/-- the winding a simple ring *must* have: the sign of its exact shoelace area -/
def areaWinding (r : List Pt) : Option WO :=
  let a := shoelace2 r
  if a > 0 then some .ccw else if a < 0 then some .cw else none

def propWind (r : List Pt) (o : WindOut) : String :=
  if o.cw != (o.w == some .cw) || o.ccw != (o.w == some .ccw) then "FAIL:is-cw-ccw-inconsistent"
  else if simpleRing r then
    (if o.w == areaWinding r then "PASS"
     else if o.w.isNone then "FAIL:simple-ring-winding-none"
     else "FAIL:simple-ring-winding-ne-area-sign")
  else "PASS"

def pivotClass (r : List Pt) : String :=
  match leastIndex r with
  | none => "pivot=na"
  | some (i, p) =>
    let occ := (r.filter (· == p)).length
    "pivot=" ++ (if i == 0 then "first" else if i + 2 == r.length then "last" else "mid") ++
    (if occ > 2 || (occ == 2 && i != 0) then " pivot-repeated" else "")

def ringClass (r : List Pt) : String :=
  if r.length < 4 then "short triv"
  else if !ringClosed r then "open triv"
  else (if simpleRing r then "simple" else "nonsimple") ++ " " ++ pivotClass r ++
    (if (dedupConsec r).length != r.length then " dup" else "")

def regimeOf (cs : List Pt) : String :=
  if cs.all (fun p => isInt p.x && isInt p.y) then "regime=G" else "regime=A"

def handleWind (inp out : List String) : String :=
  match P.run pts inp, P.run windOut out with
  | some r, some o =>
    let mw := windingOrder r
    let same := o.w == mw && o.cw == isCw r && o.ccw == isCcw r
    let (d, m) := extent r
    let cls := "ring=" ++ ringClass r ++ " w=" ++ woStr mw ++ " " ++ regimeOf r ++
      (if d > 0 && m ≥ 1048576 * d then " far" else "")
    reply same (propWind r o) cls (woStr mw) (String.intercalate " " out)
  | _, _ => "ERR parse"

/-! ### C05.orient -/

def direction : P Direction := do
  let t ← tok
  match t with
  | "default" => pure .default
  | "reversed" => pure .reversed
  | _ => fail

def wantSign (w : WO) (r : List Pt) : Bool :=
  match w with
  | .ccw => shoelace2 r > 0
  | .cw => shoelace2 r < 0

/-- clauses for one polygon: input `p`, implementation output `q` -/
def propOrientPoly (d : Direction) (p q : Poly) : String :=
  let ringOk (a b : List Pt) : Bool := b == a || b == a.reverse
  if q.ints.length != p.ints.length then "FAIL:ring-count-changed"
  else if !ringOk p.ext q.ext || !(List.zip p.ints q.ints).all (fun (a, b) => ringOk a b) then
    "FAIL:ring-not-same-or-reversed"
  else if !(q.ext :: q.ints).all ringClosed then "FAIL:ring-not-closed"
  else if simpleRing q.ext && !wantSign d.extW q.ext then "FAIL:exterior-wrong-winding"
  else if q.ints.any (fun h => simpleRing h && !wantSign d.intW h) then "FAIL:hole-wrong-winding"
  else "PASS"

def firstFail (l : List String) : String :=
  match l.find? (· != "PASS") with
  | some f => f
  | none => "PASS"

def orientClass (p q : Poly) : String :=
  let flips := ((p.ext, q.ext) :: List.zip p.ints q.ints).filter (fun (a, b) => a != b)
  (if p.ext != q.ext then "ext-flipped" else "ext-kept") ++
  " flipped=" ++ toString flips.length ++
  " simple-rings=" ++ toString ((p.ext :: p.ints).filter simpleRing).length ++ "/" ++
    toString (p.ints.length + 1)

def handleOrient (inp out : List String) : String :=
  let pin : P (Direction × Geom) := do let d ← direction; let g ← geometry; pure (d, g)
  match P.run pin inp, P.run rawGeometry out with
  | some (d, .polygon p), some (.polygon q) =>
    let m := orientPoly d p
    let cls := "type=PG dir=" ++ (if d == .default then "default" else "reversed") ++ " " ++ orientClass p q ++
      " " ++ regimeOf (polyCoords p) ++
      (if !(p.ext :: p.ints).any simpleRing then " triv" else "")
    reply (m == q) (propOrientPoly d p q) cls (Geom.polygon m).str (String.intercalate " " out)
  | some (d, .multiPolygon ps), some (.multiPolygon qs) =>
    let m := orientMulti d ps
    let prop := if ps.length != qs.length then "FAIL:member-count-changed"
      else firstFail ((List.zip ps qs).map (fun (p, q) => propOrientPoly d p q))
    let cls := "type=MPG dir=" ++ (if d == .default then "default" else "reversed") ++
      " members=" ++ toString ps.length ++ " " ++ regimeOf ((ps.map polyCoords).flatten) ++
      (if !(ps.any (fun p => (p.ext :: p.ints).any simpleRing)) then " triv" else "")
    reply (m == qs) prop cls (Geom.multiPolygon m).str (String.intercalate " " out)
  | some _, some _ => "ERR orient-type"
  | _, _ => "ERR parse"

/-- `C05.triwo <a> <b> <c> => none|Clockwise|CounterClockwise`: `triangle_winding_order` against the exact sign of
`(b - a) × (c - a)` (twice the signed area of the triangle ring). -/
def handleTriWo (inp out : List String) : String :=
  let pin : P (Pt × Pt × Pt) := do let a ← pt; let b ← pt; let c ← pt; pure (a, b, c)
  match P.run pin inp, out with
  | some (a, b, c), [w] =>
    let cr := (b.x - a.x) * (c.y - a.y) - (b.y - a.y) * (c.x - a.x)
    let m := if cr > 0 then "CounterClockwise" else if cr < 0 then "Clockwise" else "none"
    let prop :=
      if w == m then "PASS"
      else if cr == 0 then "FAIL:triangle-winding-of-flat-triangle"
      else if w == "none" then "FAIL:triangle-winding-none-for-triangle-with-area"
      else "FAIL:triangle-winding-wrong-sign"
    -- K10: `robust::orient2d` is exact only in the absence of underflow / overflow of the coordinate products
    let uf := [a, b, c].any (fun p => (p.x != 0 && rabs p.x < pow2 (-400)) || (p.y != 0 && rabs p.y < pow2 (-400)) ||
      rabs p.x > pow2 400 || rabs p.y > pow2 400)
    let cls := "op=triwo " ++ (if cr == 0 then "flat" else "area") ++ " " ++ regimeOf [a, b, c] ++
      (if uf then " underflow-range" else "")
    reply (w == m) prop cls m w
  | _, _ => "ERR parse"

def handle (op : String) (inp out : List String) : Option String :=
  if op.startsWith "C05." && out == ["panic"] then some (reply false "FAIL:panic" "" "no-panic" "panic") else
  match op with
  | "C05.area" => some (handleArea inp out)
  | "C05.wind" => some (handleWind inp out)
  | "C05.orient" => some (handleOrient inp out)
  | "C05.triwo" => some (handleTriWo inp out)
  | _ => none

end Geo.Ops.C05
