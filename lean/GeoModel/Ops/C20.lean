/-
  Driver operations for C20 (results are a function of the inputs alone).

    C20.stitch <n> <tri>…   => <res> || <res>      both in-process evaluations, in full
    C20.det <kind> <args…>  => <digest> <digest>   both in-process evaluations, digested
    C20.xproc <inner case>  => <label> <digest> …  the same case in fresh processes / pool sizes

  The property checker (`prop=`) is evaluated on the implementation's answers only: all
  evaluations of one case must be identical token for token (exact bit patterns, member order).
  For `C20.stitch` the first answer is also compared with the model (`Geo.Stitch.stitchTriangles`,
  containment instantiated with the DE-9IM specification).
-/
import GeoModel.Parse
import GeoModel.RelateSpec
import GeoModel.Valid
import GeoModel.Stitch

namespace Geo.Ops.C20
open Geo Geo.P Geo.Stitch

/-- `IntersectionMatrix::is_contains`: `T*****FF*` -/
def isContains (m : IM) : Bool := m.ii != .empty && m.ei == .empty && m.eb == .empty

/-- geo's relate-backed `contains`, through the specification -/
def contRel : Cont :=
  ⟨fun o r => isContains (relateSpec (.polygon ⟨o, []⟩) (.lineString r)),
   fun o r => isContains (relateSpec (.polygon ⟨o, []⟩) (.polygon ⟨r, []⟩))⟩

inductive Res where
  | ok (ps : List Poly)
  | err
  | panic
  deriving DecidableEq

def Res.str : Res → String
  | .ok ps => "ok " ++ toString ps.length ++ String.join (ps.map (fun p => " " ++ p.str))
  | .err => "err"
  | .panic => "panic"

def resP : P Res := do
  let t ← tok
  match t with
  | "ok" => do let ps ← counted rawPoly; pure (.ok ps)
  | "err" => pure .err
  | "panic" => pure .panic
  | _ => fail

def triP : P Tri := do let a ← pt; let b ← pt; let c ← pt; pure ⟨a, b, c⟩

/-- split the output tokens at `||` -/
def splitBars (ts : List String) : List (List String) :=
  let rec go (cur : List String) (acc : List (List String)) : List String → List (List String)
    | [] => (cur.reverse :: acc).reverse
    | t :: rest => if t = "||" then go [] (cur.reverse :: acc) rest else go (t :: cur) acc rest
  go [] [] ts

/-- f64 evaluates `(b-a)×(c-a)` exactly on quarter-grid coordinates below 2^22 -/
def smallDyadic (q : Rat) : Bool := (q.den = 1 || q.den = 2 || q.den = 4) && q.num.natAbs < 4194304
def triExact (t : Tri) : Bool :=
  [t.a, t.b, t.c].all (fun p => smallDyadic p.x && smallDyadic p.y)

def isPermOf [DecidableEq α] : List α → List α → Bool
  | [], l => l.isEmpty
  | a :: as, l => if a ∈ l then isPermOf as (l.erase a) else false

/-- same polygons up to the order of the polygons and of each polygon's interiors -/
def polyKey (p : Poly) : Poly := p
def sameUpToOrder (a b : List Poly) : Bool :=
  a.length == b.length &&
  a.all (fun p => b.any (fun q => p.ext == q.ext && isPermOf p.ints q.ints)) &&
  b.all (fun q => a.any (fun p => p.ext == q.ext && isPermOf p.ints q.ints))

def sizeTag (n : Nat) : String :=
  if n < 100 then "size<100" else if n < 1000 then "size<1k" else if n < 20000 then "size<20k"
  else if n < 70000 then "size<70k" else "size>=70k"

def handleStitch (inp out : List String) : String :=
  match P.run (counted triP) inp, splitBars out with
  | some tris, [o1, o2] =>
    match P.run resP o1, P.run resP o2 with
    | some r1, some r2 =>
      if !(tris.all triExact) then skip "inexact-cross" else
      let prop :=
        if o1 == o2 then "PASS"
        else match r1, r2 with
          | .ok p1, .ok p2 =>
            if sameUpToOrder p1 p2 then "FAIL:member-order-differs-between-calls"
            else "FAIL:result-differs-between-calls"
          | _, _ => "FAIL:result-differs-between-calls"
      let ringsO := stitchRingsFromLines (boundaryOf tris)
      let rings := ringsO.getD []
      -- relate is tied to the specification for valid operands only
      let dom := rings.all (fun r => polyValid ⟨r, []⟩ &&
        (splitExterior r).all (fun s => polyValid ⟨s, []⟩))
      let model : Res := match stitchTriangles contRel tris with
        | some ps => .ok ps
        | none => .err
      let same := r1 == model
      let tbl := parentsTable contRel rings
      let depth := tbl.foldl (fun m l => max m l.length) 0
      let nh := match r1 with | .ok ps => (ps.map (fun (p : Poly) => p.ints.length)).foldl (· + ·) 0 | _ => 0
      let np := match r1 with | .ok ps => ps.length | _ => 0
      let tags := "stitch tris=" ++ toString tris.length ++ " rings=" ++ toString rings.length ++
        " polys=" ++ toString np ++ " holes=" ++ toString nh ++ " depth=" ++ toString depth ++
        (match r1 with | .ok _ => "" | .err => " err" | .panic => " panic") ++
        (if dom then "" else " ring-not-simple") ++
        (if rings.length ≤ 1 then " triv" else "")
      if !same && !dom && prop == "PASS" then skip "ring-not-simple" else
      reply same prop tags model.str r1.str
    | _, _ => "ERR parse-out"
  | _, _ => "ERR parse"

def kindTag (inp : List String) : String :=
  match inp with
  | k :: s :: _ =>
    if k == "bool" || k == "tri" || k == "simplify" then "kind=" ++ k ++ "." ++ s else "kind=" ++ k
  | k :: _ => "kind=" ++ k
  | [] => "kind=none"

def handleDet (inp out : List String) : String :=
  match out with
  | [d1, d2] =>
    let same := d1 == d2
    let prop := if same then "PASS" else "FAIL:digest-differs-between-calls"
    let tags := kindTag inp ++ " " ++ sizeTag inp.length ++ (if d1 == "panic" then " panic" else "")
    reply same prop tags d1 d2
  | _ => "ERR parse-out"

def pairs : List String → Option (List (String × String))
  | [] => some []
  | l :: d :: rest => (pairs rest).map ((l, d) :: ·)
  | _ => none

def handleXproc (inp out : List String) : String :=
  match pairs out, inp with
  | some (p :: ps), _ :: inner =>
    let all := p :: ps
    let same := all.all (fun q => q.2 == p.2)
    let thr := all.filter (fun q => q.1.startsWith "t")
    let thrSame := match thr with | [] => true | t :: ts => ts.all (fun q => q.2 == t.2)
    let prop := if same then "PASS"
      else if !thrSame then "FAIL:result-differs-across-thread-pool-sizes"
      else "FAIL:result-differs-across-processes"
    let tags := "xproc runs=" ++ toString all.length ++ " " ++
      (match inp with | "C20.stitch" :: _ => "kind=stitch" | _ => kindTag inner) ++ " " ++ sizeTag inp.length
    reply same prop tags p.2 (String.intercalate " " (all.map (fun q => q.1 ++ ":" ++ q.2)))
  | _, _ => "ERR parse-out"

def handle (op : String) (inp out : List String) : Option String :=
  match op with
  | "C20.stitch" => some (handleStitch inp out)
  | "C20.det" => some (handleDet inp out)
  | "C20.xproc" => some (handleXproc inp out)
  | _ => none

end Geo.Ops.C20
