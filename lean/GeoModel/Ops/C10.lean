/-
  Driver operations for C10 (triangulations and monotone subdivision tile the polygon).

    C10.earcut <PG>                        => verts <n> <num…> idx <m> <i…> tris <t> <TR…>… | panic
    C10.cdt <PG|MPG>                       => ct <ok n TR…|err> co <ok n TR…|err> un <ok n TR…|err>
    C10.mono <PG|MPG> Q x0 y0 step nx ny   => n <k> (top <pts> bot <pts> poly <k> <ring>…)* pi <bits> mi <bits> pos <chars>*
    C10.stitch <earcut|cdt> <PG|MPG>       => tris <ok n TR…|err> res <ok <MPG…>|err>
    C10.monobuild <PG|MPG>                 => n <k> (top <pts> bot <pts>)* | panic
-/
import GeoModel.Parse
import GeoModel.Traverse
import GeoModel.RelateSpec
import GeoModel.Valid
import GeoModel.Hull
import GeoModel.Area
import GeoModel.Triangulate
import GeoModel.MonoPoly
import GeoModel.Tiling
import GeoModel.MonoBuild

namespace Geo.Ops.C10
open Geo Geo.P Geo.Tri Geo.Mono Geo.Tiling

def triP : P Tri := do lit "TR"; let a ← pt; let b ← pt; let c ← pt; pure (a, b, c)

def resTris : P (Option (List Tri)) := do
  let t ← tok
  match t with
  | "ok" => do let ts ← counted triP; pure (some ts)
  | "err" => pure none
  | _ => fail

def triStr (t : Tri) : String := "TR " ++ t.1.str ++ " " ++ t.2.1.str ++ " " ++ t.2.2.str
def trisStr (ts : List Tri) : String := toString ts.length ++ String.join (ts.map (fun t => " " ++ triStr t))
def optTrisStr : Option (List Tri) → String
  | some ts => "ok " ++ trisStr ts
  | none => "err"

def ringOf (t : Tri) : List Pt := triRing t.1 t.2.1 t.2.2

def tagOf (g : Geom) : String := (g.str.splitOn " ").head!

def maxAbs (pts : List Pt) : Rat := pts.foldl (fun m p => rmax m (rmax (rabs p.x) (rabs p.y))) 0

/-- two different rings of the polygon meet (ear-cut's documented domain excludes this) -/
def ringsTouch (p : Poly) : Bool :=
  let rs := p.rings.zipIdx
  rs.any (fun (r, i) => rs.any (fun (r', j) =>
    i < j && (segs r).any (fun s => (segs r').any (fun t => lineLine s.1 s.2 t.1 t.2))))

def hasCollinearVertex (r : List Pt) : Bool :=
  let c := r.dropLast
  let rec go : List Pt → Bool
    | a :: b :: c :: t => cross a b c == 0 || go (b :: c :: t)
    | _ => false
  go (c ++ c.take 2)

def hasVertical (r : List Pt) : Bool := (segs r).any (fun (a, b) => a.x == b.x && a != b)

def polysOf : Geom → Option (List Poly)
  | .polygon p => some [p]
  | .multiPolygon ps => some ps
  | _ => none

/-- some vertex of one ring lies in the *interior* of an edge of another ring (of another member polygon, or
of the same polygon: a hole touching the shell, or another hole, at a point that is a vertex of only one of them) -/
def vertexOnForeignEdge (ps : List Poly) : Bool :=
  let rings := ps.flatMap Poly.rings
  rings.zipIdx.any (fun (r, i) => rings.zipIdx.any (fun (q, j) =>
    i != j && r.any (fun v =>
      (segs q).any (fun (a, b) => lineCoord a b v && v != a && v != b))))

def shapeTags (g : Geom) : String :=
  match polysOf g with
  | none => ""
  | some ps =>
    let rings := ps.flatMap Poly.rings
    let cs := coordsIter g
    "type=" ++ tagOf g ++ " n=" ++ toString cs.length ++
    " holes=" ++ toString ((ps.map (fun p => p.ints.length)).sum) ++
    (if rings.any hasCollinearVertex then " collinear" else "") ++
    (if rings.any hasVertical then " vertical" else "") ++
    (if ps.any ringsTouch then " rings-touch" else "") ++
    (if vertexOnForeignEdge ps then " vertex-on-foreign-edge" else "") ++
    (if maxAbs cs > 512 then " big" else " grid")

def clauseStr (c : String) : String := if c == "" then "PASS" else "FAIL:" ++ c

/-! #### ear-cut -/

structure EarcutOut where
  verts : List Rat
  idx : List Nat
  tris : List Tri

def earcutOut : P (Option EarcutOut) := do
  let t ← tok
  match t with
  | "panic" => pure none
  | "verts" => do
    let v ← counted rat
    lit "idx"; let i ← counted nat
    lit "tris"; let ts ← counted triP
    pure (some ⟨v, i, ts⟩)
  | _ => fail

def handleEarcut (inp out : List String) : String :=
  match P.run geometry inp, P.run earcutOut out with
  | some (.polygon p), some o =>
    if !polyValid p then skip "invalid-polygon" else
    if ringsTouch p then skip "rings-touch-outside-earcut-domain" else
    let g : Geom := .polygon p
    let mi := polygonToEarcutInput p
    match o with
    | none => reply false "FAIL:earcut-panic" (shapeTags g) "no-panic" "panic"
    | some o =>
      let mt := earcutTriangles mi.vertices o.idx
      let same := o.verts == mi.vertices && mt == some o.tris
      let cnt := (dedupRings p).count
      let prop :=
        if !(o.idx.all (· < cnt)) then "FAIL:engine-index-out-of-range"
        else if o.idx.length % 3 != 0 then "FAIL:engine-index-count-not-multiple-of-three"
        else clauseStr (tilesClause .targetCoordinate (o.tris.map ringOf) g)
      let cls := shapeTags g ++ " tris=" ++ toString o.tris.length ++
        (if o.tris.any (fun t => pieceArea (ringOf t) == 0) then " degenerate-tri" else "")
      reply same prop cls
        ("verts " ++ toString mi.vertices.length ++ " holes " ++ toString mi.interiorIndexes ++ " tris " ++ optTrisStr mt)
        ("verts " ++ toString o.verts.length ++ " tris " ++ trisStr o.tris)
  | some _, some _ => "ERR earcut-needs-polygon"
  | _, _ => "ERR parse"

/-! #### Delaunay (spade) -/

structure CdtOut where
  ct : Option (List Tri)
  co : Option (List Tri)
  un : Option (List Tri)

def cdtOut : P CdtOut := do
  lit "ct"; let a ← resTris
  lit "co"; let b ← resTris
  lit "un"; let c ← resTris
  pure ⟨a, b, c⟩

/-- `Contains<Point>` of Polygon / MultiPolygon: strictly inside some member -/
def containsPt (g : Geom) (q : Pt) : Bool :=
  match g with
  | .polygon p => coordPos (.polygon p) q == .inside
  | .multiPolygon ps => ps.any (fun p => coordPos (.polygon p) q == .inside)
  | _ => false

/-- the centroid is computed in f64: the filter is decided unless moving the exact centroid by a
relative `2^-40` changes the answer -/
def centroidNearTie (g : Geom) (scale : Rat) (t : Tri) : Bool :=
  let c := centroid t
  let d := scale / 1099511627776
  let v := containsPt g c
  [(d, 0), (-d, 0), (0, d), (0, -d)].any (fun (dx, dy) => containsPt g ⟨c.x + dx, c.y + dy⟩ != v)

def hullTarget (pts : List Pt) : Option Geom :=
  if !Hull.hasTriangle pts then some (.polygon ⟨[], []⟩) else
  let h := Hull.convexHull id pts
  if Hull.isStrictHull h pts then some (.polygon ⟨h, []⟩) else none

def tilesOpt (name : String) (r : Option (List Tri)) (target : Geom) : String :=
  match r with
  | none => name ++ "-error"
  | some ts =>
    let c := tilesClause .targetCoordinate (ts.map ringOf) target
    if c == "" then "" else name ++ "-" ++ c

/-- vertices used for the hull target must be coordinates of the geometry; `tilesClause` checks
them against the target's own coordinates, so the hull target carries exactly hull vertices and the
corner rule is evaluated against the geometry separately. -/
def cornersOf (g : Geom) (r : Option (List Tri)) : Bool :=
  match r with
  | none => true
  | some ts => ts.all (fun t => (ringOf t).all (fun v => (coordsIter g).contains v))

def hullTiles (name : String) (g : Geom) (hull : Geom) (r : Option (List Tri)) : String :=
  match r with
  | none => name ++ "-error"
  | some ts =>
    if !cornersOf g r then name ++ "-corner-not-a-polygon-vertex" else
    let c := tilesClause .notOutside (ts.map ringOf) hull
    if c == "" then "" else name ++ "-" ++ c

def firstNonEmpty : List String → String
  | [] => ""
  | s :: rest => if s != "" then s else firstNonEmpty rest

def handleCdt (inp out : List String) : String :=
  if out == ["panic"] then
    (match P.run geometry inp with
     | some g => if validGeom g then reply false "FAIL:delaunay-panic" (shapeTags g) "no-panic" "panic" else skip "invalid-polygon"
     | none => "ERR parse") else
  match P.run geometry inp, P.run cdtOut out with
  | some g, some o =>
    if polysOf g == none then "ERR cdt-needs-polygon" else
    if !validGeom g then skip "invalid-polygon" else
    if isEmptyG g then skip "empty" else
    let pts := coordsIter g
    -- `DelaunayTriangulationConfig::default()` snaps vertices closer than `snap_radius = 1e-4` (an absolute length)
    -- onto each other: polygons whose distinct vertices come that close are outside what the default entry points
    -- promise (documented snapping), e.g. every polygon at a 2^-27 scale
    -- (under a scaled-down case the harness scales the snap radius with the coordinates)
    let sc : Rat := match P.scale inp with | some (k, _) => if k < 1 then k else 1 | none => 1
    let snap2 : Rat := (sc / 2500) * (sc / 2500)
    if pts.any (fun a => pts.any (fun b => a != b && dist2 a b ≤ snap2)) then skip "vertices-within-snap-radius" else
    match hullTarget pts with
    | none => "ERR hull-oracle-failed"
    | some hull =>
      let scale := rmax 1 (maxAbs pts)
      if (o.co.getD []).any (centroidNearTie g scale) then skip "near-tie-centroid-on-boundary" else
      let model := o.co.map (constrainedFilter (containsPt g))
      let same := model == o.ct
      let prop := firstNonEmpty [
        tilesOpt "constrained" o.ct g,
        hullTiles "constrained-outer" g hull o.co,
        hullTiles "unconstrained" g hull o.un]
      let cls := shapeTags g ++ " ct=" ++ toString (o.ct.getD []).length ++
        " co=" ++ toString (o.co.getD []).length ++ " un=" ++ toString (o.un.getD []).length
      reply same (clauseStr prop) cls ("ct " ++ optTrisStr model) ("ct " ++ optTrisStr o.ct)
  | _, _ => "ERR parse"

/-! #### monotone subdivision -/

structure PieceOut where
  top : List Pt
  bot : List Pt
  poly : Poly

structure MonoOut where
  pieces : List PieceOut
  pi : String
  mi : String
  pos : List String

def monoOut : P (Option MonoOut) := do
  let t ← tok
  match t with
  | "panic" => pure none
  | "n" => do
    let k ← nat
    let ps ← rep k (do
      lit "top"; let a ← pts
      lit "bot"; let b ← pts
      lit "poly"; let p ← rawPoly
      pure (⟨a, b, p⟩ : PieceOut))
    lit "pi"; let pi ← tok
    lit "mi"; let mi ← tok
    lit "pos"; let pos ← rep k tok
    pure (some ⟨ps, pi, mi, pos⟩)
  | _ => fail

structure Lattice where
  x0 : Rat
  y0 : Rat
  step : Rat
  nx : Nat
  ny : Nat

def latticeP : P Lattice := do
  lit "Q"; let x ← rat; let y ← rat; let s ← rat; let nx ← nat; let ny ← nat
  pure ⟨x, y, s, nx, ny⟩

def Lattice.points (l : Lattice) : List Pt :=
  (List.range l.ny).flatMap (fun (j : Nat) => (List.range l.nx).map (fun (i : Nat) =>
    (⟨l.x0 + l.step * ((i : Int) : Rat), l.y0 + l.step * ((j : Int) : Rat)⟩ : Pt)))

def bitsStr (bs : List Bool) : String := String.ofList (bs.map (fun b => if b then '1' else '0'))

def posChar : Pos → Char
  | .inside => 'I' | .onBoundary => 'B' | .outside => 'O'

def handleMono (inp out : List String) : String :=
  let pin : P (Geom × Lattice) := do let g ← geometry; let l ← latticeP; pure (g, l)
  match P.run pin inp, P.run monoOut out with
  | some (g, lat), some o =>
    if polysOf g == none then "ERR mono-needs-polygon" else
    if !validGeom g then skip "invalid-polygon" else
    if isEmptyG g then skip "empty" else
    match o with
    | none => reply false "FAIL:monotone-subdivision-panic" (shapeTags g) "no-panic" "panic"
    | some o =>
      let qs := lat.points
      let ms : List MonoPoly := o.pieces.map (fun p => ⟨p.top, p.bot⟩)
      let spec := qs.map (fun q => locate g q != .outside)
      let modelMi := bitsStr (qs.map (monotonicIntersects ms))
      let modelPos := ms.map (fun m => String.ofList (qs.map (fun q => posChar (monoPos m q))))
      let modelPolys := ms.map intoPolygon
      let same := modelMi == o.mi && modelPos == o.pos && modelPolys == o.pieces.map (·.poly)
      let rings := o.pieces.map (fun p => p.poly.ext)
      let specBits := bitsStr spec
      -- per piece: the code's position (through the model) against exact point location of the piece
      let pieceSpecOk := ms.all (fun m =>
        let pg : Geom := .polygon (intoPolygon m)
        qs.all (fun q => orderedAt m q && monoPos m q == locate pg q && monoPos m q == specPos m q))
      let prop :=
        if !(ms.all wellFormed) then "FAIL:piece-chains-not-lexicographically-increasing"
        else if !(o.pieces.all (fun p => p.poly.ints.isEmpty)) then "FAIL:piece-has-interior-rings"
        else
          let c := tilesClause .notOutside rings g
          if c != "" then "FAIL:" ++ c
          else if o.mi != o.pi then "FAIL:subdivision-intersects-differs-from-polygon-intersects"
          else if o.mi != specBits then "FAIL:subdivision-and-polygon-intersects-both-wrong"
          else "PASS"
      let cls := shapeTags g ++ " pieces=" ++ toString ms.length ++ " queries=" ++ toString qs.length ++
        (if ms.any (fun m => hasVertical m.top || hasVertical m.bot) then " chain-vertical" else "") ++
        (if pieceSpecOk then " piecepos=spec" else " piecepos=differs")
      reply same prop cls
        ("mi " ++ modelMi ++ " pos " ++ String.intercalate " " modelPos)
        ("mi " ++ o.mi ++ " pos " ++ String.intercalate " " o.pos)
  | _, _ => "ERR parse"

/-! #### the builder of the monotone pieces against its model -/

def buildOut : P (Option (List MonoPoly)) := do
  let t ← tok
  match t with
  | "panic" => pure none
  | "n" => do
    let k ← nat
    let ps ← rep k (do
      lit "top"; let a ← pts
      lit "bot"; let b ← pts
      pure (⟨a, b⟩ : MonoPoly))
    pure (some ps)
  | _ => fail

def chainStr (c : List Pt) : String := String.intercalate "," (c.map Pt.str)

def piecesStr : Option (List MonoPoly) → String
  | none => "panic"
  | some ms => "n " ++ toString ms.length ++
      String.join (ms.map (fun m => " top " ++ chainStr m.top ++ " bot " ++ chainStr m.bot))

/-- the largest number of input lines meeting in one end point (`sort_by` is mirrored as the insertion sort
that std uses up to 20 elements) -/
def maxFan (ls : List MonoBuild.LoP) : Nat :=
  let ends := ls.flatMap (fun l => [l.left, l.right])
  ends.foldl (fun m p => max m (ends.count p)) 0

def handleMonoBuild (inp out : List String) : String :=
  match P.run geometry inp, P.run buildOut out with
  | some g, some o =>
    match polysOf g with
    | none => "ERR monobuild-needs-polygon"
    | some ps =>
      if maxFan (MonoBuild.inputLines ps) > 20 then skip "more-than-20-lines-at-a-point" else
      let final := MonoBuild.buildState ps
      let model := final.map (·.outputs)
      let same := model == o
      let valid := validGeom g
      -- the property verdict is the tiling verdict on the implementation's pieces (valid inputs only)
      let prop :=
        if !valid then "PASS" else
        match o with
        | none => if isEmptyG g then "PASS" else "FAIL:monotone-subdivision-panic"
        | some ms =>
          if !(ms.all wellFormed) then "FAIL:piece-chains-not-lexicographically-increasing"
          else clauseStr (tilesClause .notOutside (ms.map (fun m => (intoPolygon m).ext)) g)
      let cls := shapeTags g ++ (if valid then " domain=valid" else " domain=invalid") ++
        (match o with | none => " impl=panic" | some ms => " pieces=" ++ toString ms.length) ++
        " lines=" ++ toString (MonoBuild.inputLines ps).length ++
        (match final with
         | some st => " splits=" ++ toString (st.segs.length - (MonoBuild.inputLines ps).length) ++
             " chains=" ++ toString st.chains.length
         | none => "") ++
        (match model with
         | some ms => if ms.all wellFormed then "" else " model-pieces-not-wellformed"
         | none => "")
      reply same prop cls (piecesStr model) (piecesStr o)
  | _, _ => "ERR parse"

/-! #### stitch -/

structure StitchOut where
  tris : Option (List Tri)
  res : Option Geom

def stitchOut : P (Option StitchOut) := do
  let t ← tok
  match t with
  | "panic" => pure none
  | "tris" => do
    let ts ← resTris
    lit "res"
    let r ← tok
    match r with
    | "ok" => do let g ← rawGeometry; pure (some ⟨ts, some g⟩)
    | "err" => pure (some ⟨ts, none⟩)
    | _ => fail
  | _ => fail

def normEdge (e : Pt × Pt) : Pt × Pt := if lexLt e.2 e.1 then (e.2, e.1) else e

def edgeLe (a b : Pt × Pt) : Bool :=
  lexLt a.1 b.1 || (a.1 == b.1 && !lexLt b.2 a.2)

def insertEdge (e : Pt × Pt) : List (Pt × Pt) → List (Pt × Pt)
  | [] => [e]
  | f :: fs => if edgeLe e f then e :: f :: fs else f :: insertEdge e fs

def sortEdges (es : List (Pt × Pt)) : List (Pt × Pt) := (es.map normEdge).foldr insertEdge []

/-- sorted, without repetitions: the *set* of undirected edges. Ring reconstruction and ring
nesting after `find_boundary_lines` are not modelled (and may emit a ring twice, once as an
exterior and once as an interior, when two rings touch), so what is compared is the set of edges
that survive into the output rings. -/
def edgeSet (es : List (Pt × Pt)) : List (Pt × Pt) := (sortEdges es).eraseDups

/-- some triangle corner lies strictly inside an edge of another triangle (a non-conforming
triangulation: that edge has no identical partner to be stitched with) -/
def hasTJunction (ts : List Tri) : Bool :=
  let corners := ts.flatMap (fun t => [t.1, t.2.1, t.2.2])
  let edges := ts.flatMap (fun t => [(t.1, t.2.1), (t.2.1, t.2.2), (t.2.2, t.1)])
  edges.any (fun (a, b) => corners.any (fun v => v != a && v != b && lineCoord a b v))

def handleStitch (inp out : List String) : String :=
  let pin : P (String × Geom) := do let w ← tok; let g ← geometry; pure (w, g)
  match P.run pin inp, P.run stitchOut out with
  | some (which, g), some o =>
    if polysOf g == none then "ERR stitch-needs-polygon" else
    if !validGeom g then skip "invalid-polygon" else
    if isEmptyG g then skip "empty" else
    if which == "earcut" && ((polysOf g).getD []).any ringsTouch then skip "rings-touch-outside-earcut-domain" else
    match o with
    | none => reply false "FAIL:stitch-panic" (shapeTags g) "no-panic" "panic"
    | some ⟨none, _⟩ => reply false "FAIL:triangulation-error" (shapeTags g) "ok" "err"
    | some ⟨some ts, res⟩ =>
      -- the stitching property is about triangulations: only those that tile are in its domain
      let tl := tilesClause .targetCoordinate (ts.map ringOf) g
      if tl != "" then skip ("triangulation-does-not-tile-" ++ tl) else
      let modelEdges := edgeSet (findBoundaryLines (stitchLines ts))
      match res with
      | none => reply false (if hasTJunction ts then "FAIL:stitch-error-t-junction-in-triangulation" else "FAIL:stitch-error")
          (shapeTags g ++ " via=" ++ which) "ok" "err"
      | some r =>
        let implEdges := edgeSet ((parts r).areaSegs)
        let same := implEdges == modelEdges
        let tj := hasTJunction ts
        let prop := if specUnsigned r == specUnsigned g then "PASS"
          else if tj then "FAIL:stitched-area-differs-t-junction-in-triangulation"
          else if specUnsigned r < specUnsigned g then "FAIL:stitched-area-smaller" else "FAIL:stitched-area-larger"
        let cls := shapeTags g ++ " via=" ++ which ++ " tris=" ++ toString ts.length ++
          " out-polys=" ++ toString ((polysOf r).getD []).length ++
          (if ts.any (fun t => pieceArea (ringOf t) == 0) then " degenerate-tri" else "") ++
          (if tj then " t-junction" else " conforming")
        reply same prop cls ("edges " ++ toString modelEdges.length) ("edges " ++ toString implEdges.length)
  | _, _ => "ERR parse"

def handle (op : String) (inp out : List String) : Option String :=
  match op with
  | "C10.earcut" => some (handleEarcut inp out)
  | "C10.cdt" => some (handleCdt inp out)
  | "C10.mono" => some (handleMono inp out)
  | "C10.stitch" => some (handleStitch inp out)
  | "C10.monobuild" => some (handleMonoBuild inp out)
  | _ => none

end Geo.Ops.C10
