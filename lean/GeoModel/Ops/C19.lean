/-
  Driver operations for C19 (traversal / mapping / bounding boxes / extremes).
-/
import GeoModel.Parse
import GeoModel.Traverse

namespace Geo.Ops.C19
open Geo Geo.P

def optRect : P (Option (Pt × Pt)) := do
  let t ← tok
  match t with
  | "none" => pure none
  | "some" => do let a ← pt; let b ← pt; pure (some (a, b))
  | _ => fail

def extreme : P Extreme := do let i ← nat; let c ← pt; pure ⟨i, c⟩

def optOutcome : P (Option Outcome) := do
  let t ← tok
  match t with
  | "none" => pure none
  | "some" => do
      let a ← extreme; let b ← extreme; let c ← extreme; let d ← extreme
      pure (some ⟨a, b, c, d⟩)
  | _ => fail

def optLines : P (Option (List (Pt × Pt))) := do
  let t ← tok
  match t with
  | "none" => pure none
  | "some" => do
      let ps ← counted (do let a ← pt; let b ← pt; pure (a, b))
      pure (some ps)
  | _ => fail

structure TravOut where
  count : Nat
  coords : List Pt
  ext : List Pt
  lines : Option (List (Pt × Pt))
  bbox : Option (Pt × Pt)
  extr : Option Outcome

def travOut : P TravOut := do
  lit "count"; let n ← nat
  lit "coords"; let cs ← pts
  lit "ext"; let es ← pts
  lit "lines"; let ls ← optLines
  lit "bbox"; let bb ← optRect
  lit "extremes"; let ex ← optOutcome
  pure ⟨n, cs, es, ls, bb, ex⟩

def listMin (l : List Rat) : Option Rat := l.foldl (fun acc x => match acc with
  | none => some x | some m => some (rmin m x)) none
def listMax (l : List Rat) : Option Rat := l.foldl (fun acc x => match acc with
  | none => some x | some m => some (rmax m x)) none

/-- component-wise min/max of a coordinate list -/
def minMaxOf (cs : List Pt) : Option (Pt × Pt) :=
  match listMin (cs.map (·.x)), listMin (cs.map (·.y)), listMax (cs.map (·.x)), listMax (cs.map (·.y)) with
  | some a, some b, some c, some d => some (⟨a, b⟩, ⟨c, d⟩)
  | _, _, _, _ => none

/-- Does some polygon (at any depth) have interior-ring coordinates outside the bounding box of
its exterior? This is the class on which `Polygon::bounding_rect` (exterior only) differs from
the min/max of the traversal. -/
partial def holeEscapes : Geom → Bool
  | .polygon p => polyEsc p
  | .multiPolygon ps => ps.any polyEsc
  | .collection gs => gs.any holeEscapes
  | _ => false
where polyEsc (p : Poly) : Bool :=
  match minMaxOf p.ext with
  | none => !p.ints.flatten.isEmpty
  | some (mn, mx) => p.ints.flatten.any (fun c => c.x < mn.x || c.x > mx.x || c.y < mn.y || c.y > mx.y)

def isSublist : List Pt → List Pt → Bool
  | [], _ => true
  | _ :: _, [] => false
  | a :: as, b :: bs => if a == b then isSublist as bs else isSublist (a :: as) bs

def extremeOk (ext : List Pt) (e : Extreme) (bound : Rat) (proj : Pt → Rat) : Bool :=
  match ext[e.index]? with
  | some c => c == e.coord && proj c == bound
  | none => false

/-- The property clauses, evaluated on the implementation's own outputs. -/
def propTrav (g : Geom) (o : TravOut) : String :=
  if o.count != o.coords.length then "FAIL:count-ne-iter-length"
  else if !isSublist o.ext o.coords then "FAIL:exterior-not-subsequence"
  else if o.lines != linesIter g then "FAIL:lines-not-consecutive-pairs"
  else
    let mm := minMaxOf o.coords
    let mmE := minMaxOf o.ext
    let bboxClause :=
      if o.bbox == mm then ""
      else if holeEscapes g then "FAIL:bbox-ignores-hole-outside-shell"
      else "FAIL:bbox-ne-minmax"
    if bboxClause != "" then bboxClause
    else match o.extr, mmE with
      | none, none => "PASS"
      | some ex, some (mn, mx) =>
        if extremeOk o.ext ex.xMin mn.x (·.x) && extremeOk o.ext ex.yMin mn.y (·.y) &&
           extremeOk o.ext ex.xMax mx.x (·.x) && extremeOk o.ext ex.yMax mx.y (·.y)
        then "PASS" else "FAIL:extremes-not-attained"
      | _, _ => "FAIL:extremes-none-mismatch"

def tagOf (g : Geom) : String := (g.str.splitOn " ").head!

partial def depth : Geom → Nat
  | .collection gs => 1 + (gs.map depth).foldl max 0
  | _ => 0

def handleTrav (inp out : List String) : String :=
  match P.run geometry inp, P.run travOut out with
  | some g, some o =>
    let same := o.count == coordsCount g && o.coords == coordsIter g && o.ext == exteriorCoords g &&
      o.lines == linesIter g && o.bbox == boundingRect g && o.extr == extremes g
    let cls := "type=" ++ tagOf g ++ " n=" ++ toString (coordsCount g) ++ " depth=" ++ toString (depth g) ++
      (if holeEscapes g then " hole-escapes" else "")
    let m := "count " ++ toString (coordsCount g) ++ " coords " ++ ptsStr (coordsIter g) ++
      " ext " ++ ptsStr (exteriorCoords g) ++ " bbox " ++ toString (repr (boundingRect g)) ++
      " extremes " ++ toString (repr (extremes g))
    reply same (propTrav g o) cls m (String.intercalate " " out)
  | _, _ => "ERR parse"

/-! #### map_coords -/

inductive MapFn where
  | aff (a b c d e f : Int)       -- x' = a x + b y + c ; y' = d x + e y + f
  | const (p : Pt)
  deriving Repr

def MapFn.apply : MapFn → Pt → Pt
  | .aff a b c d e f, p => ⟨a * p.x + b * p.y + c, d * p.x + e * p.y + f⟩
  | .const q, _ => q

/-- Is the f64 evaluation of the map exact on this input? Monomial maps with coefficients in
{0, ±1, ±2} and no translation are exact for all finite floats (barring overflow, excluded by
the generator); general integer affine maps are exact on small integers. -/
def MapFn.exactOn : MapFn → List Pt → Bool
  | .const _, _ => true
  | .aff a b c d e f, cs =>
    let mono := c == 0 && f == 0 && (a == 0 || b == 0) && (d == 0 || e == 0) &&
      [a, b, d, e].all (fun k => k.natAbs ≤ 2)
    let small := cs.all (fun p => isSmallInt p.x && isSmallInt p.y &&
        p.x.num.natAbs ≤ 2 ^ 30 && p.y.num.natAbs ≤ 2 ^ 30) &&
      [a, b, c, d, e, f].all (fun k => k.natAbs ≤ 2 ^ 20)
    mono || small

def mapFn : P MapFn := do
  let t ← tok
  match t with
  | "aff" => do
      let a ← int; let b ← int; let c ← int; let d ← int; let e ← int; let f ← int
      pure (.aff a b c d e f)
  | "const" => do let p ← pt; pure (.const p)
  | _ => fail

/-- the coordinates the fallible function rejects (`Err(coordinate)`): none, one, or two -/
def optFail : P (List Pt) := do
  let t ← tok
  match t with
  | "nofail" => pure []
  | "failat" => do let p ← pt; pure [p]
  | "failat2" => do let p ← pt; let q ← pt; pure [p, q]
  | _ => fail

def tryRes : P (Except Pt Geom) := do
  let t ← tok
  match t with
  | "ok" => do let g ← rawGeometry; pure (.ok g)
  | "err" => do let p ← pt; pure (.error p)
  | _ => fail

structure MapOut where
  mapped : Geom
  inPlace : Geom
  tryR : Except Pt Geom
  tryInPlace : Option (Except Pt Geom)   -- `none`: not callable for this type (GeometryCollection)

def mapOut : P MapOut := do
  lit "map"; let a ← rawGeometry
  lit "inplace"; let b ← rawGeometry
  lit "try"; let c ← tryRes
  lit "tryinplace"
  let d ← (do
    let t ← peek?
    if t == some "na" then do let _ ← tok; pure none else do let r ← tryRes; pure (some r))
  pure ⟨a, b, c, d⟩

def exStr : Except Pt Geom → String
  | .ok g => "ok " ++ g.str
  | .error p => "err " ++ p.str

/-- Types whose constructor re-normalises (`Rect::new` corners, `Triangle::new` orientation). -/
def isNormFree : Geom → Bool
  | .rect _ _ => false
  | .collection gs => gs.attach.all (fun ⟨g, _⟩ => isNormFree g)
  | _ => true

/-- The coordinates actually fed to `f`, in order (a Rect feeds only `min`, `max`). -/
def fedCoords : Geom → List Pt
  | .rect mn mx => [mn, mx]
  | .collection gs => gs.attach.flatMap (fun ⟨g, _⟩ => fedCoords g)
  | g => coordsIter g

/-- Does the map send some triangle (at any depth) to a clockwise one, so that `Triangle::new`
reverses its corners? Also reports a rounding near-tie of the (non-robust) f64 cross product. -/
def triFlip (f : Pt → Pt) : Geom → Bool × Bool
  | .triangle a b c =>
    let cp := crossProd (f a) (f b) (f c)
    -- the f64 cross product of `Triangle::new` is exact when the corners are integers below 2^25 (differences below
    -- 2^26, products below 2^52); larger integers round in the products like any other float
    let ints := [f a, f b, f c].all (fun p => isSmallInt p.x && isSmallInt p.y && rabs p.x < 33554432 && rabs p.y < 33554432)
    let mag := rabs ((f b).x - (f a).x) * rabs ((f c).y - (f a).y) + rabs ((f b).y - (f a).y) * rabs ((f c).x - (f a).x)
    -- … and products in the subnormal range lose everything below 2^-1074 (a product of two subnormals is ±0)
    (cp < 0, !ints && rabs cp ≤ mag / 1099511627776 + 1 / (2 : Rat) ^ 1070)
  | .collection gs => gs.attach.foldl (fun acc ⟨g, _⟩ => let r := triFlip f g; (acc.1 || r.1, acc.2 || r.2)) (false, false)
  | _ => (false, false)

def handleMap (inp out : List String) : String :=
  let pin : P (MapFn × List Pt × Geom) := do
    let f ← mapFn; let fl ← optFail; let g ← geometry; pure (f, fl, g)
  match P.run pin inp, P.run mapOut out with
  | some (f, fl, g), some o =>
    if !f.exactOn (coordsIter g) then skip "inexact-map" else
    let (flips, nearTie) := triFlip f.apply g
    if nearTie then skip "near-tie-triangle-orientation" else
    let ff : Pt → Except Pt Pt := fun p => if fl.any (· == p) then .error p else .ok (f.apply p)
    let m := mapCoords f.apply g
    let mt := tryMapCoords ff g
    let same := o.mapped.str == m.str && o.inPlace.str == m.str && exStr o.tryR == exStr mt &&
      (match o.tryInPlace with | some r => exStr r == exStr mt | none => true)
    -- property clauses on the implementation's outputs
    -- the error must be the first rejected coordinate in traversal order (exterior before interiors, members in order)
    let firstFail : Option Pt := (fedCoords g).find? (fun c => fl.any (· == c))
    let shapeOf (x : Geom) : String := (mapCoords (fun _ => ⟨0, 0⟩) x).str
    let prop :=
      if isNormFree g && coordsIter o.mapped != (coordsIter g).map f.apply then
        (if flips then "FAIL:map-traversal-triangle-reoriented" else "FAIL:map-traversal")
      else if shapeOf o.mapped != shapeOf g then "FAIL:map-shape"
      else if o.inPlace.str != o.mapped.str then "FAIL:inplace-ne-map"
      else match firstFail, o.tryR, o.tryInPlace.getD o.tryR with
        | none, .ok a, .ok b => if a.str == o.mapped.str && b.str == o.mapped.str then "PASS" else "FAIL:try-ne-map"
        | some q, .error a, .error b => if a == q && b == q then "PASS" else "FAIL:try-wrong-error"
        | _, _, _ => "FAIL:try-ok-err-mismatch"
    let cls := "type=" ++ tagOf g ++ (if !fl.isEmpty then (if firstFail.isSome then " fails" else " failpoint-absent") else " total") ++
      (if fl.length == 2 then " two-failpoints" else "") ++
      (if flips then " tri-flip" else "")
    reply same prop cls ("map " ++ m.str ++ " try " ++ exStr mt) (String.intercalate " " out)
  | _, _ => "ERR parse"

/-- `C19.bboxi n x y … => rect … ls … mp … pg …` — i64 coordinates (beyond 2^53): `Rect::new` of the first two and the
bounding rectangles of the line string / multi point / polygon of all of them are the component-wise extremes, as integers. -/
def handleBboxI (inp out : List String) : String :=
  let pin : P (List (Int × Int)) := do
    let n ← nat
    rep n (do let x ← int; let y ← int; pure (x, y))
  let four : P (Int × Int × Int × Int) := do let a ← int; let b ← int; let c ← int; let d ← int; pure (a, b, c, d)
  let pout : P ((Int × Int × Int × Int) × (Int × Int × Int × Int) × (Int × Int × Int × Int) × (Int × Int × Int × Int)) := do
    lit "rect"; let r ← four; lit "ls"; let l ← four; lit "mp"; let m ← four; lit "pg"; let g ← four; pure (r, l, m, g)
  match P.run pin inp, P.run pout out with
  | some (c0 :: c1 :: rest), some (r, l, m, g) =>
    let all := c0 :: c1 :: rest
    let mn (f : Int × Int → Int) (cs : List (Int × Int)) : Int := cs.foldl (fun a c => if f c < a then f c else a) (f c0)
    let mx (f : Int × Int → Int) (cs : List (Int × Int)) : Int := cs.foldl (fun a c => if f c > a then f c else a) (f c0)
    let box (cs : List (Int × Int)) := (mn (·.1) cs, mn (·.2) cs, mx (·.1) cs, mx (·.2) cs)
    let mr := box [c0, c1]
    let mb := box all
    let prop :=
      if r != mr then "FAIL:rect-new-wrong-on-wide-integers"
      else if l != mb || m != mb || g != mb then "FAIL:bounding-rect-not-extremes-on-wide-integers"
      else "PASS"
    reply (r == mr && l == mb && m == mb && g == mb) prop "type=i64-wide" (toString mr ++ " " ++ toString mb) (String.intercalate " " out)
  | _, _ => "ERR parse"

def handle (op : String) (inp out : List String) : Option String :=
  match op with
  | "C19.bboxi" => some (handleBboxI inp out)
  | "C19.trav" => some (handleTrav inp out)
  | "C19.map" => some (handleMap inp out)
  | _ => none

end Geo.Ops.C19
