/-
  Driver operations for C16 (Haversine / Geodesic / Rhumb measures).

  `C16.pair  <ms> a b r`            distance, bearing, round trip, ratio point
  `C16.dest  <ms> a bearing dist k` destination for arbitrary bearings / distances
  `C16.len   <ms> <LN|LS|MLS>`      Length = fold of segment distances
  `C16.along <ms> a b max incl`     points_along_line

  `<ms>` = `hav` | `havr R` | `geo` | `geoc a f` | `rh`.

  The model side (`same`) is the exact logic of `GeoModel/Geodesy.lean` (short-circuits, folds in
  emulated binary64, step loop in emulated binary64, longitude normalisation); the property
  checker (`prop=`) evaluates the identities of the property on the implementation's own values
  with the millimetre tolerance, plus a measurement of the round-trip miss that is independent of
  the implementation (exact rational local metric).
-/
import GeoModel.Parse
import GeoModel.F64
import GeoModel.Geodesy
import GeoModel.GeodesyNum

namespace Geo.Ops.C16
open Geo Geo.P Geo.Geodesy Geo.GeodesyNum

inductive Ms where
  | hav (R : Rat)
  | geo (a f : Rat)
  | rh
  deriving Repr

def Ms.tag : Ms → String
  | .hav _ => "hav" | .geo _ _ => "geo" | .rh => "rh"

/-- MEAN_EARTH_RADIUS / GRS80 mean radius (metres) -/
def meanR : Rat := 63710088 / 10

/-- a radius that bounds the metric from above (used to turn metres into angles) -/
def Ms.radius : Ms → Rat
  | .hav R => R
  | .geo a _ => a
  | .rh => meanR

def msP : P Ms := do
  let t ← tok
  match t with
  | "hav" => pure (.hav meanR)
  | "havr" => do let r ← rat; pure (.hav r)
  | "geo" => pure (.geo 6378137 (1 / (298257223563 / 1000000000 : Rat)))
  | "geoc" => do let a ← rat; let f ← rat; pure (.geo a f)
  | "rh" => pure .rh
  | _ => fail

/-- finite value of a wire number -/
def fin? (x : XNum) : Option Rat := x.toRat?

def allFin (xs : List XNum) : Option (List Rat) := xs.mapM fin?

def xpt : P (XNum × XNum) := do let x ← xnum; let y ← xnum; pure (x, y)

def finPt? (p : XNum × XNum) : Option Pt :=
  match fin? p.1, fin? p.2 with
  | some x, some y => some ⟨x, y⟩
  | _, _ => none

/-! ### rational helpers for the domain classes and the independent measure -/

def piQ : Rat := 31415926535897932384626433832795 / 10000000000000000000000000000000

/-- cosine of an angle given in degrees, `|d| ≤ 180`: Taylor polynomial of degree 28 (error < 1e-12
on that range, < 1e-20 for |d| ≤ 90); used for classification and the local metric only. -/
def cosDeg (d : Rat) : Rat :=
  let x := d * piQ / 180
  let x2 := x * x
  let rec go (k : Nat) (fuel : Nat) (term acc : Rat) : Rat :=
    match fuel with
    | 0 => acc
    | f + 1 =>
      let term' := -term * x2 / (((2 * k + 1) * (2 * k + 2) : Nat) : Rat)
      go (k + 1) f term' (acc + term')
  go 0 14 1 1

/-- longitude difference wrapped to [-180, 180) (exact) -/
def wrapDeg (x : Rat) : Rat := normalizeLongitude id x

def isPolar (p : Pt) : Bool := rabs p.y > 89

/-- Nearly antipodal: `a` within about 2 degrees of the antipode of `b`. -/
def nearAntipodal (a b : Pt) : Bool :=
  rabs (a.y + b.y) ≤ 2 && rabs (wrapDeg (a.x - b.x - 180)) * cosDeg (rmin (rabs a.y) (rabs b.y)) ≤ 2

/-- squared local-metric separation of two nearby points, in degrees² of arc -/
def localSep2 (p q : Pt) : Rat :=
  let dphi := p.y - q.y
  let dl := wrapDeg (p.x - q.x) * cosDeg ((p.y + q.y) / 2)
  dphi * dphi + dl * dl

/-- millimetre tolerance, scaled with the radius (1 mm on the mean Earth) -/
def tolM (ms : Ms) : Rat := ms.radius / meanR / 1000

/-- the same tolerance as an arc in degrees (2 % slack for the ellipsoid's curvature radii) -/
def tolDeg2 (ms : Ms) : Rat :=
  let t := (1 / meanR / 1000) * 180 / piQ * (102 / 100)
  let _ := ms
  t * t

def closeTo (ms : Ms) (p q : Pt) : Bool := localSep2 p q ≤ tolDeg2 ms

def pairClass (a b : Pt) : String :=
  if a == b then "cls=identical"
  else if isPolar a || isPolar b then "cls=polar"
  else if nearAntipodal a b then "cls=antipodal"
  else if localSep2 a b ≤ 1 / 100000000 then "cls=near-coincident"
  else if rabs (a.x - b.x) > 180 then "cls=antimeridian"
  else if rabs (a.y - b.y) ≤ 1 / 1000000 then "cls=east-west"
  else if a.x == b.x then "cls=meridian"
  else "cls=general"

/-! ### regime T: the Haversine formulas of the model, evaluated with the rational engine -/

/-- 12-decimal rendering of a model value (DIFF lines only) -/
def dec12 (q : Rat) : String := ratStr (((q * 1000000000000).floor : Int) / (1000000000000 : Rat))

def modelHavDistance (R : Rat) (a b : Pt) : Rat := havDistance ratTrig R (a.x, a.y) (b.x, b.y)
def modelHavBearing (a b : Pt) : Rat := normBearing id (havBearingRaw ratTrig (a.x, a.y) (b.x, b.y))
def modelHavDestination (R : Rat) (a : Pt) (brg d : Rat) : Pt :=
  let r := havDestinationRaw ratTrig R (a.x, a.y) brg d
  ⟨normalizeLongitude id r.1, r.2⟩

/-- model value vs implementation value of a distance: 1e-9 relative + a micrometre -/
def distAgrees (ms : Ms) (model impl : Rat) : Bool :=
  rabs (model - impl) ≤ rabs model / 1000000000 + tolM ms / 1000

/-- bearings agree when their difference moves the far end by less than a tenth of the tolerance -/
def bearingAgrees (ms : Ms) (model impl dist : Rat) : Bool :=
  rabs (wrapDeg (model - impl)) * piQ / 180 * rmin dist ms.radius ≤ tolM ms / 10

/-- positions agree within a tenth of the tolerance (local metric) -/
def ptAgrees (ms : Ms) (p q : Pt) : Bool := localSep2 p q * 100 ≤ tolDeg2 ms

/-! ### C16.pair -/

structure PairOut where
  dab : XNum
  dba : XNum
  daa : XNum
  dbb : XNum
  bab : XNum
  bba : XNum
  dest : XNum × XNum
  ddb : XNum
  mid : XNum × XNum
  dam : XNum
  dmb : XNum
  m0 : XNum × XNum
  m1 : XNum × XNum

def pairOut : P PairOut := do
  lit "d"; let dab ← xnum; let dba ← xnum; let daa ← xnum; let dbb ← xnum
  lit "brg"; let bab ← xnum; let bba ← xnum
  lit "dest"; let dest ← xpt; let ddb ← xnum
  lit "mid"; let mid ← xpt; let dam ← xnum; let dmb ← xnum
  lit "m0"; let m0 ← xpt
  lit "m1"; let m1 ← xpt
  pure ⟨dab, dba, daa, dbb, bab, bba, dest, ddb, mid, dam, dmb, m0, m1⟩

/-- the property clauses on the implementation's values -/
def propPair (ms : Ms) (a b : Pt) (r : Rat) (o : PairOut) : String :=
  match allFin [o.dab, o.dba, o.daa, o.dbb, o.bab, o.bba] with
  | some [dab, dba, daa, dbb, bab, bba] =>
    let tol := tolM ms
    if dab < 0 || dba < 0 then "FAIL:distance-negative"
    else if daa != 0 || dbb != 0 then "FAIL:distance-self-nonzero"
    else if a == b && dab != 0 then "FAIL:distance-self-nonzero"
    else if rabs (dab - dba) > rmax dab dba / 1000000000 + tol / 1000000 then "FAIL:distance-asymmetric"
    else if !(0 ≤ bab && bab < 360 && 0 ≤ bba && bba < 360) then "FAIL:bearing-out-of-range"
    else if isPolar a || isPolar b || nearAntipodal a b then "PASS"
    else
      -- round trip
      match finPt? o.dest, fin? o.ddb with
      | some dest, some ddb =>
        if ddb > tol then "FAIL:roundtrip-miss"
        else if !closeTo ms dest b then "FAIL:roundtrip-miss-independent"
        else
          -- ratio point
          match finPt? o.mid, fin? o.dam, fin? o.dmb, finPt? o.m0, finPt? o.m1 with
          | some _, some dam, some dmb, some m0, some m1 =>
            if rabs (dam - r * dab) > tol || rabs (dmb - (1 - r) * dab) > tol then "FAIL:ratio-division"
            else if !closeTo ms m0 a || !closeTo ms m1 b then "FAIL:ratio-endpoints"
            else "PASS"
          | _, _, _, _, _ => "FAIL:ratio-point-not-finite"
      | _, _ => "FAIL:roundtrip-not-finite"
  | _ =>
    -- known finding K16c: tan(0)/tan(0) in RhumbCalculations::new when both latitudes are -90
    let bothSouthPole := a.y == -90 && b.y == -90
    match ms, bothSouthPole, allFin [o.dab, o.dba, o.daa, o.dbb] with
    | .rh, true, some _ => "FAIL:rhumb-bearing-nan-both-at-south-pole"
    | _, _, _ => "FAIL:distance-or-bearing-not-finite"

/-- the exact part of the model: short-circuits of `point_at_ratio_between` (Haversine, Geodesic) -/
def modelPair (ms : Ms) (a b : Pt) (r : Rat) (o : PairOut) : Bool × String :=
  match ms with
  | .rh => (true, "")
  | .hav R =>
    -- short-circuits exactly; distance, bearing and destination against the model's formulas
    let viaCalc : Pt := ⟨0, 0⟩
    let sc (r : Rat) : Option Pt :=
      if a = b ∨ r = 0 ∨ r = 1 then some (pointAtRatioSC a b r (fun _ => viaCalc)) else none
    let okAt (r : Rat) (got : XNum × XNum) : Bool :=
      match sc r with
      | some p => finPt? got == some p
      | none => true
    let scOk := okAt 0 o.m0 && okAt 1 o.m1 && okAt r o.mid
    let md := modelHavDistance R a b
    let dOk := nearAntipodal a b || (match fin? o.dab, fin? o.dba with
      | some x, some y => distAgrees ms md x && distAgrees ms md y
      | _, _ => false)
    let inDom := !(isPolar a || isPolar b || nearAntipodal a b)
    let mb := modelHavBearing a b
    let bOk := !inDom || a == b || (match fin? o.bab with
      | some x => bearingAgrees ms mb x md
      | none => false)
    let destOk := !inDom || (match fin? o.bab, fin? o.dab, finPt? o.dest with
      | some brg, some d, some p => isPolar p || ptAgrees ms (modelHavDestination R a brg d) p
      | _, _, _ => false)
    -- a posteriori certificate of the engine's Newton arcsine inside `md` (GeodesyNum.asinCert): with it
    -- `haversine_distance_engine_close_partial` bounds `md` against the real-number formula
    let certOk := havCert (a.x, a.y) (b.x, b.y)
    (scOk && dOk && bOk && destOk && certOk,
     "d " ++ dec12 md ++ " brg " ++ dec12 mb ++ (if scOk then "" else " short-circuit-mismatch") ++
       (if destOk then "" else " destination-mismatch") ++
       (if certOk then "" else " asin-certificate-failed"))
  | _ =>
    -- `calc` is only reached when no short-circuit fires; then the model has nothing exact to say
    let viaCalc : Pt := ⟨0, 0⟩
    let sc (r : Rat) : Option Pt :=
      if a = b ∨ r = 0 ∨ r = 1 then some (pointAtRatioSC a b r (fun _ => viaCalc)) else none
    let okAt (r : Rat) (got : XNum × XNum) : Bool :=
      match sc r with
      | some p => finPt? got == some p
      | none => true
    (okAt 0 o.m0 && okAt 1 o.m1 && okAt r o.mid,
     "m0 " ++ a.str ++ " m1 " ++ (pointAtRatioSC a b 1 (fun _ => viaCalc)).str)

def xs (x : XNum) : String := match x with
  | .fin q => ratStr q | .nan => "nan" | .pinf => "inf" | .ninf => "-inf"

def handlePair (inp out : List String) : String :=
  let pin : P (Ms × Pt × Pt × Rat) := do
    let ms ← msP; let a ← pt; let b ← pt; let r ← rat; pure (ms, a, b, r)
  match P.run pin inp, P.run pairOut out with
  | some (ms, a, b, r), some o =>
    if !(0 ≤ r && r ≤ 1) then skip "ratio-outside-unit-interval" else
    let (same, m) := modelPair ms a b r o
    let cls := "ms=" ++ ms.tag ++ " " ++ pairClass a b ++
      (if r == 0 then " r=0" else if r == 1 then " r=1" else " r=inner")
    reply same (propPair ms a b r o) cls m ("d " ++ xs o.dab ++ " brg " ++ xs o.bab ++ " m0 " ++ xs o.m0.1 ++ " " ++ xs o.m0.2 ++ " m1 " ++ xs o.m1.1 ++ " " ++ xs o.m1.2)
  | _, _ => "ERR parse"

/-! ### C16.dest -/

structure DestOut where
  p : XNum × XNum
  dap : XNum
  bap : XNum
  q : XNum × XNum
  dpq : XNum
  n : XNum × XNum
  dpn : XNum

def destOut : P DestOut := do
  lit "p"; let p ← xpt; let dap ← xnum; let bap ← xnum
  lit "q"; let q ← xpt; let dpq ← xnum
  lit "n"; let n ← xpt; let dpn ← xnum
  pure ⟨p, dap, bap, q, dpq, n, dpn⟩

/-- Is the inverse problem well-posed for (a, p) reached after `dist` metres: the short way round,
away from poles and antipodes (for Rhumb: the loxodrome did not wind more than half a turn)? -/
def inverseDomain (ms : Ms) (a p : Pt) (dist : Rat) : Bool :=
  let R := ms.radius
  dist ≥ 0 && !isPolar a && !isPolar p && !nearAntipodal a p &&
  (match ms with
   | .rh =>
     -- no reflection at a pole, and less than half a turn in longitude
     let c := cosDeg (rmax (rabs a.y) (rabs p.y))
     rabs a.y + dist / R * 180 / piQ < 89 && c > 0 && dist / R / c < 3
   | .geo _ f => dist < R * (1 - rabs f) * 3
   | .hav _ => dist < R * 3)

def propDest (ms : Ms) (a : Pt) (brg dist : Rat) (o : DestOut) : String :=
  let tol := tolM ms
  match finPt? o.p, finPt? o.q, finPt? o.n with
  | some p, some q, some n =>
    let inRange (p : Pt) : Bool := -180 ≤ p.x && p.x ≤ 180 && -90 ≤ p.y && p.y ≤ 90
    if !inRange p || !inRange q || !inRange n then "FAIL:destination-lon-lat-out-of-range"
    else if isPolar a || isPolar p then "PASS"
    else match fin? o.dpq, fin? o.dpn with
      | some dpq, some dpn =>
        if dpq > tol || !closeTo ms p q then "FAIL:bearing-not-periodic-360"
        else if dpn > tol || !closeTo ms p n then "FAIL:negative-distance-ne-reverse-bearing"
        else if !inverseDomain ms a p dist then "PASS"
        else match fin? o.dap, fin? o.bap with
          | some dap, some bap =>
            if rabs (dap - dist) > tol then "FAIL:distance-of-destination"
            else if !(0 ≤ bap && bap < 360) then "FAIL:bearing-out-of-range"
            else
              -- cross-track effect of the bearing difference, in metres
              let db := rabs (wrapDeg (bap - brg)) * piQ / 180
              if db * rmin dist ms.radius > tol then "FAIL:bearing-of-destination" else "PASS"
          | _, _ => "FAIL:distance-or-bearing-not-finite"
      | _, _ => "FAIL:distance-or-bearing-not-finite"
  | _, _, _ => if isPolar a then "PASS" else "FAIL:destination-not-finite"

def handleDest (inp out : List String) : String :=
  let pin : P (Ms × Pt × Rat × Rat × Int) := do
    let ms ← msP; let a ← pt; let b ← rat; let d ← rat; let k ← int; pure (ms, a, b, d, k)
  match P.run pin inp, P.run destOut out with
  | some (ms, a, brg, dist, _k), some o =>
    let inv := match finPt? o.p with
      | some p => inverseDomain ms a p dist
      | none => false
    let cls := "ms=" ++ ms.tag ++
      (if isPolar a then " cls=polar-start" else if inv then " cls=inverse-checked" else " cls=wrap-only") ++
      (if brg < 0 then " brg=neg" else if brg ≥ 360 then " brg=over360" else " brg=std") ++
      (if dist < 0 then " dist=neg" else if dist == 0 then " dist=0" else " dist=pos")
    -- regime T (Haversine): the destination formula of the model against the implementation's point
    let (same, m) : Bool × String := match ms, finPt? o.p with
      | .hav R, some p =>
        if isPolar a || isPolar p then (true, "")
        else
          let mp := modelHavDestination R a brg dist
          (ptAgrees ms mp p, "p " ++ dec12 mp.x ++ " " ++ dec12 mp.y)
      | _, _ => (true, "")
    reply same (propDest ms a brg dist o) cls m ("p " ++ xs o.p.1 ++ " " ++ xs o.p.2)
  | _, _ => "ERR parse"

/-! ### C16.len -/

structure LenOut where
  len : XNum
  parts : List (List XNum)

def lenOut : P LenOut := do
  lit "len"; let l ← xnum
  lit "parts"; let ps ← counted (counted xnum)
  pure ⟨l, ps⟩

/-- positions of the segment distances in the implementation's report, as a lookup table for the
`dist` engine parameter of the fold -/
def handleLen (inp out : List String) : String :=
  let pin : P (Ms × Geom) := do let ms ← msP; let g ← geometry; pure (ms, g)
  match P.run pin inp, P.run lenOut out with
  | some (ms, g), some o =>
    let lines : Option (List (List Pt)) := match g with
      | .line a b => some [[a, b]]
      | .lineString cs => some [cs]
      | .multiLineString ls => some ls
      | _ => none
    match lines, o.parts.mapM allFin with
    | none, _ => "ERR parse"
    | _, none => reply true "FAIL:distance-or-bearing-not-finite" ("ms=" ++ ms.tag)
    | some ls, some parts =>
      if ls.map (fun l => (segs l).length) != parts.map List.length then
        reply false "PASS" ("ms=" ++ ms.tag) "segment-counts" "differ"
      else
        -- model: the fold in emulated binary64, the segment distances being the engine's values
        let foldLS (ds : List Rat) : Rat := ds.foldl (fun acc d => roundF64 (acc + d)) 0
        let model : Rat := match g with
          | .line _ _ => (parts.headD []).headD 0
          | .lineString _ => foldLS (parts.headD [])
          | _ => parts.foldl (fun acc ds => roundF64 (acc + foldLS ds)) 0
        let exact : Rat := parts.foldl (fun acc ds => acc + ds.foldl (· + ·) 0) 0
        let nseg := (parts.map List.length).foldl (· + ·) 0
        let prop := match fin? o.len with
          | none => "FAIL:length-not-finite"
          | some l =>
            if nseg == 0 && l != 0 then "FAIL:length-degenerate-nonzero"
            else if rabs (l - exact) > exact * (nseg + 1 : Nat) / 4503599627370496 then "FAIL:length-ne-sum-of-distances"
            else "PASS"
        let cls := "ms=" ++ ms.tag ++ " type=" ++ (g.str.splitOn " ").head! ++ " nseg=" ++ toString (min nseg 8) ++
          (if nseg == 0 then " triv" else "")
        reply (o.len == .fin model) prop cls (ratStr model) (xs o.len)
  | _, _ => "ERR parse"

/-! ### C16.along -/

structure AlongOut where
  d : XNum
  pts : List (XNum × XNum)
  da : List XNum

def alongOut : P AlongOut := do
  lit "d"; let d ← xnum
  lit "pts"; let ps ← counted xpt
  lit "da"; let da ← rep ps.length xnum
  pure ⟨d, ps, da⟩

def handleAlong (inp out : List String) : String :=
  let pin : P (Ms × Pt × Pt × Rat × Bool) := do
    let ms ← msP; let a ← pt; let b ← pt; let m ← rat; let i ← bool; pure (ms, a, b, m, i)
  let notRun : P XNum := do lit "notrun"; xnum
  match P.run pin inp, P.run notRun out with
  | some (ms, a, b, _, _), some d =>
    if d.isFinite then skip "too-many-steps"
    else if isPolar a || isPolar b then skip "non-finite-at-pole"
    else reply true "FAIL:distance-or-bearing-not-finite" ("ms=" ++ ms.tag)
  | _, _ =>
  match P.run pin inp, P.run alongOut out with
  | some (ms, a, b, max, incl), some o =>
    match fin? o.d, o.pts.mapM finPt?, allFin o.da with
    | some d, some pts, some da =>
      if max ≤ 0 then skip "max-distance-not-positive" else
      -- Haversine and Rhumb compute the total inside (in radians / from a second formula): their
      -- step count can differ from the one derived from `distance` when total/max is within
      -- rounding of an integer. Geodesic uses the very same `inverse` call: no tie there.
      let q := d / max
      let nearTie := match ms with
        | .geo _ _ => false
        | _ =>
          -- relative disagreement of the two internal formulas: rounding of the radian
          -- differences (absolute 2^-50) against the angular length of the line
          let ang := d / ms.radius
          let slack := if ang ≤ 0 then 1 else 1 / 1000000000 + 1 / 1000000000000000 / ang
          rabs (q - ((q + 1 / 2).floor : Int)) ≤ q * slack
      if nearTie then skip "near-tie-step-count" else
      let ratios := if d ≤ max then [] else stepRatios roundF64 d max
      -- model: shape of the list; interior points are the engine's
      let expectLen := (if d ≤ max then (if incl then 2 else 0) else ratios.length + (if incl then 2 else 0))
      let endsOk := !incl || (pts.head? == some a && pts.getLast? == some b)
      let same := pts.length == expectLen && endsOk
      let tol := tolM ms
      let allR : List Rat := if d ≤ max then (if incl then [0, 1] else [])
        else (if incl then [0] else []) ++ ratios ++ (if incl then [1] else [])
      let prop :=
        if d < 0 then "FAIL:distance-negative"
        else if isPolar a || isPolar b || nearAntipodal a b then "PASS"
        else if pts.length != allR.length then "PASS"   -- reported through `same`
        else if (allR.zip da).any (fun (r, x) => rabs (x - r * d) > tol) then "FAIL:along-point-not-at-ratio"
        else "PASS"
      let cls := "ms=" ++ ms.tag ++ " " ++ pairClass a b ++ (if incl then " ends" else " noends") ++
        " steps=" ++ toString (min ratios.length 16) ++
        (if ratios.length.succ > ((roundF64 (d / max)).ceil).toNat && d > max then " extra-step" else "") ++
        (if d ≤ max then " short" else "")
      reply same prop cls ("len " ++ toString expectLen) ("len " ++ toString pts.length)
    | _, _, _ =>
      if isPolar a || isPolar b then skip "non-finite-at-pole"
      else reply true "FAIL:along-not-finite" ("ms=" ++ ms.tag)
  | _, _ => "ERR parse"

def handle (op : String) (inp out : List String) : Option String :=
  match op with
  | "C16.pair" => some (handlePair inp out)
  | "C16.dest" => some (handleDest inp out)
  | "C16.len" => some (handleLen inp out)
  | "C16.along" => some (handleAlong inp out)
  | _ => none

end Geo.Ops.C16
