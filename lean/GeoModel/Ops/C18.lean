/-
  Driver operations for C18 (state-machine histories, Rect setters, conversions).
-/
import GeoModel.Parse
import GeoModel.PolygonSM
import GeoModel.Traverse

namespace Geo.Ops.C18
open Geo Geo.SM Geo.P

def edit : P (Edit Pt) := do
  let t ← tok
  match t with
  | "push" => do let c ← pt; pure (.push c)
  | "pop" => pure .pop
  | "clear" => pure .clear
  | "set" => do let i ← nat; let c ← pt; pure (.set i c)
  | "swap" => do let i ← nat; let j ← nat; pure (.swap i j)
  | "trunc" => do let n ← nat; pure (.trunc n)
  | "ins" => do let i ← nat; let c ← pt; pure (.ins i c)
  | "rev" => pure .rev
  | _ => fail

def prog : P (List (Edit Pt)) := counted edit

def ringsEdit : P (RingsEdit Pt) := do
  let t ← tok
  match t with
  | "ring" => do let i ← nat; let es ← prog; pure (.ring i es)
  | "rswap" => do let i ← nat; let j ← nat; pure (.rswap i j)
  | _ => fail

def res : P Bool := do
  let t ← tok
  if t = "ok" then pure true else if t = "err" then pure false else fail

def op : P (Op Pt) := do
  let t ← tok
  match t with
  | "new" => do
      let p ← rawPoly
      pure (.new p.ext p.ints)
  | "ext" => do let es ← prog; pure (.exteriorMut (fun r => (applyEdits es r, true)))
  | "text" => do
      let es ← prog; let ok ← res
      pure (.tryExteriorMut (fun r => (applyEdits es r, ok)))
  | "ints" => do
      let es ← counted ringsEdit
      pure (.interiorsMut (fun rs => (applyRingsEdits es rs, true)))
  | "tints" => do
      let es ← counted ringsEdit; let ok ← res
      pure (.tryInteriorsMut (fun rs => (applyRingsEdits es rs, ok)))
  | "ipush" => do let r ← pts; pure (.interiorsPush r)
  | _ => fail

/-- impl output per op: `ok|err <poly>` -/
def outEntry : P (Bool × Poly) := do
  let ok ← res
  let p ← rawPoly
  pure (ok, p)

def stateStr (s : State Pt) : String := (Poly.mk s.ext s.ints).str

def runHist (ops : List (Op Pt)) : List (Bool × State Pt) :=
  let rec go (s : State Pt) : List (Op Pt) → List (Bool × State Pt)
    | [] => []
    | o :: os => let (s', ok) := step s o; (ok, s') :: go s' os
  go ⟨[], []⟩ ops

def handlePoly (inp out : List String) : String :=
  match P.run (counted op) inp, P.run (many outEntry) out with
  | some ops, some outs =>
    let model := runHist ops
    let implClosed := outs.all (fun (_, p) => invB (State.mk p.ext p.ints))
    let same := model.length == outs.length &&
      (model.zip outs).all (fun ((ok, s), (ok', p)) => ok == ok' && s.ext == p.ext && s.ints == p.ints)
    let nErr := (outs.filter (fun (ok, _) => !ok)).length
    let cls := "ops=" ++ toString ops.length ++ " errs=" ++ toString nErr
    let m := String.intercalate " | " (model.map (fun (ok, s) => (if ok then "ok " else "err ") ++ stateStr s))
    let i := String.intercalate " | " (outs.map (fun (ok, p) => (if ok then "ok " else "err ") ++ p.str))
    reply same (if implClosed then "PASS" else "FAIL:ring-not-closed") cls m i
  | _, _ => "ERR parse"

def rectOp : P RectOp := do
  let t ← tok
  match t with
  | "min" => do let c ← pt; pure (.setMin c)
  | "max" => do let c ← pt; pure (.setMax c)
  | _ => fail

def rectOut : P (Option RectS) := do
  let t ← tok
  match t with
  | "panic" => pure none
  | "ok" => do let a ← pt; let b ← pt; pure (some ⟨a, b⟩)
  | _ => fail

def handleRect (inp out : List String) : String :=
  let pin : P (Pt × Pt × List RectOp) := do
    let a ← pt; let b ← pt; let ops ← counted rectOp; pure (a, b, ops)
  match P.run pin inp, P.run (many rectOut) out with
  | some (a, b, ops), some outs =>
    let r0 := rectNew a b
    let (states, panicked) := rectRun r0 ops
    let model : List (Option RectS) := (some r0 :: states.map some) ++ (if panicked then [none] else [])
    let implValid := outs.all (fun o => match o with | some r => rectValid r | none => true)
    let cls := "ops=" ++ toString ops.length ++ (if panicked then " panic" else "")
    reply (model == outs) (if implValid then "PASS" else "FAIL:rect-min-gt-max") cls
      (toString (repr model)) (toString (repr outs))
  | _, _ => "ERR parse"

/-- conversions: `C18.conv <geom> => <kind-specific>` -/
def handleConv (inp out : List String) : String :=
  match P.run geometry inp with
  | none => "ERR parse"
  | some g =>
    -- every geometry: `rt <geom>` (Geometry::from then TryFrom back) then kind-specific tail
    let pout : P (Geom × List String) := do
      lit "rt"; let g' ← rawGeometry; let rest ← (fun ts => some (ts, []))
      pure (g', rest)
    match P.run pout out with
    | none => "ERR parse"
    | some (g', rest) =>
      -- model of "into the Geometry enum and back": `TryFrom<Geometry>` returns the payload; for
      -- GeometryCollection only the blanket `From<IG: Into<Geometry>>` exists, which wraps.
      let modelRt : Geom := match g with | .collection _ => .collection [g] | _ => g
      let rtOk := modelRt.str == g'.str
      let coordsKept := coordsIter g' == coordsIter g
      let tail : Option Bool := match g with
        | .rect a b =>
          let r : RectS := ⟨a, b⟩
          let p : P (List Pt × List Pt × List Pt) := do
            lit "from"; let f ← pts; lit "to"; let t ← pts; lit "lines"; let l ← pts; pure (f, t, l)
          (P.run p rest).map (fun (f, t, l) =>
            f == rectToPolygonFrom r && t == rectToPolygon r &&
            l == (rectToLines r).flatMap (fun (u, v) => [u, v]))
        | .triangle a b c =>
          let p : P (Nat × List Pt × Nat × List Pt) := do
            lit "poly"; let n1 ← nat; let t1 ← pts; lit "topoly"; let n2 ← nat; let t2 ← pts; pure (n1, t1, n2, t2)
          -- `arr`: `Triangle::from([a, b, c]).to_array()` and the coordinates of `Triangle::from([a, b, c]).to_lines()`:
          -- the array conversions keep the corners in the order given (only `Triangle::new` re-orients)
          let p2 : P ((Nat × List Pt × Nat × List Pt) × List Pt × List Pt) := do
            let x ← p; lit "arr"; let ar ← pts; lit "lines"; let ls ← pts; pure (x, ar, ls)
          (P.run p2 rest).map (fun ((n1, t1, n2, t2), ar, ls) =>
            n1 == 0 && n2 == 0 && t1 == triangleToPolygon a b c && t2 == triangleToPolygon a b c &&
            ar == [a, b, c] && ls == [a, b, b, c, c, a])
        | .line a b =>
          let p : P (List Pt) := do lit "ls"; pts
          (P.run p rest).map (fun t => t == lineToLineString a b)
        | _ => if rest.isEmpty then some true else none
      match tail with
      | none => "ERR parse"
      | some tOk =>
        let cls := (g.str.splitOn " ").head!
        reply (rtOk && tOk) (if coordsKept && tOk then "PASS" else "FAIL:conversion-changed-coordinates")
          cls modelRt.str (String.intercalate " " out)

def handle (op : String) (inp out : List String) : Option String :=
  match op with
  | "C18.poly" => some (handlePoly inp out)
  | "C18.rect" => some (handleRect inp out)
  | "C18.conv" => some (handleConv inp out)
  | _ => none

end Geo.Ops.C18
