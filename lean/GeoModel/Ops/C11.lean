/-
  Driver operations for C11 (`line_intersection`).
-/
import GeoModel.Parse
import GeoModel.LineIntersection
import GeoModel.Distance

namespace Geo.Ops.C11
open Geo Geo.P

def liOut : P (Option LI) := do
  let t ← tok
  match t with
  | "none" => pure none
  | "single" => do
      let p ← pt
      let k ← tok
      if k = "proper" then pure (some (.single p true))
      else if k = "improper" then pure (some (.single p false)) else fail
  | "collinear" => do let a ← pt; let b ← pt; pure (some (.collinear a b))
  | _ => fail

def liStr : Option LI → String
  | none => "none"
  | some (.single p pr) => "single " ++ p.str ++ (if pr then " proper" else " improper")
  | some (.collinear a b) => "collinear " ++ a.str ++ " " ++ b.str

def cls : Option LI → String
  | none => "none"
  | some (.single _ true) => "proper"
  | some (.single _ false) => "improper"
  | some (.collinear _ _) => "collinear"

structure Out where
  li : Option LI
  swapped : Option LI
  isx : Bool
  isxSwapped : Bool

def outP : P Out := do
  lit "li"; let a ← liOut
  lit "swapped"; let b ← liOut
  lit "isx"; let c ← bool; let d ← bool
  pure ⟨a, b, c, d⟩

def maxAbs (ps : List Pt) : Rat := ps.foldl (fun m p => rmax m (rmax (rabs p.x) (rabs p.y))) 0

/-- same classification; equal point (improper) / equal overlap up to direction (collinear) -/
def sameUpToDir : Option LI → Option LI → Bool
  | none, none => true
  | some (.single a false), some (.single b false) => a == b
  | some (.single _ true), some (.single _ true) => true
  | some (.collinear a b), some (.collinear c d) => (a == c && b == d) || (a == d && b == c)
  | _, _ => false

def inBox (p a b : Pt) : Bool := pointInRect p a b

/-- Coordinates so small that products of coordinate differences underflow: Shewchuk's adaptive
predicates (the `robust` crate behind `RobustKernel`) are exact only in the absence of
underflow/overflow, so exactness is not guaranteed there. -/
def underflowRange (ps : List Pt) : Bool :=
  let tiny : Rat := pow2 (-400)
  let huge : Rat := pow2 400
  ps.any (fun p => (p.x != 0 && rabs p.x < tiny) || (p.y != 0 && rabs p.y < tiny) ||
    rabs p.x > huge || rabs p.y > huge)

/-- property clauses for one call `line_intersection(p, q) = res`, given the exact model value -/
def propOne (p1 p2 q1 q2 : Pt) (res m : Option LI) (tolOk : Pt → Pt → Bool) : String :=
  let zeroLen := p1 == p2 || q1 == q2
  let isEndpoint (x : Pt) := x == p1 || x == p2 || x == q1 || x == q2
  if res.isSome != lineLine p1 p2 q1 q2 then "FAIL:none-iff-disjoint"
  else match res with
    | some (.collinear a b) =>
      if a == b then (if zeroLen then "FAIL:degenerate-collinear-zero-length-operand" else "FAIL:degenerate-collinear")
      else if !(lineCoord p1 p2 a && lineCoord p1 p2 b && lineCoord q1 q2 a && lineCoord q1 q2 b) then "FAIL:overlap-not-shared"
      else if !sameUpToDir m res then "FAIL:overlap-not-exact" else "PASS"
    | some (.single x false) =>
      if !isEndpoint x then "FAIL:improper-not-endpoint"
      else if !(lineCoord p1 p2 x && lineCoord q1 q2 x) then "FAIL:improper-not-shared"
      else if (match m with | some (.single _ false) => false | _ => true) then "FAIL:improper-flag-wrong"
      else "PASS"
    | some (.single x true) =>
      if (match m with | some (.single _ true) => false | _ => true) then "FAIL:proper-flag-wrong"
      else if !(inBox x p1 p2 && inBox x q1 q2) then
        -- `nearest_endpoint` fallback: the end point (of either segment) nearest to the *other* segment.
        -- The known class K11 is exactly "the fallback returned a nearest end point" (which may sit an ulp
        -- outside the other bounding box); an end point that is not nearest (up to the rounding of the four f64 distances the
        -- code compares) is a different failure.
        (if isEndpoint x then
          let d (e : Pt) (onP : Bool) : Rat := if onP then psd2 e q1 q2 else psd2 e p1 p2
          let dmin := rmin (rmin (d p1 true) (d p2 true)) (rmin (d q1 false) (d q2 false))
          let dx := rmin (if x == p1 || x == p2 then psd2 x q1 q2 else dmin + dmin + 1)
                         (if x == q1 || x == q2 then psd2 x p1 p2 else dmin + dmin + 1)
          -- `nearest_endpoint` compares four f64 distances, each computed (cross product over length) with an
          -- absolute error of a few ulps of the coordinate magnitude M; "nearest" is therefore judged up to
          -- T = 2^-47·M on the distances: accept when √dx ≤ √dmin + T, decided exactly on the squares.
          let mag := [p1, p2, q1, q2].foldl (fun m c => rmax m (rmax (rabs c.x) (rabs c.y))) 0
          let t2 := (mag * pow2 (-47)) * (mag * pow2 (-47))
          let a := dx - dmin - t2
          if dx ≤ dmin + dmin / 1073741824 || a ≤ 0 || a * a ≤ 4 * dmin * t2 then
            "FAIL:proper-outside-bbox-endpoint-fallback"
          else "FAIL:proper-outside-bbox-endpoint-not-nearest"
         else "FAIL:proper-outside-bbox")
      else match m with
        | some (.single e true) => if tolOk x e then "PASS" else "FAIL:proper-point-inaccurate"
        | _ => "PASS"
    | none => "PASS"

def handleLI (inp out : List String) : String :=
  let pin : P (Pt × Pt × Pt × Pt) := do
    let a ← pt; let b ← pt; let c ← pt; let d ← pt; pure (a, b, c, d)
  match P.run pin inp, P.run outP out with
  | some (p1, p2, q1, q2), some o =>
    let m := lineIntersection p1 p2 q1 q2
    let ms := lineIntersection q1 q2 p1 p2
    let mx := lineLine p1 p2 q1 q2
    let mxs := lineLine q1 q2 p1 p2
    let M := maxAbs [p1, p2, q1, q2]
    -- conditioning of the proper intersection: |w| relative to the segment lengths
    let w := (p1.y - p2.y) * (q2.x - q1.x) - (q1.y - q2.y) * (p2.x - p1.x)
    let scale := (rabs (p2.x - p1.x) + rabs (p2.y - p1.y)) * (rabs (q2.x - q1.x) + rabs (q2.y - q1.y))
    let illcond := rabs w * 1099511627776 ≤ scale    -- |w| ≤ 2^-40 · ‖p‖₁‖q‖₁
    let cond : Rat := if w == 0 then 1 else rmax 1 (scale / rabs w)
    let tol := M * 64 * uRound * cond
    let tolOk (x e : Pt) : Bool := illcond || (rabs (x.x - e.x) ≤ tol && rabs (x.y - e.y) ≤ tol)
    let ptOk (mdl impl : Option LI) : Bool := match mdl, impl with
      | some (.single e true), some (.single x true) => inBox x p1 p2 && inBox x q1 q2 && tolOk x e
      | a, b => a == b
    let same := ptOk m o.li && ptOk ms o.swapped && o.isx == mx && o.isxSwapped == mxs
    let c1 := propOne p1 p2 q1 q2 o.li m tolOk
    let c2 := propOne q1 q2 p1 p2 o.swapped ms tolOk
    let prop :=
      if c1 != "PASS" then c1
      else if c2 != "PASS" then c2
      else if o.isx != o.li.isSome || o.isxSwapped != o.li.isSome then "FAIL:disagrees-with-intersects"
      else if !sameUpToDir o.li o.swapped then "FAIL:order-dependent"
      else "PASS"
    let bbDisjoint := !rectRect (lineBBox p1 p2).1 (lineBBox p1 p2).2 (lineBBox q1 q2).1 (lineBBox q1 q2).2
    let tags := "class=" ++ cls m ++ (if illcond && cls m == "proper" then " illcond" else "") ++
      (if p1 == p2 || q1 == q2 then " zero-length" else "") ++
      (if underflowRange [p1, p2, q1, q2] then " underflow-range" else "") ++
      (if cls m == "none" && bbDisjoint then " triv" else "")
    reply same prop tags ("li " ++ liStr m ++ " swapped " ++ liStr ms ++ " isx " ++ toString mx ++ " " ++ toString mxs)
      (String.intercalate " " out)
  | _, _ => "ERR parse"

def handle (op : String) (inp out : List String) : Option String :=
  match op with
  | "C11.li" => some (handleLI inp out)
  | _ => none

end Geo.Ops.C11
