/-
  Driver operations for C04 (Boolean operations, unary_union, clip, glue functions).

  The overlay engine is a parameter of the model; here it is instantiated, per case, by the engine's
  *recorded* answers (the harness asks the engine through the `verif-hooks` probes for every rule the
  model might choose). Model output = geo's glue (GeoModel/BoolGlue.lean) around those answers; it must
  equal what the public API returned. The property verdict is the exact oracle of GeoModel/BoolSpec.lean
  evaluated on the implementation's result only.
-/
import GeoModel.Parse
import GeoModel.BoolGlue
import GeoModel.BoolSpec

namespace Geo.Ops.C04
open Geo Geo.P Geo.BoolGlue Geo.BoolSpec

def pathsP : P (List Path) := counted pts
def shapesP : P (List Shape) := counted (counted pts)

/-- a `PG` / `MPG` input (through the constructors): the geometry and its member polygons -/
def arealP : P (Geom × List Poly) := do
  let g ← geometry
  match g with
  | .polygon p => pure (g, [p])
  | .multiPolygon ps => pure (g, ps)
  | _ => fail

def mpgRawP : P (List Poly) := do
  let g ← rawGeometry
  match g with
  | .multiPolygon ps => pure ps
  | _ => fail

def mlsRawP : P (List (List Pt)) := do
  let g ← rawGeometry
  match g with
  | .multiLineString ls => pure ls
  | _ => fail

def allRules : List OverlayRule := [.subject, .clip, .intersect, .union, .difference, .inverseDifference, .xor]

def polysStr (ps : List Poly) : String := (Geom.multiPolygon ps).str

/-- does some ring carry repeated consecutive vertices / a repeated closing vertex? -/
def hasRepeat (rs : List (List Pt)) : Bool := rs.any (fun r => dedupConsecutive r != r)
def hasRepeatedClosing (rs : List (List Pt)) : Bool :=
  rs.any (fun r => match r.reverse with | a :: b :: _ => a == b && some a == r.head? | _ => false)

/-- do two edges of the operands overlap collinearly (shared boundary piece)? -/
def sharedEdge (a b : List (Pt × Pt)) : Bool :=
  a.any (fun s => s.1 != s.2 && b.any (fun t => t.1 != t.2 &&
    match lineIntersection s.1 s.2 t.1 t.2 with
    | some (.collinear x y) => x != y
    | _ => false))

def kindTag (g : Geom) : String := (g.str.splitOn " ").head!

/-! #### C04.bool -/

structure BoolOut where
  subj : List Path
  clip : List Path
  raw : List (List Shape)       -- per engine rule, declaration order
  rules : List String
  res : List (List Poly)        -- Intersection, Union, Difference, Xor

def boolOutP : P BoolOut := do
  lit "subj"; let s ← pathsP
  lit "clip"; let c ← pathsP
  lit "raw"; let raw ← rep 7 shapesP
  lit "rules"; let rules ← rep 4 tok
  lit "res"; let res ← rep 4 mpgRawP
  pure ⟨s, c, raw, rules, res⟩

def recordedOverlay (o : BoolOut) : Engine :=
  { overlay := fun s c r f =>
      if s == o.subj && c == o.clip && f == .evenOdd then
        ((allRules.zip o.raw).find? (fun x => x.1 == r)).elim [] (·.2)
      else []
    single := fun _ _ => []
    clip := fun _ _ _ _ _ => [] }

def ruleOfName? (s : String) : Option OverlayRule := allRules.find? (fun r => r.str == s)

/-- the rule table clause: the rule geo hands to the engine for `op` means `op` -/
def ruleTableOk (names : List String) : Bool :=
  (OpType.all.zip names).all (fun (op, nm) => match ruleOfName? nm with
    | none => false
    | some r => [(false, false), (false, true), (true, false), (true, true)].all
        (fun (a, b) => ruleCombine r a b == opCombine op a b))
  && names.length == 4

def handleBool (inp out : List String) : String :=
  let pin : P (Rat × (Geom × List Poly) × (Geom × List Poly)) := do
    let u ← rat; let a ← arealP; let b ← arealP; pure (u, a, b)
  match P.run pin inp with
  | none => "ERR parse-input"
  | some (u, (ga, a), (gb, b)) =>
    if !(validGeom ga && validGeom gb) then skip "invalid-operand" else
    if u ≤ 0 then "ERR unit" else
    let ra := rings a
    let rb := rings b
    let tagsBase := "A=" ++ kindTag ga ++ " B=" ++ kindTag gb ++
      (if hasRepeat (ra ++ rb) then " repeated-vertex" else "") ++
      (if hasRepeatedClosing (ra ++ rb) then " repeated-closing" else "") ++
      (if (a ++ b).any (fun p => !p.ints.isEmpty) then " holes" else "") ++
      (if u != 1 then " placed" else "")
    if out == ["panic"] then reply false "FAIL:panic" tagsBase "no-panic" "panic" else
    match P.run boolOutP out with
    | none => "ERR parse-output"
    | some o =>
      -- model
      let E := recordedOverlay o
      let subjM := ra.map ringToShapePath
      let clipM := rb.map ringToShapePath
      let modelRes := OpType.all.map (fun op => booleanOp E a b op)
      let rulesM := OpType.all.map (fun op => (opToRule op).str)
      let same := o.subj == subjM && o.clip == clipM && o.rules == rulesM && o.res == modelRes
      -- oracle
      let rs := ra ++ rb
      let aA := mpArea a
      let aB := mpArea b
      let (prop, cls) : String × String :=
        match bbox (allCoords rs) with
        | none =>
          ((if o.res.all (·.isEmpty) then "PASS" else "FAIL:nonempty-result-of-empty-operands"), " both-empty triv")
        | some bb =>
          let aI := interArea bb.1 a b
          let tolA := areaTol bb rs
          let tolD := distTol bb
          let samples := samplePoints bb u
          let inSegs := rs.flatMap segs
          -- location of every usable sample w.r.t. A and B, once
          let located : List (Pt × Bool × Bool) := (samples.filter (fun p => !nearSegs p inSegs tolD)).map
            (fun p => (p, insideSpec a p, insideSpec b p))
          let areas := o.res.map mpArea
          let perOp : Option String := (OpType.all.zip o.res).findSome? (fun (op, res) =>
            let w := windingClause res
            if w != "" then some (op.str ++ "-" ++ w)
            else if rabs (mpArea res - expectedArea op aA aB aI) > tolA then some (op.str ++ "-area")
            else if !(located.all (fun (p, ia, ib) => insideSpec res p == opCombine op ia ib)) then some (op.str ++ "-membership")
            else none)
          let ident : Option String := match areas with
            | [i, un, d, x] =>
              if rabs (i + un - (aA + aB)) > 2 * tolA then some "identity-inter-plus-union"
              else if rabs (d - (aA - i)) > 2 * tolA then some "identity-difference"
              else if rabs (x - (un - i)) > 2 * tolA then some "identity-xor"
              else none
            | _ => some "result-count"
          let prop :=
            if !ruleTableOk o.rules then "FAIL:rule-table"
            else match perOp with
              | some c => "FAIL:" ++ c
              | none => match ident with
                | some c => "FAIL:" ++ c
                | none => "PASS"
          let rel :=
            if aA == 0 || aB == 0 then "empty-operand"
            else if aI == 0 then "interiors-disjoint"
            else if aI == aA && aI == aB then "equal"
            else if aI == aA || aI == aB then "nested"
            else "overlap"
          (prop, " rel=" ++ rel ++ (if sharedEdge (ra.flatMap segs) (rb.flatMap segs) then " shared-edge" else "") ++
            " samples=" ++ (if located.length ≥ 50 then "50+" else if located.length ≥ 10 then "10+" else "few"))
      reply same prop (tagsBase ++ cls)
        ("subj " ++ toString (subjM.map ptsStr) ++ " clip " ++ toString (clipM.map ptsStr) ++ " rules " ++ toString rulesM ++
          " res " ++ String.intercalate " " (modelRes.map polysStr))
        ("subj " ++ toString (o.subj.map ptsStr) ++ " clip " ++ toString (o.clip.map ptsStr) ++ " rules " ++ toString o.rules ++
          " res " ++ String.intercalate " " (o.res.map polysStr))

/-! #### C04.unary -/

structure UnaryOut where
  subj : List Path
  pos : List Shape
  neg : List Shape
  res : List Poly
  fold : List Poly

def unaryOutP : P UnaryOut := do
  lit "subj"; let s ← pathsP
  lit "pos"; let p ← shapesP
  lit "neg"; let n ← shapesP
  lit "res"; let r ← mpgRawP
  lit "fold"; let f ← mpgRawP
  pure ⟨s, p, n, r, f⟩

def recordedSingle (o : UnaryOut) : Engine :=
  { overlay := fun _ _ _ _ => []
    single := fun s f => if s == o.subj then
        (match f with | .positive => o.pos | .negative => o.neg | _ => []) else []
    clip := fun _ _ _ _ _ => [] }

/-- consistently wound: every exterior has the same direction, every hole the opposite one -/
def consistentlyWound (ms : List Poly) : Bool :=
  match ms with
  | [] => true
  | m :: _ =>
    let d := dirSign m.ext
    ms.all (fun p => dirSign p.ext == d && p.ints.all (fun h => dirSign h == -d))

/-- **outside the property's domain**: a collection that is *not* consistently wound. The glue
correspondence is checked as usual (paths, fill rule chosen from the first ring with a winding
order, rebuilt polygons); the verdict is always PASS (the property says nothing here) and the tags
record what the real code does: `region=fill-rule` when the result is, at every usable sample point,
the Positive / Negative region of the *summed* winding numbers (`unaryUnion_inconsistent_*` in
Props/C04.lean: members wound against the first ring are dropped or cut out), and whether that
differs from the fold of pairwise unions. -/
def handleUnaryMixed (u : Rat) (bs : List (Geom × List Poly)) (ms : List Poly) (out : List String) : String :=
  let rs := ms.flatMap Poly.rings
  let tagsBase := "mixed n=" ++ toString ms.length
  if out == ["panic"] then reply false "FAIL:panic" tagsBase "no-panic" "panic" else
  match P.run unaryOutP out with
  | none => "ERR parse-output"
  | some o =>
    let E := recordedSingle o
    let subjM := rs.map ringToShapePath
    let modelRes := unaryUnion E (bs.map (·.2))
    let same := o.subj == subjM && o.res == modelRes
    let cls : String :=
      match bbox (allCoords rs) with
      | none => " triv"
      | some bb =>
        let tolA := areaTol bb rs
        let tolD := distTol bb
        let inSegs := rs.flatMap segs
        let f := unaryFillRule rs
        let located : List (Pt × Bool × Bool) := ((samplePoints bb u).filter (fun p => !nearSegs p inSegs tolD)).map
          (fun p => (p, filled f (-(windRings p rs)), ms.any (fun m => insideSpec [m] p)))
        let byRule := located.all (fun (p, e, _) => insideSpec o.res p == e)
        let isUnion := located.all (fun (p, _, un) => insideSpec o.res p == un)
        " fill=" ++ f.str ++ (if byRule then " region=fill-rule" else " region=other") ++
          (if isUnion then " covers=union" else " covers=less-than-union") ++
          (if rabs (mpArea o.res - mpArea o.fold) > 2 * tolA then " vs-fold=differs" else " vs-fold=same")
    reply same "PASS" (tagsBase ++ cls)
      ("subj " ++ toString (subjM.map ptsStr) ++ " fill " ++ (unaryFillRule rs).str ++ " res " ++ polysStr modelRes)
      ("subj " ++ toString (o.subj.map ptsStr) ++ " res " ++ polysStr o.res)

def handleUnary (inp out : List String) : String :=
  let pin : P (Rat × List (Geom × List Poly)) := do
    let u ← rat
    let gs ← counted arealP
    pure (u, gs)
  match P.run pin inp with
  | none => "ERR parse-input"
  | some (u, bs) =>
    -- every boppable a valid non-empty Polygon / MultiPolygon
    if !(bs.all (fun (g, ps) => validGeom g && ps.all polyValid)) then skip "invalid-operand" else
    let ms := bs.flatMap (·.2)
    if u ≤ 0 then "ERR unit" else
    if !consistentlyWound ms then handleUnaryMixed u bs ms out else
    let rs := ms.flatMap Poly.rings
    let tagsBase := "n=" ++ toString ms.length ++ (match bs with | (g, _) :: _ => " of=" ++ kindTag g | [] => "") ++
      (match ms with | m :: _ => (if dirSign m.ext < 0 then " cw" else " ccw") | [] => "") ++
      (if hasRepeat rs then " repeated-vertex" else "") ++ (if u != 1 then " placed" else "")
    if out == ["panic"] then reply false "FAIL:panic" tagsBase "no-panic" "panic" else
    match P.run unaryOutP out with
    | none => "ERR parse-output"
    | some o =>
      let E := recordedSingle o
      let subjM := rs.map ringToShapePath
      let modelRes := unaryUnion E (bs.map (·.2))
      let same := o.subj == subjM && o.res == modelRes
      let (prop, cls) : String × String :=
        match bbox (allCoords rs) with
        | none => ((if o.res.isEmpty && o.fold.isEmpty then "PASS" else "FAIL:nonempty-result-of-empty-collection"), " triv")
        | some bb =>
          let tolA := areaTol bb rs
          let tolD := distTol bb
          let inSegs := rs.flatMap segs
          let located : List (Pt × Bool) := ((samplePoints bb u).filter (fun p => !nearSegs p inSegs tolD)).map
            (fun p => (p, ms.any (fun m => insideSpec [m] p)))
          let w := windingClause o.res
          let overlapping := sumR (ms.map polyArea) != mpArea o.fold
          let prop :=
            if w != "" then "FAIL:unary-" ++ w
            else if !(located.all (fun (p, e) => insideSpec o.res p == e)) then "FAIL:unary-membership"
            else if !(located.all (fun (p, e) => insideSpec o.fold p == e)) then "FAIL:fold-membership"
            else if rabs (mpArea o.res - mpArea o.fold) > 2 * tolA then "FAIL:unary-area-ne-fold-area"
            else if mpArea o.res > sumR (ms.map polyArea) + tolA then "FAIL:unary-area-exceeds-sum"
            else "PASS"
          (prop, (if overlapping then " members-overlap" else " members-disjoint") ++ (if ms.length < 2 then " triv" else ""))
      reply same prop (tagsBase ++ cls)
        ("subj " ++ toString (subjM.map ptsStr) ++ " fill " ++ (unaryFillRule rs).str ++ " res " ++ polysStr modelRes)
        ("subj " ++ toString (o.subj.map ptsStr) ++ " res " ++ polysStr o.res)

/-! #### C04.clip -/

structure ClipOut where
  lines : List Path
  clip : List Path
  rawIn : List Path
  rawOut : List Path
  resIn : List (List Pt)
  resOut : List (List Pt)

def clipOutP : P ClipOut := do
  lit "lines"; let l ← pathsP
  lit "clip"; let c ← pathsP
  lit "in"; let i ← pathsP
  lit "out"; let o ← pathsP
  lit "resin"; let ri ← mlsRawP
  lit "resout"; let ro ← mlsRawP
  pure ⟨l, c, i, o, ri, ro⟩

def recordedClip (o : ClipOut) : Engine :=
  { overlay := fun _ _ _ _ => []
    single := fun _ _ => []
    clip := fun l c f invert incl =>
      if l == o.lines && c == o.clip && f == .evenOdd && incl then (if invert then o.rawOut else o.rawIn) else [] }

def handleClip (inp out : List String) : String :=
  let pin : P (Rat × (Geom × List Poly) × List (List Pt)) := do
    let u ← rat; let a ← arealP
    let g ← geometry
    match g with
    | .multiLineString ls => pure (u, a, ls)
    | _ => fail
  match P.run pin inp with
  | none => "ERR parse-input"
  | some (u, (ga, a), ls) =>
    if !(validGeom ga) then skip "invalid-operand" else
    if !(multiLineValid ls) then skip "line-string-not-simple" else
    let ra := rings a
    let bnd := ra.flatMap segs
    let lsegs := ls.flatMap segs
    let along := sharedEdge lsegs bnd
    let crosses := lsegs.any (fun s => bnd.any (fun t => match lineIntersection s.1 s.2 t.1 t.2 with
      | some (.single _ _) => true | _ => false))
    let tagsBase := "A=" ++ kindTag ga ++ " members=" ++ toString ls.length ++
      (if along then " along-boundary" else "") ++ (if crosses then " meets-boundary" else "") ++
      (if u != 1 then " placed" else "") ++ (if hasRepeat ra then " repeated-vertex" else "")
    if out == ["panic"] then reply false "FAIL:panic" tagsBase "no-panic" "panic" else
    match P.run clipOutP out with
    | none => "ERR parse-output"
    | some o =>
      let E := recordedClip o
      let clipM := ra.map ringToShapePath
      let mIn := BoolGlue.clip E a ls false
      let mOut := BoolGlue.clip E a ls true
      let same := o.lines == ls && o.clip == clipM && o.resIn == mIn && o.resOut == mOut
      let (prop, cls) : String × String :=
        match bbox (allCoords (ra ++ ls)) with
        | none => ((if o.resIn.isEmpty && o.resOut.isEmpty then "PASS" else "FAIL:clip-of-nothing"), " triv")
        | some bb =>
          let tolD := distTol bb
          let c := clipClause a ls o.resIn o.resOut tolD
          ((if c == "" then "PASS" else "FAIL:" ++ c),
            (if ra.all (·.isEmpty) then " empty-polygon" else "") ++
            (if !along && !crosses then (if o.resIn.isEmpty then " all-outside" else " all-inside") else ""))
      let shw (x : List (List Pt)) := (Geom.multiLineString x).str
      reply same prop (tagsBase ++ cls)
        ("clip " ++ toString (clipM.map ptsStr) ++ " in " ++ shw mIn ++ " out " ++ shw mOut)
        ("clip " ++ toString (o.clip.map ptsStr) ++ " in " ++ shw o.resIn ++ " out " ++ shw o.resOut)

/-! #### C04.glue -/

def handleGlue (inp0 out : List String) : String :=
  let (mk, inp) := P.splitMarker inp0
  match inp with
  | "ring" :: rest0 =>
    let rest := mk ++ rest0
    match P.run pts rest, P.run pts out with
    | some r, some q =>
      let m := ringToShapePath r
      let closed := ringClosed r && !r.isEmpty
      -- what the engine needs, and that nothing but copies of the first coordinate was dropped
      let prop :=
        if !closed then "PASS"
        else if !pathOk q then "FAIL:path-ends-in-its-first-coordinate"
        else if !(q.isPrefixOf r && (r.drop q.length).all (fun c => some c == r.head?)) then "FAIL:path-drops-a-vertex"
        else "PASS"
      reply (q == m) prop
        ("glue=ring" ++ (if closed then " closed" else " open") ++ (if hasRepeat [r] then " repeated-vertex" else "") ++
          (if hasRepeatedClosing [r] then " repeated-closing" else "") ++ (if r.length < 4 then " short" else ""))
        (ptsStr m) (ptsStr q)
    | _, _ => "ERR parse"
  | "shape" :: rest0 =>
    let rest := mk ++ rest0
    let pout : P Poly := do
      let g ← rawGeometry
      match g with
      | .polygon p => pure p
      | _ => fail
    match P.run (counted pts) rest, P.run pout out with
    | some sh, some p =>
      let m := polygonFromShape sh
      let prop :=
        if !(p.rings.all ringClosed) then "FAIL:ring-not-closed"
        else if p.rings.length != max 1 sh.length then "FAIL:ring-count"
        else "PASS"
      reply (p == m) prop ("glue=shape paths=" ++ toString sh.length) (Geom.polygon m).str (Geom.polygon p).str
    | _, _ => "ERR parse"
  | ["rule"] =>
    let m := OpType.all.map (fun op => (opToRule op).str)
    reply (out == m) (if ruleTableOk out then "PASS" else "FAIL:rule-table") "glue=rule"
      (String.intercalate " " m) (String.intercalate " " out)
  | _ => "ERR parse"

def handle (op : String) (inp out : List String) : Option String :=
  match op with
  | "C04.bool" => some (handleBool inp out)
  | "C04.unary" => some (handleUnary inp out)
  | "C04.clip" => some (handleClip inp out)
  | "C04.glue" => some (handleGlue inp out)
  | _ => none

end Geo.Ops.C04
