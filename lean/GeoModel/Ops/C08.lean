/-
  Driver operations for C08 (convex hull, minimum rotated rectangle).

    C08.hull <f64|i64> <geom> => qh <ring> gh <ring> ghi <ring> ch <k> <ring>
    C08.mrr <geom>            => none | some <k> <ring>
-/
import GeoModel.Parse
import GeoModel.Traverse
import GeoModel.Hull

namespace Geo.Ops.C08
open Geo Geo.P Geo.Hull

structure HullOut where
  qh : List Pt
  gh : List Pt
  ghi : List Pt
  chRings : Nat
  ch : List Pt

def hullOut : P HullOut := do
  lit "qh"; let a ← pts
  lit "gh"; let b ← pts
  lit "ghi"; let c ← pts
  lit "ch"; let k ← nat; let d ← pts
  pure ⟨a, b, c, k, d⟩

def hasCwTriple (c : List Pt) : Bool :=
  let rec go : List Pt → Bool
    | a :: b :: c :: t => orient a b c == .cw || go (b :: c :: t)
    | _ => false
  go (c ++ c.take 2)

/-- The verdict is `isStrictHull`; the rest only names the first failing clause. -/
def ringClause (name : String) (h pts : List Pt) : String :=
  if isStrictHull h pts then "" else
  if h.length < 4 || h.head? != h.getLast? then name ++ "-not-a-closed-ring"
  else if !(h.all (fun v => pts.contains v)) then name ++ "-vertex-not-an-input-coordinate"
  else if hasCwTriple h.dropLast then name ++ "-not-convex"
  else if !cycTriplesCcw h.dropLast then name ++ "-vertex-collinear-with-neighbours-or-repeated"
  else name ++ "-input-coordinate-outside"

def propHull (pts : List Pt) (o : HullOut) : String :=
  if !hasTriangle pts then "PASS" else
  let c1 := ringClause "quick-hull" o.qh pts
  if c1 != "" then "FAIL:" ++ c1 else
  let c2 := ringClause "graham-hull" o.gh pts
  if c2 != "" then "FAIL:" ++ c2 else
  if o.chRings != 1 then "FAIL:convex-hull-has-interior-rings" else
  let c3 := ringClause "convex-hull" o.ch pts
  if c3 != "" then "FAIL:" ++ c3 else
  if !sameVertexSet o.qh o.gh then "FAIL:quick-hull-graham-vertex-sets-differ" else
  "PASS"

def maxAbs (pts : List Pt) : Rat := pts.foldl (fun m p => rmax m (rmax (rabs p.x) (rabs p.y))) 0

def handleHull (inp out : List String) : String :=
  let pin : P (String × Geom) := do let t ← tok; let g ← geometry; pure (t, g)
  match P.run pin inp, P.run hullOut out with
  | some (ty, g), some o =>
    let pts := exteriorCoords g
    let isInt := pts.all (fun p => p.x.den == 1 && p.y.den == 1)
    if ty != "f64" && ty != "i64" then "ERR bad-scalar-type" else
    if ty == "i64" && !(isInt && maxAbs pts ≤ 536870912) then skip "i64-out-of-range" else
    let rnd : Rat → Rat := if ty == "i64" then id else roundF64
    -- the Graham comparator is a total preorder with identical ties, unless rounded distances collide
    if pts.length ≥ 4 && grahamTie rnd (swapRemove pts (leastIndex pts)).1 pts then skip "near-tie-graham-sort" else
    let mq := quickHull rnd pts
    let mg := grahamHull rnd pts false
    let mgi := grahamHull rnd pts true
    let mc := convexHull rnd pts
    -- with an odd number of points the harness computes each reported hull on a buffer that already went through another
    -- hull function (the functions may reorder their scratch buffer): the start vertex then depends on that order, so these
    -- cases are judged by the property alone (the trait method `ch` copies its input and is still compared)
    let reused := pts.length % 2 == 1
    let same := (reused || (o.qh == mq && o.gh == mg && o.ghi == mgi)) && o.ch == mc && o.chRings == 1
    let raw := quickHullRaw rnd pts
    let cls := "ty=" ++ ty ++ " type=" ++ (g.str.splitOn " ").head! ++
      " n=" ++ toString pts.length ++
      (if pts.isEmpty then " triv" else "") ++
      (if hasTriangle pts then " dom=triangle" else " dom=degenerate") ++
      " hull=" ++ toString (mq.length - 1) ++
      (if pts.length ≥ 4 then
        (if raw.2.length > 3 && !isStrictCcwHull raw.2 then
          (if isInt && maxAbs pts ≤ 1048576 then " qh=fallback-tie" else " qh=fallback-rounded")
         else " qh=direct") else " qh=trivial") ++
      (if maxAbs pts > 1048576 || !isInt then " big" else " grid") ++ (if reused then " buffer-reused" else "")
    let m := "qh " ++ ptsStr mq ++ " gh " ++ ptsStr mg ++ " ghi " ++ ptsStr mgi ++ " ch 1 " ++ ptsStr mc
    reply same (propHull pts o) cls m (String.intercalate " " out)
  | _, _ => "ERR parse"

/-! #### minimum_rotated_rect -/

def optRing : P (Option (Nat × List Pt)) := do
  let t ← tok
  match t with
  | "none" => pure none
  | "some" => do let k ← nat; let r ← pts; pure (some (k, r))
  | _ => fail

def shoelace2 : List Pt → Rat
  | a :: b :: t => (a.x * b.y - b.x * a.y) + shoelace2 (b :: t)
  | _ => 0

def bboxOf (ps : List Pt) : Option (Pt × Pt) :=
  match ps with
  | [] => none
  | p :: t => some (t.foldl (fun (acc : Pt × Pt) q =>
      (⟨rmin acc.1.x q.x, rmin acc.1.y q.y⟩, ⟨rmax acc.2.x q.x, rmax acc.2.y q.y⟩)) (p, p))

/-- tolerance `2^-36` relative to the coordinate scale -/
def tolRel : Rat := 1 / 68719476736

def propMrr (pts : List Pt) (r : Option (Nat × List Pt)) : String × Rat :=
  match r, bboxOf pts with
  | none, none => ("PASS", 0)
  | none, some _ => ("FAIL:mrr-none-for-non-empty-input", 0)
  | some _, none => ("FAIL:mrr-some-for-empty-input", 0)
  | some (k, ring), some (mn, mx) =>
    let s := rmax 1 (maxAbs pts)
    let tl := s * tolRel
    let ta := s * s * tolRel
    let area2 := shoelace2 ring
    let area := rabs area2 / 2
    if k != 1 then ("FAIL:mrr-has-interior-rings", area) else
    match ring with
    | [r0, r1, r2, r3, r4] =>
      if r0 != r4 then ("FAIL:mrr-not-closed", area) else
      let e0 := r1 - r0; let e1 := r2 - r1; let e2 := r3 - r2; let e3 := r4 - r3
      let near0 (v : Pt) : Bool := rabs v.x ≤ tl && rabs v.y ≤ tl
      if !(near0 (e0 + e2) && near0 (e1 + e3)) then ("FAIL:mrr-not-a-parallelogram", area) else
      if rabs (dot e0 e1) > ta then ("FAIL:mrr-not-right-angled", area) else
      let sg : Rat := if area2 < 0 then -1 else 1
      let inside (p : Pt) : Bool :=
        (edges ring).all (fun e =>
          let c := sg * cross e.1 e.2 p
          c ≥ 0 || c * c ≤ tl * tl * dist2 e.1 e.2 || area ≤ ta) &&
        (match bboxOf ring with
          | some (a, b) => a.x - tl ≤ p.x && p.x ≤ b.x + tl && a.y - tl ≤ p.y && p.y ≤ b.y + tl
          | none => false)
      if !pts.all inside then ("FAIL:mrr-input-coordinate-outside", area) else
      if area > (mx.x - mn.x) * (mx.y - mn.y) + ta then ("FAIL:mrr-area-exceeds-bounding-rect", area) else
      ("PASS", area)
    | _ => ("FAIL:mrr-not-five-coordinates", area)

def handleMrr (inp out : List String) : String :=
  match P.run geometry inp, P.run optRing out with
  | some g, some r =>
    let pts := exteriorCoords g
    let hull := convexHull roundF64 pts
    let model := if pts.isEmpty then none else minBoxArea hull
    let (prop, area) := propMrr pts r
    let s := rmax 1 (maxAbs pts)
    let same := match model, r with
      | none, none => true
      | some m, some _ => rabs (m - area) ≤ s * s * tolRel
      | _, _ => false
    let cls := "type=" ++ (g.str.splitOn " ").head! ++ " n=" ++ toString pts.length ++
      (if pts.isEmpty then " triv" else "") ++
      (if hasTriangle pts then " dom=triangle" else " dom=degenerate") ++
      (match model, bboxOf pts with
        | some m, some (mn, mx) => if m < (mx.x - mn.x) * (mx.y - mn.y) then " rotated-smaller" else " axis-aligned-optimal"
        | _, _ => "")
    reply same prop cls ("area " ++ (match model with | some m => ratStr m | none => "none"))
      ("area " ++ ratStr area ++ " " ++ String.intercalate " " out)
  | _, _ => "ERR parse"

def handle (op : String) (inp out : List String) : Option String :=
  match op with
  | "C08.hull" => some (handleHull inp out)
  | "C08.mrr" => some (handleMrr inp out)
  | _ => none

end Geo.Ops.C08
