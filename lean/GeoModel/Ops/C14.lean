/-
  Driver operations for C14 (validation).

  `C14.valid <geom> => valid <bool|panic> check <ok|ERR|panic> errors <n ERR…|panic> wrap <bool>`
  (`ERR` = one token, fields separated by `:`; see harness/src/c14.rs).
-/
import GeoModel.Parse
import GeoModel.ValidationSpec

namespace Geo.Ops.C14
open Geo Geo.P Geo.V

/-! #### input geometries with possibly non-finite coordinates, through the constructors -/

def xpt : P XPt := do
  let x ← xnum
  let y ← xnum
  pure ⟨x, y⟩

def xpts : P (List XPt) := counted xpt

/-- `LineString::close` with f64 equality (a ring starting with NaN never compares closed) -/
def closeRingX (r : List XPt) : List XPt :=
  match r.head?, r.getLast? with
  | some a, some b => if ceq a b then r else r ++ [a]
  | _, _ => r

def xpoly : P XPoly := do
  let k ← nat
  match k with
  | 0 => pure ⟨[], []⟩
  | k + 1 =>
    let ext ← xpts
    let ints ← rep k xpts
    pure ⟨closeRingX ext, ints.map closeRingX⟩

def xgeomG : Nat → P XGeom
  | 0 => fail
  | fuel + 1 => do
    let t ← tok
    match t with
    | "PT" => do let p ← xpt; pure (.point p)
    | "LN" => do let a ← xpt; let b ← xpt; pure (.line a b)
    | "LS" => do let cs ← xpts; pure (.lineString cs)
    | "PG" => do let p ← xpoly; pure (.polygon p)
    | "MPT" => do let ps ← xpts; pure (.multiPoint ps)
    | "MLS" => do let ls ← counted xpts; pure (.multiLineString ls)
    | "MPG" => do let ps ← counted xpoly; pure (.multiPolygon ps)
    | "RC" => do
        -- `Rect::new`
        let a ← xpt; let b ← xpt
        let (mnx, mxx) := if flt a.x b.x then (a.x, b.x) else (b.x, a.x)
        let (mny, mxy) := if flt a.y b.y then (a.y, b.y) else (b.y, a.y)
        pure (.rect ⟨mnx, mny⟩ ⟨mxx, mxy⟩)
    | "TR" => do let a ← xpt; let b ← xpt; let c ← xpt; pure (.triangle a b c)
    | "GC" => do let gs ← counted (xgeomG fuel); pure (.collection gs)
    | _ => fail

def xgeometry : P XGeom := xgeomG 8

/-! #### error tokens -/

def Role.str : Role → String
  | .ext => "E"
  | .int i => "I" ++ toString i

def roleOfStr? (s : String) : Option Role :=
  match s.toList with
  | ['E'] => some .ext
  | 'I' :: rest => (String.ofList rest).toNat?.map Role.int
  | _ => none

def lsErrStr : LsErr → String
  | .tooFew => "LS.TooFew"
  | .nonFinite i => "LS.NonFinite:" ++ toString i

def polyErrStr : PolyErr → String
  | .tooFew r => "PG.TooFew:" ++ Role.str r
  | .selfInt r => "PG.SelfInt:" ++ Role.str r
  | .nonFinite r i => "PG.NonFinite:" ++ Role.str r ++ ":" ++ toString i
  | .notContained r => "PG.NotContained:" ++ Role.str r
  | .onLine a b => "PG.OnLine:" ++ Role.str a ++ ":" ++ Role.str b
  | .onArea a b => "PG.OnArea:" ++ Role.str a ++ ":" ++ Role.str b

def gErrStr : GErr → String
  | .pt => "PT.NonFinite"
  | .ln .identical => "LN.Identical"
  | .ln (.nonFinite i) => "LN.NonFinite:" ++ toString i
  | .ls e => lsErrStr e
  | .pg e => polyErrStr e
  | .mpt i => "MPT:" ++ toString i ++ ":PT.NonFinite"
  | .mls i e => "MLS:" ++ toString i ++ ":" ++ lsErrStr e
  | .mpg (.poly i e) => "MPG:" ++ toString i ++ ":" ++ polyErrStr e
  | .mpg (.overlap i j) => "MPG.Overlap:" ++ toString i ++ ":" ++ toString j
  | .mpg (.touchLine i j) => "MPG.TouchLine:" ++ toString i ++ ":" ++ toString j
  | .rc (.nonFinite i) => "RC.NonFinite:" ++ toString i
  | .tr (.nonFinite i) => "TR.NonFinite:" ++ toString i
  | .tr (.identical i j) => "TR.Identical:" ++ toString i ++ ":" ++ toString j
  | .tr .collinear => "TR.Collinear"
  | .gc i e => "GC:" ++ toString i ++ ":" ++ gErrStr e

def lsErrOf? : List String → Option LsErr
  | ["LS.TooFew"] => some .tooFew
  | ["LS.NonFinite", i] => i.toNat?.map LsErr.nonFinite
  | _ => none

def polyErrOf? : List String → Option PolyErr
  | ["PG.TooFew", r] => (roleOfStr? r).map PolyErr.tooFew
  | ["PG.SelfInt", r] => (roleOfStr? r).map PolyErr.selfInt
  | ["PG.NonFinite", r, i] => do let r ← roleOfStr? r; let i ← i.toNat?; pure (.nonFinite r i)
  | ["PG.NotContained", r] => (roleOfStr? r).map PolyErr.notContained
  | ["PG.OnLine", a, b] => do let a ← roleOfStr? a; let b ← roleOfStr? b; pure (.onLine a b)
  | ["PG.OnArea", a, b] => do let a ← roleOfStr? a; let b ← roleOfStr? b; pure (.onArea a b)
  | _ => none

def gErrOf? : List String → Option GErr
  | ["PT.NonFinite"] => some .pt
  | ["LN.Identical"] => some (.ln .identical)
  | ["LN.NonFinite", i] => i.toNat?.map (fun i => .ln (.nonFinite i))
  | "MPT" :: i :: ["PT.NonFinite"] => i.toNat?.map GErr.mpt
  | "MLS" :: i :: rest => do let i ← i.toNat?; let e ← lsErrOf? rest; pure (.mls i e)
  | "MPG" :: i :: rest => do let i ← i.toNat?; let e ← polyErrOf? rest; pure (.mpg (.poly i e))
  | ["MPG.Overlap", i, j] => do let i ← i.toNat?; let j ← j.toNat?; pure (.mpg (.overlap i j))
  | ["MPG.TouchLine", i, j] => do let i ← i.toNat?; let j ← j.toNat?; pure (.mpg (.touchLine i j))
  | ["RC.NonFinite", i] => i.toNat?.map (fun i => .rc (.nonFinite i))
  | ["TR.NonFinite", i] => i.toNat?.map (fun i => .tr (.nonFinite i))
  | ["TR.Identical", i, j] => do let i ← i.toNat?; let j ← j.toNat?; pure (.tr (.identical i j))
  | ["TR.Collinear"] => some (.tr .collinear)
  | "GC" :: i :: rest => do let i ← i.toNat?; let e ← gErrOf? rest; pure (.gc i e)
  | l => match lsErrOf? l with
    | some e => some (.ls e)
    | none => (polyErrOf? l).map GErr.pg

def errTok : P GErr := do
  let t ← tok
  match gErrOf? (t.splitOn ":") with
  | some e => pure e
  | none => fail

/-- `none` = the call panicked -/
structure ImplOut where
  valid : Option Bool
  check : Option (Option GErr)
  errors : Option (List GErr)
  wrap : Bool

def implOut : P ImplOut := do
  lit "valid"
  let v ← (do
    match ← peek? with
    | some "panic" => do let _ ← tok; pure none
    | _ => do let b ← bool; pure (some b))
  lit "check"
  let c ← (do
    match ← peek? with
    | some "panic" => do let _ ← tok; pure none
    | some "ok" => do let _ ← tok; pure (some none)
    | _ => do let e ← errTok; pure (some (some e)))
  lit "errors"
  let es ← (do
    match ← peek? with
    | some "panic" => do let _ ← tok; pure none
    | _ => do let l ← counted errTok; pure (some l))
  lit "wrap"
  let w ← bool
  pure ⟨v, c, es, w⟩

/-! #### which rings does an error talk about (for the oracle and the domain filter) -/

def polyAt : XGeom → GErr → Option XPoly
  | .polygon p, .pg _ => some p
  | .multiPolygon ps, .mpg (.poly i _) => ps[i]?
  | .collection gs, .gc i e => (match gs[i]? with | some g => polyAt g e | none => none)
  | _, _ => none

def polyErrOfG : GErr → Option PolyErr
  | .pg e => some e
  | .mpg (.poly _ e) => some e
  | .gc _ e => polyErrOfG e
  | _ => none

/-- the ring a `SelfIntersection` error names -/
def selfIntRing (g : XGeom) (e : GErr) : Option XRing :=
  match polyAt g e, polyErrOfG e with
  | some p, some (.selfInt role) => getRing p role
  | _, _ => none

def ringBadX (r : XRing) : Bool :=
  match ringToPts? r with
  | some q => !r.isEmpty && !ringSimple q
  | none => true

/-- Is this a ring-pair / member-pair error about operands outside the domain of `relate`
(one of the rings is not a simple closed curve / one of the members is not well-formed)?
There the code's `relate` and the specification `relateSpec` need not agree (C01's domain), so
these entries are left out of the model-versus-implementation comparison. Decided from the
input alone. -/
def pairOutOfDomain (g : XGeom) (e : GErr) : Bool :=
  match g, e with
  | .collection gs, .gc i e' => (match gs[i]? with | some g' => pairOutOfDomain g' e' | none => false)
  | .multiPolygon ps, .mpg (.overlap i j) => memberBad ps i || memberBad ps j
  | .multiPolygon ps, .mpg (.touchLine i j) => memberBad ps i || memberBad ps j
  | _, _ =>
    match polyAt g e, polyErrOfG e with
    | some p, some (.notContained r) => ringBad p .ext || ringBad p r
    | some p, some (.onLine a b) => ringBad p a || ringBad p b
    | some p, some (.onArea a b) => ringBad p a || ringBad p b
    | _, _ => false
where
  ringBad (p : XPoly) (r : Role) : Bool :=
    match getRing p r with | some ring => ringBadX ring | none => true
  memberBad (ps : List XPoly) (i : Nat) : Bool :=
    match ps[i]? with | some p => !polySpecX p | none => true

/-! #### classes -/

def tagOf : XGeom → String
  | .point _ => "PT" | .line _ _ => "LN" | .lineString _ => "LS" | .polygon _ => "PG"
  | .multiPoint _ => "MPT" | .multiLineString _ => "MLS" | .multiPolygon _ => "MPG"
  | .rect _ _ => "RC" | .triangle _ _ _ => "TR" | .collection _ => "GC"

partial def classes : XGeom → List String
  | .polygon p => polyClasses p
  | .multiPolygon ps =>
      let pc := ps.flatMap polyClasses
      let fin := ps.filterMap XPoly.toPoly?
      pc ++ (if fin.length == ps.length && ps.all polySpecX then
          (if !pairsOk (fun a b => !membersShareArea a b) fin then ["members-overlap"] else []) ++
          (if !pairsOk (fun a b => !membersShareLine a b) fin then ["members-share-line"] else [])
        else [])
  | .collection gs => gs.flatMap classes
  | g => if validSpec g then [] else ["bad-" ++ tagOf g]

def dedupStr (l : List String) : List String :=
  l.foldl (fun acc s => if acc.contains s then acc else acc ++ [s]) []

partial def coordCount : XGeom → Nat
  | .point _ => 1 | .line _ _ => 2 | .lineString cs => cs.length
  | .polygon p => (p.rings.map List.length).foldl (· + ·) 0
  | .multiPoint ps => ps.length
  | .multiLineString ls => (ls.map List.length).foldl (· + ·) 0
  | .multiPolygon ps => (ps.map (fun p => (p.rings.map List.length).foldl (· + ·) 0)).foldl (· + ·) 0
  | .rect _ _ => 2 | .triangle _ _ _ => 3
  | .collection gs => (gs.map coordCount).foldl (· + ·) 0

/-! #### the property, evaluated on the implementation's own answers -/

def errKind (e : GErr) : String := ((gErrStr e).splitOn ":").filter (fun s => s.toNat?.isNone &&
  s != "E" && !(s.startsWith "I" && (s.drop 1).toString.toNat?.isSome)) |> String.intercalate "/"

def propVerdict (g : XGeom) (o : ImplOut) (cls : List String) : String :=
  match o.valid, o.check, o.errors with
  | none, _, _ => "FAIL:panic-in-is_valid"
  | _, none, _ => "FAIL:panic-in-check_validation"
  | _, _, none => "FAIL:panic-in-validation_errors"
  | some v, some c, some es =>
    let spec := validSpec g
    if v && !spec then "FAIL:false-accept:" ++ (cls.head?.getD "unclassified")
    else if !v && spec then
      "FAIL:false-reject:" ++ (match es.head?, c with
        | some e, _ => errKind e
        | none, some e => errKind e
        | none, none => "no-error")
    else if es.isEmpty != v then "FAIL:errors-nonempty-iff-not-valid"
    else if c.isNone != v then "FAIL:check_validation-vs-is_valid"
    else match (c.toList ++ es).find? (fun e => !errSound g e) with
      | some e => "FAIL:error-names-no-such-defect:" ++ errKind e
      | none => if !o.wrap then "FAIL:geometry-enum-differs-from-concrete-type" else "PASS"

/-! #### the handler -/

def showOut (v : Bool) (c : Option GErr) (es : List GErr) : String :=
  "valid " ++ toString v ++ " check " ++ (match c with | none => "ok" | some e => gErrStr e) ++
  " errors " ++ toString es.length ++ String.join (es.map (fun e => " " ++ gErrStr e))

/-- `label`: the answer a JTS `TestValid*.xml` case expects (`C14.jts`), cross-checked against the
specification: a disagreement that is not explained by interior connectedness (which JTS demands
and the property does not) is reported as a failure of the check itself. -/
def handleValid (label : Option Bool) (inp out : List String) : String :=
  match P.run xgeometry inp, P.run implOut out with
  | some g, some o =>
    -- oracle: `relate` := the DE-9IM specification; the segment test on non-finite rings := what
    -- the implementation reported for that ring (not modelled)
    let implErrs := (match o.check with | some (some e) => [e] | _ => []) ++ o.errors.getD []
    let nfRings := implErrs.filterMap (selfIntRing g)
    let orc : Oracle := ⟨relateSpec, fun r => nfRings.contains r⟩
    let mErrs := validationErrors orc g
    let mCheck : Option GErr := match checkValidation orc g with | .ok _ => none | .error e => some e
    let mValid := isValid orc g
    let keep := fun (l : List GErr) => l.filter (fun e => !pairOutOfDomain g e)
    let same := match o.valid, o.check, o.errors with
      | some v, some c, some es =>
        v == mValid && keep es == keep mErrs && o.wrap &&
        -- the fail-fast visitor: equal to the model's, or (if that is a filtered entry) at least
        -- the first entry of the implementation's own list
        (c == mCheck || (c == es.head? && (c.toList ++ mCheck.toList).any (pairOutOfDomain g)))
      | _, _, _ => false
    let cls := dedupStr (classes g)
    let spec := validSpec g
    let filtered := (implErrs ++ mErrs).any (pairOutOfDomain g)
    let tags := "type=" ++ tagOf g ++ " spec=" ++ (if spec then "valid" else "invalid") ++
      String.join (cls.map (fun c => " d=" ++ c)) ++
      " nerr=" ++ toString (min mErrs.length 4) ++
      (if filtered then " relate-out-of-domain-entries-ignored" else "") ++
      (if coordCount g == 0 then " triv" else "")
    let conn := match g with
      | .polygon p => polyConnectedX p
      | .multiPolygon ps => ps.all polyConnectedX
      | _ => true
    let (labelVerdict, labelTag) := match label with
      | none => ("", "")
      | some l =>
        if l == spec then ("", " jts=agrees")
        else if !l && spec && !conn then ("", " jts=invalid-by-connectedness-only")
        else ("FAIL:specification-disagrees-with-JTS-label", " jts=DISAGREES")
    let verdict := if labelVerdict != "" then labelVerdict else propVerdict g o cls
    reply same verdict (tags ++ labelTag) (showOut mValid mCheck mErrs) (String.intercalate " " out)
  | _, _ => "ERR parse"

def handle (op : String) (inp out : List String) : Option String :=
  match op with
  | "C14.valid" => some (handleValid none inp out)
  -- single-precision coordinates: the same exact model (the robust kernel widens f32 exactly)
  | "C14.valid32" => some (if out == ["notf32"] then skip "not-f32" else handleValid none inp out)
  | "C14.jts" => (match inp with
      | "true" :: rest => some (handleValid (some true) rest out)
      | "false" :: rest => some (handleValid (some false) rest out)
      | _ => some "ERR parse")
  | _ => none

end Geo.Ops.C14
