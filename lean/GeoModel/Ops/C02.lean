/-
  Driver operations for C02 (Intersects / Contains / Within / coordinate_position vs DE-9IM).
-/
import GeoModel.Parse
import GeoModel.Intersects
import GeoModel.Contains
import GeoModel.Valid
import GeoModel.Gen.Masks

namespace Geo.Ops.C02
open Geo Geo.P

def tagOf (g : Geom) : String := (g.str.splitOn " ").head!

def posP : P (Option Pos) := do
  let t ← tok
  if t = "panic" then pure none else
  match Pos.parse? t with | some o => pure (some o) | none => fail

def boolP : P (Option Bool) := do
  let t ← tok
  if t = "panic" then pure none
  else if t = "true" then pure (some true) else if t = "false" then pure (some false) else fail

def ob (x : Option Bool) : String := match x with | some b => toString b | none => "panic"

/-- `C02.pred <A> <B> => intersects(A,B) intersects(B,A) contains(A,B) within(A,B)` -/
def handlePredG (concrete : Bool) (inp out : List String) : String :=
  let pin : P (Geom × Geom) := do let a ← geometry; let b ← geometry; pure (a, b)
  let pout : P (Option Bool × Option Bool × Option Bool × Option Bool) := do
    let a ← boolP; let b ← boolP; let c ← boolP; let d ← boolP; pure (a, b, c, d)
  match P.run pin inp, P.run pout out with
  | some (a, b), some (ix, ixs, ct, wi) =>
    if !(inDomain a && inDomain b) then skip "invalid-operand" else
    let m := relateSpec a b
    let sIx := Gen.isIntersects m
    let sCt := Gen.isContains m
    let sWi := Gen.isWithin m
    let mIx := intersectsM a b
    let mIxs := intersectsM b a
    let mCt := containsM a b
    let mWi := withinM a b
    -- the model mirrors the Geometry-enum dispatch; the concrete-type impls (`C02.cpred`) resolve some
    -- pairs with the operands in the other order, so they are compared with the specification only
    let same := if concrete then (ix == some sIx && ixs == some sIx && ct == some sCt && wi == some sWi)
      else ix == some mIx && ixs == some mIxs && ct == some mCt && wi == some mWi
    let prop :=
      if ix.isNone || ixs.isNone || ct.isNone || wi.isNone then "FAIL:panic"
      else if ix != some sIx then "FAIL:intersects-disagrees-with-de9im"
      else if ixs != ix then "FAIL:intersects-not-symmetric"
      else if ct != some sCt then "FAIL:contains-disagrees-with-de9im"
      else if wi != some sWi then "FAIL:within-disagrees-with-de9im"
      else "PASS"
    let tags := (if concrete then "concrete " else "enum ") ++ "A=" ++ tagOf a ++ " B=" ++ tagOf b ++ " ix=" ++ toString sIx ++ " ct=" ++ toString sCt ++ " wi=" ++ toString sWi ++
      (if disjointBB a b then " triv" else "")
    reply same prop tags
      (toString mIx ++ " " ++ toString mIxs ++ " " ++ toString mCt ++ " " ++ toString mWi ++ " spec " ++
        toString sIx ++ " " ++ toString sCt ++ " " ++ toString sWi ++ " " ++ m.str)
      (ob ix ++ " " ++ ob ixs ++ " " ++ ob ct ++ " " ++ ob wi)
  | _, _ => "ERR parse"

/-- is `p` an end point of an even, non-zero number of open members of some MultiLineString in `g`? -/
partial def mlsEvenEndpoint (g : Geom) (p : Pt) : Bool :=
  match g with
  | .multiLineString ls => let n := endpointCount p ls; n > 0 && n % 2 == 0
  | .collection gs => gs.any (fun h => mlsEvenEndpoint h p)
  | _ => false

/-- `C02.pos <G> <pt> => <CoordPos>` -/
def handlePos (inp out : List String) : String :=
  let pin : P (Geom × Pt) := do let a ← geometry; let p ← pt; pure (a, p)
  match P.run pin inp, P.run posP out with
  | some (g, p), some o =>
    if !inDomain g then skip "invalid-operand" else
    let s := locate g p
    let m := coordPos g p
    let prop :=
      if o.isNone then "FAIL:panic"
      else if o == some s then "PASS"
      else if mlsEvenEndpoint g p then "FAIL:position-mls-even-endpoint"
      else "FAIL:position-disagrees-with-point-set"
    let tags := "G=" ++ tagOf g ++ " pos=" ++ s.str
    reply (o == some m) prop tags (m.str ++ " spec " ++ s.str) (match o with | some x => x.str | none => "panic")
  | _, _ => "ERR parse"

def handle (op : String) (inp out : List String) : Option String :=
  match op with
  | "C02.pred" => some (handlePredG false inp out)
  | "C02.cpred" => some (handlePredG true inp out)
  | "C02.pos" => some (handlePos inp out)
  | _ => none

end Geo.Ops.C02
