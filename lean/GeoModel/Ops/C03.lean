/-
  Driver operations for C03 (exactness of orientation / point-location predicates).
-/
import GeoModel.Parse
import GeoModel.Segment
import GeoModel.F64
import GeoModel.Locate
import GeoModel.Valid

namespace Geo.Ops.C03
open Geo Geo.P

def underflowRange (ps : List Pt) : Bool :=
  let tiny : Rat := pow2 (-400)
  let huge : Rat := pow2 400
  ps.any (fun p => (p.x != 0 && rabs p.x < tiny) || (p.y != 0 && rabs p.y < tiny) ||
    rabs p.x > huge || rabs p.y > huge)

def oriP : P Ori := do
  let t ← tok
  match Ori.parse? t with | some o => pure o | none => fail

def posP : P Pos := do
  let t ← tok
  match Pos.parse? t with | some o => pure o | none => fail

/-- `C03.orient p q r => <Orientation>` (f64, RobustKernel) -/
def handleOrient (inp out : List String) : String :=
  let pin : P (Pt × Pt × Pt) := do let a ← pt; let b ← pt; let c ← pt; pure (a, b, c)
  match P.run pin inp, P.run oriP out with
  | some (p, q, r), some o =>
    let m := orient p q r
    let naive := naiveOrient p q r
    let tags := "ori=" ++ m.str ++ (if naive != m then " naive-differs" else "") ++
      (if underflowRange [p, q, r] then " underflow-range" else "") ++
      (if m != .col && naive == m && isSmallInt p.x && isSmallInt q.x && isSmallInt r.x then " triv" else "")
    reply (o == m) (if o == m then "PASS" else "FAIL:orientation-sign-wrong") tags m.str o.str
  | _, _ => "ERR parse"

/-- wrapped i64 evaluation of the SimpleKernel formula -/
def wrap64 (n : Int) : Int :=
  let m := n % (2 ^ 64)
  if m ≥ 2 ^ 63 then m - 2 ^ 64 else m

def crossI64 (px py qx qy rx ry : Int) : Int :=
  wrap64 (wrap64 (wrap64 (qx - px) * wrap64 (ry - qy)) - wrap64 (wrap64 (qy - py) * wrap64 (rx - qx)))

def crossInt (px py qx qy rx ry : Int) : Int := (qx - px) * (ry - qy) - (qy - py) * (rx - qx)

def fits64 (n : Int) : Bool := decide (-(2 ^ 63) ≤ n) && decide (n < 2 ^ 63)

/-- do all intermediate values of the formula fit i64? -/
def intermediatesFit (px py qx qy rx ry : Int) : Bool :=
  fits64 (qx - px) && fits64 (ry - qy) && fits64 (qy - py) && fits64 (rx - qx) &&
  fits64 ((qx - px) * (ry - qy)) && fits64 ((qy - py) * (rx - qx)) && fits64 (crossInt px py qx qy rx ry)

def signOri (c : Int) : Ori := if c > 0 then .ccw else if c < 0 then .cw else .col

/-- `C03.orienti px py qx qy rx ry => <Orientation>` (i64, SimpleKernel) -/
def handleOrientI (inp out : List String) : String :=
  let pin : P (List Int) := rep 6 int
  match P.run pin inp, P.run oriP out with
  | some [px, py, qx, qy, rx, ry], some o =>
    if !intermediatesFit px py qx qy rx ry then
      -- outside the property's clause ("whenever the intermediate products fit the type"):
      -- the model still predicts the wrapped value, compared as correspondence only
      let mw := signOri (crossI64 px py qx qy rx ry)
      reply (o == mw) "PASS" "overflow" mw.str o.str
    else
      let m := signOri (crossInt px py qx qy rx ry)
      reply (o == m) (if o == m then "PASS" else "FAIL:integer-orientation-wrong") ("ori=" ++ m.str) m.str o.str
  | _, _ => "ERR parse"

structure SegOut where
  isx : Bool
  contains : Bool

/-- `C03.seg a b p => <intersects> <contains>` (Line × Coord) -/
def handleSeg (inp out : List String) : String :=
  let pin : P (Pt × Pt × Pt) := do let a ← pt; let b ← pt; let c ← pt; pure (a, b, c)
  let pout : P (Bool × Bool) := do let a ← bool; let b ← bool; pure (a, b)
  match P.run pin inp, P.run pout out with
  | some (a, b, p), some (ix, ct) =>
    let mi := lineCoord a b p
    -- Line: Contains<Coord>
    let mc := if a == b then a == p else (p != a && p != b && lineCoord a b p)
    let tags := (if mi then "on" else "off") ++ (if naiveOrient a b p != orient a b p then " naive-differs" else "") ++
      -- K10 excuses a lost *sign* of a non-zero determinant; an exactly collinear triple stays exact under underflow
      -- (both products round to the same value), so the along-the-segment decision is owed in full there
      (if underflowRange [a, b, p] && orient a b p != .col then " underflow-range" else "")
    reply (ix == mi && ct == mc) (if ix == mi && ct == mc then "PASS" else "FAIL:point-on-segment-wrong") tags
      (toString mi ++ " " ++ toString mc) (toString ix ++ " " ++ toString ct)
  | _, _ => "ERR parse"

/-- `C03.ring <ring> p => <CoordPos>` (`coord_pos_relative_to_ring`) -/
def handleRing (inp out : List String) : String :=
  let pin : P (List Pt × Pt) := do let r ← pts; let p ← pt; pure (r, p)
  match P.run pin inp, P.run posP out with
  | some (ring, p), some o =>
    let m := ringPos p ring
    let naiveHit := (segs ring).any (fun (s, e) => naiveOrient s e p != orient s e p)
    let tags := "pos=" ++ m.str ++ (if naiveHit then " naive-differs" else "") ++
      (if underflowRange (p :: ring) then " underflow-range" else "")
    reply (o == m) (if o == m then "PASS" else "FAIL:point-in-ring-wrong") tags m.str o.str
  | _, _ => "ERR parse"

/-- `C03.tri a b c p => <intersects> <contains>` (Triangle × Coord) -/
def handleTri (inp out : List String) : String :=
  let pin : P (Pt × Pt × Pt × Pt) := do let a ← pt; let b ← pt; let c ← pt; let p ← pt; pure (a, b, c, p)
  let pout : P (Bool × Bool) := do let a ← bool; let b ← bool; pure (a, b)
  match P.run pin inp, P.run pout out with
  | some (a, b, c, p), some (ix, ct) =>
    let mi := triCoord a b c p
    let mc := triContainsCoord a b c p
    let naiveHit := naiveOrient a b p != orient a b p || naiveOrient b c p != orient b c p || naiveOrient c a p != orient c a p
    let tags := (if mc then "inside" else if mi then "boundary" else "outside") ++ (if naiveHit then " naive-differs" else "") ++
      (if underflowRange [a, b, c, p] then " underflow-range" else "")
    reply (ix == mi && ct == mc) (if ix == mi && ct == mc then "PASS" else "FAIL:point-in-triangle-wrong") tags
      (toString mi ++ " " ++ toString mc) (toString ix ++ " " ++ toString ct)
  | _, _ => "ERR parse"

/-- `C03.poly <PG> p => <CoordPos> <contains> <intersects> <intersects, point first>` — a polygon with several holes -/
def handlePoly (inp out : List String) : String :=
  let pin : P (Geom × Pt) := do let g ← geometry; let p ← pt; pure (g, p)
  let pout : P (Pos × Bool × Bool × Bool) := do let o ← posP; let a ← bool; let b ← bool; let c ← bool; pure (o, a, b, c)
  match P.run pin inp, P.run pout out with
  | some (g, p), some (o, ct, ix, xi) =>
    -- a flat triangle (collinear corners) has no interior: its point set is the hull segment of the corners
    let flat : Option (Pt × Pt × Pt) := match g with
      | .triangle a b c => if orient a b c == .col then some (a, b, c) else none
      | _ => none
    match flat with
    | some (a, b, c) =>
      let mn (x y z : Rat) := if x ≤ y then (if x ≤ z then x else z) else (if y ≤ z then y else z)
      let mx (x y z : Rat) := if x ≥ y then (if x ≥ z then x else z) else (if y ≥ z then y else z)
      let inBox := mn a.x b.x c.x ≤ p.x && p.x ≤ mx a.x b.x c.x && mn a.y b.y c.y ≤ p.y && p.y ≤ mx a.y b.y c.y
      let onLine := orient a b p == .col && orient b c p == .col && orient c a p == .col
      let sp : Pos := if onLine && inBox then .onBoundary else .outside
      let m := coordPos g p
      let prop :=
        if o != sp then "FAIL:point-in-flat-triangle-wrong"
        else if ct then "FAIL:flat-triangle-contains-point"
        else if ix != xi then "FAIL:polygon-intersects-point-wrong"
        else if ix != (sp != .outside) then
          (if onLine && ix then "FAIL:flat-triangle-intersects-whole-line" else "FAIL:flat-triangle-intersects-point-wrong")
        else "PASS"
      let tags := "flat-triangle pos=" ++ sp.str ++ (if onLine then " on-line" else " off-line")
      -- correspondence: coordinate_position against its model; intersects against the model of `Triangle: Intersects<Coord>`
      reply (o == m && ix == triCoord a b c p && ct == triContainsCoord a b c p) prop tags
        (m.str ++ " " ++ toString (triContainsCoord a b c p) ++ " " ++ toString (triCoord a b c p)) (o.str ++ " " ++ toString ct ++ " " ++ toString ix)
    | none =>
    if !inDomain g then skip "invalid-operand" else
    let sp := locate g p            -- the point set
    let m := coordPos g p           -- the model of the code
    let nholes := match g with | .polygon pg => pg.ints.length | _ => 0
    let prop :=
      if o != sp then "FAIL:point-in-polygon-wrong"
      else if ct != (sp == .inside) then "FAIL:polygon-contains-point-wrong"
      else if ix != (sp != .outside) || xi != ix then "FAIL:polygon-intersects-point-wrong"
      else "PASS"
    let tags := "pos=" ++ sp.str ++ " holes=" ++ toString nholes ++ (if underflowRange [p] then " underflow-range" else "")
    reply (o == m) prop tags (m.str ++ " spec " ++ sp.str) o.str
  | _, _ => "ERR parse"

def handle (op : String) (inp out : List String) : Option String :=
  match op with
  -- single-precision operands: the robust kernel widens them exactly, the same exact model applies;
  -- `notf32`: after a variant rewrite some coordinate is no longer an f32
  | "C03.orient32" => some (if out == ["notf32"] then skip "not-f32" else handleOrient inp out)
  | "C03.seg32" => some (if out == ["notf32"] then skip "not-f32" else handleSeg inp out)
  | "C03.ring32" => some (if out == ["notf32"] then skip "not-f32" else handleRing inp out)
  | "C03.tri32" => some (if out == ["notf32"] then skip "not-f32" else handleTri inp out)
  | "C03.segi64" | "C03.segi32" => some (if out == ["notint"] then skip "not-integer" else handleSeg inp out)
  | "C03.ringi64" | "C03.ringi32" => some (if out == ["notint"] then skip "not-integer" else handleRing inp out)
  | "C03.trii64" | "C03.trii32" => some (if out == ["notint"] then skip "not-integer" else handleTri inp out)
  | "C03.poly" => some (handlePoly inp out)
  | "C03.orient" => some (handleOrient inp out)
  | "C03.orienti" => some (handleOrientI inp out)
  | "C03.seg" => some (handleSeg inp out)
  | "C03.ring" => some (handleRing inp out)
  | "C03.tri" => some (handleTri inp out)
  | _ => none

end Geo.Ops.C03
