/-
  Driver operations for C09 (simplification).

    C09.rdp <eps> <geom>  => <geom'> idx <n i…|na>      Simplify / SimplifyIdx
    C09.vw  <eps> <geom>  => <geom'> idx <n i…|na>      SimplifyVw / SimplifyVwIdx
    C09.vwp <eps> <geom>  => <geom'> idx na             SimplifyVwPreserve

  `geom` is LS | MLS | PG | MPG. The reply compares the model's output with the implementation's
  (exactly: vertex subsequences and index lists) and evaluates the property clauses on the
  implementation's own output.
-/
import GeoModel.Parse
import GeoModel.Simplify

namespace Geo.Ops.C09
open Geo Geo.P Geo.Simp

/-! #### parsing -/

def idxOut : P (Option (List Nat)) := do
  lit "idx"
  let t ← peek?
  if t == some "na" then do let _ ← tok; pure none
  else do let l ← counted nat; pure (some l)

def implOut : P (Geom × Option (List Nat)) := do
  let g ← rawGeometry
  let i ← idxOut
  pure (g, i)

def idxStr : Option (List Nat) → String
  | none => "idx na"
  | some l => "idx " ++ toString l.length ++ String.join (l.map (fun i => " " ++ toString i))

/-! #### exactness regime and near-ties (RDP compares rounded square roots) -/

/-- every coordinate is a multiple of 1/16 below 2^20 in magnitude: differences, the products
`dx*dx + dy*dy`, the dot product `t`, the cross product and the triangle determinants are then
exact in f64, so every *branch* of `line_segment_distance` and every area is decided exactly. -/
def exactRegime (cs : List Pt) : Bool :=
  cs.all (fun p => [p.x, p.y].all (fun v =>
    let w := v * 16
    w.den == 1 && w.num.natAbs < 16777216)) || dyadicGrid cs
where
  /-- the same regime at any dyadic scale: all coordinates are integers below 2^24 times one power of two 2^e
  (|e| ≤ 300, so that no product underflows or overflows) — scaling by a power of two commutes with every f64 operation -/
  dyadicGrid (cs : List Pt) : Bool :=
    let vals := (cs.flatMap (fun p => [p.x, p.y])).filter (· != 0)
    let val2 (q : Rat) : Option Int :=
      let d := q.den
      let k := Nat.log2 d
      if d != 2 ^ k then none else
      let n := q.num.natAbs
      -- 2-adic valuation of the numerator
      let t := (List.range 64).foldl (fun acc i => if acc == i && n % 2 ^ (i + 1) == 0 then i + 1 else acc) 0
      some ((t : Int) - (k : Int))
    match vals.mapM val2 with
    | none => false
    | some [] => true
    | some (v :: vs) =>
      let e := vs.foldl (fun m x => if x < m then x else m) v
      e ≥ -300 && e ≤ 300 && vals.all (fun q => let w := q * pow2 (-e); w.den == 1 && w.num.natAbs < 16777216)

/-- how `line_segment_distance` computes the value: equal signatures ⇒ bit-identical results -/
def distSig (p a b : Pt) : Nat × Rat × Rat :=
  if a = b then (0, rabs (p.x - a.x), rabs (p.y - a.y)) else
  let dx := b.x - a.x
  let dy := b.y - a.y
  let d2 := dx * dx + dy * dy
  let t := (p.x - a.x) * dx + (p.y - a.y) * dy
  if t ≤ 0 then (0, rabs (p.x - a.x), rabs (p.y - a.y))
  else if d2 ≤ t then (0, rabs (p.x - b.x), rabs (p.y - b.y))
  else (1, rabs ((a.y - p.y) * dx - (a.x - p.x) * dy), 0)

/-- `2^-40` -/
def tieRel : Rat := 1 / 1099511627776

def near (a b : Rat) : Bool := rabs (a - b) ≤ tieRel * rmax (rabs a) (rabs b)

/-- Walks the same recursion as `computeRdp` and reports a rounding near-tie: the farthest
squared distance is within `2^-40` (relative) of `ε²`, or — when the slice is split — a second
candidate is that close to the maximum without being computed bit-identically. -/
partial def rdpNearTie (e2 : Rat) (xs : List RI) : Bool :=
  match xs with
  | [] => false
  | first :: _ =>
    if xs.length ≤ 2 then false else
    let last := xs.getLast?.getD first
    let (fi, fd) := farthest first last xs
    if near fd e2 && !(fd == 0 && e2 == 0) then true else
    if fd > e2 then
      let win : Pt := (xs.getD fi first).1
      let sigW := distSig win first.1 last.1
      let bad := (interior xs).any (fun x =>
        let d := segDist2 x.1 first.1 last.1
        near d fd && !(d == fd && distSig x.1 first.1 last.1 == sigW))
      bad || rdpNearTie e2 (xs.take (fi + 1)) || rdpNearTie e2 (xs.drop fi)
    else false

/-! #### the geometry-level model -/

/-- the components of a supported geometry: (is a polygon ring, coordinates) -/
def comps : Geom → Option (List (Bool × List Pt))
  | .lineString cs => some [(false, cs)]
  | .multiLineString ls => some (ls.map (fun l => (false, l)))
  | .polygon p => some ((p.ext :: p.ints).map (fun r => (true, r)))
  | .multiPolygon ps => some (ps.flatMap (fun p => (p.ext :: p.ints).map (fun r => (true, r))))
  | _ => none

def shapeOf : Geom → String
  | .lineString _ => "LS"
  | .multiLineString ls => "MLS" ++ toString ls.length
  | .polygon p => "PG" ++ toString p.ints.length
  | .multiPolygon ps => "MPG" ++ String.join (ps.map (fun p => "," ++ toString p.ints.length))
  | _ => "?"

def allSome {α : Type} (l : List (Option α)) : Option (List α) :=
  l.foldr (fun x acc => match x, acc with
    | some a, some as => some (a :: as)
    | _, _ => none) (some [])

/-- model output; `none` = the model predicts a panic -/
def modelOut (algo : String) (eps : Rat) (g : Geom) : Option (Geom × Option (List Nat)) :=
  match algo, g with
  | "rdp", .lineString cs => some (.lineString (simplifyLS cs eps), some (simplifyIdxLS cs eps))
  | "rdp", .multiLineString ls => some (.multiLineString (ls.map (simplifyLS · eps)), none)
  | "rdp", .polygon p => some (.polygon (simplifyPoly p eps), none)
  | "rdp", .multiPolygon ps => some (.multiPolygon (ps.map (simplifyPoly · eps)), none)
  | "vw", .lineString cs => some (.lineString (visvalingam cs eps), some (simplifyVwIdx cs eps))
  | "vw", .multiLineString ls => some (.multiLineString (ls.map (visvalingam · eps)), none)
  | "vw", .polygon p => some (.polygon (simplifyVwPoly p eps), none)
  | "vw", .multiPolygon ps => some (.multiPolygon (ps.map (simplifyVwPoly · eps)), none)
  | "vwp", .lineString cs => (simplifyVwPreserveLS cs eps).map (fun r => (.lineString r, none))
  | "vwp", .multiLineString ls =>
      (allSome (ls.map (simplifyVwPreserveLS · eps))).map (fun r => (.multiLineString r, none))
  | "vwp", .polygon p => (simplifyVwPreservePoly p eps).map (fun r => (.polygon r, none))
  | "vwp", .multiPolygon ps =>
      (allSome (ps.map (simplifyVwPreservePoly · eps))).map (fun r => (.multiPolygon r, none))
  | _, _ => none

/-! #### the property clauses, evaluated on the implementation's output -/

def isSublist : List Pt → List Pt → Bool
  | [], _ => true
  | _ :: _, [] => false
  | a :: as, b :: bs => if a == b then isSublist as bs else isSublist (a :: as) bs

/-- Is there a way to read `out` as a subsequence of `xs` that keeps the first and the last
vertex and such that every dropped vertex `r` between consecutive kept vertices `p`, `q`
satisfies `ok r p q`? (decides `Geo.Proofs.C09.Within`; backtracks over repeated vertices) -/
partial def withinB (ok : Pt → Pt → Pt → Bool) : List Pt → List Pt → Bool
  | [], [] => true
  | [x], [p] => x == p
  | x :: rest, p :: q :: out' =>
    x == p && scan p q out' rest
  | _, _ => false
where
  scan (p q : Pt) (out' : List Pt) : List Pt → Bool
    | [] => false
    | r :: rest' => (r == q && withinB ok (r :: rest') (q :: out')) || (ok r p q && scan p q out' rest')

def strictlyIncreasing : List Nat → Bool
  | a :: b :: t => a < b && strictlyIncreasing (b :: t)
  | _ => true

/-- all interior vertices of `out` span a triangle of area `> eps` with their neighbours -/
def areasAbove (eps : Rat) : List Pt → Bool
  | a :: b :: c :: t => triArea a b c > eps && areasAbove eps (b :: c :: t)
  | _ => true

def closedB (r : List Pt) : Bool := r.head? == r.getLast?

/-- clauses for one component -/
def propComp (algo : String) (eps : Rat) (ring : Bool) (cs out : List Pt) : String :=
  if eps ≤ 0 then (if out == cs then "PASS" else "FAIL:eps-nonpos-not-identity") else
  if !isSublist out cs then "FAIL:not-subsequence" else
  if out.head? != cs.head? || out.getLast? != cs.getLast? then "FAIL:endpoints-not-kept" else
  let tol := eps * eps * (1 + tieRel)
  let okR : Pt → Pt → Pt → Bool := fun r p q => segDist2 r p q ≤ tol
  if algo == "rdp" && !withinB okR cs out then "FAIL:error-bound" else
  if algo != "rdp" && !withinB (fun _ _ _ => true) cs out then "FAIL:not-subsequence" else
  if algo == "vw" && !areasAbove eps out then "FAIL:vw-area-not-above-eps" else
  if ring && !closedB out then "FAIL:ring-open" else
  if ring && algo != "vw" && out.length < min 4 cs.length then "FAIL:ring-below-four" else
  "PASS"

def firstFail (l : List String) : String := (l.find? (· != "PASS")).getD "PASS"

def propGeom (algo : String) (eps : Rat) (g : Geom) (o : Geom) (idx : Option (List Nat)) : String :=
  match comps g, comps o with
  | some ci, some co =>
    if shapeOf g != shapeOf o then "FAIL:shape" else
    let perComp := firstFail ((ci.zip co).map (fun (a, b) => propComp algo eps a.1 a.2 b.2))
    if perComp != "PASS" then perComp else
    match g, o, idx with
    | .lineString cs, .lineString os, some ix =>
      if eps ≤ 0 && ix != List.range cs.length then "FAIL:idx-eps-nonpos-not-identity"
      else if !strictlyIncreasing ix || ix.any (· ≥ cs.length) then "FAIL:idx-not-increasing"
      else if ix.map (coordAt cs) != os then "FAIL:idx-coords-mismatch"
      else if eps > 0 && algo == "rdp" then
        -- the error bound, read off the index list (no ambiguity from repeated vertices)
        let e2 := eps * eps * (1 + tieRel)
        let gaps := ix.zip ix.tail
        if gaps.all (fun (i, j) => (List.range (j - i - 1)).all (fun d =>
            segDist2 (coordAt cs (i + 1 + d)) (coordAt cs i) (coordAt cs j) ≤ e2))
        then "PASS" else "FAIL:error-bound"
      else "PASS"
    | .lineString _, _, none => if algo == "vwp" then "PASS" else "FAIL:idx-missing"
    | _, _, _ => "PASS"
  | _, _ => "FAIL:shape"

/-! #### handler -/

def nBucket (n : Nat) : String :=
  if n ≤ 3 then toString n else if n ≤ 6 then "4-6" else if n ≤ 12 then "7-12" else "13+"

def handleOp (algo : String) (inp out : List String) : String :=
  -- the tolerance +∞ (`h7ff0000000000000`) is a legal f64 ≥ 0: it stands for "larger than every distance and area of the input"
  let pin : P (Option Rat × Geom) := do
    let t ← peek?
    let e ← (if t == some "h7ff0000000000000" then (do let _ ← tok; pure none) else (do let e ← rat; pure (some e)))
    let g ← geometry; pure (e, g)
  match P.run pin inp with
  | none => "ERR parse-input"
  | some (epsO, g) =>
    match comps g with
    | none => "ERR unsupported-geometry"
    | some ci =>
      let allCs := ci.flatMap (·.2)
      let maxAbs := allCs.foldl (fun m c => max m (max (rabs c.x) (rabs c.y))) 0
      let eps : Rat := match epsO with | some e => e | none => 8 * (maxAbs + 1) * (maxAbs + 1)
      if !exactRegime allCs then skip "inexact-regime" else
      if algo == "rdp" && eps > 0 && ci.any (fun c => rdpNearTie (eps * eps) c.2.zipIdx) then
        skip "near-tie" else
      let m := modelOut algo eps g
      let mStr := match m with
        | none => "panic"
        | some (mg, mi) => mg.str ++ " " ++ idxStr mi
      let nIn := allCs.length
      let nMax := (ci.map (·.2.length)).foldl max 0
      let epsCls := if epsO.isNone then "infinite" else if eps ≤ 0 then "nonpos" else "pos"
      let baseCls := "algo=" ++ algo ++ " type=" ++ ((g.str.splitOn " ").head!) ++ " n=" ++ nBucket nMax ++
        " eps=" ++ epsCls
      if out == ["panic"] then
        reply (mStr == "panic") "FAIL:panic" baseCls mStr "panic"
      else
      match P.run implOut out with
      | none => "ERR parse-output"
      | some (og, oi) =>
        let oStr := og.str ++ " " ++ idxStr oi
        let nOut := match comps og with
          | some co => (co.flatMap (·.2)).length
          | none => 0
        let dropCls := if nOut == nIn then " drop=none" else if nOut < nIn then " drop=some" else " drop=grew"
        let triv := if nMax ≤ 2 then " triv" else ""
        reply (mStr == oStr) (propGeom algo eps g og oi) (baseCls ++ dropCls ++ triv) mStr oStr

def handle (op : String) (inp out : List String) : Option String :=
  match op with
  | "C09.rdp" => some (handleOp "rdp" inp out)
  | "C09.vw" => some (handleOp "vw" inp out)
  | "C09.vwp" => some (handleOp "vwp" inp out)
  | _ => none

end Geo.Ops.C09
