/-
  Driver operations for C15 (interpolation / location / densification along a line).

    C15.interp  <LN|LS> r <r> q <q> d <d>
        => len L rl r*L ql q*L rs P re P ds P de P drs P dre P li P loc X
    C15.densify <LN|LS|MLS|PG|MPG|RC|TR> max <m>  =>  <geometry> | panic

  The model is evaluated exactly; segment lengths are exact rationals where the squared length is
  a perfect square (axis-aligned / Pythagorean segments) and a 2^-80-tight lower enclosure
  otherwise. Numeric outputs are compared within `K·u·S` (stated next to each use); the property
  clauses are evaluated on the implementation's outputs, independently of the model's walk.
-/
import GeoModel.Parse
import GeoModel.Interp

namespace Geo.Ops.C15
open Geo Geo.P Geo.Interp

/-! ### concrete lengths -/

def sqLen (a b : Pt) : Rat := (a.x - b.x) * (a.x - b.x) + (a.y - b.y) * (a.y - b.y)

/-- exact where a rational root exists, else the lower end of a `2^-80` enclosure -/
def lenD : Len := fun a b => (sqrtInterval (sqLen a b)).1

def exactSeg (a b : Pt) : Bool := (exactSqrt? (sqLen a b)).isSome

/-- is `q` exactly a finite binary64 value (normal or subnormal): dyadic, a significand of ≤ 53 bits, lowest
bit at or above 2^-1074, magnitude below 2^1024? (Without the range clauses an intermediate that underflows —
`f64::MIN_POSITIVE` times a 2^-60-scale difference — was taken for exact.) -/
def isF64 (q : Rat) : Bool :=
  let n := q.num.natAbs
  let d := q.den
  if n == 0 then true else
  let k := Nat.log2 d
  if d != 2 ^ k then false else
  let bits := Nat.log2 n + 1
  (bits ≤ 53 || n % 2 ^ (bits - 53) == 0) && k ≤ 1074 && bits ≤ 1024 + k

/-- the f64 evaluation `hypot(a.x - b.x, a.y - b.y)` is exact: both differences and the
(rational) root are binary64 values -/
def f64ExactSeg (a b : Pt) : Bool :=
  exactSeg a b && isF64 (a.x - b.x) && isF64 (a.y - b.y) && isF64 ((sqrtInterval (sqLen a b)).1)

/-! ### regime G: when is the f64 evaluation provably exact?

Every intermediate value of the f64 evaluation is followed here in exact arithmetic; if each one is
a binary64 value, every IEEE operation returned it unrounded (hypot: listed assumption), all
comparisons went the same way, and the implementation's result must equal the model's bit for bit. -/

/-- `start + diff * distance / total_distance` without rounding -/
def pdbExact (a b : Pt) (rem : Rat) : Bool :=
  let l := (sqrtInterval (sqLen a b)).1
  let dx := b.x - a.x
  let dy := b.y - a.y
  f64ExactSeg a b && l != 0 && isF64 (dx * rem) && isF64 (dy * rem) && isF64 (dx * rem / l) && isF64 (dy * rem / l) &&
    isF64 (a.x + dx * rem / l) && isF64 (a.y + dy * rem / l)

/-- `start + diff * ratio` without rounding -/
def lerpExact (a b : Pt) (t : Rat) : Bool :=
  let dx := b.x - a.x
  let dy := b.y - a.y
  isF64 dx && isF64 dy && isF64 (dx * t) && isF64 (dy * t) && isF64 (a.x + dx * t) && isF64 (a.y + dy * t)

/-- the walk of `point_at_distance_from_{start,end}` without rounding -/
def walkExact : List (Pt × Pt) → Rat → Bool
  | [], _ => true
  | (a, b) :: rest, d =>
    let l := (sqrtInterval (sqLen a b)).1
    f64ExactSeg a b && (if l < d then isF64 (d - l) && walkExact rest (d - l) else pdbExact a b d)

/-- `Length for LineString` without rounding (every partial sum a binary64 value) -/
def lenExact : List (Pt × Pt) → Rat → Bool
  | [], _ => true
  | (a, b) :: rest, acc =>
    let l := (sqrtInterval (sqLen a b)).1
    f64ExactSeg a b && isF64 (acc + l) && lenExact rest (acc + l)

def sqrtUp (q : Rat) : Rat := (sqrtInterval q).2

/-! ### parsing of implementation outputs -/

inductive OPt where
  | none | nan | some (p : Pt)
  deriving Repr, DecidableEq

def OPt.str : OPt → String
  | .none => "none" | .nan => "nan" | .some p => "some " ++ p.str

def ofOpt : Option Pt → OPt
  | Option.none => .none
  | Option.some p => .some p

def optPt : P OPt := do
  let t ← tok
  match t with
  | "none" => pure .none
  | "nan" => pure .nan
  | "some" => do let p ← pt; pure (.some p)
  | _ => fail

inductive ONum where
  | na | none | nan | some (v : Rat)
  deriving Repr, DecidableEq

def optNum : P ONum := do
  let t ← tok
  match t with
  | "na" => pure .na
  | "none" => pure .none
  | "nan" => pure .nan
  | "some" => do let v ← rat; pure (.some v)
  | _ => fail

structure InterpOut where
  len : Rat
  rl : Rat
  ql : Rat
  rs : OPt
  re : OPt
  ds : OPt
  de : OPt
  drs : OPt
  dre : OPt
  li : OPt
  loc : ONum

def interpOut : P InterpOut := do
  lit "len"; let l ← rat
  lit "rl"; let rl ← rat
  lit "ql"; let ql ← rat
  lit "rs"; let rs ← optPt
  lit "re"; let re ← optPt
  lit "ds"; let ds ← optPt
  lit "de"; let de ← optPt
  lit "drs"; let drs ← optPt
  lit "dre"; let dre ← optPt
  lit "li"; let li ← optPt
  lit "loc"; let loc ← optNum
  pure ⟨l, rl, ql, rs, re, ds, de, drs, dre, li, loc⟩

/-! ### tolerance helpers -/

def near (tol : Rat) (p q : Pt) : Bool := rabs (p.x - q.x) ≤ tol && rabs (p.y - q.y) ≤ tol

def nearO (tol : Rat) : OPt → OPt → Bool
  | .some p, .some q => near tol p q
  | .none, .none => true
  | .nan, .nan => true
  | _, _ => false

def maxAbs (cs : List Pt) : Rat := cs.foldl (fun m p => rmax m (rmax (rabs p.x) (rabs p.y))) 0

def clampR (lo hi v : Rat) : Rat := if v < lo then lo else if v > hi then hi else v

/-- Independent spec: does `p` lie (within `tol`) on the polyline at arc length `t` from the
start? Looks for a segment whose supporting line passes within `tol` of `p`, with the foot
inside the segment and the cumulative length to the foot within `tol` of `t`. Does not use the
model's walk. -/
def onLineAt (cs : List Pt) (t : Rat) (p : Pt) (tol : Rat) : Bool :=
  match cs with
  | [] => false
  | [a] => near tol p a
  | _ =>
    let rec go : List (Pt × Pt) → Rat → Bool
      | [], _ => false
      | (a, b) :: rest, cum =>
        let l := lenD a b
        let here :=
          if l = 0 then near tol p a && rabs (cum - t) ≤ tol
          else
            let along := ((p.x - a.x) * (b.x - a.x) + (p.y - a.y) * (b.y - a.y)) / l
            let perp := rabs ((p.x - a.x) * (b.y - a.y) - (p.y - a.y) * (b.x - a.x)) / l
            perp ≤ tol && -tol ≤ along && along ≤ l + tol && rabs (cum + along - t) ≤ tol
        here || go rest (cum + l)
    go (segs cs) 0

/-- arc-length positions at which the polyline passes within `tol` of `p` (one per segment
that does) -/
def preimages (cs : List Pt) (p : Pt) (tol : Rat) : List Rat :=
  let rec go : List (Pt × Pt) → Rat → List Rat
    | [], _ => []
    | (a, b) :: rest, cum =>
      let l := lenD a b
      let here : List Rat :=
        if l = 0 then (if near tol p a then [cum] else [])
        else
          let along := ((p.x - a.x) * (b.x - a.x) + (p.y - a.y) * (b.y - a.y)) / l
          let perp := rabs ((p.x - a.x) * (b.y - a.y) - (p.y - a.y) * (b.x - a.x)) / l
          if perp ≤ tol && -tol ≤ along && along ≤ l + tol then [cum + clampR 0 l along] else []
      here ++ go rest (cum + l)
  go (segs cs) 0

/-- does the line pass through (a `tol`-neighbourhood of) `p` at one arc length only? -/
def uniquePreimage (cs : List Pt) (p : Pt) (tol : Rat) : Bool :=
  match preimages cs p (4 * tol) with
  | [] => false
  | t :: ts => (ts.foldl rmax t) - (ts.foldl rmin t) ≤ 16 * tol

/-- all (squared distance, fraction) candidates of the locate loop -/
def locateCands (cs : List Pt) (p : Pt) (tot : Rat) : List (Rat × Rat) :=
  let rec go : List (Pt × Pt) → Rat → List (Rat × Rat)
    | [], _ => []
    | (a, b) :: rest, cum =>
      (segDistSq p a b, (cum + lineLocatePoint a b p * lenD a b) / tot) :: go rest (cum + lenD a b)
  go (segs cs) 0

def handleInterp (inp out : List String) : String :=
  let pin : P (Geom × Rat × Rat × Rat) := do
    let g ← geometry
    lit "r"; let r ← rat
    lit "q"; let q ← rat
    lit "d"; let d ← rat
    pure (g, r, q, d)
  match P.run pin inp with
  | none => "ERR parse-input"
  | some (g, r, q, d) =>
  if out == ["panic"] then reply false "FAIL:interp-panic" "" "no-panic" "panic" else
  match P.run interpOut out with
  | none => "ERR parse-output"
  | some o =>
  let (isLine, cs) : Bool × List Pt := match g with
    | .line a b => (true, [a, b])
    | .lineString cs => (false, cs)
    | _ => (false, [])
  match g with
  | .line _ _ | .lineString _ =>
    let n := (segs cs).length
    let exact := (segs cs).all (fun s => exactSeg s.1 s.2)
    let L := lsLength lenD cs
    let S := maxAbs cs + L
    let K : Rat := (4 * (n : Rat) + 16)
    -- tolerance on points: (4n+16)·u·(max|coordinate| + length), widened by the rounding of r·L
    let tol := K * uRound * S * (1 + rabs r + rabs q)
    -- model values
    let (mrs, mre, mds, mde, mdrs, mdre, mli) : OPt × OPt × OPt × OPt × OPt × OPt × OPt :=
      match g with
      | .line a b =>
        (.some (linePointAtRatioFromStart a b r), .some (linePointAtRatioFromEnd a b q),
         .some (linePointAtDistanceFromStart lenD a b d), .some (linePointAtDistanceFromEnd lenD a b d),
         .some (linePointAtDistanceFromStart lenD a b o.rl), .some (linePointAtDistanceFromEnd lenD a b o.ql),
         ofOpt (lineInterpolatePoint a b r))
      | _ =>
        (ofOpt (lsPointAtRatioFromStart lenD cs r), ofOpt (lsPointAtRatioFromEnd lenD cs q),
         ofOpt (lsPointAtDistanceFromStart lenD cs d), ofOpt (lsPointAtDistanceFromEnd lenD cs d),
         ofOpt (lsPointAtDistanceFromStart lenD cs o.rl), ofOpt (lsPointAtDistanceFromEnd lenD cs o.ql),
         ofOpt (lsLineInterpolatePoint lenD cs r))
    -- locate: the model is evaluated at the implementation's own point
    let tolL : Rat := if L = 0 then 0 else tol / L + K * uRound
    let (mloc, locAmbig) : ONum × Bool :=
      match o.rs with
      | .some p =>
        if isLine then (.some (lineLocatePoint cs.head! cs.getLast! p), false) else
        if L = 0 then (.some 0, false) else
        let cands := locateCands cs p L
        let best := cands.foldl (fun m c => rmin m c.1) (cands.head!.1)
        let sb := sqrtUp best
        let thr := best + 4 * tol * sb + 4 * tol * tol
        let fr := (cands.filter (fun c => c.1 ≤ thr)).map (·.2)
        let lo := fr.foldl rmin (fr.head!)
        let hi := fr.foldl rmax (fr.head!)
        (.some (lsLineLocatePoint lenD cs p), hi - lo > tolL)
      | _ => (.na, false)
    let locSame := match mloc, o.loc with
      | .some a, .some b => locAmbig || rabs (a - b) ≤ tolL
      | .na, .na => true
      | _, _ => false
    -- regime G: outputs whose f64 evaluation is provably exact must agree bit for bit
    let lenEx := lenExact (segs cs) 0
    let distEx (ss : List (Pt × Pt)) (x : Rat) : Bool := x ≤ 0 || walkExact ss x
    let exDist (fromEnd : Bool) (x : Rat) : Bool :=
      match g with
      | .line a b =>
        f64ExactSeg a b && (x ≤ 0 || x ≥ lenD a b || (if fromEnd then pdbExact b a x else pdbExact a b x))
      | _ => distEx (if fromEnd then revSegs cs else segs cs) x
    let (exRs, exRe) : Bool × Bool :=
      match g with
      | .line a b => (r ≤ 0 || r ≥ 1 || lerpExact a b r, q ≤ 0 || q ≥ 1 || lerpExact b a q)
      | _ => (lenEx && isF64 (r * L) && exDist false (r * L), lenEx && isF64 (q * L) && exDist true (q * L))
    let exDs := exDist false d
    let exDe := exDist true d
    let exDrs := exDist false o.rl
    let exDre := exDist true o.ql
    let tolIf (ex : Bool) : Rat := if ex then 0 else tol
    let lenSame := if lenEx then o.len == L else rabs (o.len - L) ≤ K * uRound * L
    let same := lenSame && nearO (tolIf exRs) mrs o.rs && nearO (tolIf exRe) mre o.re && nearO (tolIf exDs) mds o.ds &&
      nearO (tolIf exDe) mde o.de && nearO (tolIf exDrs) mdrs o.drs && nearO (tolIf exDre) mdre o.dre && nearO tol mli o.li && locSame
    -- property clauses on the implementation's outputs
    let degenerate := L = 0
    let leadZero := match segs cs with | (a, b) :: _ => a == b | [] => true
    let prop : String :=
      match cs with
      | [] =>
        if o.rs == .none && o.re == .none && o.ds == .none && o.de == .none then "PASS"
        else "FAIL:empty-not-none"
      | _ =>
      match o.rs, o.re, o.ds, o.de, o.drs, o.dre with
      | .some prs, .some pre, .some pds, .some pde, .some pdrs, .some pdre =>
        let tr := clampR 0 L (r * L)
        let tq := clampR 0 L (q * L)
        let td := clampR 0 L d
        if !onLineAt cs tr prs tol then "FAIL:ratio-from-start-not-at-arclength"
        else if !onLineAt cs (L - tq) pre tol then "FAIL:ratio-from-end-not-at-arclength"
        else if !onLineAt cs td pds tol then "FAIL:distance-from-start-not-at-arclength"
        else if !onLineAt cs (L - td) pde tol then "FAIL:distance-from-end-not-at-arclength"
        else if r ≤ 0 && some prs != cs.head? then "FAIL:clamp-start"
        else if (r ≥ 2 || (isLine && r ≥ 1)) && !near 0 prs cs.getLast! then "FAIL:clamp-end"
        else if q == 1 - r && !near (2 * tol) prs pre then "FAIL:from-start-ne-from-end"
        else if !near (2 * tol) prs pdrs then "FAIL:ratio-ne-distance-form-start"
        else if !near (2 * tol) pre pdre then "FAIL:ratio-ne-distance-form-end"
        else
          let liClause :=
            match o.li with
            | .some pli => if near (2 * tol) pli prs then "" else "FAIL:deprecated-interpolate-differs"
            | _ =>
              if !isLine && (degenerate || (leadZero && r ≤ 0) || n = 0)
              then "FAIL:deprecated-interpolate-none-on-degenerate"
              else "FAIL:deprecated-interpolate-none"
          if liClause != "" then liClause else
          match o.loc with
          | .some v =>
            if degenerate then "PASS"
            else
              -- round trip demanded only where the line passes through the point once
              if uniquePreimage cs prs tol then
                (if rabs (v - clampR 0 1 r) ≤ 2 * tolL then "PASS" else "FAIL:locate-round-trip")
              else "PASS"
          | _ => "FAIL:locate-none"
      | _, _, _, _, _, _ => "FAIL:interpolate-none-or-nan"
    let multi := match mrs with
      | .some p => !uniquePreimage cs p tol
      | _ => true
    let rcls := if r < 0 then "r<0" else if r == 0 then "r=0" else if r < 1 then "0<r<1" else if r == 1 then "r=1" else "r>1"
    let dcls := if d ≤ 0 then "d<=0" else if d < L then "0<d<L" else if d == L then "d=L" else "d>L"
    let atVertex := match mrs with
      | .some p => cs.contains p && 0 < r && r < 1
      | _ => false
    let cls := "type=" ++ (if isLine then "LN" else "LS") ++ " n=" ++ toString cs.length ++ " " ++ rcls ++ " " ++ dcls ++
      (if exact then " exact-len" else " approx-len") ++
      (if exRs && exRe && exDs && exDe then " bit-exact" else if exRs || exRe || exDs || exDe then " part-bit-exact" else " rounded") ++
      (if (segs cs).any (fun s => s.1 == s.2) then " zero-seg" else "") ++
      (if atVertex then " at-vertex" else "") ++
      (if multi && !degenerate && cs != [] then " multi-preimage" else "") ++
      (if locAmbig then " loc-ambiguous" else "") ++
      (if cs.length ≤ 1 || (degenerate && r == 0) then " triv" else "")
    let m := "len " ++ ratStr L ++ " rs " ++ mrs.str ++ " re " ++ mre.str ++ " ds " ++ mds.str ++ " de " ++ mde.str ++
      " drs " ++ mdrs.str ++ " dre " ++ mdre.str ++ " li " ++ mli.str ++
      " loc " ++ (match mloc with | .some v => ratStr v | _ => "na")
    reply same prop cls m (String.intercalate " " out)
  | _ => "ERR interp-needs-line-or-linestring"

/-! ### densify -/

/-- rings (as written) of the densifiable input types, in output order -/
def inRings : Geom → Option (List (List Pt))
  | .line a b => some [[a, b]]
  | .lineString cs => some [cs]
  | .multiLineString ls => some ls
  | .polygon p => some (p.ext :: p.ints)
  | .multiPolygon ps => some (ps.flatMap (fun p => p.ext :: p.ints))
  | .rect mn mx => some [(rectToPoly mn mx).ext]
  | .triangle a b c => some [(triToPoly a b c).ext]
  | _ => none

def outRings : Geom → List (List Pt)
  | .lineString cs => [cs]
  | .multiLineString ls => ls
  | .polygon p => p.ext :: p.ints
  | .multiPolygon ps => ps.flatMap (fun p => p.ext :: p.ints)
  | _ => []

/-- type and member structure (ring counts) only -/
def shapeOf : Geom → String
  | .lineString _ => "LS"
  | .multiLineString ls => "MLS" ++ toString ls.length
  | .polygon p => "PG" ++ toString p.ints.length
  | .multiPolygon ps => "MPG" ++ String.join (ps.map (fun p => "," ++ toString p.ints.length))
  | _ => "other"

/-- Greedy alignment of an output ring with the original segments: each original start vertex,
then inserted points up to (not including) the next original vertex. -/
def align : List (Pt × Pt) → List Pt → Option (List (Pt × Pt × List Pt))
  | [], os => if os.length == 1 then some [] else none
  | (a, b) :: rest, os =>
    match os with
    | [] => none
    | o :: os' =>
      if o != a then none else
      let ins := os'.takeWhile (· != b)
      let tail := os'.dropWhile (· != b)
      if tail.isEmpty then none else
      (align rest tail).map (fun l => (a, b, ins) :: l)

def consecutive (ps : List Pt) : List (Pt × Pt) := segs ps

/-- property clauses for one (original ring, output ring) pair; "" = holds -/
def ringClause (cs os : List Pt) (mx tol : Rat) : String :=
  if cs.length ≤ 1 then (if os == cs then "" else "FAIL:densify-vertices-not-kept") else
  match align (segs cs) os with
  | none => "FAIL:densify-vertices-not-kept"
  | some parts =>
    if os.getLast? != cs.getLast? then "FAIL:densify-vertices-not-kept" else
    let bound := mx * (1 + 4 * uRound) + tol
    parts.foldl (fun acc (a, b, ins) =>
      if acc != "" then acc else
      let sq := sqLen a b
      let l := lenD a b
      -- inserted points: on the supporting line within tol, parameters strictly increasing in (0,1)
      let params := ins.map (fun p => ((p.x - a.x) * (b.x - a.x) + (p.y - a.y) * (b.y - a.y)))
      let offs := ins.all (fun p => l != 0 &&
        rabs ((p.x - a.x) * (b.y - a.y) - (p.y - a.y) * (b.x - a.x)) / l ≤ tol)
      let mono := ins.isEmpty || (List.zip ((0 : Rat) :: params) (params ++ [sq])).all (fun (u, v) => u < v)
      let pieces := consecutive (a :: ins ++ [b])
      let tooLong := pieces.any (fun s => sqLen s.1 s.2 > bound * bound)
      let total := pieces.foldl (fun t s => t + lenD s.1 s.2) 0
      if !offs then "FAIL:densify-point-off-segment"
      else if !mono then "FAIL:densify-points-not-monotone"
      else if tooLong then "FAIL:densify-piece-longer-than-max"
      else if rabs (total - l) > ((pieces.length : Rat) + 1) * tol then "FAIL:densify-length-changed"
      else "") ""

/-- The piece count branches on `ceil(d/max)` evaluated in f64. For a segment whose f64 length is
exact (coordinate differences and root are binary64 values) the correctly rounded quotient gives
another ceiling only when `d/max` lies above an integer `N` by at most half an ulp (`≤ N·2^-53`);
otherwise (differences rounded, hypot within 1 ulp) when `d/max` is within `2^-49` relative of an
integer. Returns the admissible piece counts: the exact one, plus the neighbour in a near-tie. -/
def admissibleCounts (s : Pt × Pt) (mx : Rat) : List Nat :=
  let qv := lenD s.1 s.2 / mx
  let n := numSegments lenD s.1 s.2 mx
  let fl := (Rat.floor qv : Rat)
  let lo := qv - fl
  let hi := fl + 1 - qv
  if f64ExactSeg s.1 s.2 then
    (if 0 < lo && lo * 9007199254740992 ≤ fl then [n - 1, n] else [n])
  else if (rmin lo hi) * 562949953421312 ≤ qv then
    [(Rat.ceil (qv * (1 - 1 / 562949953421312))).toNat, (Rat.ceil (qv * (1 + 1 / 562949953421312))).toNat]
  else [n]

/-- comparison with the model that tolerates the admissible piece counts of near-tie segments:
original vertices exact and in order, `m − 1` points per segment with `m` admissible, the `k`-th
within `tol` of `lerp a b (k/m)` -/
def ringSameTie (cs os : List Pt) (mx tol : Rat) : Bool :=
  if cs.length ≤ 1 then os == cs else
  match align (segs cs) os with
  | none => false
  | some parts =>
    os.getLast? == cs.getLast? && parts.all (fun (a, b, ins) =>
      let m := ins.length + 1
      let cands := admissibleCounts (a, b) mx
      (cands.contains m || (m == 1 && cands.contains 0)) &&
      (List.zip (List.range' 1 ins.length) ins).all (fun (k, p) => near tol p (lerp a b ((k : Rat) / (m : Rat)))))

def handleDensify (inp out : List String) : String :=
  let pin : P (Geom × Rat) := do
    let g ← geometry
    lit "max"; let m ← rat
    pure (g, m)
  match P.run pin inp with
  | none => "ERR parse-input"
  | some (g, mx) =>
  if mx ≤ 0 then skip "max-not-positive" else
  match inRings g with
  | none => "ERR densify-type"
  | some rings =>
  let allSegs := rings.flatMap segs
  let exact := allSegs.all (fun s => exactSeg s.1 s.2)
  -- near-ties of the piece count (see `admissibleCounts`): compared with every admissible count
  let nearTie := allSegs.any (fun s => (admissibleCounts s mx).length > 1)
  let pieces := allSegs.foldl (fun t s => t + numSegments lenD s.1 s.2 mx) 0
  if pieces > 100000 then skip "too-many-pieces" else
  let maxSeg := allSegs.foldl (fun m s => rmax m (lenD s.1 s.2)) 0
  let S := maxAbs rings.flatten + maxSeg
  -- tolerance: 16·u·(max|coordinate| + longest segment)
  let tol := 16 * uRound * S
  let cls0 := "type=" ++ (g.str.splitOn " ").head! ++ (if exact then " exact-len" else " approx-len")
  if out == ["panic"] then reply false "FAIL:densify-panic" cls0 "no-panic" "panic" else
  match P.run rawGeometry out, densify lenD mx g with
  | some og, some mg =>
    let ors := outRings og
    let mrs := outRings mg
    -- regime G: `frac = 1/n`, `ratio = frac·k`, `start + diff·ratio` all unrounded ⇒ bit-exact points
    let densExact := allSegs.all (fun s =>
      let n := numSegments lenD s.1 s.2 mx
      n ≤ 1 || (isF64 (1 / (n : Rat)) &&
        (List.range' 1 (n - 1)).all (fun k => lerpExact s.1 s.2 ((k : Rat) / (n : Rat)))))
    let tolM : Rat := if densExact then 0 else tol
    let same := shapeOf og == shapeOf mg && ors.length == mrs.length &&
      (if nearTie then ors.length == rings.length && (List.zip rings ors).all (fun (cs, os) => ringSameTie cs os mx tol)
       else (List.zip mrs ors).all (fun (m, o) => m.length == o.length && (List.zip m o).all (fun (p, q) => near tolM p q)))
    let prop :=
      if shapeOf og != shapeOf mg || ors.length != rings.length then "FAIL:densify-shape"
      else
        (List.zip rings ors).foldl (fun acc (cs, os) => if acc != "" then acc else ringClause cs os mx tol) ""
    let prop := if prop == "" then "PASS" else prop
    let exactMult := allSegs.any (fun s => let qv := lenD s.1 s.2 / mx; qv.den == 1 && qv > 0)
    let inserted := pieces - (allSegs.filter (fun s => s.1 != s.2)).length
    let cls := cls0 ++ (if nearTie then " ceil-near-tie" else if densExact then " bit-exact" else " rounded") ++ (if exactMult then " exact-multiple" else "") ++
      (if allSegs.any (fun s => s.1 == s.2) then " zero-seg" else "") ++
      (if mx > maxSeg then " max>longest" else "") ++
      (if inserted == 0 then " none-inserted" else "") ++
      (if allSegs.isEmpty then " triv" else "")
    reply same prop cls mg.str (String.intercalate " " out)
  | _, _ => "ERR parse-output"

/-- `C15.densbig LN a b max m ty => n <coords> maxseg <longest> first <pt> last <pt>` — only a summary of a very long output -/
def handleDensBig (inp out : List String) : String :=
  let pin : P (Geom × Rat) := do let g ← geometry; lit "max"; let m ← rat; let _ ← tok; pure (g, m)
  let pout : P (Nat × Rat × Pt × Pt) := do
    lit "n"; let n ← nat; lit "maxseg"; let s ← rat; lit "first"; let f ← pt; lit "last"; let l ← pt; pure (n, s, f, l)
  match P.run pin inp, P.run pout out with
  | some (.line a b, mx), some (n, longest, f, l) =>
    if mx ≤ 0 then skip "max-not-positive" else
    if !exactSeg a b then skip "inexact-length" else
    if (admissibleCounts (a, b) mx).length > 1 then skip "near-tie-piece-count" else
    let pieces := numSegments lenD a b mx
    let prop :=
      if f != a || l != b then "FAIL:densify-end-points"
      -- the pieces are differences of rounded points: tolerance 2 · 16·u·(max|coordinate| + length), as in `handleDensify`
      else if longest > mx + 32 * uRound * (maxAbs [a, b] + lenD a b) then "FAIL:densify-piece-longer-than-max"
      else "PASS"
    reply (n == pieces + 1) prop ("type=LN pieces=huge") (toString (pieces + 1)) (toString n)
  | _, _ => "ERR parse"

def handle (op : String) (inp out : List String) : Option String :=
  match op with
  | "C15.interp" => some (handleInterp inp out)
  | "C15.densify" => some (handleDensify inp out)
  | "C15.densbig" => some (handleDensBig inp out)
  | _ => none

end Geo.Ops.C15
