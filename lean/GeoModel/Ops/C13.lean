/-
  Driver operations for C13 (affine algebra, constructors, trait entry points, integer scalar
  types, commutation stream).

  Exactness is decided per case by evaluating the same generic model at the checked-binary64
  scalar `Fx` (GeoModel/Affine.lean): when no intermediate result is poisoned the f64 computation
  is exact and bit-equality is demanded; otherwise the comparison is `|impl − exact| ≤ k·u·S`
  with the bounds stated next to each use (and in lib/props/C13.py).
-/
import GeoModel.Parse
import GeoModel.Affine

namespace Geo.Ops.C13
open Geo Geo.P

/-! ### small helpers -/

def u : Rat := uRound
def tiny : Rat := pow2 (-1060)

def xnums (n : Nat) : P (List XNum) := rep n xnum

def allFin (xs : List XNum) : Option (List Rat) := xs.mapM XNum.toRat?

def mat6 : P (Affine Rat) := do
  let a ← rat; let b ← rat; let c ← rat; let d ← rat; let e ← rat; let f ← rat
  pure (Affine.new a b c d e f)

def ofList6 : List Rat → Option (Affine Rat)
  | [a, b, c, d, e, f] => some (Affine.new a b c d e f)
  | _ => none

def ratsStr (l : List Rat) : String := String.intercalate " " (l.map ratStr)

def absM (m : Affine Rat) : Affine Rat :=
  ⟨rabs m.m00, rabs m.m01, rabs m.m02, rabs m.m10, rabs m.m11, rabs m.m12, rabs m.m20, rabs m.m21, rabs m.m22⟩

/-- entrywise `|a_i − b_i| ≤ t_i` -/
def within (a b t : List Rat) : Bool :=
  a.length == b.length && b.length == t.length &&
  ((a.zip b).zip t).all (fun ((x, y), e) => rabs (x - y) ≤ e)

def fxPt (p : Pt) : Fx × Fx := (Fx.ofRat p.x, Fx.ofRat p.y)

def fxEntries (m : Affine Fx) : Option (List Rat) := m.entries.mapM (·.v)

def maxAbs (l : List Rat) : Rat := l.foldl (fun acc x => rmax acc (rabs x)) 0

/-! ### C13.alg — compose / compose_many / apply / inverse on f64 matrices -/

structure AlgOut where
  many : List XNum
  fold : List XNum
  isid : Bool
  applyc : List XNum
  applys : List XNum
  inv : Option (List XNum × Bool × Bool × List XNum)

def algOut : P AlgOut := do
  lit "many"; let a ← xnums 6
  lit "fold"; let b ← xnums 6
  lit "isid"; let i ← bool
  lit "applyc"; let c ← xnums 2
  lit "applys"; let d ← xnums 2
  lit "inv"
  let t ← tok
  match t with
  | "none" => pure ⟨a, b, i, c, d, none⟩
  | "some" => do
      let m ← xnums 6
      lit "rt"; let r1 ← bool; let r2 ← bool
      lit "back"; let bk ← xnums 2
      pure ⟨a, b, i, c, d, some (m, r1, r2, bk)⟩
  | _ => fail

def algIn : P (List (Affine Rat) × Pt) := do
  let n ← nat
  let ms ← rep n mat6
  let p ← pt
  pure (ms, p)

/-- tolerance for the rounded inverse (see lib/props/C13.py): `none` = ill-conditioned. -/
def inverseTol (m : Affine Rat) : Option (List Rat) :=
  let a := m.m00; let b := m.m01; let xo := m.m02; let d := m.m10; let e := m.m11; let yo := m.m12
  let det := a * e - b * d
  if det = 0 then none else
  let detErr := 3 * u * (rabs (a * e) + rabs (b * d)) + tiny
  if detErr * 1048576 ≥ rabs det then none else
  let rho := 2 * detErr / rabs det + 4 * u
  let ent (x : Rat) : Rat := rabs (x / det) * (rho + 2 * u) + tiny
  let off (t1 t2 num : Rat) : Rat :=
    (4 * u * (rabs t1 + rabs t2) / rabs det) * (1 + rho) + rabs (num / det) * (rho + 2 * u) + tiny
  some [ent e, ent b, off (b * yo) (e * xo) (b * yo - e * xo), ent d, ent a, off (d * xo) (a * yo) (d * xo - a * yo)]

def handleAlg (inp out : List String) : String :=
  match P.run algIn inp, P.run algOut out with
  | some (m0 :: rest, p), some o =>
    let n := rest.length + 1
    -- exact model
    let manyR := m0.composeMany rest
    let foldR := rest.foldl (fun acc t => acc.compose t) m0
    let applycR := manyR.applyPt p
    let applysR := (m0 :: rest).foldl (fun q t => t.applyPt q) p
    let invR := m0.inverse
    -- checked binary64
    let m0x := m0.toFx
    let restx := rest.map Affine.toFx
    let manyX := m0x.composeMany restx
    let foldX := restx.foldl (fun acc t => acc.compose t) m0x
    let px := fxPt p
    let applycX := manyX.apply px.1 px.2
    let applysX := (m0x :: restx).foldl (fun q t => t.apply q.1 q.2) px
    let chainExact := manyX.fxOk && foldX.fxOk && applycX.1.ok && applycX.2.ok && applysX.1.ok && applysX.2.ok
    let detX : Fx := m0x.m00 * m0x.m11 - m0x.m01 * m0x.m10
    let invX := m0x.inverse
    let invExact := detX.ok && (match invX with
      | none => true
      | some ix =>
        let bk := ix.apply (m0x.apply px.1 px.2).1 (m0x.apply px.1 px.2).2
        ix.fxOk && (m0x.compose ix).fxOk && (ix.compose m0x).fxOk && bk.1.ok && bk.2.ok)
    let cls := "n=" ++ toString n ++ (if chainExact then " chain=exact" else " chain=rounded") ++
      (if invExact then " inv=exact" else " inv=rounded") ++
      (if m0.det = 0 then " singular" else "") ++ (if n == 1 && invR.isNone then " triv" else "")
    -- implementation values
    let many? := allFin o.many
    let fold? := allFin o.fold
    let ac? := allFin o.applyc
    let as? := allFin o.applys
    let implStr := String.intercalate " " out
    -- ---- chain part
    let chainRes : Option (Bool × String) :=     -- (same, prop); none = skip
      if chainExact then
        match many?, fold?, ac?, as? with
        | some mn, some fo, some ac, some as_ =>
          let same := mn == manyR.entries && fo == foldR.entries && ac == [applycR.x, applycR.y] &&
            as_ == [applysR.x, applysR.y] && o.isid == manyR.isIdentity
          let prop :=
            if ac != as_ then "FAIL:apply-compose-ne-sequential-apply"
            else if mn != fo then "FAIL:compose-many-ne-fold"
            else "PASS"
          some (same, prop)
        | _, _, _, _ => some (false, "FAIL:nonfinite-in-exact-regime")
      else if n ≤ 2 then
        match many?, fold?, ac?, as? with
        | some mn, some fo, some ac, some _ =>
          -- one rounded compose: |err| ≤ 4u·Σ|terms| per entry; apply of the impl's own matrix likewise
          let tolM := match rest with
            | [] => [0, 0, 0, 0, 0, 0]
            | t :: _ => ((absM m0).compose (absM t)).entries.map (fun s => 4 * u * s + tiny)
          let okM := within mn manyR.entries tolM && within fo foldR.entries tolM
          let okA := match ofList6 mn with
            | some mi =>
              let ex := mi.applyPt p
              let ab := (absM mi).applyPt ⟨rabs p.x, rabs p.y⟩
              within ac [ex.x, ex.y] [4 * u * ab.x + tiny, 4 * u * ab.y + tiny]
            | none => false
          some (okM && okA, if !okM then "FAIL:compose-outside-rounding-bound"
                            else if !okA then "FAIL:apply-outside-rounding-bound" else "PASS")
        | _, _, _, _ => none
      else none
    -- ---- inverse part
    let invRes : Option (Bool × String) :=
      if invExact then
        match o.inv, invR with
        | none, none => some (true, "PASS")
        | none, some _ => some (false, "FAIL:inverse-none-for-nonsingular")
        | some _, none => some (false, "FAIL:inverse-some-for-singular")
        | some (mi, r1, r2, bk), some ir =>
          match allFin mi, allFin bk with
          | some mi, some bk =>
            let same := mi == ir.entries && r1 && r2 && bk == [p.x, p.y]
            let prop := if !(r1 && r2) then "FAIL:compose-with-inverse-not-identity"
              else if bk != [p.x, p.y] then "FAIL:inverse-does-not-undo-apply" else "PASS"
            some (same, prop)
          | _, _ => some (false, "FAIL:nonfinite-in-exact-regime")
      else
        match o.inv, invR, inverseTol m0 with
        | some (mi, _, _, _), some ir, some tol =>
          match allFin mi with
          | some mi => let ok := within mi ir.entries tol
            some (ok, if ok then "PASS" else "FAIL:inverse-outside-rounding-bound")
          | none => none
        | _, _, _ => none
    let extreme := ((m0 :: rest).flatMap Affine.entries ++ [p.x, p.y]).any
      (fun v => v != 0 && (rabs v < pow2 (-400) || rabs v > pow2 400))
    if extreme && !(chainExact && invExact) then skip "rounded-regime-extreme-magnitude" else
    match chainRes, invRes with
    | none, none => skip "inexact-chain-and-inverse"
    | c, i =>
      let (s1, p1) := c.getD (true, "PASS")
      let (s2, p2) := i.getD (true, "PASS")
      let prop := if p1 != "PASS" then p1 else p2
      let model := "many " ++ ratsStr manyR.entries ++ " applyc " ++ applycR.str ++ " inv " ++
        (match invR with | none => "none" | some ir => ratsStr ir.entries)
      reply (s1 && s2) prop (cls ++ (if c.isNone then " chain=unchecked" else "") ++ (if i.isNone then " inv=unchecked" else ""))
        model implStr
  | _, _ => "ERR parse"

/-! ### trigonometric truth for multiples of 15° -/

def sqrtA (q : Rat) : Rat := (sqrtInterval q 90).1

/-- `(cos, sin)` of `15·k` degrees to better than `2^-80`. -/
def trig15 (k : Int) : Rat × Rat :=
  let r6 := sqrtA 6; let r2 := sqrtA 2; let r3 := sqrtA 3
  let c15 := (r6 + r2) / 4; let s15 := (r6 - r2) / 4
  let j := (k % 24).toNat
  let q := j / 6; let r := j % 6
  let cs : Rat × Rat := match r with
    | 0 => (1, 0) | 1 => (c15, s15) | 2 => (r3 / 2, 1 / 2) | 3 => (r2 / 2, r2 / 2)
    | 4 => (1 / 2, r3 / 2) | _ => (s15, c15)
  match q with
  | 0 => cs | 1 => (-cs.2, cs.1) | 2 => (-cs.1, -cs.2) | _ => (cs.2, -cs.1)

/-- `some (cos, sin)` when `deg` is an integer multiple of 15. -/
def trigDeg? (deg : Rat) : Option (Rat × Rat) :=
  let k := deg / 15
  if k.den = 1 then some (trig15 k.num) else none

/-- `some tan` for multiples of 15° away from the poles. -/
def tanDeg? (deg : Rat) : Option Rat :=
  match trigDeg? deg with
  | some (c, s) => if c = 0 then none else some (s / c)
  | none => none

/-- bound on `|θ_rad|`, generous: `|deg|·(π/180) < |deg|/57` -/
def radBound (deg : Rat) : Rat := rabs deg / 57 + 1

/-! ### C13.ctor -/

inductive Ctor where
  | scale (fx fy : Rat) (o : Pt)
  | translate (dx dy : Rat)
  | rotate (deg : Rat) (o : Pt)
  | skew (xs ys : Rat) (o : Pt)

def ctorIn : P (Affine Rat × Ctor) := do
  let base ← mat6
  let t ← tok
  match t with
  | "scale" => do let fx ← rat; let fy ← rat; let o ← pt; pure (base, .scale fx fy o)
  | "translate" => do let dx ← rat; let dy ← rat; pure (base, .translate dx dy)
  | "rotate" => do let d ← rat; let o ← pt; pure (base, .rotate d o)
  | "skew" => do let xs ← rat; let ys ← rat; let o ← pt; pure (base, .skew xs ys o)
  | _ => fail

def ctorOut : P (List XNum × List XNum × List XNum) := do
  lit "ctor"; let a ← xnums 6
  lit "cum"; let b ← xnums 6
  lit "cmp"; let c ← xnums 6
  pure (a, b, c)

/-- verdict on one constructor matrix: `(same-as-model, property clause, tags, model text)`;
`none` = skip with reason in the string. -/
def ctorVerdict (k : Ctor) (mi : Affine Rat) : Except String (Bool × String × String × String) :=
  match k with
  | .scale fx fy o =>
    let mR := Affine.scale fx fy o.x o.y
    let mX := Affine.scale (Fx.ofRat fx) (Fx.ofRat fy) (Fx.ofRat o.x) (Fx.ofRat o.y)
    if mX.fxOk then
      let same := mi.entries == mR.entries
      .ok (same, if same then "PASS" else "FAIL:scale-ne-documented-matrix", "ctor=scale exact", ratsStr mR.entries)
    else
      -- xoff = x0 − x0·fx: two roundings
      let tol := [0, 0, 2 * u * (rabs o.x + rabs (o.x * fx)) + tiny, 0, 0, 2 * u * (rabs o.y + rabs (o.y * fy)) + tiny]
      let ok := within mi.entries mR.entries tol
      .ok (ok, if ok then "PASS" else "FAIL:scale-ne-documented-matrix", "ctor=scale rounded", ratsStr mR.entries)
  | .translate dx dy =>
    let mR : Affine Rat := Affine.translate dx dy
    let same := mi.entries == mR.entries
    .ok (same, if same then "PASS" else "FAIL:translate-ne-documented-matrix", "ctor=translate exact", ratsStr mR.entries)
  | .rotate deg o =>
    let c := mi.m00; let s := mi.m10
    let shape := mi.m11 == c && mi.m01 == -s
    -- offsets against the formula with the implementation's own (cos, sin)
    let mR := Affine.rotate c s o.x o.y
    let tolx := 4 * u * (rabs o.x + rabs (o.x * c) + rabs (o.y * s)) + tiny
    let toly := 4 * u * (rabs o.y + rabs (o.x * s) + rabs (o.y * c)) + tiny
    let offOk := rabs (mi.m02 - mR.m02) ≤ tolx && rabs (mi.m12 - mR.m12) ≤ toly
    let (trigOk, tag) := match trigDeg? deg with
      | some (ct, st) =>
        -- to_radians: ≤ 2u relative on θ; libm sin/cos: < 1 ulp
        let t := 4 * u * radBound deg + 4 * u
        (rabs (c - ct) ≤ t && rabs (s - st) ≤ t, "trig=verified")
      | none => (rabs (c * c + s * s - 1) ≤ 8 * u, "trig=norm-only")
    let ok := shape && offOk && trigOk
    let clause := if !shape then "FAIL:rotate-matrix-shape" else if !trigOk then "FAIL:rotate-wrong-angle"
      else if !offOk then "FAIL:rotate-origin-not-fixed" else "PASS"
    .ok (ok, clause, "ctor=rotate " ++ tag, ratsStr mR.entries)
  | .skew xs ys o =>
    let tx := mi.m01; let ty := mi.m10
    let shape := mi.m00 == 1 && mi.m11 == 1
    let offOk := rabs (mi.m02 - (-o.y * tx)) ≤ u * rabs (o.y * tx) + tiny &&
                 rabs (mi.m12 - (-o.x * ty)) ≤ u * rabs (o.x * ty) + tiny
    let chk (deg t : Rat) : Option Bool := match tanDeg? deg with
      | some tt =>
        let tc := Affine.skewClamp tt
        -- d tan = (1+tan²) dθ, dθ ≤ 2u·|θ|; plus 2 ulps of libm tan; results below the clamp are 0
        some (rabs (t - tc) ≤ (1 + tt * tt) * 4 * u * radBound deg + 4 * u * rabs tt + Affine.skewEps)
      | none => none
    let clampOk := (rabs tx ≥ Affine.skewEps || tx == 0) && (rabs ty ≥ Affine.skewEps || ty == 0)
    match chk xs tx, chk ys ty with
    | some a, some b =>
      let ok := shape && offOk && a && b && clampOk
      let clause := if !shape then "FAIL:skew-matrix-shape" else if !(a && b) then "FAIL:skew-wrong-tangent"
        else if !clampOk then "FAIL:skew-clamp" else if !offOk then "FAIL:skew-origin-not-fixed" else "PASS"
      .ok (ok, clause, "ctor=skew trig=verified", ratsStr (Affine.skew tx ty o).entries)
    | _, _ =>
      let ok := shape && offOk && clampOk
      let clause := if !shape then "FAIL:skew-matrix-shape" else if !clampOk then "FAIL:skew-clamp"
        else if !offOk then "FAIL:skew-origin-not-fixed" else "PASS"
      .ok (ok, clause, "ctor=skew trig=unverified", ratsStr (Affine.skew tx ty o).entries)

def handleCtor (inp out : List String) : String :=
  match P.run ctorIn inp, P.run ctorOut out with
  | some (_, k), some (a, b, c) =>
    match allFin a, allFin b, allFin c with
    | some a, some b, some c =>
      match ofList6 a with
      | some mi =>
        match ctorVerdict k mi with
        | .ok (same, clause, tags, model) =>
          -- `scaled`/`translated`/`rotated`/`skewed` are `self.compose(&ctor)`: both values come from the
          -- implementation and must be identical
          let cumOk := b == c
          let prop := if clause != "PASS" then clause else if !cumOk then "FAIL:cumulative-ne-compose" else "PASS"
          reply (same && cumOk) prop tags model (String.intercalate " " out)
        | .error why => skip why
      | none => "ERR parse"
    | _, _, _ => skip "nonfinite"
  | _, _ => "ERR parse"

/-! ### C13.trait -/

inductive Method where
  | translate (dx dy : Rat)
  | scale (f : Rat)
  | scaleXy (fx fy : Rat)
  | scalePt (fx fy : Rat) (o : Pt)
  | skew (d : Rat)
  | skewXy (dx dy : Rat)
  | skewPt (dx dy : Rat) (o : Pt)
  | rotCentroid (d : Rat)
  | rotCenter (d : Rat)
  | rotPt (d : Rat) (o : Pt)
  | affine (m : Affine Rat)

def method : P Method := do
  let t ← tok
  match t with
  | "translate" => do let a ← rat; let b ← rat; pure (.translate a b)
  | "scale" => do let a ← rat; pure (.scale a)
  | "scale_xy" => do let a ← rat; let b ← rat; pure (.scaleXy a b)
  | "scale_pt" => do let a ← rat; let b ← rat; let o ← pt; pure (.scalePt a b o)
  | "skew" => do let a ← rat; pure (.skew a)
  | "skew_xy" => do let a ← rat; let b ← rat; pure (.skewXy a b)
  | "skew_pt" => do let a ← rat; let b ← rat; let o ← pt; pure (.skewPt a b o)
  | "rot_centroid" => do let a ← rat; pure (.rotCentroid a)
  | "rot_center" => do let a ← rat; pure (.rotCenter a)
  | "rot_pt" => do let a ← rat; let o ← pt; pure (.rotPt a o)
  | "affine" => do let m ← mat6; pure (.affine m)
  | _ => fail

def Method.name : Method → String
  | .translate .. => "translate" | .scale .. => "scale" | .scaleXy .. => "scale_xy" | .scalePt .. => "scale_pt"
  | .skew .. => "skew" | .skewXy .. => "skew_xy" | .skewPt .. => "skew_pt" | .rotCentroid .. => "rot_centroid"
  | .rotCenter .. => "rot_center" | .rotPt .. => "rot_pt" | .affine .. => "affine"

inductive Cen where
  | na | none | some (p : Pt) | nonfinite

def cenP : P Cen := do
  let t ← tok
  match t with
  | "na" => pure .na
  | "none" => pure .none
  | "some" => do
      let x ← xnum; let y ← xnum
      match x.toRat?, y.toRat? with
      | some a, some b => pure (.some ⟨a, b⟩)
      | _, _ => pure .nonfinite
  | _ => fail

def geomOrNonfinite : P (Option Geom) := do
  let t ← peek?
  if t == some "nonfinite" then do let _ ← tok; pure none else do let g ← rawGeometry; pure (some g)

def traitOut : P (Cen × Option Geom × Option Geom) := do
  lit "cen"; let c ← cenP
  lit "res"; let r ← geomOrNonfinite
  lit "mut"; let m ← geomOrNonfinite
  pure (c, r, m)

def traitIn : P (Bool × Method × Geom) := do
  let w ← tok
  let m ← method
  let g ← geometry
  pure (w == "enum", m, g)

/-- The coordinates actually fed to the closure, in order (a Rect feeds only `min`, `max`). -/
partial def fedCoords : Geom → List Pt
  | .rect mn mx => [mn, mx]
  | .collection gs => gs.flatMap fedCoords
  | g => coordsIter g

/-- all triangles at any depth -/
partial def triangles : Geom → List (Pt × Pt × Pt)
  | .triangle a b c => [(a, b, c)]
  | .collection gs => gs.flatMap triangles
  | _ => []

/-- Could `Triangle::new`'s (non-robust, f64) cross product get the sign of a transformed
triangle wrong or differently from the exact one? `exact` says the transformed corners are
exact f64 values. -/
def triNearTie (f : Pt → Pt) (exact : Bool) (g : Geom) : Bool :=
  (triangles g).any (fun (a, b, c) =>
    let a := f a; let b := f b; let c := f c
    let cp := crossProd a b c
    let mag := rabs (b.x - a.x) * rabs (c.y - a.y) + rabs (b.y - a.y) * rabs (c.x - a.x)
    let fx : Fx := (Fx.ofRat b.x - Fx.ofRat a.x) * (Fx.ofRat c.y - Fx.ofRat a.y) -
      (Fx.ofRat b.y - Fx.ofRat a.y) * (Fx.ofRat c.x - Fx.ofRat a.x)
    -- the transformed corners are themselves rounded (absolute error ~u·|coordinate| each), which moves the cross
    -- product by up to that error times the triangle's extent — decisive when a corner differs from another by less
    -- than an ulp of their magnitude (subnormal offsets next to coordinates of order 1)
    let m := [a, b, c].foldl (fun m p => rmax m (rmax (rabs p.x) (rabs p.y))) 0
    let span := rabs (b.x - a.x) + rabs (b.y - a.y) + rabs (c.x - a.x) + rabs (c.y - a.y)
    if exact && fx.ok then false
    else rabs cp * 1099511627776 ≤ mag || rabs cp * 281474976710656 ≤ m * span)

def shapeOf (g : Geom) : String := (mapCoords (fun _ => ⟨0, 0⟩) g).str

def approxGeomEq (tol : Rat) (a b : Geom) : Bool :=
  shapeOf a == shapeOf b &&
  let ca := coordsIter a; let cb := coordsIter b
  ca.length == cb.length && (ca.zip cb).all (fun (p, q) => rabs (p.x - q.x) ≤ tol && rabs (p.y - q.y) ≤ tol)

def tagOf (g : Geom) : String := (g.str.splitOn " ").head!

/-- the bounding-box centre as f64 computes it, if exact -/
def centerFx (r : Pt × Pt) : Fx × Fx :=
  let two : Fx := 1 + 1
  ((Fx.ofRat r.2.x + Fx.ofRat r.1.x) / two, (Fx.ofRat r.2.y + Fx.ofRat r.1.y) / two)

structure Plan where
  model : Geom                 -- exact model value
  exact : Bool                 -- f64 evaluation provably exact
  origin : Option Pt
  fmag : Rat                   -- magnitude of the linear part (for the tolerance)
  kTol : Rat                   -- tolerance multiplier
  tag : String
  f : Pt → Pt                  -- the exact coordinate map (for the triangle near-tie test)
  unchanged : Bool             -- the method must return the input unchanged (empty geometry)

def planAffine (m : Affine Rat) (mx : Affine Fx) (g : Geom) (o : Option Pt) (tag : String) (k : Rat) : Plan :=
  { model := affineTransform m g, exact := mx.fxOk && mx.fxApplyOk (fedCoords g), origin := o,
    fmag := maxAbs [m.m00, m.m01, m.m10, m.m11], kTol := k, tag := tag, f := m.applyPt, unchanged := false }

def planSame (g : Geom) (tag : String) : Plan :=
  { model := g, exact := true, origin := none, fmag := 0, kTol := 0, tag := tag, f := id, unchanged := true }

/-- rotate about `o` (exact origin `o`, possibly rounded origin flagged by `oExact`) -/
def planRotate (deg : Rat) (o : Pt) (g : Geom) : Option Plan :=
  match trigDeg? deg with
  | some (c, s) =>
    let m := Affine.rotate c s o.x o.y
    some { model := affineTransform m g, exact := false, origin := some o, fmag := 1,
           kTol := 64 + 8 * radBound deg, tag := "trig=verified", f := m.applyPt, unchanged := false }
  | none => none

def planSkew (dx dy : Rat) (o : Pt) (g : Geom) : Option Plan :=
  match tanDeg? dx, tanDeg? dy with
  | some tx, some ty =>
    let m := Affine.skew tx ty o
    let exact := tx == 0 && ty == 0
    some { model := affineTransform m g, exact := exact, origin := some o,
           fmag := (1 + rabs tx + rabs ty), kTol := 64 * (1 + tx * tx + ty * ty) * radBound (rmax (rabs dx) (rabs dy)),
           tag := "trig=verified", f := m.applyPt, unchanged := false }
  | _, _ => none

def mkPlan (m : Method) (g : Geom) (cen : Cen) : Except String Plan :=
  let bbox := boundingRect g
  match m with
  | .translate dx dy =>
    .ok (planAffine (Affine.translate dx dy) (Affine.translate (Fx.ofRat dx) (Fx.ofRat dy)) g none "" 8)
  | .affine a => .ok (planAffine a a.toFx g none "" 8)
  | .scalePt fx fy o =>
    .ok (planAffine (Affine.scale fx fy o.x o.y)
      (Affine.scale (Fx.ofRat fx) (Fx.ofRat fy) (Fx.ofRat o.x) (Fx.ofRat o.y)) g (some o) "" 16)
  | .scale f => mkPlan (.scaleXy f f) g cen
  | .scaleXy fx fy =>
    match bbox with
    | none => .ok (planSame g "empty")
    | some r =>
      let o := rectCenter r
      let ox := centerFx r
      .ok (planAffine (Affine.scale fx fy o.x o.y) (Affine.scale (Fx.ofRat fx) (Fx.ofRat fy) ox.1 ox.2) g (some o) "" 16)
  | .skewPt dx dy o =>
    match planSkew dx dy o g with | some p => .ok p | none => .error "skew-angle-not-multiple-of-15"
  | .skew d => mkPlan (.skewXy d d) g cen
  | .skewXy dx dy =>
    match bbox with
    | none => .ok (planSame g "empty")
    | some r => match planSkew dx dy (rectCenter r) g with
      | some p => .ok { p with exact := p.exact && (centerFx r).1.ok && (centerFx r).2.ok }
      | none => .error "skew-angle-not-multiple-of-15"
  | .rotPt d o =>
    match planRotate d o g with | some p => .ok p | none => .error "rotate-angle-not-multiple-of-15"
  | .rotCenter d =>
    match bbox with
    | none => .ok (planSame g "empty")
    | some r => match planRotate d (rectCenter r) g with
      | some p => .ok p | none => .error "rotate-angle-not-multiple-of-15"
  | .rotCentroid d =>
    match cen with
    | .none => .ok (planSame g "empty")
    | .some o => match planRotate d o g with
      | some p => .ok p | none => .error "rotate-angle-not-multiple-of-15"
    | .nonfinite => .error "nonfinite-centroid"
    | .na => .error "centroid-missing"
termination_by (match m with | .scale _ => 1 | .skew _ => 1 | _ => 0)
decreasing_by all_goals simp

def handleTrait (inp out : List String) : String :=
  match P.run traitIn inp, P.run traitOut out with
  | some (wrap, m, g), some (cen, res, mt) =>
    match mkPlan m g cen with
    | .error why => skip why
    | .ok plan =>
      let cls := "method=" ++ m.name ++ " type=" ++ tagOf g ++ (if wrap then " via=enum" else " via=concrete") ++
        (if plan.exact then " exact" else " rounded") ++ (if plan.tag == "" then "" else " " ++ plan.tag) ++
        (if (coordsIter g).isEmpty then " triv" else "")
      match res, mt with
      | some r, some h =>
        if triNearTie plan.f plan.exact g then skip "near-tie-triangle-orientation" else
        let src := (coordsIter g).flatMap (fun p => [p.x, p.y]) ++ (match plan.origin with | some o => [o.x, o.y] | none => []) ++
          (coordsIter plan.model).flatMap (fun p => [p.x, p.y])
        let tol := plan.kTol * u * (1 + plan.fmag) * maxAbs src + tiny
        let same := if plan.exact then r.str == plan.model.str else approxGeomEq tol plan.model r
        let prop :=
          if r.str != h.str then "FAIL:inplace-ne-functional"
          else if same then "PASS"
          else if plan.unchanged then "FAIL:empty-geometry-changed"
          else "FAIL:" ++ m.name ++ "-ne-documented-map"
        reply same prop cls plan.model.str (String.intercalate " " out)
      | _, _ => if plan.exact then reply false "FAIL:nonfinite-in-exact-regime" cls plan.model.str "nonfinite"
                else skip "nonfinite"
  | _, _ => "ERR parse"

/-! ### C13.int — i32 / i64 -/

def imat : P (Affine Int) := do
  let a ← int; let b ← int; let c ← int; let d ← int; let e ← int; let f ← int
  pure (Affine.new a b c d e f)

def intIn : P (Nat × Affine Int × Affine Int × Int × Int) := do
  let bits ← nat; let m1 ← imat; let m2 ← imat; let x ← int; let y ← int
  pure (bits, m1, m2, x, y)

def ints (n : Nat) : P (List Int) := rep n int

def intOut : P (List Int × List Int × List Int × Option (List Int × Bool × Bool × List Int)) := do
  lit "comp"; let c ← ints 6
  lit "app"; let a ← ints 2
  lit "seq"; let s ← ints 2
  lit "inv"
  let t ← tok
  match t with
  | "none" => pure (c, a, s, none)
  | "some" => do
      let m ← ints 6
      lit "rt"; let r1 ← bool; let r2 ← bool
      lit "back"; let bk ← ints 2
      pure (c, a, s, some (m, r1, r2, bk))
  | _ => fail

def handleInt (inp out : List String) : String :=
  match P.run intIn inp, P.run intOut out with
  | some (bits, m1, m2, x, y), some (c, a, s, inv) =>
    let lim : Int := if bits == 32 then 2147483647 else 9223372036854775807
    let cm := m1.compose m2
    let ap := cm.apply x y
    let p1 := m1.apply x y
    let sq := m2.apply p1.1 p1.2
    let invM := Affine.inverseInt m1
    let bk := invM.map (fun i => i.apply p1.1 p1.2)
    -- no wrap-around: every model value is far inside the type's range (entries ≤ 9)
    let small := (cm.entries ++ [ap.1, ap.2, sq.1, sq.2]).all (fun v => v.natAbs < lim.natAbs / 4)
    if !small then skip "integer-overflow" else
    let modelInv := invM.map (fun i => (i.entries, decide (m1.compose i = Affine.identity), decide (i.compose m1 = Affine.identity),
      match bk with | some b => [b.1, b.2] | none => []))
    let same := c == cm.entries && a == [ap.1, ap.2] && s == [sq.1, sq.2] && inv == modelInv
    let det := m1.det
    let prop :=
      if a != s then "FAIL:apply-compose-ne-sequential-apply"
      else match inv with
        | none => if det == 0 then "PASS" else "FAIL:inverse-none-for-nonsingular"
        | some (_, r1, r2, b) =>
          if det == 0 then "FAIL:inverse-some-for-singular"
          else if r1 && r2 && b == [x, y] then "PASS"
          else if det.natAbs ≥ 2 then "FAIL:integer-inverse-truncated"
          else "FAIL:compose-with-inverse-not-identity"
    let cls := "bits=" ++ toString bits ++ " absdet=" ++ (if det.natAbs ≥ 2 then "ge2" else toString det.natAbs)
    reply same prop cls (toString (repr modelInv)) (String.intercalate " " out)
  | _, _ => "ERR parse"

/-! ### C13.comm — exact similarities commute with the predicates / scale the measures -/

def commIn : P (String × Affine Rat × Geom × Option Geom) := do
  let name ← tok
  let phi ← mat6
  let a ← geometry
  let t ← peek?
  if t.isNone then pure (name, phi, a, none) else do
    let b ← geometry
    pure (name, phi, a, some b)

def commOut : P (String × String) := do
  lit "r0"; let a ← tok
  lit "r1"; let b ← tok
  pure (a, b)

def isPow2 (q : Rat) : Bool :=
  q > 0 && ((q.den == 1 && q.num.natAbs == 2 ^ Nat.log2 q.num.natAbs) ||
            (q.num == 1 && q.den == 2 ^ Nat.log2 q.den))

/-- `some s` when the linear part of `phi` is `s` times a signed permutation matrix with `s = 2^k`. -/
def exactSimScale? (phi : Affine Rat) : Option Rat :=
  match phi.simScale2? with
  | none => none
  | some s2 =>
    match exactSqrt? s2 with
    | none => none
    | some s =>
      if isPow2 s && [phi.m00, phi.m01, phi.m10, phi.m11].all (fun e => e == 0 || rabs e == s) then some s else none

/-- small dyadic grid on which shoelace sums, squared lengths and the distance kernels are exact:
multiples of 1/16 with `|c| ≤ 2^16`. -/
def onGrid (cs : List Pt) : Bool :=
  cs.all (fun p => [p.x, p.y].all (fun c => (c * 16).den == 1 && rabs c ≤ 65536))

/-- Rect has no orientation and `Triangle::new` normalises it (C19/K8): their signed area does
not follow the sign of `det`. -/
partial def hasUnoriented : Geom → Bool
  | .rect _ _ => true
  | .triangle _ _ _ => true
  | .collection gs => gs.any hasUnoriented
  | _ => false

/-- points and segments of the 0- and 1-dimensional members lying inside a GeometryCollection
(any depth) -/
partial def gcLowDim (inGc : Bool) : Geom → List Pt × List (Pt × Pt)
  | .point p => if inGc then ([p], []) else ([], [])
  | .multiPoint ps => if inGc then (ps, []) else ([], [])
  | .line a b => if inGc then ([a, b], [(a, b)]) else ([], [])
  | .lineString cs => if inGc then (cs, windows2 cs) else ([], [])
  | .multiLineString ls => if inGc then (ls.flatten, (ls.map windows2).flatten) else ([], [])
  | .collection gs => gs.foldl (fun acc g => let r := gcLowDim true g; (acc.1 ++ r.1, acc.2 ++ r.2)) ([], [])
  | _ => ([], [])

/-- corners of Rect / Triangle members (any depth) -/
partial def rectTriCorners : Geom → List Pt
  | .rect mn mx => rectCoords mn mx
  | .triangle a b c => [a, b, c]
  | .collection gs => gs.flatMap rectTriCorners
  | _ => []

def onSegment (c : Pt) (s : Pt × Pt) : Bool :=
  cross s.1 s.2 c == 0 && rmin s.1.x s.2.x ≤ c.x && c.x ≤ rmax s.1.x s.2.x &&
  rmin s.1.y s.2.y ≤ c.y && c.y ≤ rmax s.1.y s.2.y

/-- Class of the open finding K13-1: a corner of a Rect / Triangle member of one operand lies on
a 0- or 1-dimensional member of a GeometryCollection in the other operand. (`relate` then depends
on which corner the converted polygon ring starts at, and `Rect::new` / `Triangle::new` change that
under a reflection or quarter turn.) The class is invariant under the similarity itself. -/
def gcPointOnCorner (a : Geom) (b : Option Geom) : Bool :=
  match b with
  | none => false
  | some b =>
    let hit (x y : Geom) : Bool :=
      let (ps, ss) := gcLowDim false x
      (rectTriCorners y).any (fun c => ps.contains c || ss.any (onSegment c))
    hit a b || hit b a

/-- all segments of a geometry (any depth) -/
partial def segments : Geom → List (Pt × Pt)
  | .collection gs => gs.flatMap segments
  | g => (linesIter g).getD []

/-- the point where two segments cross properly (interior to both), if they do -/
def properCrossing (s1 s2 : Pt × Pt) : Option Pt :=
  let p := s1.1; let r : Pt := s1.2 - s1.1
  let q := s2.1; let w : Pt := s2.2 - s2.1
  let d := r.x * w.y - r.y * w.x
  if d = 0 then none else
  let qp : Pt := q - p
  let t := (qp.x * w.y - qp.y * w.x) / d
  let v := (qp.x * r.y - qp.y * r.x) / d
  if 0 < t && t < 1 && 0 < v && v < 1 then some ⟨p.x + t * r.x, p.y + t * r.y⟩ else none

/-- Class of the open finding K13-2: two segments of the operands (of the same or of different
operands) cross properly at a point that is not an f64 in the original or in the transformed
frame. `relate` nodes with the rounded point, so the DE-9IM may depend on the frame. -/
def hasRoundedNode (phi : Affine Rat) (segs : List (Pt × Pt)) : Bool :=
  let rec go : List (Pt × Pt) → Bool
    | [] => false
    | s :: rest =>
      rest.any (fun s2 => match properCrossing s s2 with
        | some x => let y := phi.applyPt x
          !(isF64 x.x && isF64 x.y && isF64 y.x && isF64 y.y)
        | none => false) || go rest
  go segs

def handleComm (inp out : List String) : String :=
  match P.run commIn inp, P.run commOut out with
  | some (name, phi, a, b), some (r0, r1) =>
    match exactSimScale? phi with
    | none => skip "not-an-exact-similarity"
    | some s =>
      let cs := fedCoords a ++ (match b with | some g => fedCoords g | none => [])
      if !(phi.toFx.fxOk && phi.toFx.fxApplyOk cs) then skip "similarity-not-exact-on-operands" else
      let det := phi.det
      let kind := (if phi.m00 == 0 then "swap" else "diag") ++ (if det < 0 then "-reflect" else "") ++
        (if s != 1 then "-scaled" else "") ++ (if phi.m02 != 0 || phi.m12 != 0 then "-translated" else "")
      let cls := "measure=" ++ name ++ " phi=" ++ kind ++ " A=" ++ tagOf a ++
        (match b with | some g => " B=" ++ tagOf g | none => "") ++
        (if phi == Affine.identity || cs.isEmpty then " triv" else "")
      let numeric := name == "area" || name == "sarea" || name == "length" || name == "distance"
      let emptyOperand := (coordsIter a).isEmpty || (match b with | some g => (coordsIter g).isEmpty | none => false)
      if !numeric then
        let same := r0 == r1
        if !same && gcPointOnCorner a b then
          -- open finding K13-1: the model predicts a frame-dependent answer for this class
          reply true ("FAIL:" ++ name ++ "-rect-or-triangle-corner-on-collection-member") (cls ++ " k13-1") r0 r1
        else if !same && name != "coordpos" &&
            hasRoundedNode phi (segments a ++ (match b with | some g => segments g | none => [])) then
          -- open finding K13-2
          reply true ("FAIL:" ++ name ++ "-rounded-intersection-node") (cls ++ " k13-2") r0 r1
        else
        reply same (if same then "PASS" else "FAIL:" ++ name ++ "-not-invariant-under-exact-similarity") cls r0 r1
      else
        if !(onGrid cs && onGrid (cs.map phi.applyPt)) then skip "outside-exact-grid" else
        if name == "sarea" && hasUnoriented a then skip "signed-area-of-unoriented-type" else
        match parseRat? r0, parseRat? r1 with
        | some v0, some v1 =>
          -- unsigned area: |det|; signed area of ring-oriented types: det; lengths and distances: s.
          -- The distance to an empty operand is the implementation's "no distance" value and is not scaled.
          let factor := if name == "area" then rabs det else if name == "sarea" then det
            else if name == "distance" && emptyOperand then 1 else s
          let expect := factor * v0
          let same := v1 == expect
          reply same (if same then "PASS" else "FAIL:" ++ name ++ "-not-scaled-by-expected-factor")
            (cls ++ " factor=" ++ ratStr factor) (ratStr expect) (ratStr v1)
        | _, _ => reply false ("FAIL:" ++ name ++ "-nonfinite") cls r0 r1
  | _, _ => "ERR parse"

def handle (op : String) (inp out : List String) : Option String :=
  match op with
  | "C13.alg" => some (handleAlg inp out)
  | "C13.ctor" => some (handleCtor inp out)
  | "C13.trait" => some (handleTrait inp out)
  | "C13.int" => some (handleInt inp out)
  | "C13.comm" => some (handleComm inp out)
  | _ => none

end Geo.Ops.C13
