/-
  Driver operations for C12 (closest_point / interior_point lie on the geometry).

    C12.cp <geom> <px> <py> => Intersection x y | SinglePoint x y | Indeterminate | panic
    C12.ip <geom>           => none | some x y | panic

  Specification side (independent of geo's code): `Geo.locate` (RelateSpec) for "p intersects g" /
  "x is inside g", exact point–segment squared distances for "nearest", `Geo.validGeom` for the
  domain. Model side: `Geo.CP.closest`, `Geo.IP.interior` (GeoModel/Closest.lean,
  GeoModel/InteriorPoint.lean).

  Numeric comparison: |impl − exact| ≤ tol with tol = 64·2^-53·(M + 1), M = max |coordinate| of
  the geometry and the query point; for interior points of polygons multiplied by (1 + κ), κ the
  largest |dx/dy| of an edge crossing the scan line (conditioning of the crossing abscissa).
  Polygons whose selected scan interval is narrower than 2^-40·(M + 1) are `SKIP near-tie-sliver`
  (no f64 point can be expected inside) — unless the implementation panics. Where the exact rule leaves several answers within 2^-30
  (relative, squared distances / widths) of the best one, an implementation answer that is one of
  them but not the model's is reported `SKIP near-tie`.
-/
import GeoModel.Parse
import GeoModel.Orient
import GeoModel.RelateSpec
import GeoModel.Valid
import GeoModel.Centroid
import GeoModel.Closest
import GeoModel.InteriorPoint

namespace Geo.Ops.C12
open Geo Geo.P

/-! #### shared helpers -/

def lenD (a b : Pt) : Rat :=
  let d2 := dist2 a b
  match exactSqrt? d2 with
  | some r => r
  | none => let (lo, hi) := sqrtInterval d2; (lo + hi) / 2

def tagOf (g : Geom) : String := (g.str.splitOn " ").head!

def maxAbs (cs : List Pt) : Rat := cs.foldl (fun m c => rmax m (rmax (rabs c.x) (rabs c.y))) 0

def tolOf (cs : List Pt) : Rat := 64 * uRound * (maxAbs cs + 1)

def close (a b : Pt) (tol : Rat) : Bool := rabs (a.x - b.x) ≤ tol && rabs (a.y - b.y) ≤ tol

/-- `|√A − √B| ≤ t` for `A, B, t ≥ 0`, decided in the rationals -/
def sqrtClose (A B t : Rat) : Bool :=
  let l := A + B - t * t
  l ≤ 0 || l * l ≤ 4 * A * B

def dot (a b : Pt) : Rat := a.x * b.x + a.y * b.y

/-- exact squared distance from `c` to the closed segment `[p, q]` -/
def distToSeg2 (p q c : Pt) : Rat :=
  let d := q - p
  let l2 := dot d d
  if l2 = 0 then dist2 p c else
  let t := dot (c - p) d / l2
  let t := if t < 0 then 0 else if t > 1 then 1 else t
  dist2 (p + Pt.smul t d) c

def listMin : List Rat → Option Rat
  | [] => none
  | a :: as => some (as.foldl rmin a)

/-- exact squared distance from `c` to the point set of `g` (`none` for an empty geometry):
0 when `c` is not outside, else the minimum over every segment, every single-coordinate curve or
ring and every isolated point -/
def distToGeom2 (g : Geom) (c : Pt) : Option Rat :=
  let ps := parts g
  let singles := (ps.curves ++ ps.areas.flatMap Poly.rings).flatMap (fun r => match r with | [p] => [p] | _ => [])
  let cands := ps.allSegs.map (fun s => distToSeg2 s.1 s.2 c) ++ (ps.pts ++ singles).map (fun q => dist2 q c)
  match listMin cands with
  | none => none
  | some m => if locate g c != .outside then some 0 else some m

/-- the domain: valid members (OGC validity, simple linework, non-degenerate Line/Rect/Triangle or
one of the explicitly degenerate *empty / zero-length* inputs the property names); in a collection
members of equal dimension are pairwise disjoint (members of different dimension may meet) -/
def zeroLength : Geom → Bool
  | .line a b => a == b
  | .lineString cs => match cs with
    | a :: b :: rest => (b :: rest).all (· == a)
    | _ => false
  | _ => false

partial def inDom : Geom → Bool
  | .collection gs =>
    gs.all inDom &&
    allPairs (gs.map (fun _ => ((⟨0, 0⟩ : Pt), (⟨0, 0⟩ : Pt)))) (fun i j _ _ =>
      match gs[i]?, gs[j]? with
      | some g1, some g2 =>
        if isEmptyG g1 || isEmptyG g2 || dims g1 != dims g2 then true else
        let m := relateSpec g1 g2
        m.ii == .empty && m.ib == .empty && m.bi == .empty && m.bb == .empty
      | _, _ => true)
  | .multiLineString ls => validGeom (.multiLineString (ls.filter (fun l => !l.isEmpty)))
  | .multiPolygon ps => validGeom (.multiPolygon (ps.filter (fun p => !(p.ext.isEmpty && p.ints.isEmpty))))
  | g => zeroLength g || validGeom g

partial def depth : Geom → Nat
  | .collection gs => 1 + (gs.map depth).foldl max 0
  | _ => 0

partial def hasHoleTouch : Geom → Bool
  | .polygon p => polyT p
  | .multiPolygon ps => ps.any polyT
  | .collection gs => gs.any hasHoleTouch
  | _ => false
where polyT (p : Poly) : Bool := p.ints.any (fun h => h.any (fun v => onAnySeg v (segs p.ext)))

/-! #### closest_point -/

inductive CpOut where
  | isec (x y : XNum)
  | single (x y : XNum)
  | indet
  | panic

def cpOut : P CpOut := do
  let t ← tok
  match t with
  | "Intersection" => do let x ← xnum; let y ← xnum; pure (.isec x y)
  | "SinglePoint" => do let x ← xnum; let y ← xnum; pure (.single x y)
  | "Indeterminate" => pure .indet
  | "panic" => pure .panic
  | _ => fail

def xpt? : XNum → XNum → Option Pt
  | .fin x, .fin y => some ⟨x, y⟩
  | _, _ => none

/-- no extent at all: no isolated point and every segment of zero length -/
def noExtent (g : Geom) : Bool :=
  let ps := parts g
  ps.pts.isEmpty && ps.allSegs.all (fun s => s.1 == s.2)

/-- The property clauses on the implementation's output. -/
def propCp (g : Geom) (p : Pt) (tol : Rat) (o : CpOut) : String :=
  let hit := locate g p != .outside
  match o with
  | .panic => "FAIL:panic"
  | .indet => if noExtent g then "PASS" else "FAIL:indeterminate-for-geometry-with-extent"
  | .isec x y =>
    match xpt? x y with
    | none => "FAIL:non-finite"
    | some c =>
      if !hit then "FAIL:intersection-but-query-point-disjoint"
      else if !close c p tol then "FAIL:intersection-point-ne-query-point"
      else "PASS"
  | .single x y =>
    match xpt? x y with
    | none => "FAIL:non-finite"
    | some c =>
      if hit then "FAIL:single-point-but-query-point-intersects"
      else match distToGeom2 g c, distToGeom2 g p with
        | some dc, some dp =>
          if dc > tol * tol then "FAIL:returned-point-not-on-geometry"
          else if !sqrtClose (dist2 c p) dp tol then "FAIL:returned-point-not-nearest"
          else "PASS"
        | _, _ => "FAIL:single-point-for-empty-geometry"

def cpSame (m : CP.Closest) (o : CpOut) (tol : Rat) : Bool :=
  match m, o with
  | .indeterminate, .indet => true
  | .intersection a, .isec x y => (match xpt? x y with | some c => close a c tol | none => false)
  | .single a, .single x y => (match xpt? x y with | some c => close a c tol | none => false)
  | _, _ => false

def cpTagEq (m : CP.Closest) (o : CpOut) : Bool :=
  match m, o with
  | .indeterminate, .indet => true
  | .intersection _, .isec _ _ => true
  | .single _, .single _ _ => true
  | _, _ => false

def handleCp (inp out : List String) : String :=
  let pin : P (Geom × Pt) := do let g ← geometry; let p ← pt; pure (g, p)
  match P.run pin inp, P.run cpOut out with
  | some (g, p), some o =>
    if !inDom g then skip "invalid-operand" else
    let cs := p :: coordsIter g
    let tol := tolOf cs
    let m := CP.closest g p
    let prop := propCp g p tol o
    let same := cpSame m o tol
    let loc := locate g p
    let cls := "op=cp type=" ++ tagOf g ++ " q=" ++ loc.str ++
      (if (coordsIter g).any (· == p) then " q-on-vertex" else "") ++
      " res=" ++ (m.str.splitOn " ").head! ++
      (if depth g > 0 then " nested" else "") ++
      (if maxAbs cs > 100000 then " far" else "") ++
      (if isEmptyG g then " triv" else "")
    -- an equally near other point of the geometry (the checker passed): a tie
    if !same && prop == "PASS" && cpTagEq m o && (match m with | .single _ => true | _ => false) then skip "near-tie"
    else reply same prop cls m.str (String.intercalate " " out)
  | _, _ => "ERR parse"

/-! #### interior_point -/

inductive IpOut where
  | inone
  | isome (x y : XNum)
  | ipanic

def ipOut : P IpOut := do
  let t ← tok
  match t with
  | "none" => pure .inone
  | "panic" => pure .ipanic
  | "some" => do let x ← xnum; let y ← xnum; pure (.isome x y)
  | _ => fail

def locOf (poly : Poly) (p : Pt) : Pos := locate (.polygon poly) p

/-- start points of `Line`s and of 1–2-coordinate `LineString`s anywhere in `g` (the K1 class) -/
partial def twoVertexStarts : Geom → List Pt
  | .line a _ => [a]
  | .lineString [a, _] => [a]
  | .multiLineString ls => ls.flatMap (fun l => match l with | [a, _] => [a] | _ => [])
  | .collection gs => gs.flatMap twoVertexStarts
  | _ => []

/-- end points of open `LineString`s (≥ 3 coordinates) that occur again among the member's own non-endpoint
vertices — a repeated first/last coordinate, or a path returning to an end point (the K1b class: the
vertex-based choice can only return a vertex, and this vertex is a boundary point) -/
partial def endVerticesAmongInner : Geom → List Pt
  | .lineString cs => innerEnds cs
  | .multiLineString ls => ls.flatMap innerEnds
  | .collection gs => gs.flatMap endVerticesAmongInner
  | _ => []
where innerEnds (cs : List Pt) : List Pt :=
  match cs.head?, cs.getLast? with
  | some f, some l =>
    if cs.length < 3 || f == l then [] else
    let inner := (cs.drop 1).dropLast
    [f, l].filter (fun e => inner.any (· == e))
  | _, _ => []

/-- The property clauses on the implementation's output. -/
def propIp (g : Geom) (o : IpOut) : String :=
  match o with
  | .ipanic => "FAIL:panic"
  | .inone => if Cen.isEmpty g then "PASS" else "FAIL:none-for-nonempty"
  | .isome x y =>
    if Cen.isEmpty g then "FAIL:some-for-empty" else
    match xpt? x y with
    | none => "FAIL:non-finite"
    | some c =>
      match locate g c with
      | .outside => "FAIL:point-outside-geometry"
      | .inside => "PASS"
      | .onBoundary =>
        if (twoVertexStarts g).any (· == c) then "FAIL:start-point-of-two-vertex-line-is-boundary"
        else if (endVerticesAmongInner g).any (· == c) then "FAIL:inner-vertex-coincides-with-end-point"
        else "FAIL:boundary-point-though-interior-exists"

/-! ##### the admissible outcomes under near-ties

The selection rules of `Geo.IP` pick the first minimal key; the f64 code compares rounded keys
(distances from a rounded centroid, rounded widths), so where exact keys tie or nearly tie it may
pick another candidate — and, nested, that changes what the enclosing selection sees. `alts`
computes every outcome reachable by resolving each near-tie (keys within the band) either way.
The model's own answer must be among them (checked: otherwise `ERR`). -/

def band (scale : Rat) : Rat := scale * scale / 1073741824

def listMaxD (d : Rat) : List Rat → Rat
  | [] => d
  | a :: as => as.foldl rmax a

/-- members choose one of their alternatives each; an alternative `q` of member `j` can win the
`min_by` iff its cost is at most (band) the largest cost every other member can present -/
def possible {α : Type} (cost : α → Rat) (b : Rat) (ls : List (List α)) : List α :=
  let idx := ls.zipIdx
  idx.flatMap (fun (l, j) => l.filter (fun q =>
    idx.all (fun (l', i) => i == j || l'.isEmpty || cost q ≤ listMaxD 0 (l'.map cost) + b)))

/-- all elements whose key is within `b` of the minimum -/
def nearMin {α : Type} (key : α → Rat) (b : Rat) (l : List α) : List α :=
  possible key b (l.map (fun a => [a]))

def lsAlts (scale : Rat) (cs : List Pt) : List Pt :=
  match cs with
  | [] => []
  | [a] => [a]
  | [a, _] => [a]
  | _ :: rest =>
    match Cen.centroid lenD (.lineString cs) with
    | none => []
    | some c => nearMin (fun q => dist2 q c) (band scale) rest.dropLast

/-- candidates of the polygon scan that pass the location test and are within the band of the
widest such, with their counted width -/
def polyAlts (scale : Rat) (poly : Poly) : List (Pt × Rat) :=
  match poly.ext with
  | [c] => [(c, 0)]
  | _ =>
    match getBoundingRect poly.ext with
    | none => []
    | some (mn, mx) =>
      let cands := IP.scanCands poly mn mx
      match cands.find? (fun c => locOf poly c.1 != .outside) with
      | some w =>
        (cands.filter (fun c => locOf poly c.1 != .outside && c.2 + scale / 1073741824 ≥ w.2)).map
          (fun c => (c.1, if locOf poly c.1 == .inside then c.2 else 0))
      | none => (poly.coords.head?.map (fun c => (c, (0 : Rat)))).toList

partial def alts (scale : Rat) : Geom → List Pt
  | .point p => [p]
  | .line a _ => [a]
  | .lineString cs => lsAlts scale cs
  | .polygon poly => (polyAlts scale poly).map (·.1)
  | .multiPoint ps =>
    match Cen.centroid lenD (.multiPoint ps) with
    | none => []
    | some c => nearMin (fun q => dist2 q c) (band scale) ps
  | .multiLineString ls =>
    match Cen.centroid lenD (.multiLineString ls) with
    | none => []
    | some c => possible (fun q => dist2 q c) (band scale) (ls.map (lsAlts scale))
  | .multiPolygon ps =>
    (possible (fun (c : Pt × Rat) => -c.2) (scale / 1073741824) (ps.map (polyAlts scale))).map (·.1)
  | .rect mn mx => [Cen.rectCenter mn mx]
  | .triangle a b c => (Cen.centroid lenD (.triangle a b c)).toList
  | .collection gs =>
    match Cen.centroid lenD (.collection gs) with
    | none => []
    | some c =>
      let top := (gs.filter (fun g => !Cen.isEmpty g)).foldl (fun d g => d.max (dims g)) .empty
      possible (fun q => dist2 q c) (band scale) ((gs.filter (fun g => dims g == top)).map (alts scale))

/-- does the model take the vertex fallback on some polygon of `g`? (must not happen on valid
areal input: the tie between `interior_strict_partial` and the code) -/
partial def takesFallback : Geom → Bool
  | .polygon poly => fb poly
  | .multiPolygon ps => ps.any fb
  | .collection gs => gs.any takesFallback
  | _ => false
where fb (poly : Poly) : Bool :=
  match poly.ext with
  | [] => false
  | [_] => false
  | _ => match getBoundingRect poly.ext with
    | none => false
    | some (mn, mx) => (IP.firstVerified (locOf poly) (IP.scanCands poly mn mx)).isNone

partial def polysOf : Geom → List Poly
  | .polygon p => [p]
  | .multiPolygon ps => ps
  | .collection gs => gs.flatMap polysOf
  | _ => []

/-- raw width of the scan candidate the model selects for this polygon (0 on the other branches) -/
def chosenWidth (poly : Poly) : Rat :=
  match poly.ext with
  | [_] => 0
  | _ => match getBoundingRect poly.ext with
    | none => 0
    | some (mn, mx) =>
      ((IP.scanCands poly mn mx).find? (fun c => locOf poly c.1 != .outside)).map (·.2) |>.getD 0

/-- a polygon so thin along its scan line that the interior interval found by the exact rule is
below 2^-40 of the coordinate magnitude: the f64 code cannot be expected to hit it -/
def isSliver (scale : Rat) (g : Geom) : Bool :=
  (polysOf g).any (fun p => let w := chosenWidth p; decide (0 < w) && decide (w ≤ scale / 1099511627776))

/-- some ring repeats a coordinate consecutively (a zero-length edge; still a valid ring) -/
def hasRepeatedVertex (g : Geom) : Bool :=
  (polysOf g).any (fun p => p.rings.any (fun r => (segs r).any (fun s => s.1 == s.2)))

/-- conditioning of the scan crossings of a polygon: the largest |dx/dy| among the edges that cross
the scan line (an error `e` in the ordinate moves the crossing abscissa by `e·|dx/dy|`) -/
def scanCond (poly : Poly) : Rat :=
  match getBoundingRect poly.ext with
  | none => 0
  | some (mn, mx) =>
    let ym := IP.yMid mn mx poly.coords
    poly.lines.foldl (fun k e =>
      if (e.1.y - ym) * (e.2.y - ym) < 0 then rmax k (rabs (e.2.x - e.1.x) / rabs (e.2.y - e.1.y)) else k) 0

/-- the branch `coord.y == y_mid` is taken on the *rounded* middle ordinate: a vertex ordinate
within 2^-40·scale of the exact middle (but not equal to it) makes that branch a rounding near-tie -/
def yMidNearTie (scale : Rat) (poly : Poly) : Bool :=
  match getBoundingRect poly.ext with
  | none => false
  | some (mn, mx) =>
    let y0 := (mn.y + mx.y) / 2
    poly.coords.any (fun c => c.y != y0 && rabs (c.y - y0) ≤ scale / 1099511627776)

def optStr : Option Pt → String
  | none => "none"
  | some p => "some " ++ p.str

/-- a Rect of zero width or height, a Triangle with collinear corners (values of an areal *type* that are segments or points) -/
partial def hasDegenerateAreal : Geom → Bool
  | .rect mn mx => mn.x == mx.x || mn.y == mx.y
  | .triangle a b c => orient a b c == .col
  | .collection gs => gs.any hasDegenerateAreal
  | _ => false

/-- the members that really are areal, collections flattened -/
partial def arealMembers : Geom → List Geom
  | .collection gs => gs.flatMap arealMembers
  | .rect mn mx => if mn.x == mx.x || mn.y == mx.y then [] else [.rect mn mx]
  | .triangle a b c => if orient a b c == .col then [] else [.triangle a b c]
  | .polygon p => if p.ext.isEmpty then [] else [.polygon p]
  | .multiPolygon ps => if ps.all (fun p => p.ext.isEmpty) then [] else [.multiPolygon ps]
  | _ => []

def handleIp (inp out : List String) : String :=
  match P.run geometry inp, P.run ipOut out with
  | some g, some o =>
    -- collections with degenerate values of an areal type: the exact model of the selection is not run on them; what is owed
    -- is the property itself — with a real areal member present the point lies strictly inside the areal part
    if hasDegenerateAreal g then
      let am := arealMembers g
      if am.isEmpty || !inDom (.collection am) then skip "invalid-operand" else
      let prop := match o with
        | .ipanic => "FAIL:panic"
        | .inone => "FAIL:none-for-nonempty"
        | .isome x y =>
          match xpt? x y with
          | none => "FAIL:non-finite"
          | some c => if locate (.collection am) c == .inside then "PASS"
                      else "FAIL:not-strictly-inside-the-areal-part-beside-degenerate-members"
      reply true prop "op=ip degenerate-areal-member impl-vs-spec-only"
    else
    if !inDom g then skip "invalid-operand" else
    let cs := coordsIter g
    let scale := maxAbs cs + 1
    let tol := tolOf cs * (1 + ((polysOf g).map scanCond).foldl rmax 0)
    let m := IP.interior lenD locOf g
    let as := alts scale g
    if (match m with | some mp => !as.any (· == mp) | none => !as.isEmpty) then "ERR model-not-among-alts " ++ optStr m else
    let prop := propIp g o
    let implPt : Option Pt := match o with | .isome x y => xpt? x y | _ => none
    let same := match o, m with
      | .inone, none => true
      | .isome _ _, some mp => (match implPt with | some c => close c mp tol | none => false)
      | _, _ => false
    let isAlt := match implPt with | some c => as.any (fun a => close a c tol) | none => false
    let d := dims g
    let cls := "op=ip type=" ++ tagOf g ++ " dim=" ++ d.str ++
      " res=" ++ (match m with | some mp => (locate g mp).str | none => "none") ++
      (if hasHoleTouch g then " hole-touches-shell" else "") ++
      (if takesFallback g then " vertex-fallback" else "") ++
      (if isSliver scale g then (if hasRepeatedVertex g then " sliver-with-repeated-vertex" else " sliver") else
        (if hasRepeatedVertex g then " repeated-vertex" else "")) ++
      (if !same && isAlt then " near-tie-alt" else "") ++
      (if depth g > 0 then " nested" else "") ++
      (if maxAbs cs > 100000 then " far" else "") ++
      (if isEmptyG g then " triv" else "")
    -- a sliver below f64 resolution: only a panic is judged (the point itself is a rounding near-tie)
    if isSliver scale g && prop != "FAIL:panic" then skip "near-tie-sliver"
    else if (polysOf g).any (yMidNearTie scale) && prop != "FAIL:panic" then skip "near-tie-ymid"
    else reply (same || isAlt) prop cls (optStr m) (String.intercalate " " out)
  | _, _ => "ERR parse"

def handle (op : String) (inp out : List String) : Option String :=
  match op with
  | "C12.cp" => some (handleCp inp out)
  | "C12.ip" => some (handleIp inp out)
  | _ => none

end Geo.Ops.C12
