/-
  Driver operations for C01 (relate = the true DE-9IM matrix).
-/
import GeoModel.Parse
import GeoModel.RelateSpec
import GeoModel.Valid

namespace Geo.Ops.C01
open Geo Geo.P

def imP : P (Option IM) := do
  let t ← tok
  if t = "panic" then pure none else
  match IM.parse? t with
  | some m => pure (some m)
  | none => fail

def tagOf (g : Geom) : String := (g.str.splitOn " ").head!

def bboxRel (a b : Geom) : String :=
  match boundingRect a, boundingRect b with
  | some (amn, amx), some (bmn, bmx) =>
    if !rectRect amn amx bmn bmx then "bbox-disjoint"
    else if rectContainsRect amn amx bmn bmx || rectContainsRect bmn bmx amn amx then "bbox-nested"
    else "bbox-overlap"
  | _, _ => "bbox-empty"

/-- `C01.rel <A> <A'> <B> => <relate(A,B)> <relate(B,A)> <relate(A',B)>`
`A'` is another representation of the point set of `A` (produced by the harness). -/
def handleRel (inp out : List String) : String :=
  let pin : P (Geom × Geom × Geom) := do
    let a ← geometry; let a' ← geometry; let b ← geometry; pure (a, a', b)
  let pout : P (Option IM × Option IM × Option IM) := do
    let x ← imP; let y ← imP; let z ← imP; pure (x, y, z)
  match P.run pin inp, P.run pout out with
  | some (a, a', b), some (ab, ba, a'b) =>
    if !(inDomain a && inDomain b) then skip "invalid-operand" else
    if !inDomain a' then skip "invalid-variant" else
    let m := relateSpec a b
    let m' := relateSpec a' b
    if m != m' then "ERR spec-not-representation-invariant " ++ m.str ++ " " ++ m'.str else
    let same := ab == some m && ba == some m.transpose && a'b == some m
    let prop :=
      if ab.isNone || ba.isNone || a'b.isNone then "FAIL:panic"
      else if ab != some m then "FAIL:matrix-wrong"
      else if ba != some m.transpose then "FAIL:transposed-operands-matrix-wrong"
      else if a'b != some m then "FAIL:representation-dependent"
      else "PASS"
    let rel := bboxRel a b
    let tags := "A=" ++ tagOf a ++ " A'=" ++ tagOf a' ++ " B=" ++ tagOf b ++ " " ++ rel ++ " m=" ++ m.str ++
      (if rel == "bbox-disjoint" || rel == "bbox-empty" then " triv" else "")
    let shw (x : Option IM) := match x with | some m => m.str | none => "panic"
    reply same prop tags (m.str ++ " " ++ m.transpose.str ++ " " ++ m.str) (shw ab ++ " " ++ shw ba ++ " " ++ shw a'b)
  | _, _ => "ERR parse"

def dimP : P Dim := do
  let t ← tok
  match t with
  | "Empty" => pure .empty | "ZeroDimensional" => pure .zero
  | "OneDimensional" => pure .one | "TwoDimensional" => pure .two
  | _ => fail

/-- `C01.dims <G> => <dimensions> <boundary_dimensions> <is_empty>` — the `HasDimensions` impls that feed
`compute_disjoint` (the disjoint-envelope shortcut). For valid geometries the verdict also demands that they equal
what the specification derives from point location (max dimension of the parts). -/
def handleDims (inp out : List String) : String :=
  let pout : P (Dim × Dim × Bool) := do let a ← dimP; let b ← dimP; let c ← bool; pure (a, b, c)
  match P.run geometry inp, P.run pout out with
  | some g, some (d, bd, e) =>
    let same := d == dims g && bd == boundaryDims g && e == isEmptyEnum g
    -- specification for valid geometries: what the matrix against a far-away point must show
    let prop :=
      if !inDomain g then "PASS" else
      let m := relateSpec g (.point ⟨1000003, 1000033⟩)
      if m.ie != d then "FAIL:dimensions-disagree-with-point-set"
      else if m.be != bd then "FAIL:boundary-dimensions-disagree-with-point-set"
      else "PASS"
    reply same prop ("G=" ++ tagOf g ++ " dims=" ++ (dims g).str ++ (if inDomain g then "" else " invalid"))
      ((dims g).str ++ " " ++ (boundaryDims g).str ++ " " ++ toString (isEmptyEnum g)) (String.intercalate " " out)
  | _, _ => "ERR parse"

def handle (op : String) (inp out : List String) : Option String :=
  match op with
  | "C01.dims" => some (handleDims inp out)
  | "C01.rel" => some (handleRel inp out)
  | _ => none

end Geo.Ops.C01
