/-
  Driver operations for C01 (relate = the true DE-9IM matrix).
-/
import GeoModel.Parse
import GeoModel.RelateSpec
import GeoModel.Valid
import GeoModel.RelateImplTop
import GeoModel.F64

namespace Geo.Ops.C01
open Geo Geo.P

def imP : P (Option IM) := do
  let t ← tok
  if t = "panic" then pure none else
  match IM.parse? t with
  | some m => pure (some m)
  | none => fail

def tagOf (g : Geom) : String := (g.str.splitOn " ").head!

def bboxRel (a b : Geom) : String :=
  match boundingRect a, boundingRect b with
  | some (amn, amx), some (bmn, bmx) =>
    if !rectRect amn amx bmn bmx then "bbox-disjoint"
    else if rectContainsRect amn amx bmn bmx || rectContainsRect bmn bmx amn amx then "bbox-nested"
    else "bbox-overlap"
  | _, _ => "bbox-empty"

/-- `C01.rel <A> <A'> <B> => <relate(A,B)> <relate(B,A)> <relate(A',B)>`
`A'` is another representation of the point set of `A` (produced by the harness). -/
def handleRel (inp out : List String) : String :=
  let pin : P (Geom × Geom × Geom) := do
    let a ← geometry; let a' ← geometry; let b ← geometry; pure (a, a', b)
  let pout : P (Option IM × Option IM × Option IM) := do
    let x ← imP; let y ← imP; let z ← imP; pure (x, y, z)
  match P.run pin inp, P.run pout out with
  | some (a, a', b), some (ab, ba, a'b) =>
    if !(inDomain a && inDomain b) then skip "invalid-operand" else
    if !inDomain a' then skip "invalid-variant" else
    let m := relateSpec a b
    let m' := relateSpec a' b
    if m != m' then "ERR spec-not-representation-invariant " ++ m.str ++ " " ++ m'.str else
    let same := ab == some m && ba == some m.transpose && a'b == some m
    let prop :=
      if ab.isNone || ba.isNone || a'b.isNone then "FAIL:panic"
      else if ab != some m then "FAIL:matrix-wrong"
      else if ba != some m.transpose then "FAIL:transposed-operands-matrix-wrong"
      else if a'b != some m then "FAIL:representation-dependent"
      else "PASS"
    let rel := bboxRel a b
    let tags := "A=" ++ tagOf a ++ " A'=" ++ tagOf a' ++ " B=" ++ tagOf b ++ " " ++ rel ++ " m=" ++ m.str ++
      (if rel == "bbox-disjoint" || rel == "bbox-empty" then " triv" else "")
    let shw (x : Option IM) := match x with | some m => m.str | none => "panic"
    reply same prop tags (m.str ++ " " ++ m.transpose.str ++ " " ++ m.str) (shw ab ++ " " ++ shw ba ++ " " ++ shw a'b)
  | _, _ => "ERR parse"

def dimP : P Dim := do
  let t ← tok
  match t with
  | "Empty" => pure .empty | "ZeroDimensional" => pure .zero
  | "OneDimensional" => pure .one | "TwoDimensional" => pure .two
  | _ => fail

/-- Coordinates so small (or large) that products of coordinate differences underflow (overflow): Shewchuk's
adaptive predicates behind `RobustKernel` and the crossing-point computation of `line_intersection` are not
exact / accurate there (known finding K10, see `Ops/C11.lean`). -/
def underflowRange (ps : List Pt) : Bool :=
  let tiny : Rat := pow2 (-400)
  let huge : Rat := pow2 400
  ps.any (fun p => (p.x != 0 && rabs p.x < tiny) || (p.y != 0 && rabs p.y < tiny) ||
    rabs p.x > huge || rabs p.y > huge)

/-- `C01.dims <G> => <dimensions> <boundary_dimensions> <is_empty>` — the `HasDimensions` impls that feed
`compute_disjoint` (the disjoint-envelope shortcut). For valid geometries the verdict also demands that they equal
what the specification derives from point location (max dimension of the parts). -/
def handleDims (inp out : List String) : String :=
  let pout : P (Dim × Dim × Bool) := do let a ← dimP; let b ← dimP; let c ← bool; pure (a, b, c)
  match P.run geometry inp, P.run pout out with
  | some g, some (d, bd, e) =>
    let same := d == dims g && bd == boundaryDims g && e == isEmptyEnum g
    -- `Triangle::dimensions` asks the robust orientation predicate, which is not exact on subnormal-range coordinates (K10)
    if !same && underflowRange (coordsIter g) then skip "underflow-range:orientation-inexact" else
    -- specification for valid geometries: what the matrix against a far-away point must show
    let prop :=
      if !inDomain g then "PASS" else
      let m := relateSpec g (.point ⟨1000003, 1000033⟩)
      if m.ie != d then "FAIL:dimensions-disagree-with-point-set"
      else if m.be != bd then "FAIL:boundary-dimensions-disagree-with-point-set"
      else "PASS"
    reply same prop ("G=" ++ tagOf g ++ " dims=" ++ (dims g).str ++ (if inDomain g then "" else " invalid"))
      ((dims g).str ++ " " ++ (boundaryDims g).str ++ " " ++ toString (isEmptyEnum g)) (String.intercalate " " out)
  | _, _ => "ERR parse"


/-! ### `C01.impl`: the model of the implementation against the implementation -/

/-- a rational that is a finite binary64 value -/
def isF64 (q : Rat) : Bool := roundF64 q == q

/-- class of the crossing points self-noding records on the edges of an operand: `none` (no proper
self-crossing), `exact` (all of them binary64 points) or `rounded` (the code's node sits beside the
exact crossing point the model uses) -/
def selfCrossClass (g : RI.RGraph) : String :=
  let vs := g.edges.flatMap (fun e => e.coords)
  let xs := (g.edges.flatMap (fun e => e.eis.map (·.coord))).filter (fun p => !(vs.any (· == p)))
  if xs.isEmpty then "none"
  else if xs.all (fun p => isF64 p.x && isF64 p.y) then "exact" else "rounded"

def liPoints : LI → List Pt
  | .single p _ => [p]
  | .collinear a b => [a, b]

def recorded (es : List RI.REdge) (edge : Nat) (p : Pt) : Bool :=
  match es[edge]? with
  | some e => e.eis.any (·.coord == p)
  | none => false

/-- Is every intersection point self-noding finds on record (with its own coordinate) on both edges
afterwards? `false` means that two *different* points of one segment got the same key (segment index,
rounded distance) in the `BTreeSet` of an edge, so that the point kept is the one the R-tree traversal happened to
visit first — a rounding tie the model (which visits the pairs in another order) does not decide. -/
def selfComplete (ar : RI.Arith) (g : RI.RGraph) (final : List RI.REdge) : Bool :=
  let check := !RI.isRings g.geom
  let all := RI.allSegs g.edges
  all.all (fun s0 => all.all (fun s1 =>
    if !(check || s0.edge != s1.edge) then true
    else if s0.edge == s1.edge && s0.idx == s1.idx then true
    else match RI.lineIntersectionWith ar s0.p s0.q s1.p s1.q with
      | none => true
      | some li =>
        match g.edges[s0.edge]? with
        | none => true
        | some e0 =>
          if RI.isTrivial li (s0.edge == s1.edge) s0.idx s1.idx e0 then true
          else (liPoints li).all (fun p => recorded final s0.edge p && recorded final s1.edge p)))

/-- the same for the improper intersections recorded between the two operands -/
def mutualComplete (ar : RI.Arith) (ga gb : RI.RGraph) (fa fb : List RI.REdge) : Bool :=
  (RI.allSegs ga.edges).all (fun s0 => (RI.allSegs gb.edges).all (fun s1 =>
    match RI.lineIntersectionWith ar s0.p s0.q s1.p s1.q with
    | none => true
    | some li =>
      if RI.LI.isProper li then true
      else (liPoints li).all (fun p => recorded fa s0.edge p && recorded fb s1.edge p)))

/-- `C01.impl <A> <B> => <relate(A,B)>`: `AGREE` iff `relateImpl? A B` (the model of the topology-graph
algorithm) is the implementation's matrix (`panic` = `none`); `prop=` is the specification's verdict for operands in the
DE-9IM validity domain and `PASS` outside of it (the specification does not apply there, the model of the
implementation still has to agree with the implementation). -/
def handleImpl (inp out : List String) : String :=
  let pin : P (Geom × Geom) := do let a ← geometry; let b ← geometry; pure (a, b)
  let rowP : P ((Pt × Pt × Pt × Pt) × Pt) := do
    let p1 ← pt; let p2 ← pt; let q1 ← pt; let q2 ← pt; let x ← pt; pure ((p1, p2, q1, q2), x)
  let pout : P (Option IM × List ((Pt × Pt × Pt × Pt) × Pt)) := do
    let m ← imP; lit "X"; let rows ← counted rowP; pure (m, rows)
  match P.run pin inp, P.run pout out with
  | some (a, b), some (ab, table) =>
    -- the crossing-point routine: what the code's `line_intersection` returned for this pair of
    -- segments (exact rational point for a pair the table does not list)
    let cross (p1 p2 q1 q2 : Pt) : Pt :=
      match table.find? (fun r => r.1 == (p1, p2, q1, q2)) with
      | some r => r.2
      | none => properPoint p1 p2 q1 q2
    -- binary64 subtraction (exact emulation) for edge distances and edge-end directions
    let ar : RI.Arith := ⟨cross, fsub⟩
    let model := RI.relateImplWith ar a b
    -- rounding ties in the keys of the intersection sets (visiting order of the R-tree decides)
    let fa0 := RI.RGraph.new 0 a
    let fb0 := RI.RGraph.new 1 b
    let fa := fa0.selfNode ar
    let fb := fb0.selfNode ar
    let (ma, mb, _, _) := RI.mutualGraphs ar fa fb
    let tie := RI.envelopesMeet a b &&
      !(selfComplete ar fa0 fa.edges && selfComplete ar fb0 fb.edges && mutualComplete ar fa fb ma.edges mb.edges)
    if tie then skip "near-tie:intersection-key-collision" else
    -- subnormal coordinates: `robust::orient2d` is not exact there (K10), the model's orientation is
    if ab != model && underflowRange (coordsIter a ++ coordsIter b) then skip "underflow-range:orientation-inexact" else
    let exactModel := RI.relateImpl? a b
    let dom := inDomain a && inDomain b
    let prop :=
      if !dom then "PASS"
      else if ab.isNone then "FAIL:panic"
      else if ab != some (relateSpec a b) then
        (if underflowRange (coordsIter a ++ coordsIter b) then "FAIL:matrix-wrong-underflow-range" else "FAIL:matrix-wrong")
      else "PASS"
    let rel := bboxRel a b
    let ga := (RI.RGraph.new 0 a).selfNode RI.Arith.exact
    let gb := (RI.RGraph.new 1 b).selfNode RI.Arith.exact
    let shw (x : Option IM) := match x with | some m => m.str | none => "panic"
    let tags := "impl A=" ++ tagOf a ++ " B=" ++ tagOf b ++ " " ++ rel ++ " domain=" ++ (if dom then "in" else "out") ++
      " self-cross=" ++ selfCrossClass ga ++ "/" ++ selfCrossClass gb ++ " m=" ++ shw model ++

      (if exactModel == model then "" else " rounded-crossing-changes-matrix exact=" ++ shw exactModel) ++
      (if rel == "bbox-disjoint" || rel == "bbox-empty" then " triv" else "")
    reply (ab == model) prop tags (shw model) (shw ab)
  | _, _ => "ERR parse"

def handle (op : String) (inp out : List String) : Option String :=
  match op with
  | "C01.dims" => some (handleDims inp out)
  | "C01.rel" => some (handleRel inp out)
  | "C01.impl" => some (handleImpl inp out)
  | _ => none

end Geo.Ops.C01
