/-
  Driver operations for C17 (prepared-geometry call histories).
-/
import GeoModel.Parse
import GeoModel.Prepared
import GeoModel.Valid
import GeoModel.GeomGraph

namespace Geo.Ops.C17
open Geo Geo.P Geo.Prep

structure Call where
  i : Nat
  mi : String
  j : Nat
  mj : String

def callP : P Call := do
  let i ← nat; let mi ← tok; let j ← nat; let mj ← tok
  if (mi = "p" || mi = "o" || mi = "b") && (mj = "p" || mj = "o" || mj = "b") then pure ⟨i, mi, j, mj⟩ else fail

def imP : P (Option IM) := do
  let t ← tok
  if t = "panic" then pure none else
  match IM.parse? t with
  | some m => pure (some m)
  | none => fail

def handleHist (inp out : List String) : String :=
  let pin : P (List Geom × List Call) := do
    let gs ← counted geometry; let cs ← counted callP; pure (gs, cs)
  -- per call: prepared-path matrix, plain matrix, `<cache digest before>:<after>` of the prepared
  -- operands' caches, `<digest of the graphs they hand out>:<digest of the fresh self-noded graphs>`
  let digestP : P Bool := do
    let t ← tok
    match t.splitOn ":" with
    | [a, b] => pure (a == b && a != "panic")
    | _ => fail
  let pairP : P ((Option IM × Option IM) × (Bool × Bool)) := do
    let a ← imP; let b ← imP; let c ← digestP; let d ← digestP; pure ((a, b), (c, d))
  match P.run pin inp, P.run (many pairP) out with
  | some (gs, calls), some outQuads =>
    let outPairs := outQuads.map (·.1)
    let outs := outPairs.map (·.1)
    let plains := outPairs.map (·.2)
    let cacheKept := outQuads.all (·.2.1)
    let cloneFresh := outQuads.all (·.2.2)
    -- prepared == plain is demanded for every history, valid operands or not
    let firstMismatch := (outs.zip plains).findIdx? (fun (a, b) => a != b)
    if !gs.all inDomain then
      (match firstMismatch with
       | none =>
         if !cacheKept then reply true "FAIL:prepared-cache-changed" ("calls=" ++ toString calls.length ++ " out-of-domain")
         else if !cloneFresh then reply true "FAIL:prepared-graph-differs-from-fresh-after-reuse" ("calls=" ++ toString calls.length ++ " out-of-domain")
         else reply true "PASS" ("calls=" ++ toString calls.length ++ " out-of-domain impl-vs-impl-only")
       | some _ => reply true "FAIL:prepared-differs-from-plain" ("calls=" ++ toString calls.length ++ " out-of-domain"))
    else
    -- model: every geometry has a prepared form in the table; a call picks plain or prepared
    let st : State := ⟨gs.map (fun g => ⟨g, ⟨[]⟩⟩)⟩
    let ops := calls.map (fun c =>
      ((if c.mi = "p" then (match gs[c.i]? with | some g => Operand.plain g | none => Operand.prepared c.i) else Operand.prepared c.i),
       (if c.mj = "p" then (match gs[c.j]? with | some g => Operand.plain g | none => Operand.prepared c.j) else Operand.prepared c.j)))
    let model := runCalls st ops
    let same := model == outs
    let firstBad := (model.zip outs).findIdx? (fun (m, o) => m != o)
    let prop :=
      if outs.any Option.isNone then "FAIL:panic"
      else if outs.length != calls.length then "FAIL:missing-result"
      else if firstMismatch.isSome then "FAIL:prepared-differs-from-plain"
      else if !cacheKept then "FAIL:prepared-cache-changed"
      else if !cloneFresh then "FAIL:prepared-graph-differs-from-fresh-after-reuse"
      else match firstBad with
        | none => "PASS"
        | some k =>
          match calls[k]? with
          | some c => if c.mi = "p" && c.mj = "p" then "FAIL:plain-relate-wrong" else "FAIL:prepared-differs-from-true-matrix"
          | none => "FAIL:prepared-differs-from-true-matrix"
    let nPrep := (calls.filter (fun c => c.mi != "p" || c.mj != "p")).length
    let reuse := (calls.filter (fun c => c.mi != "p")).length + (calls.filter (fun c => c.mj != "p")).length
    let tags := "calls=" ++ toString calls.length ++ " prepared-calls=" ++ toString nPrep ++ " prepared-operands=" ++ toString reuse ++
      (if nPrep == 0 then " triv" else "")
    let shw (l : List (Option IM)) := String.intercalate " " (l.map (fun x => match x with | some m => m.str | none => "panic"))
    reply same prop tags (shw model) (shw outs)
  | _, _ => "ERR parse"

/-! ### `C17.graph`: the concrete graph of one operand

Input `<idx> <geom>`; output three dumps separated by `|` (format: the `verif` module in
geo/src/algorithm/relate/mod.rs): the graph as built by `GeometryGraph::new(idx, geom)`, the same
after `compute_self_nodes`, and the graph handed out by `PreparedGeometry::from(geom)` for operand
position `idx`. -/

open Geo.GG in
/-- an edge as dumped: what `buildGraph` models, plus `is_isolated` and the intersection list -/
structure DEdge where
  edge : GG.Edge
  isolated : Bool
  ixs : List (Pt × Nat × String)
  deriving DecidableEq

structure Dump where
  idx : Nat
  useRule : Bool
  noded : Bool
  edges : List DEdge
  nodes : List GG.Node
  deriving DecidableEq

def posChar? : Char → Option (Option Pos)
  | 'i' => some (some .inside)
  | 'b' => some (some .onBoundary)
  | 'e' => some (some .outside)
  | '_' => some none
  | _ => none

def slotP : P GG.TopoPos := do
  let t ← tok
  match t.toList with
  | [o] => match posChar? o with
    | some on => pure (.lineOrPoint on)
    | none => fail
  | [l, o, r] => match posChar? l, posChar? o, posChar? r with
    | some left, some on, some right => pure (.area on left right)
    | _, _, _ => fail
  | _ => fail

def labelP : P GG.Label := do let a ← slotP; let b ← slotP; pure ⟨a, b⟩

def ixP : P (Pt × Nat × String) := do let c ← pt; let s ← nat; let d ← tok; pure (c, s, d)

def dedgeP : P DEdge := do
  let cs ← pts; let l ← labelP; let iso ← bool; let ixs ← counted ixP
  pure ⟨⟨cs, l⟩, iso, ixs⟩

def nodeP : P GG.Node := do let c ← pt; let l ← labelP; pure ⟨c, l⟩

def dumpP : P Dump := do
  lit "G"; let idx ← nat; let rule ← bool; let noded ← bool
  lit "E"; let es ← counted dedgeP
  lit "N"; let ns ← counted nodeP
  pure ⟨idx, rule, noded, es, ns⟩

/-- `none` = the part is the single token `panic` -/
def dumpOrPanicP : List String → Option (Option Dump)
  | ["panic"] => some none
  | ts => (P.run dumpP ts).map some

def splitBars (ts : List String) : List (List String) :=
  let rec go (cur : List String) (acc : List (List String)) : List String → List (List String)
    | [] => (cur.reverse :: acc).reverse
    | t :: rest => if t = "|" then go [] (cur.reverse :: acc) rest else go (t :: cur) acc rest
  go [] [] ts

def posCh : Option Pos → String
  | some .inside => "i"
  | some .onBoundary => "b"
  | some .outside => "e"
  | none => "_"

def slotStr : GG.TopoPos → String
  | .lineOrPoint on => posCh on
  | .area on l r => posCh l ++ posCh on ++ posCh r

def labelStr (l : GG.Label) : String := slotStr l.a ++ "/" ++ slotStr l.b

def graphStr (edges : List GG.Edge) (nodes : List GG.Node) (rule : Bool) : String :=
  "rule=" ++ toString rule ++ " E" ++
    String.join (edges.map (fun e => " (" ++ ptsStr e.coords ++ " " ++ labelStr e.label ++ ")")) ++ " N" ++
    String.join (nodes.map (fun n => " (" ++ n.coord.str ++ " " ++ labelStr n.label ++ ")"))

def geomKind : Geom → String
  | .point _ => "Point" | .line _ _ => "Line" | .lineString _ => "LineString" | .polygon _ => "Polygon"
  | .multiPoint _ => "MultiPoint" | .multiLineString _ => "MultiLineString" | .multiPolygon _ => "MultiPolygon"
  | .rect _ _ => "Rect" | .triangle _ _ _ => "Triangle" | .collection _ => "GeometryCollection"

def bucket (n : Nat) : String := if n ≤ 3 then toString n else if n ≤ 8 then "4-8" else "9+"

def handleGraph (inp out : List String) : String :=
  let pin : P (Nat × Geom) := do let i ← nat; let g ← geometry; pure (i, g)
  match P.run pin inp, (splitBars out).map dumpOrPanicP with
  | some (idx, g), [some fresh, some noded, some prepared] =>
    if idx > 1 then "ERR arg-index" else
    -- property (on the implementation's outputs alone): the graph a prepared geometry hands out
    -- is the graph `relate` builds and self-nodes for the plain geometry, for this operand position
    let prop :=
      if prepared != noded then
        (match prepared, noded with
         | none, _ => "FAIL:prepared-graph-panics"
         | some p, some n =>
           if p.idx != n.idx then "FAIL:prepared-graph-arg-index"
           else if p.edges.map (·.edge) != n.edges.map (·.edge) then "FAIL:prepared-graph-edges-differ-from-fresh"
           else if p.nodes != n.nodes then "FAIL:prepared-graph-nodes-differ-from-fresh"
           else if p.useRule != n.useRule then "FAIL:prepared-graph-boundary-rule-flag"
           else "FAIL:prepared-graph-intersections-differ-from-fresh"
         | some _, none => "FAIL:prepared-graph-differs-from-fresh")
      else match prepared with
        | some p => if p.idx != idx then "FAIL:prepared-graph-arg-index" else if !p.noded then "FAIL:prepared-graph-not-noded" else "PASS"
        | none => "PASS"
    -- model
    let m := GG.buildGraph idx g
    let mNodes := GG.sortNodes m.nodes
    let freshOk := match fresh with
      | some f => f.idx == idx && f.useRule == m.useRule && !f.noded && f.edges.map (·.edge) == m.edges &&
          f.edges.all (fun e => e.isolated && e.ixs.isEmpty) && f.nodes == mNodes
      | none => false
    -- the un-noded part of a self-noded graph, and its nodes from the recorded intersections
    let nodedOk (d : Option Dump) : Bool := match d with
      | some n =>
        let ixs := n.edges.map (fun e => e.ixs.map (·.1))
        let m' := GG.addSelfIntersectionNodes idx ixs m
        n.idx == idx && n.useRule == m.useRule && n.noded && n.edges.map (·.edge) == m.edges &&
          n.nodes == GG.sortNodes m'.nodes
      | none => false
    let same := freshOk && nodedOk noded && nodedOk prepared
    let nIx := match noded with | some n => (n.edges.map (·.ixs.length)).foldl (· + ·) 0 | none => 0
    let nNew := match noded with | some n => n.nodes.length - mNodes.length | none => 0
    let nB := (mNodes.filter (fun n => n.label.onPos idx == some .onBoundary)).length
    let tags := "graph idx=" ++ toString idx ++ " kind=" ++ geomKind g ++ " edges=" ++ bucket m.edges.length ++
      " nodes=" ++ bucket mNodes.length ++ " boundary-nodes=" ++ bucket nB ++ " self-ix=" ++ bucket nIx ++
      " self-nodes=" ++ bucket nNew ++ " rule=" ++ toString m.useRule ++
      (if m.edges.isEmpty && mNodes.isEmpty then " triv" else "")
    let implStr := match fresh, noded with
      | some f, some n => graphStr (f.edges.map (·.edge)) f.nodes f.useRule ++ " ;noded N" ++
          String.join (n.nodes.map (fun x => " (" ++ x.coord.str ++ " " ++ labelStr x.label ++ ")"))
      | _, _ => "panic"
    let modelStr := graphStr m.edges mNodes m.useRule ++ " ;noded N" ++
      (match noded with
       | some n => String.join ((GG.sortNodes (GG.addSelfIntersectionNodes idx (n.edges.map (fun e => e.ixs.map (·.1))) m).nodes).map
           (fun x => " (" ++ x.coord.str ++ " " ++ labelStr x.label ++ ")"))
       | none => "")
    reply same prop tags modelStr implStr
  | _, _ => "ERR parse"

/-- `C17.conc <A> <B> => m1 m2 m3 m4 m5` — the first operand reached through its *concrete* type: `A.relate(B)` plain,
`PreparedGeometry::from(&A).relate(B)`, `B.relate(A)` plain, `B.relate(&prepared A)`, and `Geometry::from(A).relate(B)`.
Prepared must equal plain in both positions, and the concrete type must answer like the enum; valid operands or not. -/
def handleConc (inp out : List String) : String :=
  let pin : P (Geom × Geom) := do let a ← geometry; let b ← geometry; pure (a, b)
  let pout : P (List (Option IM)) := many imP
  match P.run pin inp, P.run pout out with
  | some (a, _), some [m1, m2, m3, m4, m5] =>
    let prop :=
      if m1.isNone || m2.isNone || m3.isNone || m4.isNone || m5.isNone then "FAIL:panic"
      else if m1 != m2 then "FAIL:prepared-concrete-differs-from-plain"
      else if m3 != m4 then "FAIL:prepared-concrete-differs-from-plain-as-second-operand"
      else if m1 != m5 then "FAIL:concrete-type-differs-from-enum"
      else "PASS"
    reply true prop ("concrete A=" ++ ((a.str.splitOn " ").head!) ++ (if inDomain a then "" else " out-of-domain"))
  | _, _ => "ERR parse"

def handle (op : String) (inp out : List String) : Option String :=
  match op with
  | "C17.hist" => some (handleHist inp out)
  | "C17.graph" => some (handleGraph inp out)
  | "C17.conc" => some (handleConc inp out)
  | _ => none

end Geo.Ops.C17
