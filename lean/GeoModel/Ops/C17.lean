/-
  Driver operations for C17 (prepared-geometry call histories).
-/
import GeoModel.Parse
import GeoModel.Prepared
import GeoModel.Valid

namespace Geo.Ops.C17
open Geo Geo.P Geo.Prep

structure Call where
  i : Nat
  mi : String
  j : Nat
  mj : String

def callP : P Call := do
  let i ← nat; let mi ← tok; let j ← nat; let mj ← tok
  if (mi = "p" || mi = "o" || mi = "b") && (mj = "p" || mj = "o" || mj = "b") then pure ⟨i, mi, j, mj⟩ else fail

def imP : P (Option IM) := do
  let t ← tok
  if t = "panic" then pure none else
  match IM.parse? t with
  | some m => pure (some m)
  | none => fail

def handleHist (inp out : List String) : String :=
  let pin : P (List Geom × List Call) := do
    let gs ← counted geometry; let cs ← counted callP; pure (gs, cs)
  let pairP : P (Option IM × Option IM) := do let a ← imP; let b ← imP; pure (a, b)
  match P.run pin inp, P.run (many pairP) out with
  | some (gs, calls), some outPairs =>
    let outs := outPairs.map (·.1)
    let plains := outPairs.map (·.2)
    -- prepared == plain is demanded for every history, valid operands or not
    let firstMismatch := (outs.zip plains).findIdx? (fun (a, b) => a != b)
    if !gs.all inDomain then
      (match firstMismatch with
       | none => reply true "PASS" ("calls=" ++ toString calls.length ++ " out-of-domain impl-vs-impl-only")
       | some _ => reply true "FAIL:prepared-differs-from-plain" ("calls=" ++ toString calls.length ++ " out-of-domain"))
    else
    -- model: every geometry has a prepared form in the table; a call picks plain or prepared
    let st : State := ⟨gs.map (fun g => ⟨g, ⟨[]⟩⟩)⟩
    let ops := calls.map (fun c =>
      ((if c.mi = "p" then (match gs[c.i]? with | some g => Operand.plain g | none => Operand.prepared c.i) else Operand.prepared c.i),
       (if c.mj = "p" then (match gs[c.j]? with | some g => Operand.plain g | none => Operand.prepared c.j) else Operand.prepared c.j)))
    let model := runCalls st ops
    let same := model == outs
    let firstBad := (model.zip outs).findIdx? (fun (m, o) => m != o)
    let prop :=
      if outs.any Option.isNone then "FAIL:panic"
      else if outs.length != calls.length then "FAIL:missing-result"
      else if firstMismatch.isSome then "FAIL:prepared-differs-from-plain"
      else match firstBad with
        | none => "PASS"
        | some k =>
          match calls[k]? with
          | some c => if c.mi = "p" && c.mj = "p" then "FAIL:plain-relate-wrong" else "FAIL:prepared-differs-from-true-matrix"
          | none => "FAIL:prepared-differs-from-true-matrix"
    let nPrep := (calls.filter (fun c => c.mi != "p" || c.mj != "p")).length
    let reuse := (calls.filter (fun c => c.mi != "p")).length + (calls.filter (fun c => c.mj != "p")).length
    let tags := "calls=" ++ toString calls.length ++ " prepared-calls=" ++ toString nPrep ++ " prepared-operands=" ++ toString reuse ++
      (if nPrep == 0 then " triv" else "")
    let shw (l : List (Option IM)) := String.intercalate " " (l.map (fun x => match x with | some m => m.str | none => "panic"))
    reply same prop tags (shw model) (shw outs)
  | _, _ => "ERR parse"

def handle (op : String) (inp out : List String) : Option String :=
  match op with
  | "C17.hist" => some (handleHist inp out)
  | _ => none

end Geo.Ops.C17
