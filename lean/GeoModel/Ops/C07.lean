/-
  Driver operations for C07 (Euclidean distance is the true minimum distance).

  `same` — implementation output vs the *model* (GeoModel/Distance.lean): zero ⇔ zero exactly,
           `f64::MAX` ⇔ empty fold, panic ⇔ panic, otherwise `|impl² − d2| ≤ 16·2^-53·d2`.
  `prop` — implementation output vs the *specification*: `0` when `relateSpec` (the independent
           DE-9IM specification) says the operands are not disjoint, otherwise the exact brute-force
           minimum over all pairs of parts (isolated points and segments of curves and rings) of
           the exact point–point / point–segment / segment–segment minimum; bit-identical values
           for exchanged operands, for a second representation of `A` and for the concrete-type
           impls versus the `Geometry` enum impls.
-/
import GeoModel.Parse
import GeoModel.Distance
import GeoModel.RelateSpec
import GeoModel.Valid

namespace Geo.Ops.C07
open Geo Geo.P

/-! ### specification -/

/-- exact minimum of `|a + s(b−a) − (c + t(d−c))|²` over the unit square: the minimum of a convex
quadratic over a square is attained at an interior critical point or on one of the four edges
(each edge is a point–segment problem, solved by `psd2`, which is *proved* minimal). -/
def segSeg2 (a b c d : Pt) : Rat :=
  let e := rmin (rmin (psd2 a c d) (psd2 b c d)) (rmin (psd2 c a b) (psd2 d a b))
  let ux := b.x - a.x; let uy := b.y - a.y
  let vx := d.x - c.x; let vy := d.y - c.y
  let wx := a.x - c.x; let wy := a.y - c.y
  let uu := ux * ux + uy * uy
  let vv := vx * vx + vy * vy
  let uv := ux * vx + uy * vy
  let uw := ux * wx + uy * wy
  let vw := vx * wx + vy * wy
  let den := uu * vv - uv * uv
  if den == 0 then e else
  let s := (uv * vw - vv * uw) / den
  let t := (uu * vw - uv * uw) / den
  if 0 ≤ s && s ≤ 1 && 0 ≤ t && t ≤ 1 then
    let px := wx + s * ux - t * vx
    let py := wy + s * uy - t * vy
    rmin e (px * px + py * py)
  else e

def optMin (a : Option Rat) (b : Rat) : Option Rat :=
  match a with
  | none => some b
  | some x => some (rmin x b)

def listMin (l : List Rat) : Option Rat := l.foldl optMin none

/-- parts as isolated points and segments (degenerate one-coordinate curves count as points) -/
def partPoints (ps : Parts) : List Pt :=
  ps.pts ++ (ps.curves ++ ps.areas.flatMap Poly.rings).flatMap (fun c => match c with | [p] => [p] | _ => [])

/-- brute-force exact squared distance between the *boundaries / linework / points* of the parts -/
def bruteMin (pa pb : Parts) : Option Rat :=
  let ptsA := partPoints pa; let ptsB := partPoints pb
  let sa := pa.allSegs; let sb := pb.allSegs
  listMin (
    ptsA.flatMap (fun p => ptsB.map (fun q => dist2 p q)) ++
    ptsA.flatMap (fun p => sb.map (fun (c, d) => psd2 p c d)) ++
    ptsB.flatMap (fun q => sa.map (fun (a, b) => psd2 q a b)) ++
    sa.flatMap (fun (a, b) => sb.map (fun (c, d) => segSeg2 a b c d)))

def imDisjoint (m : IM) : Bool :=
  m.ii == .empty && m.ib == .empty && m.bi == .empty && m.bb == .empty

/-- the true squared distance: `none` when an operand has no points -/
def specD2 (a b : Geom) : Option Rat :=
  match bruteMin (parts a) (parts b) with
  | none => none
  | some d => if imDisjoint (relateSpec a b) then some d else some 0

/-! ### numeric regime -/

/-- all coordinates are multiples of 1/16 below 2^20: differences, products, sums of squares and
the cross products of `line_segment_distance` are then exact in f64 (≤ 2·2^50 in units of 2^-8),
so every branch (`r ≤ 0`, `r ≥ 1`, the tolerance test of `line_string_contains_point` on exactly
equal quotients) is decided exactly and only `hypot`, one division and one product round. -/
def gridExact (g : Geom) : Bool :=
  (coordsIter g).all (fun p =>
    (p.x * 16).den == 1 && (p.y * 16).den == 1 && rabs p.x ≤ 1048576 && rabs p.y ≤ 1048576)

/-- the same regime at any dyadic scale: all coordinates of the operands together are integers below 2^24 times one
power of two 2^e with |e| ≤ `emax` — scaling by a power of two commutes with every f64 operation as long as no product
overflows or underflows (emax = 300); between point-like operands only `hypot` is evaluated, which is safe at any
magnitude (emax = 1000) -/
def dyadicGridAll (emax : Int) (gs : List Geom) : Bool :=
  let vals := ((gs.flatMap coordsIter).flatMap (fun p => [p.x, p.y])).filter (· != 0)
  let val2 (q : Rat) : Option Int :=
    let d := q.den
    let k := Nat.log2 d
    if d != 2 ^ k then none else
    let n := q.num.natAbs
    let t := Nat.log2 (Nat.gcd n (2 ^ 1100))        -- 2-adic valuation of the numerator
    some ((t : Int) - (k : Int))
  match vals.mapM val2 with
  | none => false
  | some [] => true
  | some (v :: vs) =>
    let e := vs.foldl (fun m x => if x < m then x else m) v
    e ≥ -emax && e ≤ emax && vals.all (fun q => let w := q * pow2 (-e); w.den == 1 && w.num.natAbs < 16777216)

partial def pointLike : Geom → Bool
  | .point _ => true
  | .multiPoint _ => true
  | .collection gs => gs.all pointLike
  | _ => false

def f64Max : Rat := (9007199254740991 : Rat) * pow2 971

/-- an implementation value: `none` = panic -/
def outP : P (Option XNum) := do
  let t ← tok
  if t = "panic" then pure none else
  match parseXNum? t with
  | some n => pure (some n)
  | none => fail

def tol : Rat := 16 * uRound

/-- value `v` (an f64) against a squared distance -/
def closeTo (v d2 : Rat) : Bool :=
  if d2 == 0 then v == 0 else v > 0 && rabs (v * v - d2) ≤ tol * d2

def matchesModel (o : Option XNum) (m : DV) : Bool :=
  match o, m with
  | none, .panic => true
  | some (.fin v), .inf => v == f64Max
  | some (.fin v), .fin d2 => closeTo v d2
  | _, _ => false

def outStr (o : Option XNum) : String :=
  match o with
  | none => "panic"
  | some (.fin v) => ratStr v
  | some _ => "nonfinite"

def tagOf (g : Geom) : String := (g.str.splitOn " ").head!

def hasEmptyMember : Geom → Bool
  | g => (parts g).curves.any (·.isEmpty) || (parts g).areas.any (fun p => p.ext.isEmpty)

/-- class of the closest approach for the histogram -/
def approachTag (a b : Geom) (d2 : Rat) : String :=
  if d2 == 0 then "rel=meet" else
  let va := coordsIter a; let vb := coordsIter b
  if va.any (fun p => vb.any (fun q => dist2 p q == d2)) then "rel=vertex-vertex" else "rel=vertex-edge"

def enclTag (a b : Geom) : String :=
  match boundingRect a, boundingRect b with
  | some (amn, amx), some (bmn, bmx) =>
    if !rectRect amn amx bmn bmx then "bbox-disjoint"
    else if rectContainsRect amn amx bmn bmx || rectContainsRect bmn bmx amn amx then "bbox-nested"
    else "bbox-overlap"
  | _, _ => "bbox-empty"

/-- `C07.dist <A> <A'> <B> => d(A,B) d(B,A) d(A',B) dconcrete(A,B) dconcrete(B,A)` -/
def handleDist (inp out : List String) : String :=
  let pin : P (Geom × Geom × Geom) := do
    let a ← geometry; let a' ← geometry; let b ← geometry; pure (a, a', b)
  let pout : P (List (Option XNum)) := rep 5 outP
  match P.run pin inp, P.run pout out with
  | some (a, a', b), some [ab, ba, a'b, cab, cba] =>
    if !(inDomain a && inDomain b) then skip "invalid-operand" else
    if !inDomain a' then skip "invalid-variant" else
    if !((gridExact a && gridExact b && gridExact a') || dyadicGridAll 300 [a, b, a'] ||
         (pointLike a && pointLike b && pointLike a' && dyadicGridAll 1000 [a, b, a'])) then skip "off-grid" else
    match specD2 a b, specD2 a' b with
    | some d2, some d2' =>
      if d2 != d2' then "ERR spec-not-representation-invariant " ++ ratStr d2 ++ " " ++ ratStr d2' else
      let mab := distG a b
      let mba := distG b a
      let ma'b := distG a' b
      let same := matchesModel ab mab && matchesModel ba mba && matchesModel a'b ma'b &&
        matchesModel cab mab && matchesModel cba mba
      let prop :=
        let panicClause := if hasEmptyMember a || hasEmptyMember b then "FAIL:panic-on-empty-member" else "FAIL:panic"
        match ab with
        | none => panicClause
        | some (.fin v) =>
          if ba.isNone || a'b.isNone || cab.isNone || cba.isNone then panicClause
          else if v == 0 && d2 != 0 then
            (if hasEmptyMember a || hasEmptyMember b then "FAIL:zero-for-empty-member" else "FAIL:zero-but-disjoint")
          else if v != 0 && d2 == 0 then "FAIL:nonzero-but-intersecting"
          else if !closeTo v d2 then "FAIL:not-the-minimum"
          else if ba != ab then "FAIL:asymmetric"
          -- bit-identical for representations with the same segments; a subdivided representation (`LONG` variants:
          -- coordinates that A does not have) reaches the minimum on another sub-segment, whose `|s|·hypot` rounds on its own:
          -- there both values only have to be the minimum (checked above for A, here for A')
          else if a'b != ab && (let ca := coordsIter a; let ca' := coordsIter a'; ca'.all (ca.contains ·) && ca.all (ca'.contains ·)) then
            "FAIL:representation-dependent"
          else if a'b != ab && !(match a'b with | some (.fin w) => closeTo w d2 | _ => false) then "FAIL:representation-dependent"
          else if cab != ab || cba != ab then "FAIL:enum-vs-concrete-type"
          else "PASS"
        | some _ => "FAIL:non-finite"
      let triv := match a, b with | .point _, .point _ => " triv" | _, _ => ""
      let tags := "A=" ++ tagOf a ++ " A'=" ++ tagOf a' ++ " B=" ++ tagOf b ++ " " ++ approachTag a b d2 ++ " " ++
        enclTag a b ++ triv
      reply same prop tags (mab.str ++ " " ++ mba.str ++ " " ++ ma'b.str)
        (outStr ab ++ " " ++ outStr ba ++ " " ++ outStr a'b ++ " " ++ outStr cab ++ " " ++ outStr cba)
    | _, _ => skip "empty-operand"
  | _, _ => "ERR parse"

/-! ### regime A probe: a point a few ulps off a slanted segment (candidate K4) -/

/-- is the f64 evaluation of `line_segment_distance(p, a, b)` exactly zero? (`hypot` is zero only
for two zeros; `|s|·hypot` is zero iff the rounded `s` is, no underflow at these magnitudes) -/
def psdZeroF64 (p a b : Pt) : Bool :=
  if a == b then p == a else
  let dx := fsub b.x a.x
  let dy := fsub b.y a.y
  let d2 := roundF64 (fmul dx dx + fmul dy dy)
  let r := fdiv (roundF64 (fmul (fsub p.x a.x) dx + fmul (fsub p.y a.y) dy)) d2
  if r ≤ 0 then p == a
  else if r ≥ 1 then p == b
  else
    let s := fdiv (fsub (fmul (fsub a.y p.y) dx) (fmul (fsub a.x p.x) dy)) d2
    s == 0

/-- zero-ness of `point_line_string_euclidean_distance` in emulated f64 -/
def ptLsZeroF64 (p : Pt) (cs : List Pt) : Bool :=
  lsContainsPointTol cs p || cs.isEmpty || (segs cs).any (fun (s, e) => psdZeroF64 p s e)

/-- Coordinates so small (or large) that products of coordinate differences underflow (overflow): Shewchuk's
adaptive predicates behind `RobustKernel` are exact only in the absence of underflow/overflow (known finding
K10, see `Ops/C11.lean`). -/
def underflowRange (ps : List Pt) : Bool :=
  let tiny : Rat := pow2 (-400)
  let huge : Rat := pow2 400
  ps.any (fun p => (p.x != 0 && rabs p.x < tiny) || (p.y != 0 && rabs p.y < tiny) ||
    rabs p.x > huge || rabs p.y > huge)

/-- `C07.near PT <p> LS <cs> => d(P,LS) d(LS,P) intersects` -/
def handleNear (inp out : List String) : String :=
  let pin : P (Pt × List Pt) := do
    lit "PT"; let p ← pt; lit "LS"; let cs ← pts; pure (p, cs)
  let pout : P (Option XNum × Option XNum × Bool) := do
    let x ← outP; let y ← outP; let b ← bool; pure (x, y, b)
  match P.run pin inp, P.run pout out with
  | some (p, cs), some (some (.fin v), some (.fin w), isx) =>
    let onLine := (segs cs).any (fun (s, e) => lineCoord s e p)
    let mzero := ptLsZeroF64 p cs
    let d2 := match listMin ((segs cs).map (fun (s, e) => psd2 p s e)) with | some d => d | none => 0
    let same := (decide (v = 0) == mzero) && (decide (w = 0) == mzero)
    let prop :=
      if isx != onLine then
        (if underflowRange (p :: cs) then "FAIL:intersects-inexact-underflow-range" else "FAIL:intersects-inexact")
      else if v == 0 && !onLine then "FAIL:zero-within-tolerance-but-disjoint"
      else if v != 0 && onLine then "FAIL:nonzero-on-the-line"
      else if v != w then "FAIL:asymmetric"
      else "PASS"
    let tags := (if onLine then "rel=on-line" else "rel=off-line") ++
      (if lsContainsPointTol cs p then " tol-hit" else " tol-miss") ++
      (if d2 != 0 && v != 0 && !(rabs (v * v - d2) ≤ (1 / 1000 : Rat) * d2) then " cancellation" else "")
    reply same prop tags (toString mzero) (outStr (some (.fin v)) ++ " " ++ outStr (some (.fin w)))
  | some _, some _ => reply false "FAIL:panic" "" "" "panic"
  | _, _ => "ERR parse"

def handle (op : String) (inp out : List String) : Option String :=
  match op with
  | "C07.dist" => some (handleDist inp out)
  | "C07.near" => some (handleNear inp out)
  | _ => none

end Geo.Ops.C07
