/-
  Driver operations for C06 (centroid).

    C06.cen  <geom>                     => none | some <x> <y> | panic
    C06.meta <e> <dx> <dy> <geom> <geom'> => <opt> <opt>      (geom' = 2^e·geom + (dx,dy), exactly)

  The model (`Cen.centroid`) and the specification (`Cen.centroidSpec`) are evaluated over exact
  rationals; segment lengths are exact when the squared length is a rational square
  (axis-aligned / Pythagorean segments) and otherwise the midpoint of a 2^-80-relative enclosure.
  Numeric comparison: |impl − exact| ≤ tol with
      tol = 16·2^-53·(n+2)·κw·κr·(M+D)
  n = number of coordinates, M = max |coordinate|, D = bounding-box diagonal bound,
  κw = Σ|wᵢ| / |Σ wᵢ| over the contributions that count (1 unless holes are subtracted),
  κr = 1 when every ring is in the exact regime (integer coordinates, |c − first| ≤ 2^16), else the
  largest shoelace condition number Σ|detᵢ| / |Σ detᵢ| among the rings with area.
-/
import GeoModel.Parse
import GeoModel.Orient
import GeoModel.Centroid

namespace Geo.Ops.C06
open Geo Geo.P Geo.Cen

/-! #### lengths -/

/-- Euclidean length as an exact rational where possible, else a 2^-80-relative approximation. -/
def lenD (a b : Pt) : Rat :=
  let d2 := dist2 a b
  match exactSqrt? d2 with
  | some r => r
  | none => let (lo, hi) := sqrtInterval d2; (lo + hi) / 2

def lenIsExact (a b : Pt) : Bool := (exactSqrt? (dist2 a b)).isSome

/-! #### implementation output -/

inductive ImplOut where
  | inone
  | isome (x y : XNum)
  | ipanic
  deriving Repr

def implOut : P ImplOut := do
  let t ← tok
  match t with
  | "none" => pure .inone
  | "panic" => pure .ipanic
  | "some" => do let x ← xnum; let y ← xnum; pure (.isome x y)
  | _ => fail

def ImplOut.pt? : ImplOut → Option Pt
  | .isome (.fin x) (.fin y) => some ⟨x, y⟩
  | _ => none

/-! #### geometry walkers -/

partial def polysOf : Geom → List Poly
  | .polygon p => [p]
  | .multiPolygon ps => ps
  | .collection gs => gs.flatMap polysOf
  | _ => []

partial def depth : Geom → Nat
  | .collection gs => 1 + (gs.map depth).foldl max 0
  | _ => 0

def tagOf (g : Geom) : String := (g.str.splitOn " ").head!

/-! #### regimes and near-ties -/

def isInt (q : Rat) : Bool := q.den = 1

/-- ring in the exact regime: integer coordinates below 2^52 whose offsets from the first
coordinate are at most 2^16 (all shoelace and moment sums are then exact in f64) -/
def ringExact (r : List Pt) : Bool :=
  match r with
  | [] => true
  | s :: _ => r.all (fun c => isInt c.x && isInt c.y && rabs c.x < 4503599627370496 && rabs c.y < 4503599627370496 &&
      rabs (c.x - s.x) ≤ 65536 && rabs (c.y - s.y) ≤ 65536)

def shiftedDets (r : List Pt) : List Rat :=
  match r with
  | [] => []
  | s :: _ => (windows2 r).map (fun l => det (l.1 - s) (l.2 - s))

def sumAbs (l : List Rat) : Rat := sumR (l.map rabs)

/-- condition number of the ring's shoelace sum (≥ 1), 1 for rings without area -/
def ringCond (r : List Pt) : Rat :=
  let ds := shiftedDets r
  let s := sumR ds
  if s = 0 then 1 else sumAbs ds / rabs s

def distinctCount (r : List Pt) : Nat := r.eraseDups.length

def tiny : Rat := 1 / 1099511627776   -- 2^-40

/-- a ring on which the f64 branch `area == 0` may differ from the exact one -/
def ringNearTie (r : List Pt) : Bool :=
  if ringExact r then false else
  let ds := shiftedDets r
  let s := sumR ds
  if s = 0 then distinctCount r ≥ 3 && r.length ≥ 3 && isClosed r
  else rabs s < tiny * sumAbs ds

def polyNearTie (p : Poly) : Bool :=
  (p.ext :: p.ints).any ringNearTie ||
  (let holes := p.ints.filter (fun h => ringArea h ≠ 0)
   let ae := rabs (ringArea p.ext)
   if holes.isEmpty || ae = 0 then false else
   let net := ae - sumR (holes.map (fun h => rabs (ringArea h)))
   let exact := (p.ext :: holes).all ringExact
   if net = 0 then !exact else !exact && rabs net < tiny * ae)

/-- the `Triangle`s of a geometry -/
partial def trisOf : Geom → List (Pt × Pt × Pt)
  | .triangle a b c => [(a, b, c)]
  | .collection gs => gs.flatMap trisOf
  | _ => []

/-- a triangle on which the f64 branch `unsigned_area() > 0` of `add_triangle` (after the `fix:` a thin triangle whose
computed area is zero is weighted like a flat one) may differ from the exact one -/
def triNearTie (t : Pt × Pt × Pt) : Bool :=
  let (a, b, c) := t
  let cp := crossProd a b c
  let mag := rabs (b.x - a.x) * rabs (c.y - a.y) + rabs (b.y - a.y) * rabs (c.x - a.x)
  let m := [a, b, c].foldl (fun m p => rmax m (rmax (rabs p.x) (rabs p.y))) 0
  let span := rabs (b.x - a.x) + rabs (b.y - a.y) + rabs (c.x - a.x) + rabs (c.y - a.y)
  cp != 0 && !(ringExact [a, b, c, a]) && (rabs cp < tiny * mag || rabs cp * 1099511627776 < m * span)

/-! #### convex hull (monotone chain, exact) and the tolerant membership test -/

def lexLe (a b : Pt) : Bool := a.x < b.x || (a.x == b.x && a.y ≤ b.y)

def cross3 (o a b : Pt) : Rat := (a.x - o.x) * (b.y - o.y) - (a.y - o.y) * (b.x - o.x)

partial def popBad (p : Pt) : List Pt → List Pt
  | b :: a :: rest => if cross3 a b p ≤ 0 then popBad p (a :: rest) else b :: a :: rest
  | st => st

def halfChain (pts : List Pt) : List Pt := pts.foldl (fun st p => p :: popBad p st) []

/-- counter-clockwise hull without collinear points -/
def convexHull (pts : List Pt) : List Pt :=
  let s := (pts.mergeSort lexLe).eraseDups
  if s.length ≤ 2 then s else
  let lower := (halfChain s).reverse
  let upper := (halfChain s.reverse).reverse
  lower.dropLast ++ upper.dropLast

def dot (a b : Pt) : Rat := a.x * b.x + a.y * b.y

def distToSeg2 (p q c : Pt) : Rat :=
  let d := q - p
  let l2 := dot d d
  if l2 = 0 then dist2 p c else
  let t := dot (c - p) d / l2
  let t := if t < 0 then 0 else if t > 1 then 1 else t
  dist2 (p + Pt.smul t d) c

def edgesOf (h : List Pt) : List (Pt × Pt) :=
  match h with
  | [] => []
  | f :: _ => windows2 (h ++ [f])

def inHullTol (pts : List Pt) (c : Pt) (tol : Rat) : Bool :=
  match convexHull pts with
  | [] => false
  | [p] => dist2 p c ≤ tol * tol
  | [p, q] => distToSeg2 p q c ≤ tol * tol
  | h => (edgesOf h).all (fun e =>
      let cr := cross3 e.1 e.2 c
      cr ≥ 0 || cr * cr ≤ tol * tol * dist2 e.1 e.2)

/-! #### when the hull clause is demanded -/

/-- all fan triangles from the first vertex have the same orientation (weakly): true of every
convex ring; then the ring centroid is a convex combination of the ring's vertices -/
def fanSameSign (r : List Pt) : Bool :=
  let ds := shiftedDets r
  ds.all (· ≥ 0) || ds.all (· ≤ 0)

/-- every vertex on the same side (weakly) of every edge -/
def convexRing (r : List Pt) : Bool :=
  let es := windows2 r
  es.all (fun e => r.all (fun c => cross3 e.1 e.2 c ≥ 0)) ||
  es.all (fun e => r.all (fun c => cross3 e.1 e.2 c ≤ 0))

def insideConvex (r : List Pt) (c : Pt) : Bool :=
  let es := windows2 r
  es.all (fun e => cross3 e.1 e.2 c ≥ 0) || es.all (fun e => cross3 e.1 e.2 c ≤ 0)

def bbox (r : List Pt) : Option (Pt × Pt) :=
  match r with
  | [] => none
  | f :: rest => some (rest.foldl (fun (b : Pt × Pt) c =>
      (⟨rmin b.1.x c.x, rmin b.1.y c.y⟩, ⟨rmax b.2.x c.x, rmax b.2.y c.y⟩)) (f, f))

def bboxDisjoint (a b : List Pt) : Bool :=
  match bbox a, bbox b with
  | some (amn, amx), some (bmn, bmx) => amx.x < bmn.x || bmx.x < amn.x || amx.y < bmn.y || bmx.y < amn.y
  | _, _ => true

def pairwise (f : List Pt → List Pt → Bool) : List (List Pt) → Bool
  | [] => true
  | a :: rest => rest.all (f a) && pairwise f rest

/-- polygons for which "centre of mass inside the hull" is a consequence of the formula:
no holes with area and a fan-same-sign shell, or a convex shell with pairwise separated convex
holes inside it. Polygons without area always qualify (they contribute segments or points). -/
def polyNice (p : Poly) : Bool :=
  let holes := p.ints.filter (fun h => ringArea h ≠ 0)
  if ringArea p.ext = 0 then holes.isEmpty
  else if holes.isEmpty then fanSameSign p.ext
  else convexRing p.ext && holes.all convexRing && holes.all (fun h => h.all (insideConvex p.ext)) &&
    pairwise bboxDisjoint holes

/-! #### the case analysis shared by both ops -/

structure Eval where
  g : Geom
  coords : List Pt
  model : Option Pt
  spec : Option Pt
  tol : Rat
  topDim : Nat
  kappa : Rat
  hullDemanded : Bool
  exactRings : Bool
  skip : Option String

def maxAbs (cs : List Pt) : Rat := cs.foldl (fun m c => rmax m (rmax (rabs c.x) (rabs c.y))) 0

def diamBound (cs : List Pt) : Rat :=
  match bbox cs with
  | none => 0
  | some (mn, mx) => (mx.x - mn.x) + (mx.y - mn.y)

def evalGeom (g : Geom) : Eval :=
  let coords := coordsIter g
  let polys := polysOf g
  let as := atoms lenD g
  let top := topAtoms as
  let w := sumR (top.map (·.w))
  let wabs := sumR (top.map (fun a => rabs a.w))
  let kappa := if w = 0 then 1 else wabs / rabs w
  let rings := polys.flatMap (fun p => p.ext :: p.ints)
  let exactRings := rings.all ringExact
  let kr := if exactRings then 1 else (rings.map ringCond).foldl rmax 1
  let n : Nat := coords.length + 2
  -- c = M / W: a relative error u·n·κ of the total weight W moves c by that fraction of |c| itself, and with
  -- cancelling weights (holes as large as their shell) |c| can exceed the coordinate range by the factor κ,
  -- so the scale of the bound includes the exact centroid's own magnitude
  let model := centroid lenD g
  let cabs := match model with | some c => rmax (rabs c.x) (rabs c.y) | none => 0
  let tol := 16 * uRound * (n : Rat) * kappa * kr * (maxAbs coords + diamBound coords + cabs)
  let skip :=
    -- (the exactly-zero total weight first: there a non-finite result is what 0/0 gives, whatever else is near a tie)
    if !as.isEmpty && w = 0 then some "zero-total-weight"
    else if polys.any polyNearTie || (trisOf g).any triNearTie then some "near-tie-area"
    else none
  { g := g, coords := coords, model := model, spec := centroidSpec lenD g, tol := tol,
    topDim := maxDim as, kappa := kappa,
    hullDemanded := top.all (fun a => a.w ≥ 0) && polys.all polyNice,
    exactRings := exactRings, skip := skip }

def close (a b : Pt) (tol : Rat) : Bool := rabs (a.x - b.x) ≤ tol && rabs (a.y - b.y) ≤ tol

def optStr : Option Pt → String
  | none => "none"
  | some p => "some " ++ p.str

/-- The property clauses on the implementation's output for one geometry. -/
def propCen (e : Eval) (o : ImplOut) : String :=
  match o with
  | .ipanic => "FAIL:panic"
  | .inone => if isEmpty e.g then "PASS" else "FAIL:none-for-nonempty"
  | .isome _ _ =>
    if isEmpty e.g then "FAIL:some-for-empty" else
    match o.pt?, e.spec with
    | none, _ => "FAIL:non-finite"
    | some _, none => "FAIL:some-for-empty"
    | some c, some s =>
      if !close c s e.tol then "FAIL:value-ne-centre-of-mass-dim" ++ toString (e.topDim - 1)
      else if e.hullDemanded && !inHullTol e.coords c e.tol then "FAIL:outside-hull"
      else "PASS"

def sameAsModel (e : Eval) (o : ImplOut) : Bool :=
  match o, e.model with
  | .inone, none => true
  | .isome _ _, some m => match o.pt? with
      | some c => close c m e.tol
      | none => false
  | _, _ => false

def classOf (e : Eval) : String :=
  "type=" ++ tagOf e.g ++ " dim=" ++ (if e.topDim = 0 then "empty" else toString (e.topDim - 1)) ++
    " depth=" ++ toString (depth e.g) ++
    (if e.kappa > 1 then " holes" else "") ++
    (if e.hullDemanded then " hull" else " nohull") ++
    (if e.exactRings then " exact" else " rounded") ++
    (if maxAbs e.coords > 1000000 then " far" else "") ++
    (if e.topDim = 0 then " triv" else "")

def handleCen (inp out : List String) : String :=
  match P.run geometry inp, P.run implOut out with
  | some g, some o =>
    let e := evalGeom g
    match e.skip with
    | some why =>
      -- a near-tie excuses which branch the f64 code took, never a non-finite result or a panic on a non-empty geometry
      (match o with
       | .isome _ _ => if o.pt?.isNone && !isEmpty e.g && why != "zero-total-weight" then
           reply false "FAIL:non-finite" (classOf e) (optStr e.model) (String.intercalate " " out) else skip why
       | .ipanic => reply false "FAIL:panic" (classOf e) (optStr e.model) "panic"
       | _ => skip why)
    | none => reply (sameAsModel e o) (propCen e o) (classOf e) (optStr e.model) (String.intercalate " " out)
  | _, _ => "ERR parse"

/-! #### metamorphic op: translation and uniform scaling -/

def applyT (k : Rat) (d : Pt) (p : Pt) : Pt := ⟨k * p.x + d.x, k * p.y + d.y⟩

def handleMeta (inp out : List String) : String :=
  let pin : P (Int × Pt × Geom × Geom) := do
    let e ← int; let d ← pt; let g ← geometry; let g' ← geometry; pure (e, d, g, g')
  let pout : P (ImplOut × ImplOut) := do
    let a ← implOut
    match a with
    | .ipanic => pure (a, a)
    | _ => do let b ← implOut; pure (a, b)
  match P.run pin inp, P.run pout out with
  | some (ex, d, g, g'), some (o, o') =>
    let k := pow2 ex
    if (mapG (applyT k d) g).str != g'.str then skip "inexact-transform" else
    let e := evalGeom g
    let e' := evalGeom g'
    match e.skip, e'.skip with
    | some why, _ => skip why
    | _, some why => skip why
    | none, none =>
      let p1 := propCen e o
      let p2 := propCen e' o'
      let prop :=
        if p1 != "PASS" then p1
        else if p2 != "PASS" then p2
        else match o, o' with
          | .inone, .inone => "PASS"
          | .isome _ _, .isome _ _ => match o.pt?, o'.pt? with
              | some c, some c' =>
                if close (applyT k d c) c' (k * e.tol + e'.tol) then "PASS" else "FAIL:does-not-move-with-geometry"
              | _, _ => "FAIL:non-finite"
          | _, _ => "FAIL:none-changes-under-transform"
      let same := sameAsModel e o && sameAsModel e' o'
      reply same prop (classOf e' ++ " k=2^" ++ toString ex)
        (optStr e.model ++ " " ++ optStr e'.model) (String.intercalate " " out)
  | _, _ => "ERR parse"

def handle (op : String) (inp out : List String) : Option String :=
  match op with
  | "C06.cen" => some (handleCen inp out)
  | "C06.meta" => some (handleMeta inp out)
  | _ => none

end Geo.Ops.C06
