/-
  GeoModel.RelateImpl — C01 (also C17): an executable model of the *implementation* of `relate`,
  part 1: labels, edges with their intersection lists, the `SegmentIntersector`, self-noding
  and the mutual edge intersections.  Part 2 (`RelateImplNodes.lean`) has the node map of the
  relate operation, the edge ends / bundles / stars and the matrix update; part 3
  (`RelateImplTop.lean`) is `RelateOperation::compute_intersection_matrix`.

  Anchors (geo/src/algorithm/relate/):
    geomgraph/topology_position.rs   `get`, `is_empty`, `is_any_empty`, `is_area`, `is_line`,
                                     `set_all_positions`, `set_all_positions_if_empty`, `set_position`
    geomgraph/label.rs               `position`, `set_position`, `set_all_positions(_if_empty)`,
                                     `geometry_count`, `is_empty`, `is_any_empty`, `is_area`,
                                     `is_geom_area`, `is_line`
    geomgraph/edge_intersection.rs   `EdgeIntersection`, its `Ord` (segment index, then distance)
    geomgraph/edge.rs                `add_intersections`, `add_intersection`, `is_closed`,
                                     `mark_as_unisolated`, `add_edge_intersection_list_endpoints`
    geomgraph/robust_line_intersector.rs   `compute_edge_distance`
    geomgraph/index/segment_intersector.rs `add_intersections`, `is_trivial_intersection`,
                                     `is_adjacent_segments`, `is_boundary_point`
    geomgraph/index/simple_edge_set_intersector.rs  (all pairs; see below)
    geomgraph/geometry_graph.rs      `compute_self_nodes`, `compute_edge_intersections`,
                                     `boundary_nodes`
  `line_intersection` is `Geo.lineIntersection` (C11); robust orientation is exact (`Geo.orient`).

  Which segment pairs are tested.  The code uses `RStarEdgeSetIntersector`: the candidate pairs
  are the pairs of segments whose envelopes intersect, in R-tree traversal order.  The model
  tests *all* pairs, in the order of `SimpleEdgeSetIntersector` (edge0, edge1, segment0,
  segment1).  The two agree: `line_intersection` returns `None` for segments with disjoint
  envelopes (its first test), `add_intersections` does nothing on `None`, and what is recorded
  (a set of intersections keyed by (segment index, distance), two monotone flags, the
  `is_isolated` flags) does not depend on the order in which the pairs are visited as long as
  equal keys carry equal coordinates — which holds in exact arithmetic, where every recorded
  point lies on its segment (proved: `selfNoding_order_independent`,
  `mutualPhase_order_independent` in GeoProofs/Props/C01.lean).

  Exactness.  Everything is exact but one thing: for a *proper* crossing `line_intersection`
  returns a float pair near the crossing point (C11 bounds the error), and self-noding makes that
  float pair a node; distances along a segment and the direction vectors of edge ends are then
  float differences of such coordinates.  The functions below take this arithmetic as a
  parameter `ar : Arith`; `relateImpl` instantiates it exactly (`Arith.exact`: the rational
  crossing point `properPoint`, rational subtraction), the correspondence check with the points
  the code's `line_intersection` returned and emulated binary64 subtraction.  Proper
  crossings are recorded on the edges only during self-noding; in the mutual phase the point is
  only compared with the boundary nodes.

  Panics of the code (`expect`, `assert!`, slice indexing) are `none` in the `Option`-valued
  functions.  `debug_assert!`s are not modelled (the library is checked in release mode).
-/
import GeoModel.GeomGraph
import GeoModel.LineIntersection
import GeoModel.RelateSpec

namespace Geo.GG

/-! ### `TopologyPosition` / `Label`: the accessors `relate` uses beyond graph construction

`TopologyPosition::get(Left | Right)` panics on a `LineOrPoint` position. Both slots of every label
the code builds have the same shape (`Label::new`, `empty_area`, `empty_line_or_point`), and
every `Left`/`Right` access is guarded by `is_area` of the label or of the slot, so that panic is
unreachable; the model answers `none` there. -/

/-- `TopologyPosition::get(Direction::Left)` -/
def TopoPos.left : TopoPos → Option Pos
  | .area _ l _ => l
  | .lineOrPoint _ => none

/-- `TopologyPosition::get(Direction::Right)` -/
def TopoPos.right : TopoPos → Option Pos
  | .area _ _ r => r
  | .lineOrPoint _ => none

/-- `TopologyPosition::is_area` -/
def TopoPos.isArea : TopoPos → Bool
  | .area _ _ _ => true
  | .lineOrPoint _ => false

/-- `TopologyPosition::is_line` -/
def TopoPos.isLine (t : TopoPos) : Bool := !t.isArea

/-- `TopologyPosition::is_empty` -/
def TopoPos.isEmpty : TopoPos → Bool
  | .lineOrPoint none => true
  | .area none none none => true
  | _ => false

/-- `TopologyPosition::is_any_empty` -/
def TopoPos.isAnyEmpty : TopoPos → Bool
  | .lineOrPoint (some _) => false
  | .area (some _) (some _) (some _) => false
  | _ => true

/-- `TopologyPosition::set_all_positions` -/
def TopoPos.setAll (t : TopoPos) (p : Pos) : TopoPos :=
  match t with
  | .lineOrPoint _ => .lineOrPoint (some p)
  | .area _ _ _ => .area (some p) (some p) (some p)

/-- `TopologyPosition::set_all_positions_if_empty` -/
def TopoPos.setAllIfEmpty (t : TopoPos) (p : Pos) : TopoPos :=
  match t with
  | .lineOrPoint on => .lineOrPoint (some (on.getD p))
  | .area on l r => .area (some (on.getD p)) (some (l.getD p)) (some (r.getD p))

/-- `TopologyPosition::set_position(Direction::Left, p)` (panics on a line position: unchanged) -/
def TopoPos.setLeft (t : TopoPos) (p : Pos) : TopoPos :=
  match t with
  | .area on _ r => .area on (some p) r
  | .lineOrPoint on => .lineOrPoint on

/-- `TopologyPosition::set_position(Direction::Right, p)` (panics on a line position: unchanged) -/
def TopoPos.setRight (t : TopoPos) (p : Pos) : TopoPos :=
  match t with
  | .area on l _ => .area on l (some p)
  | .lineOrPoint on => .lineOrPoint on

/-- `Label::position(geom_index, Direction::Left)` -/
def Label.leftPos (l : Label) (idx : Nat) : Option Pos := (l.get idx).left
/-- `Label::position(geom_index, Direction::Right)` -/
def Label.rightPos (l : Label) (idx : Nat) : Option Pos := (l.get idx).right
/-- `Label::set_position(geom_index, Direction::Left, p)` -/
def Label.setLeft (l : Label) (idx : Nat) (p : Pos) : Label := l.set idx ((l.get idx).setLeft p)
/-- `Label::set_position(geom_index, Direction::Right, p)` -/
def Label.setRight (l : Label) (idx : Nat) (p : Pos) : Label := l.set idx ((l.get idx).setRight p)
/-- `Label::set_all_positions` -/
def Label.setAll (l : Label) (idx : Nat) (p : Pos) : Label := l.set idx ((l.get idx).setAll p)
/-- `Label::set_all_positions_if_empty` -/
def Label.setAllIfEmpty (l : Label) (idx : Nat) (p : Pos) : Label :=
  l.set idx ((l.get idx).setAllIfEmpty p)
/-- `Label::is_empty(geom_index)` -/
def Label.isEmptyAt (l : Label) (idx : Nat) : Bool := (l.get idx).isEmpty
/-- `Label::is_any_empty(geom_index)` -/
def Label.isAnyEmptyAt (l : Label) (idx : Nat) : Bool := (l.get idx).isAnyEmpty
/-- `Label::is_area` -/
def Label.isArea (l : Label) : Bool := l.a.isArea || l.b.isArea
/-- `Label::is_geom_area(geom_index)` -/
def Label.isGeomArea (l : Label) (idx : Nat) : Bool := (l.get idx).isArea
/-- `Label::is_line(geom_index)` -/
def Label.isLineAt (l : Label) (idx : Nat) : Bool := (l.get idx).isLine
/-- `Label::geometry_count` -/
def Label.geometryCount (l : Label) : Nat :=
  (if l.a.isEmpty then 0 else 1) + (if l.b.isEmpty then 0 else 1)

end Geo.GG

namespace Geo.RI
open Geo.GG

/-! ### the two places where the code computes with rounded numbers -/

/-- The float arithmetic the algorithm depends on, as a parameter: `cross p1 p2 q1 q2` is the point
`line_intersection(p, q)` reports for a proper crossing, `sub` is coordinate subtraction (used by
`compute_edge_distance` and for `EdgeEnd`'s `delta`). Everything else in `relate` is comparison
of coordinates and exact orientation. -/
structure Arith where
  cross : Pt → Pt → Pt → Pt → Pt
  sub : Rat → Rat → Rat

/-- exact arithmetic: the rational crossing point, rational subtraction -/
def Arith.exact : Arith := ⟨properPoint, fun a b => a - b⟩

/-! ### edge intersections -/

/-- `EdgeIntersection` -/
structure EI where
  coord : Pt
  seg : Nat
  dist : Rat
  deriving DecidableEq, Repr, Inhabited

/-- `Ord for EdgeIntersection`: segment index, then distance (the coordinate is not compared) -/
def EI.cmp (a b : EI) : Ordering :=
  if a.seg < b.seg then .lt else if a.seg > b.seg then .gt
  else if a.dist < b.dist then .lt else if a.dist > b.dist then .gt else .eq

/-- `BTreeSet::insert`: the position is found by comparing the new element with the stored ones
from the left; an element that compares equal is kept (the set is not updated). -/
def eiInsert (e : EI) : List EI → List EI
  | [] => [e]
  | x :: xs =>
    match e.cmp x with
    | .gt => x :: eiInsert e xs
    | .eq => x :: xs
    | .lt => e :: x :: xs

/-- `RobustLineIntersector::compute_edge_distance(intersection, line)` -/
def edgeDistance (ar : Arith) (p a b : Pt) : Rat :=
  let dx := rabs (ar.sub b.x a.x)
  let dy := rabs (ar.sub b.y a.y)
  if p == a then 0
  else if p == b then (if dx > dy then dx else dy)
  else
    let pdx := rabs (ar.sub p.x a.x)
    let pdy := rabs (ar.sub p.y a.y)
    let dist := if dx > dy then pdx else pdy
    -- "hack to ensure that non-endpoints always have a non-zero distance"
    if dist == 0 && p != a then rmax pdx pdy else dist

/-- `Edge`: coordinates, label, `is_isolated`, `edge_intersections` (in set order) -/
structure REdge where
  coords : List Pt
  label : Label
  isolated : Bool
  eis : List EI
  deriving DecidableEq, Repr, Inhabited

/-- `Edge::new` -/
def REdge.ofEdge (e : Edge) : REdge := ⟨e.coords, e.label, true, []⟩

/-- `Edge::is_closed` -/
def REdge.isClosed (e : REdge) : Bool := decide (e.coords.head? = e.coords.getLast?)

/-- `Edge::add_intersection(intersection_coord, line, segment_index)`: an intersection on the end
vertex of the segment is recorded on the next segment index with distance zero. -/
def REdge.addIntersection (ar : Arith) (e : REdge) (p a b : Pt) (segIdx : Nat) : REdge :=
  let dist := edgeDistance ar p a b
  let next := segIdx + 1
  let key : Nat × Rat :=
    match e.coords[next]? with
    | some nc => if p == nc then (next, 0) else (segIdx, dist)
    | none => (segIdx, dist)
  { e with eis := eiInsert ⟨p, key.1, key.2⟩ e.eis }

/-- `Edge::add_intersections(intersection, line, segment_index)` -/
def REdge.addIntersections (ar : Arith) (e : REdge) (li : LI) (a b : Pt) (segIdx : Nat) : REdge :=
  match li with
  | .single p _ => e.addIntersection ar p a b segIdx
  | .collinear s t => (e.addIntersection ar s a b segIdx).addIntersection ar t a b segIdx

/-- `Edge::mark_as_unisolated` -/
def REdge.unisolate (e : REdge) : REdge := { e with isolated := false }

/-- `Edge::add_edge_intersection_list_endpoints` -/
def REdge.addEndpoints (e : REdge) : REdge :=
  match e.coords.head?, e.coords.getLast? with
  | some f, some l =>
    { e with eis := eiInsert ⟨l, e.coords.length - 1, 0⟩ (eiInsert ⟨f, 0, 0⟩ e.eis) }
  | _, _ => e

def updAt {α} (l : List α) (i : Nat) (f : α → α) : List α :=
  match l, i with
  | [], _ => []
  | x :: xs, 0 => f x :: xs
  | x :: xs, i + 1 => x :: updAt xs i f

/-! ### `SegmentIntersector` -/

/-- `line_intersection` with the point of a proper crossing supplied by `ar.cross` -/
def lineIntersectionWith (ar : Arith) (p1 p2 q1 q2 : Pt) : Option LI :=
  match lineIntersection p1 p2 q1 q2 with
  | some (.single _ true) => some (.single (ar.cross p1 p2 q1 q2) true)
  | r => r

/-- a segment of an edge: edge index, segment index, end points -/
structure Seg where
  edge : Nat
  idx : Nat
  p : Pt
  q : Pt
  deriving Repr, Inhabited

def segsFrom (edge : Nat) (i : Nat) : List Pt → List Seg
  | a :: b :: rest => ⟨edge, i, a, b⟩ :: segsFrom edge (i + 1) (b :: rest)
  | _ => []

/-- the segments of one edge, `0 .. coords.len() - 1` -/
def edgeSegs (edge : Nat) (e : REdge) : List Seg := segsFrom edge 0 e.coords

def allSegsFrom (i : Nat) : List REdge → List Seg
  | [] => []
  | e :: es => edgeSegs i e ++ allSegsFrom (i + 1) es

/-- all segments of all edges, edge by edge -/
def allSegs (es : List REdge) : List Seg := allSegsFrom 0 es

/-- `SegmentIntersector::is_adjacent_segments` -/
def isAdjacent (i1 i2 : Nat) : Bool := (if i1 > i2 then i1 - i2 else i2 - i1) == 1

/-- `SegmentIntersector::is_trivial_intersection` (`sameEdge`: the two `RefCell`s are the same
object). As written: `max_segment_index = coords.len() - 1` is the index of the last *coordinate*,
one more than the index of the last segment, so the closed-ring clause never fires. -/
def isTrivial (li : LI) (sameEdge : Bool) (s0 s1 : Nat) (e0 : REdge) : Bool :=
  if !sameEdge then false else
  match li with
  | .collinear _ _ => false
  | .single _ _ =>
    if isAdjacent s0 s1 then true
    else if e0.isClosed then
      let mx := e0.coords.length - 1
      (s0 == 0 && s1 == mx) || (s1 == 0 && s0 == mx)
    else false

/-- `LineIntersection::is_proper` -/
def LI.isProper : LI → Bool
  | .single _ pr => pr
  | .collinear _ _ => false

/-- `SegmentIntersector::add_intersections` with `edges_are_from_same_geometry = true`
(self-noding; the flags of this intersector are never read and are not modelled). -/
def selfAdd (ar : Arith) (es : List REdge) (s0 s1 : Seg) : List REdge :=
  if s0.edge == s1.edge && s0.idx == s1.idx then es else
  match lineIntersectionWith ar s0.p s0.q s1.p s1.q with
  | none => es
  | some li =>
    match es[s0.edge]? with
    | none => es
    | some e0 =>
      if isTrivial li (s0.edge == s1.edge) s0.idx s1.idx e0 then es else
      let es := updAt es s0.edge (fun e => e.addIntersections ar li s0.p s0.q s0.idx)
      updAt es s1.edge (fun e => e.addIntersections ar li s1.p s1.q s1.idx)

/-- inner loops of `compute_intersections_within_set` for one `segment_0` -/
def selfRow (ar : Arith) (check : Bool) (s0 : Seg) : List Seg → List REdge → List REdge
  | [], es => es
  | s1 :: rest, es =>
    selfRow ar check s0 rest (if check || s0.edge != s1.edge then selfAdd ar es s0 s1 else es)

def selfRows (ar : Arith) (check : Bool) (all : List Seg) : List Seg → List REdge → List REdge
  | [], es => es
  | s0 :: rest, es => selfRows ar check all rest (selfRow ar check s0 all es)

/-- `EdgeSetIntersector::compute_intersections_within_set` (all ordered pairs of segments;
pairs within one edge only if `check_for_self_intersecting_edges`) -/
def selfIntersections (ar : Arith) (check : Bool) (es : List REdge) : List REdge :=
  let all := allSegs es
  selfRows ar check all all es

/-- the state of the mutual `SegmentIntersector` and the edges of the two graphs -/
structure Mutual where
  ea : List REdge
  eb : List REdge
  hasProper : Bool
  hasProperInterior : Bool
  deriving Repr, Inhabited

/-- `SegmentIntersector::add_intersections` with `edges_are_from_same_geometry = false`;
`bnodes`: the coordinates of `boundary_nodes` of both graphs (`is_boundary_point`). Edges of
different graphs are never the same object, so no intersection is trivial. -/
def mutualAdd (ar : Arith) (bnodes : List Pt) (m : Mutual) (s0 s1 : Seg) : Mutual :=
  match lineIntersectionWith ar s0.p s0.q s1.p s1.q with
  | none => m
  | some li =>
    let ea := updAt m.ea s0.edge REdge.unisolate
    let eb := updAt m.eb s1.edge REdge.unisolate
    let (ea, eb) :=
      if !LI.isProper li then
        (updAt ea s0.edge (fun e => e.addIntersections ar li s0.p s0.q s0.idx),
         updAt eb s1.edge (fun e => e.addIntersections ar li s1.p s1.q s1.idx))
      else (ea, eb)
    match li with
    | .single pt true =>
      ⟨ea, eb, true, m.hasProperInterior || !(bnodes.any (· == pt))⟩
    | _ => ⟨ea, eb, m.hasProper, m.hasProperInterior⟩

def mutualRow (ar : Arith) (bnodes : List Pt) (s0 : Seg) : List Seg → Mutual → Mutual
  | [], m => m
  | s1 :: rest, m => mutualRow ar bnodes s0 rest (mutualAdd ar bnodes m s0 s1)

def mutualRows (ar : Arith) (bnodes : List Pt) (sb : List Seg) : List Seg → Mutual → Mutual
  | [], m => m
  | s0 :: rest, m => mutualRows ar bnodes sb rest (mutualRow ar bnodes s0 sb m)

/-! ### a graph of one operand, as `relate` carries it -/

/-- `GeometryGraph`: argument index, parent geometry, node map and `use_boundary_determination_rule`
(`GG.Graph`, whose edge list is superseded by `edges`), edges with their mutable state. -/
structure RGraph where
  idx : Nat
  geom : Geom
  nodes : List Node
  useRule : Bool
  edges : List REdge
  deriving Repr, Inhabited

/-- `GeometryGraph::new(arg_index, geometry)` -/
def RGraph.new (idx : Nat) (g : Geom) : RGraph :=
  let G := buildGraph idx g
  ⟨idx, g, G.nodes, G.useRule, G.edges.map REdge.ofEdge⟩

/-- `is_rings` in `compute_self_nodes`: by the *type* of the parent geometry
(`LineString::is_closed`, `MultiLineString::is_closed` = all members closed; both `true` when
there is no coordinate) -/
def isRings : Geom → Bool
  | .lineString cs => isClosedLS cs
  | .multiLineString ls => ls.all isClosedLS
  | .polygon _ => true
  | .multiPolygon _ => true
  | _ => false

/-- `GeometryGraph::compute_self_nodes` (on a fresh graph: `has_computed_self_nodes = false`) -/
def RGraph.selfNode (ar : Arith) (r : RGraph) : RGraph :=
  let es := selfIntersections ar (!isRings r.geom) r.edges
  -- `add_self_intersection_nodes` (GeomGraph.lean), over the recorded coordinates
  let G : Graph := ⟨r.nodes, es.map (fun e => ⟨e.coords, e.label⟩), r.useRule⟩
  let G' := addSelfIntersectionNodes r.idx (es.map (fun e => e.eis.map (·.coord))) G
  { r with nodes := G'.nodes, edges := es }

/-- `PlanarGraph::boundary_nodes(geom_index)`, coordinates only -/
def RGraph.boundaryNodes (r : RGraph) : List Pt :=
  (r.nodes.filter (fun n => n.label.onPos r.idx == some .onBoundary)).map (·.coord)

/-- `GeometryGraph::compute_edge_intersections(self = a, other = b)` -/
def edgeIntersections (ar : Arith) (a b : RGraph) : Mutual :=
  let bnodes := a.boundaryNodes ++ b.boundaryNodes
  mutualRows ar bnodes (allSegs b.edges) (allSegs a.edges) ⟨a.edges, b.edges, false, false⟩

end Geo.RI
