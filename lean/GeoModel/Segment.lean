/-
  GeoModel.Segment — point/segment/rect/triangle kernels and point-in-ring.

  Anchors: geo/src/algorithm/intersects/{mod,line,rect,triangle}.rs,
           geo/src/algorithm/coordinate_position.rs (`coord_pos_relative_to_ring`),
           geo/src/algorithm/contains/{rect,triangle,line}.rs.
-/
import GeoModel.Orient

namespace Geo

/-- `CoordPos` -/
inductive Pos where
  | onBoundary
  | inside
  | outside
  deriving DecidableEq, Repr, Inhabited

def Pos.str : Pos → String
  | .onBoundary => "OnBoundary"
  | .inside => "Inside"
  | .outside => "Outside"

def Pos.parse? : String → Option Pos
  | "OnBoundary" => some .onBoundary
  | "Inside" => some .inside
  | "Outside" => some .outside
  | _ => none

/-- `value_in_range` -/
def valueInRange (v mn mx : Rat) : Bool := decide (v ≥ mn) && decide (v ≤ mx)

/-- `value_in_between` -/
def valueInBetween (v b1 b2 : Rat) : Bool :=
  if b1 < b2 then valueInRange v b1 b2 else valueInRange v b2 b1

/-- `point_in_rect` -/
def pointInRect (p b1 b2 : Pt) : Bool :=
  valueInBetween p.x b1.x b2.x && valueInBetween p.y b1.y b2.y

/-- `Line: Intersects<Coord>`: collinear and inside the segment's bounding box. -/
def lineCoord (a b p : Pt) : Bool := orient a b p == .col && pointInRect p a b

/-- `Line: Intersects<Line>` exactly as written (including the duplicated `self.end` test). -/
def lineLine (a b c d : Pt) : Bool :=
  if a == b then lineCoord c d a
  else
    let c11 := orient a b c
    let c12 := orient a b d
    if c11 != c12 then
      let c21 := orient c d a
      let c22 := orient c d b
      c21 != c22
    else if c11 == .col then
      pointInRect c a b || pointInRect d a b || pointInRect b c d || pointInRect b c d
    else false

/-- `Rect: Intersects<Coord>` -/
def rectCoord (mn mx p : Pt) : Bool :=
  decide (p.x ≥ mn.x) && decide (p.y ≥ mn.y) && decide (p.x ≤ mx.x) && decide (p.y ≤ mx.y)

/-- `Rect: Contains<Coord>` (strict) -/
def rectContainsCoord (mn mx p : Pt) : Bool :=
  decide (p.x > mn.x) && decide (p.x < mx.x) && decide (p.y > mn.y) && decide (p.y < mx.y)

/-- `Rect: Intersects<Rect>` -/
def rectRect (amn amx bmn bmx : Pt) : Bool :=
  if amx.x < bmn.x then false
  else if amx.y < bmn.y then false
  else if amn.x > bmx.x then false
  else if amn.y > bmx.y then false
  else true

/-- `Rect: Contains<Rect>` -/
def rectContainsRect (amn amx bmn bmx : Pt) : Bool :=
  decide (amn.x ≤ bmn.x) && decide (amx.x ≥ bmx.x) && decide (amn.y ≤ bmn.y) && decide (amx.y ≥ bmx.y)

/-- `Rect: Intersects<Line>`: either endpoint inside, or the line meets one of four sides
(`lt=min, rb=max, lb=(min.x,max.y), rt=(max.x,min.y)`). -/
def rectLine (mn mx a b : Pt) : Bool :=
  let lt := mn; let rb := mx
  let lb : Pt := ⟨lt.x, rb.y⟩
  let rt : Pt := ⟨rb.x, lt.y⟩
  rectCoord mn mx a || rectCoord mn mx b ||
    lineLine lt rt a b || lineLine rt rb a b || lineLine lb rb a b || lineLine lt lb a b

/-- Insertion sort of three orientations by `derive(Ord)` rank (`[Orientation;3]::sort`). -/
def sort3 (a b c : Ori) : Ori × Ori × Ori :=
  let (a, b) := if b.rank < a.rank then (b, a) else (a, b)
  let (b, c) := if c.rank < b.rank then (c, b) else (b, c)
  let (a, b) := if b.rank < a.rank then (b, a) else (a, b)
  (a, b, c)

/-- `Triangle: Intersects<Coord>`: sort the three edge orientations, then no adjacent pair
`(w0, w1)` with `w0 ≠ w1 ∧ w1 ≠ Collinear`. -/
def triCoord (a b c p : Pt) : Bool :=
  let (o0, o1, o2) := sort3 (orient a b p) (orient b c p) (orient c a p)
  !((o0 != o1 && o1 != .col) || (o1 != o2 && o2 != .col))

/-- `Triangle: Contains<Coord>`: all three orientations equal and not collinear. -/
def triContainsCoord (a b c p : Pt) : Bool :=
  let o0 := orient a b p; let o1 := orient b c p; let o2 := orient c a p
  (o0 == o1 && o0 != .col) && (o1 == o2 && o1 != .col)

/-- consecutive coordinate pairs (`LineString::lines`) -/
def segs : List Pt → List (Pt × Pt)
  | a :: b :: rest => (a, b) :: segs (b :: rest)
  | _ => []

/-- One edge of `coord_pos_relative_to_ring`: `none` = on boundary (early return),
`some d` = winding-number increment. -/
def ringEdge (p : Pt) (s e : Pt) : Option Int :=
  if s.y ≤ p.y then
    if e.y ≥ p.y then
      let o := orient s e p
      if o == .ccw && e.y != p.y then some 1
      else if o == .col && valueInBetween p.x s.x e.x then none
      else some 0
    else some 0
  else if e.y ≤ p.y then
    let o := orient s e p
    if o == .cw then some (-1)
    else if o == .col && valueInBetween p.x s.x e.x then none
    else some 0
  else some 0

/-- Winding number over the edges; `none` as soon as an edge reports a boundary hit. -/
def ringWinding (p : Pt) : List (Pt × Pt) → Int → Option Int
  | [], w => some w
  | (s, e) :: rest, w => match ringEdge p s e with
    | none => none
    | some d => ringWinding p rest (w + d)

/-- `coord_pos_relative_to_ring` -/
def ringPos (p : Pt) (ring : List Pt) : Pos :=
  match ring with
  | [] => .outside
  | [c] => if p == c then .onBoundary else .outside
  | _ => match ringWinding p (segs ring) 0 with
    | none => .onBoundary
    | some w => if w == 0 then .outside else .inside

end Geo
