/-
  GeoModel.Parse — the line protocol: `<op> <args…> => <impl-output…>`.

  A tiny parser-combinator over a token list. Every parser either consumes tokens and
  returns a value or fails (`none`); a malformed line is reported by the driver as
  `ERR parse`, never defaulted.
-/
import GeoModel.Geom

namespace Geo

abbrev P (α : Type) := StateT (List String) Option α

namespace P

/-- The `SC <k>` case prefix (every *input* coordinate is multiplied by 2^k before the case is evaluated, on both sides)
travels as a marker token `@S<k>` that stays at the head of the input token list; all combinators look through it. -/
def scaleOf? (t : String) : Option Int :=
  if t.startsWith "@S" then (t.drop 2).toString.toInt? else none

def isMarker (t : String) : Bool := (scaleOf? t).isSome

/-- split the scale marker (if any) off a token list: handlers that look at the first input tokens themselves
use this and put the marker back in front of what they hand to a parser -/
def splitMarker (ts : List String) : List String × List String :=
  match ts with
  | m :: rest => if isMarker m then ([m], rest) else ([], ts)
  | [] => ([], [])

def atEnd (ts : List String) : Bool :=
  match ts with
  | [] => true
  | [m] => isMarker m
  | _ => false

def tok : P String := fun ts => match ts with
  | [] => none
  | m :: rest =>
    if isMarker m then
      (match rest with
       | [] => none
       | t :: rest' => some (t, m :: rest'))
    else some (m, rest)

def peek? : P (Option String) := fun ts =>
  match ts with
  | m :: rest => if isMarker m then some (rest.head?, ts) else some (some m, ts)
  | [] => some (none, ts)

def eof : P Unit := fun ts => if atEnd ts then some ((), ts) else none

/-- the factor 2^k of the `SC <k>` prefix (1 without a prefix) -/
def scale : P Rat := fun ts =>
  match ts with
  | m :: _ => (match scaleOf? m with
      | some k => some (pow2 k, ts)
      | none => some (1, ts))
  | [] => some (1, ts)

def fail {α} : P α := fun _ => none

def lit (s : String) : P Unit := do
  let t ← tok
  if t = s then pure () else fail

def nat : P Nat := do
  let t ← tok
  match t.toNat? with
  | some n => pure n
  | none => fail

def int : P Int := do
  let t ← tok
  match t.toInt? with
  | some n => pure n
  | none => fail

def xnum : P XNum := do
  let t ← tok
  match parseXNum? t with
  | some n => pure n
  | none => fail

def rat : P Rat := do
  let t ← tok
  match parseRat? t with
  | some n => pure n
  | none => fail

def bool : P Bool := do
  let t ← tok
  if t = "true" || t = "T" || t = "1" then pure true
  else if t = "false" || t = "F" || t = "0" then pure false
  else fail

def rep {α} (n : Nat) (p : P α) : P (List α) :=
  match n with
  | 0 => pure []
  | k + 1 => do
    let a ← p
    let as ← rep k p
    pure (a :: as)

def counted {α} (p : P α) : P (List α) := do
  let n ← nat
  rep n p

/-- Repeat `p` until the token list is exhausted (bounded by the number of tokens). -/
def many {α} (p : P α) : P (List α) := fun ts =>
  let rec go (fuel : Nat) (acc : List α) (ts : List String) : Option (List α × List String) :=
    match fuel with
    | 0 => if atEnd ts then some (acc.reverse, ts) else none
    | f + 1 =>
      if atEnd ts then some (acc.reverse, ts) else
      match p ts with
      | some (a, ts') => go f (a :: acc) ts'
      | none => none
  go ts.length [] ts

def pt : P Pt := do
  let s ← scale
  let x ← rat
  let y ← rat
  pure ⟨x * s, y * s⟩

def pts : P (List Pt) := counted pt

/-- What the harness-side parser does to a ring by calling `Polygon::new` (close if open). -/
def closeRing (r : List Pt) : List Pt :=
  if r.head? = r.getLast? then r else match r with
    | [] => r
    | a :: _ => r ++ [a]

/-- Raw rings exactly as written. -/
def rawPoly : P Poly := do
  let k ← nat
  match k with
  | 0 => pure ⟨[], []⟩
  | k + 1 =>
    let ext ← pts
    let ints ← rep k pts
    pure ⟨ext, ints⟩

/-- A polygon *value*: like the harness, the text goes through the constructor. -/
def poly : P Poly := do
  let p ← rawPoly
  pure ⟨closeRing p.ext, p.ints.map closeRing⟩

/-- Geometry parser; `fuel` bounds the nesting depth of collections. -/
def geomG (raw : Bool) : Nat → P Geom
  | 0 => fail
  | fuel + 1 => do
    let t ← tok
    match t with
    | "PT" => do let p ← pt; pure (.point p)
    | "LN" => do let a ← pt; let b ← pt; pure (.line a b)
    | "LS" => do let cs ← pts; pure (.lineString cs)
    | "PG" => do let p ← (if raw then rawPoly else poly); pure (.polygon p)
    | "MPT" => do let ps ← pts; pure (.multiPoint ps)
    | "MLS" => do let ls ← counted pts; pure (.multiLineString ls)
    | "MPG" => do let ps ← counted (if raw then rawPoly else poly); pure (.multiPolygon ps)
    | "RC" => do
        -- through `Rect::new`, as on the harness side
        let a ← pt; let b ← pt
        if raw then pure (.rect a b) else
        let (mnx, mxx) := if a.x < b.x then (a.x, b.x) else (b.x, a.x)
        let (mny, mxy) := if a.y < b.y then (a.y, b.y) else (b.y, a.y)
        pure (.rect ⟨mnx, mny⟩ ⟨mxx, mxy⟩)
    | "TR" => do let a ← pt; let b ← pt; let c ← pt; pure (.triangle a b c)
    | "GC" => do let gs ← counted (geomG raw fuel); pure (.collection gs)
    | _ => fail

/-- An *input* geometry: the text goes through the constructors (rings closed, Rect corners
normalised), exactly as in the harness-side parser. -/
def geometry : P Geom := geomG false 8

/-- An *output* of the implementation: taken exactly as written, never repaired. -/
def rawGeometry : P Geom := geomG true 8

/-- Everything up to (not including) the `=>` separator; consumes the separator. -/
def untilArrow : P (List String) := fun ts =>
  let rec go (acc : List String) : List String → Option (List String × List String)
    | [] => none
    | t :: rest => if t = "=>" then some (acc.reverse, rest) else go (t :: acc) rest
  go [] ts

def run {α} (p : P α) (ts : List String) : Option α :=
  match p ts with
  | some (a, rest) => if atEnd rest then some a else none
  | none => none

def runPrefix {α} (p : P α) (ts : List String) : Option (α × List String) := p ts

end P

/-- Split a protocol line into tokens. -/
def tokens (line : String) : List String :=
  (line.trimAscii.toString.splitOn " ").filter (· ≠ "")

/-- Split tokens at `=>` into (input tokens, output tokens). -/
def splitArrow (ts : List String) : Option (List String × List String) :=
  let rec go (acc : List String) : List String → Option (List String × List String)
    | [] => none
    | t :: rest => if t = "=>" then some (acc.reverse, rest) else go (t :: acc) rest
  go [] ts

/-- Reply lines. First token: `AGREE` (model output = implementation output), `DIFF`,
`SKIP <reason>` (outside the property's domain or a rounding near-tie; counted) or `ERR`.
Second token `prop=PASS|FAIL:<clause>`: the verdict of the property checker evaluated on the
*implementation's* output (independent of whether the model agrees). Then free-form class
tags (`k=v`), and for `DIFF` the two values at the end of the line. -/
def oneLine (s : String) : String := String.ofList (s.toList.map (fun c => if c == '\n' || c == '\r' then ' ' else c))

def reply (same : Bool) (prop : String) (cls : String := "") (model impl : String := "") : String :=
  oneLine <| (if same then "AGREE" else "DIFF") ++ " prop=" ++ prop ++
    (if cls = "" then "" else " " ++ cls) ++
    (if same then "" else " model=[" ++ model ++ "] impl=[" ++ impl ++ "]")

def skip (why : String) : String := "SKIP " ++ why

end Geo
