/-
  GeoModel.Area — C05: planar area of every geometry type, over exact rationals.

  Anchors: geo/src/algorithm/area.rs (`twice_signed_ring_area`, `get_linestring_area`,
           `impl Area for {Polygon, MultiPolygon, Rect, Triangle, Geometry, GeometryCollection}`),
           geo-types/src/geometry/line.rs (`Line::determinant`),
           geo-types/src/geometry/{rect,triangle}.rs (`width`, `height`, `to_lines`, `to_polygon`).

  The *model* functions mirror the code as written (early returns, the conditioning shift to the
  first vertex, left folds, `abs` of every hole, sign taken from the exterior). The *specification*
  functions (`shoelace2`, `specRing`, `specPoly`, `specSigned`, …) are the textbook formulas without
  any shift; the theorems in GeoProofs/Props/C05.lean connect the two, and the driver evaluates the
  specification on the implementation's own output.
-/
import GeoModel.Geom

namespace Geo

/-- `Line::determinant`: `start.x * end.y - start.y * end.x`. -/
def det (a b : Pt) : Rat := a.x * b.y - a.y * b.x

/-- The determinants `line.map_coords(|c| c - shift).determinant()` of `linestring.lines()`
(`windows(2)`), in order. -/
def shiftedDets (s : Pt) : List Pt → List Rat
  | a :: b :: rest => det (a - s) (b - s) :: shiftedDets s (b :: rest)
  | _ => []

/-- `twice_signed_ring_area`: fewer than 3 coordinates ⇒ 0; open ⇒ 0; otherwise the left fold
`tmp = tmp + det` over the lines shifted by the first coordinate. -/
def twiceSignedRingArea (r : List Pt) : Rat :=
  if r.length < 3 then 0
  else if r.head? ≠ r.getLast? then 0
  else match r with
    | [] => 0
    | s :: _ => (shiftedDets s r).foldl (· + ·) 0

/-- `get_linestring_area` -/
def ringArea (r : List Pt) : Rat := twiceSignedRingArea r / 2

/-- `impl Area for Polygon`: `signed_area`. -/
def Poly.signedArea (p : Poly) : Rat :=
  let area := ringArea p.ext
  let isNegative := area < 0
  let area := p.ints.foldl (fun total next => total - rabs (ringArea next)) (rabs area)
  if isNegative then -area else area

def Poly.unsignedArea (p : Poly) : Rat := rabs p.signedArea

/-- `impl Area for MultiPolygon` -/
def multiPolySigned (ps : List Poly) : Rat :=
  ps.foldl (fun total next => total + next.signedArea) 0

def multiPolyUnsigned (ps : List Poly) : Rat :=
  ps.foldl (fun total next => total + rabs next.signedArea) 0

/-- `impl Area for Rect`: `width() * height()` for both. -/
def rectArea (mn mx : Pt) : Rat := (mx.x - mn.x) * (mx.y - mn.y)

/-- `impl Area for Triangle` (after the `fix:` commit: determinants of `to_lines()` shifted to the
first vertex), left fold from zero, halved. -/
def triSignedArea (a b c : Pt) : Rat :=
  (((0 + det (a - a) (b - a)) + det (b - a) (c - a)) + det (c - a) (a - a)) / 2

def triUnsignedArea (a b c : Pt) : Rat := rabs (triSignedArea a b c)

mutual
/-- `impl Area for Geometry` (delegation) and `GeometryCollection` (left fold of the members). -/
def signedArea : Geom → Rat
  | .point _ => 0
  | .line _ _ => 0
  | .lineString _ => 0
  | .polygon p => p.signedArea
  | .multiPoint _ => 0
  | .multiLineString _ => 0
  | .multiPolygon ps => multiPolySigned ps
  | .rect mn mx => rectArea mn mx
  | .triangle a b c => triSignedArea a b c
  | .collection gs => signedAreaFold 0 gs
def signedAreaFold (acc : Rat) : List Geom → Rat
  | [] => acc
  | g :: gs => signedAreaFold (acc + signedArea g) gs
end

mutual
def unsignedArea : Geom → Rat
  | .point _ => 0
  | .line _ _ => 0
  | .lineString _ => 0
  | .polygon p => p.unsignedArea
  | .multiPoint _ => 0
  | .multiLineString _ => 0
  | .multiPolygon ps => multiPolyUnsigned ps
  | .rect mn mx => rectArea mn mx
  | .triangle a b c => triUnsignedArea a b c
  | .collection gs => unsignedAreaFold 0 gs
def unsignedAreaFold (acc : Rat) : List Geom → Rat
  | [] => acc
  | g :: gs => unsignedAreaFold (acc + unsignedArea g) gs
end

/-- `Rect::to_polygon` -/
def rectToPoly (mn mx : Pt) : Poly :=
  ⟨[⟨mx.x, mn.y⟩, ⟨mx.x, mx.y⟩, ⟨mn.x, mx.y⟩, ⟨mn.x, mn.y⟩, ⟨mx.x, mn.y⟩], []⟩

/-- `Triangle::to_polygon` -/
def triToPoly (a b c : Pt) : Poly := ⟨[a, b, c, a], []⟩

/-! ### Specification: the shoelace formula, no shift, no special cases -/

/-- `Σ (xᵢ·yᵢ₊₁ − yᵢ·xᵢ₊₁)` over consecutive pairs: twice the signed area enclosed by a closed
coordinate list. -/
def shoelace2 : List Pt → Rat
  | a :: b :: rest => det a b + shoelace2 (b :: rest)
  | _ => 0

def specRing (r : List Pt) : Rat := shoelace2 r / 2

def sumRat : List Rat → Rat
  | [] => 0
  | a :: t => a + sumRat t

/-- shoelace area of the exterior minus that of the holes (each by magnitude), signed like the
exterior. -/
def specPoly (p : Poly) : Rat :=
  let m := rabs (specRing p.ext) - sumRat (p.ints.map (fun h => rabs (specRing h)))
  if specRing p.ext < 0 then -m else m

mutual
def specSigned : Geom → Rat
  | .polygon p => specPoly p
  | .multiPolygon ps => sumRat (ps.map specPoly)
  | .rect mn mx => specPoly (rectToPoly mn mx)
  | .triangle a b c => specPoly (triToPoly a b c)
  | .collection gs => specSignedList gs
  | _ => 0
def specSignedList : List Geom → Rat
  | [] => 0
  | g :: gs => specSigned g + specSignedList gs
end

mutual
def specUnsigned : Geom → Rat
  | .polygon p => rabs (specPoly p)
  | .multiPolygon ps => sumRat (ps.map (fun p => rabs (specPoly p)))
  | .rect mn mx => rabs (specPoly (rectToPoly mn mx))
  | .triangle a b c => rabs (specPoly (triToPoly a b c))
  | .collection gs => specUnsignedList gs
  | _ => 0
def specUnsignedList : List Geom → Rat
  | [] => 0
  | g :: gs => specUnsigned g + specUnsignedList gs
end

end Geo
