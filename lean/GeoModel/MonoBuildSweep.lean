/-
  GeoModel.MonoBuildSweep — C10: the planar sweep underneath `monotone_subdivision`, mirrored
  operation by operation (`none` = the code panics).

  Anchors: geo/src/algorithm/sweep/point.rs        (`SweepPoint::cmp`, after fix 52d2d6ad)
           geo/src/algorithm/sweep/line_or_point.rs (`LineOrPoint::{from, left, right, orient2d, partial_cmp}`)
           geo/src/algorithm/sweep/events.rs        (`Event::cmp`, `EventType` declaration order)
           geo/src/algorithm/sweep/active.rs        (`Active::cmp`: `partial_cmp` or panic)
           geo/src/algorithm/sweep/vec_set.rs       (`index_of`, `index_not_of`, `insert_at`, `remove_at`, `partition_point`)
           geo/src/algorithm/monotone/segment.rs    (`RcSegment::{split_at, events}`)
           geo/src/algorithm/monotone/sweep.rs      (`SimpleSweep::{new, next_point, handle_event,
                                                     prev_active_from_geom, check_interior_intersection}`)
           std (Rust 1.95): `BinaryHeap::{push, pop, extend}`, `slice::{binary_search_by, partition_point}`,
           `slice::sort_by` for at most 20 elements (insertion sort) — mirrored probe for probe because a
           comparison that cannot be made panics, so *which* comparisons are made is observable.

  Representation. `Rc<RefCell<Segment>>` is an index into the segment store `St.segs` (segments are only
  ever added; `split_at` rewrites the line of the old one and appends the new one, whose payload is a
  *copy* of the old payload at that moment, as `Info: Clone` on `Cell`s copies the values). Events, the
  active set and the builder's `incoming` / `outgoing` vectors hold indices, so the aliasing of the
  Rust code (a payload written through one handle is seen through all) is reproduced exactly.
  Exact rationals; `orient` is `Geo.orient` (`RobustKernel::orient2d` = sign of the exact determinant).
-/
import GeoModel.MonoPoly

namespace Geo.MonoBuild
open Geo Geo.Mono

/-! ### `LineOrPoint` -/

/-- `LineOrPoint<T>`; `SweepPoint` is `Pt` ordered by `lexLt` (`SweepPoint::cmp`: `x`, then `y`;
equal ordinates compare equal) -/
inductive LoP where
  | point (p : Pt)
  | line (l r : Pt)
  deriving DecidableEq, Repr, Inhabited

/-- `From<(SweepPoint, SweepPoint)>`: `match start.cmp(&end)` -/
def LoP.from (a b : Pt) : LoP :=
  if lexLt a b then .line a b else if a == b then .point a else .line b a

def LoP.isLine : LoP → Bool
  | .line _ _ => true
  | .point _ => false

def LoP.left : LoP → Pt
  | .point p => p
  | .line l _ => l

def LoP.right : LoP → Pt
  | .point p => p
  | .line _ r => r

/-- `LineOrPoint::orient2d(other)` -/
def LoP.orient (s : LoP) (c : Pt) : Ori := Geo.orient s.left s.right c

/-- `Orientation::as_ordering` -/
def ordOf : Ori → Ordering
  | .ccw => .lt
  | .cw => .gt
  | .col => .eq

/-- the `(Line, Point)` arm of `LineOrPoint::partial_cmp` -/
def linePointCmp (l r p : Pt) : Option Ordering :=
  if lexLt r p || lexLt p l then none
  else some ((ordOf (Geo.orient l r p)).then .gt)

/-- the `(Line, Line)` arm below its `left_a > left_b` swap -/
def lineLineCmp (la ra lb rb : Pt) : Option Ordering :=
  if !(lexLt la rb) || !(lexLt lb ra) then none
  else some ((ordOf (Geo.orient la ra lb)).then (ordOf (Geo.orient la ra rb)))

/-- `impl PartialOrd for LineOrPoint` -/
def LoP.cmp? : LoP → LoP → Option Ordering
  | .point p, .point o => if p == o then some .eq else none
  | .point p, .line l r => (linePointCmp l r p).map Ordering.swap
  | .line l r, .point p => linePointCmp l r p
  | .line la ra, .line lb rb =>
    if lexLt lb la then (lineLineCmp lb rb la ra).map Ordering.swap
    else lineLineCmp la ra lb rb

/-- `a < b` through `partial_cmp` (incomparable = false, no panic) -/
def LoP.lt (a b : LoP) : Bool := a.cmp? b == some .lt
/-- `a > b` through `partial_cmp` -/
def LoP.gt (a b : LoP) : Bool := a.cmp? b == some .gt

/-! ### Segments and events -/

/-- `builder.rs`: `struct Info` (four `Cell`s), `Default` -/
structure Info where
  nextIsInside : Bool := false
  helperChain : Option Nat := none
  help : Option (Nat × Nat) := none
  chainIdx : Nat := 0
  deriving DecidableEq, Repr, Inhabited

/-- `Segment<T, Info>` -/
structure Seg where
  line : LoP
  info : Info
  deriving DecidableEq, Repr, Inhabited

/-- `EventType`, declaration order = `derive(Ord)` order -/
inductive EvTy where
  | pointLeft
  | lineRight
  | lineLeft
  | pointRight
  deriving DecidableEq, Repr, Inhabited

def EvTy.rank : EvTy → Nat
  | .pointLeft => 0
  | .lineRight => 1
  | .lineLeft => 2
  | .pointRight => 3

/-- `Event<T, RcSegment>`; `seg` indexes the segment store -/
structure Ev where
  pt : Pt
  ty : EvTy
  seg : Nat
  deriving DecidableEq, Repr, Inhabited

/-- the sweep order of events: `point.cmp(..).then_with(ty.cmp(..))` *before* the `.reverse()` -/
def Ev.keyLt (a b : Ev) : Bool := lexLt a.pt b.pt || (a.pt == b.pt && a.ty.rank < b.ty.rank)

/-- `Event::cmp` is the reversed key order (for the max-heap): `a <= b` -/
def Ev.le (a b : Ev) : Bool := !(a.keyLt b)
/-- `a < b` in `Event::cmp` -/
def Ev.lt (a b : Ev) : Bool := b.keyLt a

/-! ### `std::collections::BinaryHeap<Event>` (same mirror as `GeoModel/Simplify.lean`, on `Ev`) -/

abbrev Heap := List Ev

/-- `sift_up(start, pos)` with the hole element `elt` held out of the vector -/
def siftUpGo (elt : Ev) (start : Nat) : Nat → Heap → Nat → Heap
  | 0, d, pos => d.set pos elt
  | f + 1, d, pos =>
    if pos > start then
      let parent := (pos - 1) / 2
      match d[parent]? with
      | none => d.set pos elt
      | some p =>
        if elt.le p then d.set pos elt
        else siftUpGo elt start f (d.set pos p) parent
    else d.set pos elt

def siftUp (d : Heap) (start pos : Nat) : Heap :=
  match d[pos]? with
  | none => d
  | some elt => siftUpGo elt start (pos + 1) d pos

/-- `sift_down_range(pos, end)` -/
def siftDownGo (elt : Ev) (en : Nat) : Nat → Heap → Nat → Heap
  | 0, d, pos => d.set pos elt
  | f + 1, d, pos =>
    let child := 2 * pos + 1
    if child ≤ en - 2 then
      match d[child]?, d[child + 1]? with
      | some c0, some c1 =>
        let child' := if c0.le c1 then child + 1 else child
        let c := if c0.le c1 then c1 else c0
        if c.le elt then d.set pos elt
        else siftDownGo elt en f (d.set pos c) child'
      | _, _ => d.set pos elt
    else
      match d[child]? with
      | some c =>
        if child = en - 1 ∧ elt.lt c then (d.set pos c).set child elt else d.set pos elt
      | none => d.set pos elt

def siftDown (d : Heap) (pos : Nat) : Heap :=
  match d[pos]? with
  | none => d
  | some elt => siftDownGo elt d.length d.length d pos

/-- the descent of `sift_down_to_bottom`: the vector with the hole moved to a leaf, and the leaf -/
def toBottomGo (en : Nat) : Nat → Heap → Nat → Heap × Nat
  | 0, d, pos => (d, pos)
  | f + 1, d, pos =>
    let child := 2 * pos + 1
    if child ≤ en - 2 then
      match d[child]?, d[child + 1]? with
      | some c0, some c1 =>
        let child' := if c0.le c1 then child + 1 else child
        let c := if c0.le c1 then c1 else c0
        toBottomGo en f (d.set pos c) child'
      | _, _ => (d, pos)
    else
      match d[child]? with
      | some c => if child = en - 1 then (d.set pos c, child) else (d, pos)
      | none => (d, pos)

/-- `sift_down_to_bottom(0)` -/
def siftDownToBottom (d : Heap) : Heap :=
  match d[0]? with
  | none => d
  | some elt =>
    let r := toBottomGo d.length d.length d 0
    siftUpGo elt 0 (r.2 + 1) r.1 r.2

/-- `BinaryHeap::pop` -/
def heapPop (d : Heap) : Option (Ev × Heap) :=
  match d.getLast? with
  | none => none
  | some item =>
    let d' := d.dropLast
    match d'.head? with
    | none => some (item, d')
    | some top => some (top, siftDownToBottom (d'.set 0 item))

/-- `BinaryHeap::push` -/
def heapPush (d : Heap) (item : Ev) : Heap := siftUp (d ++ [item]) 0 d.length

/-- `rebuild`: `n = len / 2; while n > 0 { n -= 1; sift_down(n) }` -/
def rebuildGo : Nat → Heap → Heap
  | 0, d => d
  | n + 1, d => rebuildGo n (siftDown d n)

/-- `BinaryHeap::extend([a, b])`: the two items are appended and `rebuild_tail(start)` runs. With
`tail_len = 2` its `better_to_rebuild` is `start < 2` (otherwise `2·len < 2·log2(start)` for `len ≤ 2048`
resp. `2·len < 22` — both false), so: a full `rebuild` for `start < 2`, else `sift_up(0, i)` for the two
new positions in order. -/
def heapExtend2 (d : Heap) (a b : Ev) : Heap :=
  let v := d ++ [a, b]
  if d.length < 2 then rebuildGo (v.length / 2) v
  else siftUp (siftUp v 0 d.length) 0 (d.length + 1)

/-! ### `slice::binary_search_by`, `partition_point`, small `sort_by` -/

/-- result of `binary_search_by`: `Ok(i)` / `Err(i)` -/
inductive BsRes where
  | found (i : Nat)
  | notFound (i : Nat)
  deriving DecidableEq, Repr

/-- the loop `while size > 1 { half = size/2; mid = base+half; base = if f(mid) == Greater {base} else {mid}; size -= half }`;
`f i = none`: the comparison panics -/
def bsLoop (f : Nat → Option Ordering) : Nat → Nat → Nat → Option Nat
  | 0, _, base => some base
  | fuel + 1, size, base =>
    if size > 1 then
      let half := size / 2
      let mid := base + half
      match f mid with
      | none => none
      | some c => bsLoop f fuel (size - half) (if c == .gt then base else mid)
    else some base

/-- `slice::binary_search_by` on a slice of length `n`; `f i` is the comparator applied to element `i` -/
def binarySearchBy (n : Nat) (f : Nat → Option Ordering) : Option BsRes :=
  if n == 0 then some (.notFound 0) else
  match bsLoop f n n 0 with
  | none => none
  | some base =>
    match f base with
    | none => none
    | some .eq => some (.found base)
    | some .lt => some (.notFound (base + 1))
    | some .gt => some (.notFound base)

/-- `slice::partition_point(pred)` = `binary_search_by(|x| if pred(x) { Less } else { Greater }).unwrap_or_else(|i| i)` -/
def partitionPointBy (n : Nat) (pred : Nat → Bool) : Nat :=
  match binarySearchBy n (fun i => some (if pred i then .lt else .gt)) with
  | some (.found i) => i
  | some (.notFound i) => i
  | none => 0

/-- insertion of the tail element `x` into the sorted prefix, held reversed (head = the element just before
the tail): `while j > 0 && is_less(x, v[j-1])` with `is_less(a, b) = (cmp(a, b).unwrap() == Less)` -/
def insRev (cmp : Nat → Nat → Option Ordering) (x : Nat) : List Nat → Option (List Nat)
  | [] => some [x]
  | y :: ys =>
    match cmp x y with
    | none => none
    | some .lt => (insRev cmp x ys).map (y :: ·)
    | some _ => some (x :: y :: ys)

def sortGo (cmp : Nat → Nat → Option Ordering) : List Nat → List Nat → Option (List Nat)
  | [], acc => some acc.reverse
  | x :: xs, acc =>
    match insRev cmp x acc with
    | none => none
    | some acc' => sortGo cmp xs acc'

/-- `v.sort_by(|a, b| cmp(a, b).unwrap())` for `v.len() ≤ 20` (std: `insertion_sort_shift_left(v, 1, ..)`) -/
def sortBy (cmp : Nat → Nat → Option Ordering) (v : List Nat) : Option (List Nat) := sortGo cmp v []

/-! ### The sweep state -/

/-- `Chain<T>(LineString<T>)` slot of `Builder::chains: Vec<Option<Chain>>` -/
abbrev ChainSlot := Option (List Pt)

/-- `Builder` + `SimpleSweep`, and the two vectors local to `process_next_pt` that the event callback fills -/
structure St where
  segs : List Seg
  events : Heap
  active : List Nat
  chains : List ChainSlot
  outputs : List MonoPoly
  incoming : List Nat
  outgoing : List Nat
  deriving Repr, Inhabited

def St.lineOf (st : St) (i : Nat) : Option LoP := (st.segs[i]?).map (·.line)
def St.infoOf (st : St) (i : Nat) : Option Info := (st.segs[i]?).map (·.info)

/-- `RcSegment::partial_cmp` → `Segment::partial_cmp` → `LineOrPoint::partial_cmp` -/
def St.segCmp? (st : St) (a b : Nat) : Option Ordering :=
  match st.lineOf a, st.lineOf b with
  | some la, some lb => la.cmp? lb
  | _, _ => none

/-- `Active::cmp(active[i], segment)`; `none` = "unable to compare active segments!" -/
def St.activeCmp (st : St) (seg : Nat) (i : Nat) : Option Ordering :=
  match st.active[i]? with
  | some a => st.segCmp? a seg
  | none => none

/-- `VecSet::index_of`: `binary_search(..).expect("segment not found in active-vec-set")` -/
def St.indexOf (st : St) (seg : Nat) : Option Nat :=
  match binarySearchBy st.active.length (st.activeCmp seg) with
  | some (.found i) => some i
  | _ => none

/-- `VecSet::index_not_of`: `binary_search(..).expect_err("segment already found in active-vec-set")` -/
def St.indexNotOf (st : St) (seg : Nat) : Option Nat :=
  match binarySearchBy st.active.length (st.activeCmp seg) with
  | some (.notFound i) => some i
  | _ => none

/-- `Vec::insert(idx, x)` (panics for `idx > len`) -/
def insertAt (l : List Nat) (idx : Nat) (x : Nat) : Option (List Nat) :=
  if idx ≤ l.length then some (l.take idx ++ x :: l.drop idx) else none

/-- `RcSegment::events()` -/
def St.eventsOf (st : St) (i : Nat) : Option (Ev × Ev) :=
  match st.lineOf i with
  | none => none
  | some g =>
    some (⟨g.left, if g.isLine then .lineLeft else .pointLeft, i⟩,
          ⟨g.right, if g.isLine then .lineRight else .pointRight, i⟩)

/-- `RcSegment::split_at(pt)`: the segment keeps its left part, a new segment (new index, copied payload)
gets `pt .. right`; returns the new index -/
def St.splitAt (st : St) (i : Nat) (pt : Pt) : Option (St × Nat) :=
  match st.segs[i]? with
  | none => none
  | some s =>
    let right := s.line.right
    let s' : Seg := { s with line := LoP.from s.line.left pt }
    let nw : Seg := { line := LoP.from pt right, info := s.info }
    some ({ st with segs := st.segs.set i s' ++ [nw] }, st.segs.length)

/-- `enum SplitResult` -/
inductive Split where
  | a (p : Pt)
  | b (p : Pt)
  | none
  deriving DecidableEq, Repr

/-- `SimpleSweep::check_interior_intersection` -/
def checkInterior (la lb : LoP) : Split :=
  let lal := la.left
  let lar := la.right
  let lbl := lb.left
  let lbr := lb.right
  if lexLt lal lbl && lexLt lbl lar && la.orient lbl == .col then .a lbl
  else if lexLt lal lbr && lexLt lbr lar && la.orient lbr == .col then .a lbr
  else if lexLt lbl lal && lexLt lal lbr && lb.orient lal == .col then .b lal
  else if lexLt lbl lar && lexLt lar lbr && lb.orient lar == .col then .b lar
  else .none

/-- the `match split { … }` of `handle_event`: split `which`, push the right event of the shortened segment,
extend with the two events of the new one -/
def St.applySplit (st : St) (act seg : Nat) : Split → Option St
  | .none => some st
  | .a pt =>
    match st.splitAt act pt with
    | none => none
    | some (st, nw) =>
      match st.eventsOf act, st.eventsOf nw with
      | some (_, ev), some (e1, e2) => some { st with events := heapExtend2 (heapPush st.events ev) e1 e2 }
      | _, _ => none
  | .b pt =>
    match st.splitAt seg pt with
    | none => none
    | some (st, nw) =>
      match st.eventsOf seg, st.eventsOf nw with
      | some (_, ev), some (e1, e2) => some { st with events := heapExtend2 (heapPush st.events ev) e1 e2 }
      | _, _ => none

/-- `Chain::fix_top(pt)`: `*last_mut().unwrap() = pt` -/
def fixTop (c : List Pt) (pt : Pt) : Option (List Pt) :=
  match c.getLast? with
  | none => none
  | some _ => some (c.dropLast ++ [pt])

/-- `self.chains[i].as_mut().unwrap()` then `f`; index out of range, an empty slot, or `f = none` panic -/
def St.modifyChain (st : St) (i : Nat) (f : List Pt → Option (List Pt)) : Option St :=
  match st.chains[i]? with
  | some (some c) =>
    match f c with
    | some c' => some { st with chains := st.chains.set i (some c') }
    | none => none
  | _ => none

/-- the closure that `Builder::process_next_pt` hands to `next_point` -/
def St.onEvent (st : St) (ev : Ev) : Option St :=
  match ev.ty with
  | .lineRight =>
    match st.segs[ev.seg]? with
    | none => none
    | some s =>
      let rt := s.line.right
      ({ st with incoming := st.incoming ++ [ev.seg] }).modifyChain s.info.chainIdx (fun c => fixTop c rt)
  | .lineLeft =>
    -- `seg.payload().help.set(None); seg.payload().helper_chain.set(None); outgoing.push(seg)` (fix of C10-K2:
    -- the right part of a split segment starts with a copy of the payload of the segment it was cut from)
    match st.segs[ev.seg]? with
    | none => none
    | some s =>
      some { st with segs := st.segs.set ev.seg { s with info := { s.info with help := none, helperChain := none } },
                     outgoing := st.outgoing ++ [ev.seg] }
  | _ => none   -- unreachable!("unexpected event type")

/-! ### `handle_event` and `next_point` -/

mutual
/-- `SimpleSweep::handle_event(event, cb)`; the fuel bounds the nesting of events handled from inside a
`LineLeft` event (every nested call pops an event) -/
def handleEvent : Nat → St → Ev → Option St
  | 0, _, _ => none
  | fuel + 1, st, ev =>
    match st.lineOf ev.seg with
    | none => none
    | some ln =>
      -- spurious events left over from adjusting a segment
      if ev.pt != ln.left && ev.pt != ln.right then some st else
      match ev.ty with
      | .lineLeft =>
        match st.indexNotOf ev.seg with
        | none => none
        | some idx =>
          match neighbour fuel st ev false idx with
          | none => none
          | some (st, idx) =>
            match neighbour fuel st ev true idx with
            | none => none
            | some (st, idx) =>
              match insertAt st.active idx ev.seg with
              | none => none
              | some act => ({ st with active := act }).onEvent ev
      | .lineRight =>
        match st.indexOf ev.seg with
        | none => none
        | some idx =>
          -- the `check_interior_intersection(prev, next)` that follows has no effect: its result is dropped
          ({ st with active := st.active.eraseIdx idx }).onEvent ev
      | _ => st.onEvent ev

/-- one round of `for is_next in [false, true]` -/
def neighbour : Nat → St → Ev → Bool → Nat → Option (St × Nat)
  | 0, _, _, _, _ => none
  | fuel + 1, st, ev, isNext, idx =>
    let pos? : Option Nat :=
      if !isNext then (if idx > 0 then some (idx - 1) else none)
      else (if idx < st.active.length then some idx else none)
    match pos? with
    | none => some (st, idx)          -- `continue`
    | some pos =>
      match st.active[pos]? with
      | none => none
      | some act =>
        match st.lineOf act, st.lineOf ev.seg with
        | some la, some lb =>
          match st.applySplit act ev.seg (checkInterior la lb) with
          | none => none
          | some st => drain fuel st ev isNext idx
        | _, _ => none

/-- `while self.events.peek().unwrap() > &event { pop; handle_event; if !is_next { idx -= 1 } }`.
`idx -= 1` at `idx = 0` wraps (release build); every later use of `idx` then panics (`idx < len` fails for the
second round, `Vec::insert` panics), so the model answers `none` at once. -/
def drain : Nat → St → Ev → Bool → Nat → Option (St × Nat)
  | 0, _, _, _, _ => none
  | fuel + 1, st, ev, isNext, idx =>
    match st.events.head? with
    | none => none
    | some top =>
      if top.keyLt ev then
        match heapPop st.events with
        | none => none
        | some (e, evs) =>
          match handleEvent fuel { st with events := evs } e with
          | none => none
          | some st =>
            if isNext then drain fuel st ev isNext idx
            else if idx == 0 then none
            else drain fuel st ev isNext (idx - 1)
      else some (st, idx)
end

/-- the loop of `next_point` once the point is known: pop, handle, stop when the next event is elsewhere -/
def nextPointLoop (hfuel : Nat) (pt : Pt) : Nat → St → Option St
  | 0, _ => none
  | fuel + 1, st =>
    match heapPop st.events with
    | none => none
    | some (e, evs) =>
      match handleEvent hfuel { st with events := evs } e with
      | none => none
      | some st =>
        if (st.events.head?).map (·.pt) != some pt then some st
        else nextPointLoop hfuel pt fuel st

/-- `SimpleSweep::next_point`: the state after all events at the next point, and the point -/
def nextPoint (fuel : Nat) (st : St) : Option (St × Option Pt) :=
  match st.events.head? with
  | none => some (st, none)
  | some e =>
    match nextPointLoop fuel e.pt fuel st with
    | none => none
    | some st => some (st, some e.pt)

/-- `SimpleSweep::prev_active_from_geom(pt.into())` -/
def St.prevActive (st : St) (pt : Pt) : Option Nat :=
  let part := partitionPointBy st.active.length (fun i =>
    match st.active[i]? with
    | some a => (match st.lineOf a with | some l => l.lt (.point pt) | none => false)
    | none => false)
  if part == 0 then none else st.active[part - 1]?

end Geo.MonoBuild
