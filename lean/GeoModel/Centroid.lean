/-
  GeoModel.Centroid — C06: the centroid accumulator of geo, over exact rationals.

  Anchors: geo/src/algorithm/centroid.rs (`WeightedCentroid`, `CentroidOperation` and the
           per-type `Centroid` impls), geo/src/algorithm/area.rs (`get_linestring_area`,
           `Rect/Triangle::unsigned_area`), geo/src/algorithm/dimensions.rs
           (`Line/LineString/Rect/Triangle::dimensions`, `is_empty`),
           geo/src/algorithm/line_measures/length.rs (`Euclidean.length(line)` — enters only
           through the parameter `len`).

  Two parts:
  * the *operational model* (`addGeom`, `centroid`): one Lean function per Rust method, same
    branch order, same early returns, state threaded explicitly (`Op = Option WC`);
  * the *specification* (`atoms`, `centroidSpec`): a stateless flat list of contributions
    (dimension, weight, centre) written with the textbook (unshifted) ring formulas, and the
    rule "weighted mean of the contributions of maximal dimension".
  The theorems in GeoProofs/Props/C06.lean tie the two together.

  `Dimensions` is encoded as a `Nat` rank: Empty = 0, ZeroDimensional = 1, OneDimensional = 2,
  TwoDimensional = 3 (the `derive(Ord)` order).
-/
import GeoModel.Geom
import GeoModel.Traverse

namespace Geo.Cen
open Geo

/-! ### small vector helpers -/

def zeroPt : Pt := ⟨0, 0⟩

/-- `coord / t` -/
def Pt.divS (p : Pt) (t : Rat) : Pt := ⟨p.x / t, p.y / t⟩

/-- `Line::centroid`: `(start + end) / 2` -/
def mid (a b : Pt) : Pt := Pt.divS (a + b) 2

/-- `Line::determinant`: `start.x * end.y - start.y * end.x` -/
def det (a b : Pt) : Rat := a.x * b.y - a.y * b.x

def sumR : List Rat → Rat
  | [] => 0
  | x :: xs => x + sumR xs

def sumP : List Pt → Pt
  | [] => zeroPt
  | p :: ps => p + sumP ps

/-! ### WeightedCentroid -/

/-- `struct WeightedCentroid { weight, accumulated, dimensions }` -/
structure WC where
  dim : Nat
  weight : Rat
  acc : Pt
  deriving DecidableEq, Repr, Inhabited

/-- `WeightedCentroid::add_assign`: `Less => *self = b`, `Greater => {}`, `Equal => add`. -/
def WC.addAssign (a b : WC) : WC :=
  if a.dim < b.dim then b
  else if b.dim < a.dim then a
  else ⟨a.dim, a.weight + b.weight, a.acc + b.acc⟩

/-- `WeightedCentroid::sub_assign`: `Less => *self = b` (sic), `Greater => {}`, `Equal => subtract`. -/
def WC.subAssign (a b : WC) : WC :=
  if a.dim < b.dim then b
  else if b.dim < a.dim then a
  else ⟨a.dim, a.weight - b.weight, a.acc - b.acc⟩

/-- `struct CentroidOperation(Option<WeightedCentroid>)` -/
abbrev Op := Option WC

/-- `CentroidOperation::centroid`: `accumulated / weight` -/
def Op.centroid (o : Op) : Option Pt := o.map (fun w => Pt.divS w.acc w.weight)

/-- `CentroidOperation::centroid_dimensions` (`Empty` when nothing was added) -/
def Op.dims : Op → Nat
  | none => 0
  | some w => w.dim

/-- `add_weighted_centroid` -/
def addWC (o : Op) (w : WC) : Op :=
  match o with
  | some c => some (c.addAssign w)
  | none => some w

/-- `add_centroid(dimensions, centroid, weight)`: accumulates `centroid * weight`. -/
def addCentroid (o : Op) (d : Nat) (c : Pt) (w : Rat) : Op := addWC o ⟨d, w, Pt.smul w c⟩

/-- `add_coord` -/
def addCoord (o : Op) (c : Pt) : Op := addCentroid o 1 c 1

/-- `add_line`: a zero-length line is a point, otherwise midpoint weighted by length. -/
def addLine (len : Pt → Pt → Rat) (o : Op) (a b : Pt) : Op :=
  if a = b then addCoord o a else addCentroid o 2 (mid a b) (len a b)

def addLines (len : Pt → Pt → Rat) (o : Op) (ls : List (Pt × Pt)) : Op :=
  ls.foldl (fun o l => addLine len o l.1 l.2) o

/-- `add_line_string`: early return under a 2-D accumulator; a single coordinate is a point. -/
def addLineString (len : Pt → Pt → Rat) (o : Op) (cs : List Pt) : Op :=
  if o.dims > 2 then o
  else match cs with
    | [c] => addCoord o c
    | _ => addLines len o (windows2 cs)

/-- `add_multi_line_string` -/
def addMultiLineString (len : Pt → Pt → Rat) (o : Op) (ls : List (List Pt)) : Op :=
  if o.dims > 2 then o else ls.foldl (addLineString len) o

/-- `add_multi_point`: early return when the accumulator is already above dimension 0. -/
def addMultiPoint (o : Op) (ps : List Pt) : Op :=
  if o.dims > 1 then o else ps.foldl addCoord o

/-- `LineString::is_closed` for a non-empty list (`first == last`); true for the empty list. -/
def isClosed (r : List Pt) : Bool := r.head? == r.getLast?

/-- `twice_signed_ring_area`: 0 for fewer than 3 coordinates or an open ring; otherwise the sum
of the determinants of the segments *shifted by the first coordinate*. -/
def twiceArea (r : List Pt) : Rat :=
  if r.length < 3 then 0
  else if !isClosed r then 0
  else match r with
    | [] => 0
    | s :: _ => (windows2 r).foldl (fun t l => t + det (l.1 - s) (l.2 - s)) 0

/-- `get_linestring_area` -/
def ringArea (r : List Pt) : Rat := twiceArea r / 2

/-- `LineString::dimensions` -/
def lsDims (cs : List Pt) : Nat :=
  match cs with
  | [] => 0
  | f :: _ => if cs.any (fun c => f ≠ c) then 2 else 1

/-- the shifted moment sum of `add_ring`: `Σ (end' + start') * det(start', end')` -/
def ringAccum (s : Pt) (r : List Pt) : Pt :=
  (windows2 r).foldl (fun acc l =>
    let a := l.1 - s
    let b := l.2 - s
    acc + Pt.smul (det a b) (b + a)) zeroPt

/-- `add_ring` -/
def addRing (len : Pt → Pt → Rat) (o : Op) (r : List Pt) : Op :=
  let area := ringArea r
  if area = 0 then
    match lsDims r with
    | 0 => o
    | 1 => match r with
        | c :: _ => addCoord o c
        | [] => o
    | _ => addLineString len o r
  else
    match r with
    | [] => o
    | s :: _ =>
      let centroid := Pt.divS (ringAccum s r) (6 * area) + s
      addCentroid o 3 centroid (rabs area)

/-- `add_polygon`: exterior and interiors are accumulated in two fresh sub-operations; interiors
that have area are subtracted (rings without area are not holes: they are ignored); a zero
net weight degenerates to the exterior as a line string. -/
def addPolygon (len : Pt → Pt → Rat) (o : Op) (p : Poly) : Op :=
  let ext : Op := addRing len none p.ext
  let int : Op := p.ints.foldl (addRing len) none
  match ext with
  | none => o
  | some e =>
    match int with
    | some i =>
      if i.dim = 3 then
        let pw := e.subAssign i
        if pw.weight = 0 then addLineString len o p.ext else addWC o pw
      else addWC o e
    | none => addWC o e

def addMultiPolygon (len : Pt → Pt → Rat) (o : Op) (ps : List Poly) : Op :=
  ps.foldl (addPolygon len) o

/-- `Rect::dimensions` -/
def rectDims (mn mx : Pt) : Nat :=
  if mn = mx then 1 else if mn.x = mx.x ∨ mn.y = mx.y then 2 else 3

/-- `Rect::center` -/
def rectCenter (mn mx : Pt) : Pt := ⟨(mx.x + mn.x) / 2, (mx.y + mn.y) / 2⟩

/-- `add_rect` -/
def addRect (len : Pt → Pt → Rat) (o : Op) (mn mx : Pt) : Op :=
  match rectDims mn mx with
  | 1 => addCoord o mn
  | 2 =>
    let o := addLine len o mn mn
    let o := addLine len o mn mx
    let o := addLine len o mx mx
    addLine len o mx mn
  | _ => addCentroid o 3 (rectCenter mn mx) ((mx.x - mn.x) * (mx.y - mn.y))

/-- `Triangle::dimensions` (the robust `orient2d` is the sign of the exact determinant). -/
def triDims (a b c : Pt) : Nat :=
  if crossProd a b c = 0 then (if a = b ∧ b = c then 1 else 2) else 3

/-- `Triangle::signed_area`: the cross product of the two edges leaving the first corner, halved. -/
def triArea (a b c : Pt) : Rat := det (b - a) (c - a) / 2

/-- `add_triangle` -/
def addTriangle (len : Pt → Pt → Rat) (o : Op) (a b c : Pt) : Op :=
  match triDims a b c with
  | 1 => addCoord o a
  | 2 =>
    let o := addLine len o a b
    let o := addLine len o b c
    addLine len o c a
  | _ => addCentroid o 3 (Pt.divS (a + b + c) 3) (rabs (triArea a b c))

mutual
/-- `add_geometry` -/
def addGeom (len : Pt → Pt → Rat) (o : Op) : Geom → Op
  | .point p => addCoord o p
  | .line a b => addLine len o a b
  | .lineString cs => addLineString len o cs
  | .polygon p => addPolygon len o p
  | .multiPoint ps => addMultiPoint o ps
  | .multiLineString ls => addMultiLineString len o ls
  | .multiPolygon ps => addMultiPolygon len o ps
  | .rect mn mx => addRect len o mn mx
  | .triangle a b c => addTriangle len o a b c
  | .collection gs => addGeoms len o gs
/-- `add_geometry_collection` -/
def addGeoms (len : Pt → Pt → Rat) (o : Op) : List Geom → Op
  | [] => o
  | g :: gs => addGeoms len (addGeom len o g) gs
end

/-- `Centroid::centroid` on `Geometry` (delegates to the per-type impl; `Point`, `Line` and
`Rect` have closed forms that do not go through `CentroidOperation`). -/
def centroid (len : Pt → Pt → Rat) : Geom → Option Pt
  | .point p => some p
  | .line a b => some (mid a b)
  | .rect mn mx => some (rectCenter mn mx)
  | g => (addGeom len none g).centroid

/-! ### structural coordinate map (used to state translation / scaling) -/

def polyMapG (f : Pt → Pt) (p : Poly) : Poly := ⟨p.ext.map f, p.ints.map (·.map f)⟩

mutual
/-- apply `f` to every stored coordinate, keeping the structure -/
def mapG (f : Pt → Pt) : Geom → Geom
  | .point p => .point (f p)
  | .line a b => .line (f a) (f b)
  | .lineString cs => .lineString (cs.map f)
  | .polygon p => .polygon (polyMapG f p)
  | .multiPoint ps => .multiPoint (ps.map f)
  | .multiLineString ls => .multiLineString (ls.map (·.map f))
  | .multiPolygon ps => .multiPolygon (ps.map (polyMapG f))
  | .rect mn mx => .rect (f mn) (f mx)
  | .triangle a b c => .triangle (f a) (f b) (f c)
  | .collection gs => .collection (mapGList f gs)
def mapGList (f : Pt → Pt) : List Geom → List Geom
  | [] => []
  | g :: gs => mapG f g :: mapGList f gs
end

/-! ### `is_empty` (dimensions.rs) -/

mutual
def isEmpty : Geom → Bool
  | .point _ => false
  | .line _ _ => false
  | .lineString cs => cs.isEmpty
  | .polygon p => p.ext.isEmpty
  | .multiPoint ps => ps.isEmpty
  | .multiLineString ls => ls.all List.isEmpty
  | .multiPolygon ps => ps.all (fun p => p.ext.isEmpty)
  | .rect _ _ => false
  | .triangle _ _ _ => false
  | .collection gs => isEmptyList gs
def isEmptyList : List Geom → Bool
  | [] => true
  | g :: gs => isEmpty g && isEmptyList gs
end

/-! ### Specification: flat contributions and dimension dominance -/

/-- One contribution: its dimension rank (1 point, 2 segment, 3 area), weight and centre. -/
structure Atom where
  dim : Nat
  w : Rat
  c : Pt
  deriving DecidableEq, Repr, Inhabited

def Atom.toWC (a : Atom) : WC := ⟨a.dim, a.w, Pt.smul a.w a.c⟩

/-- a segment: a point of weight 1 if degenerate, else its midpoint weighted by its length -/
def segAtom (len : Pt → Pt → Rat) (a b : Pt) : Atom :=
  if a = b then ⟨1, 1, a⟩ else ⟨2, len a b, mid a b⟩

def lineStringAtoms (len : Pt → Pt → Rat) : List Pt → List Atom
  | [c] => [⟨1, 1, c⟩]
  | cs => (windows2 cs).map (fun l => segAtom len l.1 l.2)

/-- textbook shoelace: twice the signed area of a closed ring with at least 3 coordinates -/
def twiceAreaText (r : List Pt) : Rat :=
  if r.length < 3 then 0
  else if !isClosed r then 0
  else sumR ((windows2 r).map (fun l => det l.1 l.2))

/-- textbook ring centroid `Σ (pᵢ + pᵢ₊₁)·det(pᵢ,pᵢ₊₁) / (6A)`, `A` = signed area -/
def ringCentroidText (r : List Pt) : Pt :=
  Pt.divS (sumP ((windows2 r).map (fun l => Pt.smul (det l.1 l.2) (l.1 + l.2)))) (3 * twiceAreaText r)

/-- a ring on its own: its area if it has one, else its outline, else its single point -/
def ringAtoms (len : Pt → Pt → Rat) (r : List Pt) : List Atom :=
  if twiceAreaText r = 0 then
    match r with
    | [] => []
    | f :: _ => if r.all (fun c => c = f) then [⟨1, 1, f⟩] else lineStringAtoms len r
  else [⟨3, rabs (twiceAreaText r / 2), ringCentroidText r⟩]

/-- a polygon: exterior minus the holes that have area; zero net area ⇒ the exterior outline;
an exterior without area and holes with area ⇒ the holes (positively: this is what
`Polygon::unsigned_area` reports for such a polygon). -/
def polyAtoms (len : Pt → Pt → Rat) (p : Poly) : List Atom :=
  if p.ext.isEmpty then [] else
  let holes := p.ints.filter (fun h => twiceAreaText h ≠ 0)
  if holes.isEmpty then ringAtoms len p.ext
  else if twiceAreaText p.ext = 0 then
    holes.map (fun h => ⟨3, rabs (twiceAreaText h / 2), ringCentroidText h⟩)
  else
    let net := rabs (twiceAreaText p.ext / 2) - sumR (holes.map (fun h => rabs (twiceAreaText h / 2)))
    if net = 0 then lineStringAtoms len p.ext
    else ⟨3, rabs (twiceAreaText p.ext / 2), ringCentroidText p.ext⟩ ::
      holes.map (fun h => ⟨3, -rabs (twiceAreaText h / 2), ringCentroidText h⟩)

def rectAtoms (len : Pt → Pt → Rat) (mn mx : Pt) : List Atom :=
  if mn = mx then [⟨1, 1, mn⟩]
  else if mn.x = mx.x ∨ mn.y = mx.y then
    -- outline there and back, like a flat polygon
    [segAtom len mn mx, segAtom len mx mn]
  else [⟨3, (mx.x - mn.x) * (mx.y - mn.y), rectCenter mn mx⟩]

def triAtoms (len : Pt → Pt → Rat) (a b c : Pt) : List Atom :=
  if crossProd a b c = 0 then
    (if a = b ∧ b = c then [⟨1, 1, a⟩] else [segAtom len a b, segAtom len b c, segAtom len c a])
  else [⟨3, rabs (crossProd a b c) / 2, Pt.divS (a + b + c) 3⟩]

mutual
def atoms (len : Pt → Pt → Rat) : Geom → List Atom
  | .point p => [⟨1, 1, p⟩]
  | .line a b => [segAtom len a b]
  | .lineString cs => lineStringAtoms len cs
  | .polygon p => polyAtoms len p
  | .multiPoint ps => ps.map (fun p => ⟨1, 1, p⟩)
  | .multiLineString ls => (ls.map (lineStringAtoms len)).flatten
  | .multiPolygon ps => (ps.map (polyAtoms len)).flatten
  | .rect mn mx => rectAtoms len mn mx
  | .triangle a b c => triAtoms len a b c
  | .collection gs => atomsList len gs
def atomsList (len : Pt → Pt → Rat) : List Geom → List Atom
  | [] => []
  | g :: gs => atoms len g ++ atomsList len gs
end

def maxDim : List Atom → Nat
  | [] => 0
  | a :: as => max a.dim (maxDim as)

/-- the contributions that count: those of maximal dimension -/
def topAtoms (as : List Atom) : List Atom := as.filter (fun a => a.dim = maxDim as)

/-- weighted mean `Σ wᵢ cᵢ / Σ wᵢ` -/
def weightedMean (as : List Atom) : Pt :=
  Pt.divS (sumP (as.map (fun a => Pt.smul a.w a.c))) (sumR (as.map (·.w)))

/-- The centroid the property describes: none without contributions, else the weighted mean of
the contributions of the highest dimension present. -/
def centroidSpec (len : Pt → Pt → Rat) (g : Geom) : Option Pt :=
  let as := atoms len g
  if as.isEmpty then none else some (weightedMean (topAtoms as))

end Geo.Cen
