/-
  GeoModel.Hull — convex hull: `quick_hull`, `graham_hull`, `trivial_hull`, the `ConvexHull` blanket
  impl, and the exact skeleton of `minimum_rotated_rect`; plus the decidable checker `isStrictHull`.

  Anchors (georust/geo):
    geo/src/algorithm/convex_hull/mod.rs     `trivial_hull`, `swap_with_first_and_remove`, `ConvexHull`
    geo/src/algorithm/convex_hull/qhull.rs   `quick_hull`, `hull_set`, `is_ccw`
    geo/src/algorithm/convex_hull/graham.rs  `graham_hull`
    geo/src/utils.rs                         `partition_slice`, `lex_cmp`, `least_index`,
                                             `least_and_greatest_index`
    geo/src/algorithm/winding_order.rs       `winding_order`, `make_ccw_winding` (LineString)
    geo/src/algorithm/minimum_rotated_rect.rs

  Slices are lists; the in-place permutations (`swap`, `partition_slice`) are mirrored because
  `max_by` breaks ties by position (last maximum), so the order of a slice is observable.

  Numbers: orientation tests are exact for both scalar types (`RobustKernel` for floats,
  `SimpleKernel` on integers without overflow). The *other* arithmetic of the code — the
  farthest-point dot product of `hull_set` and `square_euclidean_distance` in Graham's comparator —
  is evaluated in the scalar type: every model function takes `rnd : Rat → Rat`, the rounding
  applied after each arithmetic operation (`id` for `i64`, `roundF64` for `f64`).
-/
import GeoModel.Orient

namespace Geo.Hull
open Geo

/-! ### binary64 rounding (round to nearest, ties to even; no overflow) -/

/-- round-half-even of a non-negative rational -/
def roundHalfEven (q : Rat) : Int :=
  let f := q.floor
  let r := q - (f : Rat)
  if r < 1 / 2 then f else if r > 1 / 2 then f + 1 else if f % 2 = 0 then f else f + 1

/-- `⌊log2 a⌋` for `a > 0` -/
def floorLog2 (a : Rat) : Int :=
  let k0 : Int := (Nat.log2 a.num.natAbs : Int) - (Nat.log2 a.den : Int)
  if pow2 k0 ≤ a then k0 else k0 - 1

/-- The binary64 value nearest to `q` (subnormals included, overflow not modelled). -/
def roundF64 (q : Rat) : Rat :=
  if q = 0 then 0 else
  let a := rabs q
  let e0 := floorLog2 a - 52
  let e := if e0 < -1074 then -1074 else e0
  let m := roundHalfEven (a / pow2 e)
  let r := (m : Rat) * pow2 e
  if q < 0 then -r else r

/-! ### utils.rs -/

/-- `least_index`: `Iterator::min_by` keeps the *first* minimum. -/
def leastIndexGo : List Pt → Nat → Nat → Pt → Nat
  | [], _, bi, _ => bi
  | q :: t, i, bi, b => if lexLt q b then leastIndexGo t (i + 1) i q else leastIndexGo t (i + 1) bi b

def leastIndex : List Pt → Nat
  | [] => 0
  | p :: t => leastIndexGo t 1 0 p

/-- `least_and_greatest_index`: replaced only on a strict improvement (first least, first greatest). -/
def leastGreatestGo : List Pt → Nat → Nat × Pt → Nat × Pt → Nat × Nat
  | [], _, mn, mx => (mn.1, mx.1)
  | q :: t, i, mn, mx =>
    leastGreatestGo t (i + 1) (if lexLt q mn.2 then (i, q) else mn) (if lexLt mx.2 q then (i, q) else mx)

def leastGreatest : List Pt → Nat × Nat
  | [] => (0, 0)
  | p :: t => leastGreatestGo t 1 (0, p) (0, p)

/-- index of the maximum under `Iterator::max_by` (the *last* maximum). -/
def argmaxLastGo : List Rat → Nat → Nat → Rat → Nat
  | [], _, bi, _ => bi
  | x :: t, i, bi, b => if b ≤ x then argmaxLastGo t (i + 1) i x else argmaxLastGo t (i + 1) bi b

def argmaxLast : List Rat → Nat
  | [] => 0
  | s :: t => argmaxLastGo t 1 0 s

/-- `swap_with_first_and_remove(slice, idx)`: the removed element and the remaining slice. -/
def swapRemove (l : List Pt) (idx : Nat) : Pt × List Pt :=
  match l with
  | [] => (default, [])
  | h :: t => if idx = 0 then (h, t) else (t.getD (idx - 1) h, t.set (idx - 1) h)

/-- `partition_slice` (two-pointer, in place): returns the two sub-slices; their concatenation is
the permuted slice. One round of the Rust loop: `l` skips the leading `pred` elements, `r` the
trailing non-`pred` ones; if they have not met, the elements at `l` and `r` are swapped and the
loop continues strictly inside. -/
def partitionSlice (pred : Pt → Bool) : Nat → List Pt → List Pt × List Pt
  | 0, xs => ([], xs)
  | fuel + 1, xs =>
    let pre := xs.takeWhile pred
    let rest := xs.dropWhile pred
    let rr := rest.reverse
    let suf := (rr.takeWhile (fun p => !pred p)).reverse
    let body := (rr.dropWhile (fun p => !pred p)).reverse
    match body with
    | [] => (pre, rest)
    | f :: body' =>
      match body'.reverse with
      | [] => (pre, rest)
      | t :: innerRev =>
        let r := partitionSlice pred fuel innerRev.reverse
        (pre ++ t :: r.1, r.2 ++ f :: suf)

def partition (pred : Pt → Bool) (xs : List Pt) : List Pt × List Pt :=
  partitionSlice pred (xs.length + 1) xs

/-- `lex_cmp`-sorted insertion (equal elements are identical, so every sort agrees). -/
def lexInsert (p : Pt) : List Pt → List Pt
  | [] => [p]
  | q :: t => if lexLt q p then q :: lexInsert p t else p :: q :: t

def lexSort (l : List Pt) : List Pt := l.foldr lexInsert []

/-! ### `LineString::close`, winding order -/

def close (r : List Pt) : List Pt :=
  match r with
  | [] => []
  | a :: _ => if r.getLast? = some a then r else r ++ [a]

/-- `winding_order` of a `LineString` (`none`, or the orientation at the lexicographically least
vertex between its nearest distinct neighbours). -/
def windingOrder (r : List Pt) : Option Ori :=
  if r.length < 4 || r.head? != r.getLast? then none else
  let i := leastIndex r
  match r[i]? with
  | none => none
  | some c =>
    let fwd := r.drop (i + 1) ++ r.take (i + 1)
    let bwd := (r.take i).reverse ++ (r.drop i).reverse
    match fwd.find? (· != c), bwd.find? (· != c) with
    | some nx, some pv =>
      match orient pv c nx with
      | .ccw => some .ccw
      | .cw => some .cw
      | .col => none
    | _, _ => none

def makeCcw (r : List Pt) : List Pt :=
  if windingOrder r = some .cw then r.reverse else r

/-! ### `trivial_hull` -/

/-- "Remove repeated points unless collinear points are to be included": sort, and drop the
middle one of three collinear points. -/
def trivialDedup (pts : List Pt) (includeOnHull : Bool) : List Pt :=
  if includeOnHull then pts else
    match lexSort pts with
    | [a, b, c] => if orient a b c = .col then [a, c] else [a, b, c]
    | s => s

/-- "A linestring with a single point is invalid." -/
def trivialPad : List Pt → List Pt
  | [a] => [a, a]
  | s => s

def trivialHull (pts : List Pt) (includeOnHull : Bool) : List Pt :=
  makeCcw (close (trivialPad (trivialDedup pts includeOnHull)))

/-! ### `quick_hull` -/

def isCcw (a b c : Pt) : Bool := orient a b c == .ccw

/-- the value maximised by `hull_set`, computed in the scalar type -/
def score (rnd : Rat → Rat) (a b pt : Pt) : Rat :=
  let ox := rnd (a.y - b.y)
  let oy := rnd (b.x - a.x)
  let dx := rnd (pt.x - a.x)
  let dy := rnd (pt.y - a.y)
  rnd (rnd (ox * dx) + rnd (oy * dy))

/-- `hull_set(p_a, p_b, set, hull)`: returns the slice as permuted by the call (as the caller sees
it afterwards) and the coordinates pushed to `hull`, in order. -/
def hullSet (rnd : Rat → Rat) : Nat → Pt → Pt → List Pt → List Pt × List Pt
  | 0, _, _, set => (set, [])
  | fuel + 1, a, b, set =>
    match set with
    | [] => ([], [])
    | [p] => ([p], [p])
    | _ =>
      let fi := argmaxLast (set.map (score rnd a b))
      let sr := swapRemove set fi
      let f := sr.1
      let p1 := partition (isCcw f b) sr.2
      let r1 := hullSet rnd fuel f b p1.1
      let p2 := partition (isCcw a f) (r1.1 ++ p1.2)
      let r2 := hullSet rnd fuel a f p2.1
      (f :: (r2.1 ++ p2.2), r1.2 ++ f :: r2.2)

/-- The body of `quick_hull` for at least four points, before the final convexity guard: the whole
slice as permuted, and the closed ring. -/
def quickHullRaw (rnd : Rat → Rat) (pts : List Pt) : List Pt × List Pt :=
  let mm := leastGreatest pts
  let s1 := swapRemove pts mm.1
  let mn := s1.1
  let maxIdx := (if mm.2 = 0 then mm.1 else mm.2) - 1
  let s2 := swapRemove s1.2 maxIdx
  let mx := s2.1
  let p1 := partition (isCcw mx mn) s2.2
  let r1 := hullSet rnd p1.1.length mx mn p1.1
  let p2 := partition (isCcw mn mx) (r1.1 ++ p1.2)
  let r2 := hullSet rnd p2.1.length mn mx p2.1
  (mn :: mx :: (r2.1 ++ p2.2), close (r1.2 ++ mx :: (r2.2 ++ [mn])))

def edges : List Pt → List (Pt × Pt)
  | a :: b :: t => (a, b) :: edges (b :: t)
  | _ => []

/-- all cyclically consecutive triples of the (unclosed) vertex list turn strictly left -/
def triplesCcw : List Pt → Bool
  | a :: b :: c :: t => orient a b c == .ccw && triplesCcw (b :: c :: t)
  | _ => true

def cycTriplesCcw (c : List Pt) : Bool := c.length ≥ 2 && triplesCcw (c ++ c.take 2)

def countChanges : List Bool → Nat
  | a :: b :: t => (if a != b then 1 else 0) + countChanges (b :: t)
  | _ => 0

/-- `is_strict_ccw_hull` (qhull.rs, added by the `fix:` commit): every cyclically consecutive
triple of the closed ring's vertices is counter-clockwise, and going around the ring the edges
switch between lexicographically increasing and decreasing exactly twice (it winds once). -/
def isStrictCcwHull (ring : List Pt) : Bool :=
  let v := ring.dropLast
  let ups := (edges (v ++ v.take 1)).map (fun e => lexLt e.1 e.2)
  cycTriplesCcw v && countChanges (ups ++ ups.take 1) == 2

/-! ### `graham_hull` -/

def dist2r (rnd : Rat → Rat) (p q : Pt) : Rat :=
  let dx := rnd (p.x - q.x)
  let dy := rnd (p.y - q.y)
  rnd (rnd (dx * dx) + rnd (dy * dy))

/-- the comparator of `graham_hull`: `true` iff `cmp(q, r) != Greater` -/
def grahamLe (rnd : Rat → Rat) (head q r : Pt) : Bool :=
  match orient q head r with
  | .ccw => false
  | .cw => true
  | .col => dist2r rnd head q ≤ dist2r rnd head r

def grahamInsert (rnd : Rat → Rat) (head p : Pt) : List Pt → List Pt
  | [] => [p]
  | q :: t => if grahamLe rnd head p q then p :: q :: t else q :: grahamInsert rnd head p t

/-- `sort_unstable_by(cmp)`: comparator-equal elements are identical coordinates unless the
rounded distances of two distinct collinear points coincide (`grahamTie`, skipped by the driver),
so the sorted sequence is determined. -/
def grahamSort (rnd : Rat → Rat) (head : Pt) (l : List Pt) : List Pt :=
  l.foldr (grahamInsert rnd head) []

def grahamTie (rnd : Rat → Rat) (head : Pt) (l : List Pt) : Bool :=
  l.any (fun q => l.any (fun r => q != r && orient q head r == .col &&
    dist2r rnd head q == dist2r rnd head r))

/-- the `while output.len() > 1` loop; the stack is kept top-first -/
def popWhile (incl : Bool) (pt : Pt) : List Pt → List Pt
  | top :: snd :: rest =>
    match orient snd top pt with
    | .ccw => top :: snd :: rest
    | .cw => popWhile incl pt (snd :: rest)
    | .col => if incl then top :: snd :: rest else popWhile incl pt (snd :: rest)
  | st => st

def grahamStep (incl : Bool) (st : List Pt) (pt : Pt) : List Pt :=
  let st' := popWhile incl pt st
  if incl || st'.head? != some pt then pt :: st' else st'

def grahamHull (rnd : Rat → Rat) (pts : List Pt) (incl : Bool) : List Pt :=
  if pts.length < 4 then trivialHull pts incl else
  let sr := swapRemove pts (leastIndex pts)
  let head := sr.1
  let sorted := grahamSort rnd head sr.2
  close ((sorted.foldl (grahamStep incl) [head]).reverse)

/-- `quick_hull`. After the `fix:` commit the ring is verified with `is_strict_ccw_hull` and the
Graham scan (robust comparator) is used when the verification fails: ties and rounding in the
farthest-point search can leave collinear, interior or repeated vertices. -/
def quickHull (rnd : Rat → Rat) (pts : List Pt) : List Pt :=
  if pts.length < 4 then trivialHull pts false else
  let q := quickHullRaw rnd pts
  if q.2.length > 3 && !isStrictCcwHull q.2 then grahamHull rnd q.1 false else q.2

/-- `ConvexHull::convex_hull`: `Polygon::new(quick_hull(exterior coords), vec![])` (the ring is
closed by the constructor; no interiors). -/
def convexHull (rnd : Rat → Rat) (pts : List Pt) : List Pt := close (quickHull rnd pts)

/-! ### The checker -/

/-- `h` is a closed ring with at least 4 coordinates whose vertices turn strictly left at every
vertex (so none is repeated consecutively or lies on the segment between its neighbours), whose
vertices are input coordinates, and every input coordinate is left of or on every edge. -/
def isStrictHull (h pts : List Pt) : Bool :=
  h.length ≥ 4 && h.head? == h.getLast? && cycTriplesCcw h.dropLast &&
  h.all (fun v => pts.contains v) &&
  pts.all (fun p => (edges h).all (fun e => cross e.1 e.2 p ≥ 0))

/-- at least three non-collinear coordinates -/
def hasTriangle (pts : List Pt) : Bool :=
  pts.any (fun a => pts.any (fun b => pts.any (fun c => cross a b c != 0)))

def sameVertexSet (h k : List Pt) : Bool := h.all (k.contains ·) && k.all (h.contains ·)

/-! ### `minimum_rotated_rect` — exact skeleton

For every edge of the hull ring the code rotates the hull so that the edge is horizontal and takes
the axis-aligned bounding box there; the smallest wins (first one on ties). Without trigonometry:
the box for direction `d` has area `extent(d) · extent(d⊥) / |d|²`. -/

def dot (d p : Pt) : Rat := d.x * p.x + d.y * p.y

def extent (d : Pt) (ps : List Pt) : Rat :=
  match ps.map (dot d) with
  | [] => 0
  | v :: vs => vs.foldl rmax v - vs.foldl rmin v

def boxArea (d : Pt) (ps : List Pt) : Rat :=
  let d := if d.x == 0 && d.y == 0 then ⟨1, 0⟩ else d
  extent d ps * extent ⟨0 - d.y, d.x⟩ ps / (d.x * d.x + d.y * d.y)

def minBoxArea (hull : List Pt) : Option Rat :=
  (edges hull).foldl (fun acc e =>
    let a := boxArea (e.2 - e.1) hull
    match acc with
    | none => some a
    | some m => if a < m then some a else some m) none

end Geo.Hull
