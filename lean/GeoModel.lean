import GeoModel.Num
import GeoModel.Geom
import GeoModel.Parse
import GeoModel.PolygonSM
import GeoModel.Ops.C18
import GeoModel.Traverse
import GeoModel.Ops.C19
