/-
  geodriver — reads protocol lines on stdin, evaluates the exact model, answers one line each.
-/
import GeoModel

open Geo

def handlers : List (String → List String → List String → Option String) :=
  [Geo.Ops.C18.handle, Geo.Ops.C19.handle]

def dispatch (line : String) : String :=
  match tokens line with
  | [] => "ERR empty"
  | op :: rest =>
    match splitArrow rest with
    | none => "ERR no-arrow"
    | some (inp, out) =>
      match handlers.findSome? (fun h => h op inp out) with
      | some r => r
      | none => "ERR unknown-op " ++ op

partial def loop (h : IO.FS.Stream) (out : IO.FS.Stream) : IO Unit := do
  let line ← h.getLine
  if line.isEmpty then return ()
  out.putStrLn (dispatch line)
  loop h out

def main : IO Unit := do
  let stdin ← IO.getStdin
  let stdout ← IO.getStdout
  loop stdin stdout
  stdout.flush
