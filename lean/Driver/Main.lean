/-
  geodriver — reads protocol lines on stdin, evaluates the exact model, answers one line each.
-/
import GeoModel.OpsAll

open Geo

def dispatch (line : String) : String :=
  match tokens line with
  | [] => "ERR empty"
  | op :: rest =>
    match splitArrow rest with
    | none => "ERR no-arrow"
    | some (inp, out) =>
      match Geo.Ops.handlers.findSome? (fun h => h op inp out) with
      | some r => r
      | none => "ERR unknown-op " ++ op

partial def loop (h : IO.FS.Stream) (out : IO.FS.Stream) : IO Unit := do
  let line ← h.getLine
  if line.isEmpty then return ()
  out.putStrLn (Geo.oneLine (dispatch line))
  loop h out

def main : IO Unit := do
  let stdin ← IO.getStdin
  let stdout ← IO.getStdout
  loop stdin stdout
  stdout.flush
