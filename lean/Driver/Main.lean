/-
  geodriver — reads protocol lines on stdin, evaluates the exact model, answers one line each.
-/
import GeoModel.OpsAll

open Geo

/-- Case prefixes, in any order: `NZ <k>` (negative-zero spelling for the implementation; −0.0 and +0.0 both decode to 0),
`DUP` / `LONG` (mark a case in which the generator repeated a vertex / subdivided a line string — the change is in the line itself), `SC <k>` (every input
coordinate of the case is multiplied by 2^k on both sides; handed to the parsers as the marker token `@S<k>`). -/
def stripPrefixes : Option String → List String → Option String × List String
  | m, "NZ" :: _ :: rest => stripPrefixes m rest
  | m, "DUP" :: rest => stripPrefixes m rest
  | m, "LONG" :: rest => stripPrefixes m rest
  | _, "SC" :: k :: rest => stripPrefixes (some ("@S" ++ k)) rest
  | m, ts => (m, ts)

def dispatch (line : String) : String :=
  -- `NZ <k>`: negative-zero spelling of the case for the implementation; -0.0 and +0.0 both decode to 0
  -- `DUP`: marks a case in which the generator repeated a vertex (the repeated vertex is in the line itself)
  let (marker, toks) := stripPrefixes none (tokens line)
  match toks with
  | [] => "ERR empty"
  | op :: rest =>
    match splitArrow rest with
    | none => "ERR no-arrow"
    | some (inp0, out) =>
      let inp := match marker with | some m => m :: inp0 | none => inp0
      match Geo.Ops.handlers.findSome? (fun h => h op inp out) with
      | some r => r
      | none => "ERR unknown-op " ++ op

partial def loop (h : IO.FS.Stream) (out : IO.FS.Stream) : IO Unit := do
  let line ← h.getLine
  if line.isEmpty then return ()
  out.putStrLn (Geo.oneLine (dispatch line))
  loop h out

def main : IO Unit := do
  let stdin ← IO.getStdin
  let stdout ← IO.getStdout
  loop stdin stdout
  stdout.flush
