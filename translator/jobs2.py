"""
jobs2.py — second growth of the regenerated part of the model (task TRAN2): job tables for
  Gen/ClosestGen.lean   (C12)  geo/src/algorithm/closest_point.rs + `Closest::best_of_two` (geo/src/types.rs)
  Gen/CentroidGen.lean  (C06)  geo/src/algorithm/centroid.rs: `WeightedCentroid` / `CentroidOperation` accumulator methods
  Gen/GraphGen.lean     (C17)  relate/geomgraph: `Direction`, `TopologyPosition`, `Label`, `IntersectionMatrix::set_at_least*`
  Gen/ValidGen.lean     (C14)  validation/utils.rs and the prologues of the `Validation` impls
  Gen/SimplifyGen.lean  (C09)  simplify.rs `compute_rdp` selection loop and guards
  Gen/HullGen.lean      (C08)  convex_hull/graham.rs / utils `lex_cmp`, least-point selection
called from rs2lean.main() on every run. Every entry of a `funcs` / `accessors` / `paths` table is one explicit semantic choice;
what a choice means is said in the comment beside it.

A job is a dict: file, hdr (regex up to the opening brace), name, params, ret, paths, funcs, subst, resub, opts, pro (Lean
prologue lines placed before the translated term), doc.
"""
import os, re
import rsexpr


def strip_comments(src):
    src = re.sub(r"/\*.*?\*/", " ", src, flags=re.S)
    return "\n".join(l.split("//")[0] for l in src.splitlines())


class JobError(Exception):
    pass


def emit(repo, outdir, fname, header, jobs, write):
    out = list(header)
    cache = {}
    for j in jobs:
        if "raw" in j:
            out.append(j["raw"])
            continue
        rel = j["file"]
        if rel not in cache:
            cache[rel] = strip_comments(open(os.path.join(repo, rel)).read())
        opts = dict(j.get("opts", {}))
        opts.setdefault("ret_type", j["ret"])
        try:
            tr = rsexpr.translate_expr_after if j.get("expr_after") else rsexpr.translate_fn
            term = tr(cache[rel], j["hdr"], j.get("paths", {}), j.get("funcs", {}), j.get("subst", []),
                      structs=j.get("structs"), resub=j.get("resub", ()), opts=opts)
        except rsexpr.TranslateError as e:
            raise JobError("%s (%s): %s" % (j["name"], rel, e))
        out.append("/-- `%s` — %s%s -/" % (j["name"], rel, (": " + j["doc"]) if j.get("doc") else ""))
        out.append("def %s %s : %s :=\n%s%s\n" % (j["name"], j["params"], j["ret"], j.get("pro", ""), term))
    out += ["end Geo.Gen", ""]
    write(os.path.join(outdir, fname), "\n".join(out))
    return len([j for j in jobs if "raw" not in j])


# ---------------------------------------------------------------------------------------------
# C12: closest_point.rs, types.rs (`Closest`)

CLP = "geo/src/algorithm/closest_point.rs"
TYPES = "geo/src/types.rs"
CL_PATHS = {"Closest::Indeterminate": "CP.Closest.indeterminate", "Closest::Intersection": "CP.Closest.intersection",
            "Closest::SinglePoint": "CP.Closest.single", "F::zero": "0", "F::one": "1"}
CL_CTORS = {"Closest::Intersection": "(CP.Closest.intersection {0})", "Closest::SinglePoint": "(CP.Closest.single {0})"}


def cp_hdr(ty):
    return r"impl<F: GeoFloat> ClosestPoint<F> for %s<F> \{\s*fn closest_point\(&self, p: &(?:Point<F>|Self)\) -> Closest<F> \{" % ty


def closest_jobs(repo):
    tri = strip_comments(open(os.path.join(repo, "geo-types/src/geometry/triangle.rs")).read())
    rect = strip_comments(open(os.path.join(repo, "geo-types/src/geometry/rect.rs")).read())
    coord = {"Coord": ("Pt.mk", ["x", "y"])}
    tri_lines = rsexpr.array_literal(tri, r"pub fn to_lines\(&self\) -> \[Line<T>; 3\] \{", {}, {"Line::new": "Prod.mk"})
    rect_lines = rsexpr.array_literal(rect, r"pub fn to_lines\(&self\) -> \[Line<T>; 4\] \{", {}, {"Line::new": "Prod.mk"}, structs=coord)
    # a fixed array handed to `closest_of` (an `IntoIterator`) = the list of its elements in order
    tri_list = "[" + ", ".join(tri_lines) + "]"
    rect_list = "[" + ", ".join(rect_lines) + "]"
    # `closest_of(iter, p)` with the element type's `closest_point` as the function `cpFn` of the caller
    def cof(fn):
        return {"closest_of": "(closestOf dist %s {0} {1})" % fn}
    C = "CP.Closest"
    return [
        # the Euclidean distance of two points is the parameter `dist` (a square root: no model over the rationals; the tie
        # theorem assumes only that `dist` orders pairs as the squared distance does)
        dict(file=TYPES, hdr=r"pub fn best_of_two\(&self, other: &Self, p: Point<F>\) -> Self \{", name="closestBestOfTwo",
             params="(dist : Pt → Pt → Rat) (self_ other : CP.Closest) (p : Pt)", ret=C, paths=CL_PATHS,
             funcs={".distance": [(r"^Euclidean$", "(dist {1} {2})")]}, subst=[("self", "self_")]),
        dict(file=CLP, hdr=cp_hdr("Point"), name="pointClosestPoint", params="(self_ p : Pt)", ret=C, paths=CL_PATHS, funcs=CL_CTORS,
             subst=[("self", "self_")]),
        # `Euclidean.length(self)` of a Line is the parameter `len` (a square root); the tie assumes `len = 0 ↔ start = end`.
        # `Point::from(c)` of a Coord, `p.0`, `.into()` Coord → Point: the identity (Point and Coord are both `Pt`);
        # `(a, b).into()` : Coord = `Pt.mk a b`; Coord ± Coord = the `Pt` instances; `Point::x()/y()` = the fields
        dict(file=CLP, hdr=cp_hdr("Line"), name="lineClosestPoint", params="(len : Pt × Pt → Rat) (s e p : Pt)", ret=C, paths=CL_PATHS,
             funcs=dict(CL_CTORS, **{".length": [(r"^Euclidean$", "(len {1})")], "Point::from": "{0}", ".dot": "(Gen.pointDot {0} {1})",
                                     ".intersects": [(r"^self$", "(Gen.lineCoord s e {1})")]}),
             subst=[("self.start", "s"), ("self.end", "e"), ("p.1", "p"), ("self", "(s, e)")],
             opts={"accessors": {"x": "{}.x", "y": "{}.y",
                                 "into": [(r"^self\.(start|end)$", "{}"), (r"^\(\(t \* x\), \(t \* y\)\)$", "(Pt.mk {0}.1 {0}.2)")]}}),
        # the generic fold; `element.closest_point(&p)` is the parameter `cpFn` (instantiated by the callers below)
        dict(file=CLP, hdr=r"fn closest_of<C, F, I>\(iter: I, p: Point<F>\) -> Closest<F>\s+where[^{]*\{", name="closestOf",
             params="{α : Type} (dist : Pt → Pt → Rat) (cpFn : α → Pt → CP.Closest) (iter : List α) (p : Pt)", ret=C, paths=CL_PATHS,
             funcs={".closest_point": "(cpFn {0} {1})", ".best_of_two": "(closestBestOfTwo dist {0} {1} {2})"},
             opts={"mut_types": {"best": C}}),
        # `LineString::lines()` = consecutive coordinate pairs (`Geo.segs`)
        dict(file=CLP, hdr=cp_hdr("LineString"), name="lineStringClosestPoint",
             params="(dist : Pt → Pt → Rat) (lineFn : Pt × Pt → Pt → CP.Closest) (cs : List Pt) (p : Pt)", ret=C, paths=CL_PATHS,
             funcs=cof("lineFn"), subst=[("self", "cs")], opts={"accessors": {"lines": "(Geo.segs {})"}}),
        # `Polygon: Intersects<Point>` is the parameter `hit` (coordinate_position != Outside, tied in C02);
        # `a.iter().chain(iter::once(b))` = a ++ [b]
        dict(file=CLP, hdr=cp_hdr("Polygon"), name="polygonClosestPoint",
             params="(dist : Pt → Pt → Rat) (hit : Poly → Pt → Bool) (lsFn : List Pt → Pt → CP.Closest) (poly : Poly) (p : Pt)", ret=C,
             paths=CL_PATHS, funcs=dict(CL_CTORS, **dict(cof("lsFn"), **{".intersects": "(hit {0} {1})", ".chain": "({0} ++ {1})", "iter::once": "[{0}]"})),
             subst=[("self", "poly")], opts={"accessors": {"interiors": "{}.ints", "exterior": "{}.ext", "iter": "{}"}}),
        dict(file=CLP, hdr=cp_hdr("Triangle"), name="triangleClosestPoint",
             params="(dist : Pt → Pt → Rat) (lineFn : Pt × Pt → Pt → CP.Closest) (a b c p : Pt)", ret=C, paths=CL_PATHS,
             funcs=dict(CL_CTORS, **dict(cof("lineFn"), **{".intersects": [(r"^self$", "(Gen.triangleCoord a b c {1})")]})),
             subst=[("self.1", "a"), ("self.2", "b"), ("self.3", "c")], opts={"accessors": {"to_lines": [(r"^self$", tri_list)]}}),
        dict(file=CLP, hdr=cp_hdr("Rect"), name="rectClosestPoint",
             params="(dist : Pt → Pt → Rat) (lineFn : Pt × Pt → Pt → CP.Closest) (mn mx p : Pt)", ret=C, paths=CL_PATHS,
             funcs=dict(CL_CTORS, **dict(cof("lineFn"), **{".intersects": [(r"^self$", "(Gen.rectCoord mn mx {1})")]})),
             subst=[("self.max", "mx"), ("self.min", "mn")], opts={"accessors": {"to_lines": [(r"^self$", rect_list)]}}),
        # the four `closest_of(self.iter(), *p)` impls: one body each, the member's `closest_point` is `cpFn`
    ] + [
        dict(file=CLP, hdr=cp_hdr(ty), name=nm, params="{α : Type} (dist : Pt → Pt → Rat) (cpFn : α → Pt → CP.Closest) (members : List α) (p : Pt)",
             ret=C, paths=CL_PATHS, funcs=cof("cpFn"), subst=[("self", "members")], opts={"accessors": {"iter": "{}"}})
        for ty, nm in [("MultiPolygon", "multiPolygonClosestPoint"), ("MultiPoint", "multiPointClosestPoint"),
                       ("MultiLineString", "multiLineStringClosestPoint"), ("GeometryCollection", "geometryCollectionClosestPoint")]
    ]


def closest_functions(repo, outdir, write):
    hdr = ["/- generated by translator/rs2lean.py (jobs2, statement fragment) from %s and %s; do not edit -/" % (CLP, TYPES),
           "import GeoModel.Closest", "import GeoModel.TRANPrelude", "import GeoModel.Gen.Kernel", "import GeoModel.Gen.InterpGen",
           "import GeoModel.Gen.AreaGen", "", "namespace Geo.Gen", "open Geo", "set_option linter.unusedVariables false", ""]
    return emit(repo, outdir, "ClosestGen.lean", hdr, closest_jobs(repo), write)



# ---------------------------------------------------------------------------------------------
# C06: centroid.rs — `WeightedCentroid`, `CentroidOperation` (state: `self.0 : Option<WeightedCentroid>` = `Cen.Op`)

CEN = "geo/src/algorithm/centroid.rs"
COORD = "geo-types/src/geometry/coord.rs"
# `Dimensions` is the rank `Nat` of the model (Empty 0 < ZeroDimensional 1 < OneDimensional 2 < TwoDimensional 3 — the derive(Ord)
# order, regenerated as `Gen.dimensionsOrder` and tied in C01); `use Dimensions::*` makes the variants bare names
CEN_PATHS = {"Empty": "0", "ZeroDimensional": "1", "OneDimensional": "2", "TwoDimensional": "3", "T::one": "(1 : Rat)", "T::zero": "(0 : Rat)",
             "Ordering::Less": "Ordering.lt", "Ordering::Equal": "Ordering.eq", "Ordering::Greater": "Ordering.gt",
             "None": "none", "Coord::zero": "Cen.zeroPt", "CentroidOperation::new": "(none : Cen.Op)"}
CEN_BARE = ("Empty", "ZeroDimensional", "OneDimensional", "TwoDimensional")
WC_STRUCT = {"WeightedCentroid": ("Cen.WC.mk", ["dimensions", "weight", "accumulated"]), "Coord": ("Pt.mk", ["x", "y"])}
WC_FIELDS = [(r"\.dimensions\b", ".dim"), (r"\.accumulated\b", ".acc")]


DIMS2 = "geo/src/algorithm/dimensions.rs"
CEN_DIM_PATHS = {"Dimensions::Empty": "0", "Dimensions::ZeroDimensional": "1", "Dimensions::OneDimensional": "2", "Dimensions::TwoDimensional": "3"}


def dim_hdr2(bounds, ty):
    return r"impl<C: %s> HasDimensions for %s<C> \{.*?fn dimensions\(&self\) -> Dimensions \{" % (bounds, ty)


def coord_op(tr, name, rhs):
    return dict(file=COORD, hdr=r"impl<T: CoordNum> %s for Coord<T> \{\s*type Output = Self;\s*(?:#\[inline\]\s*)?fn %s\(self, rhs: %s\) -> Self \{"
                % (tr, tr.split("<")[0].lower(), "T" if "<" in tr else "Self"),
                name=name, params="(self_ : Pt) (rhs : %s)" % rhs, ret="Pt", structs=WC_STRUCT, subst=[("self", "self_")])


def centroid_jobs(repo):
    OP = "Cen.Op"
    op = {"muts": [("self_0", OP)], "ret_ctor": "id", "places": {"self.0": "self_0"}, "self_var": "self_0",
          "bare_variants": CEN_BARE, "debug_assert": "skip",
          # the `&mut self` methods of CentroidOperation, as functions of the state and the arguments (defined above their use)
          "self_methods": {"add_weighted_centroid": "addWeightedCentroid", "add_centroid": "addCentroid", "add_coord": "addCoord",
                           "add_line": "(addLine len {0} {1})", "add_line_string": "(addLineString len {0} {1})"},
          "accessors": {"centroid_dimensions": [(r"^self$", "(centroidDimensions self_0)")]}}
    pro = "  let self_0 := self_\n"
    def o(**kw):
        d = dict(op)
        d["accessors"] = dict(op["accessors"], **kw.pop("accessors", {}))
        d.update(kw)
        return d
    wc = {"muts": [("self_", "Cen.WC")], "ret_ctor": "id", "places": {"self": "self_"},
          "struct_vars": {"self_": {"accumulated": "acc", "weight": "weight", "dimensions": "dim"}}}
    cmp_nat = {".cmp": "(compare {0} {1})"}      # `Ord::cmp` on the derive(Ord) enum = comparison of the ranks
    return [
        coord_op("Add", "coordAdd", "Pt"), coord_op("Sub", "coordSub", "Pt"), coord_op("Mul<T>", "coordMul", "Rat"),
        coord_op("Div<T>", "coordDiv", "Rat"),
        # the operators of `Coord<T>` (and of `Point<T>`, which forwards to them) used by centroid.rs: `c * t`, `c / t` are the
        # functions regenerated above; `+` / `-` are the `Pt` instances of GeoModel/Geom.lean (equal to coordAdd / coordSub: tie theorem)
        dict(raw="scoped instance instHMulPtRat : HMul Pt Rat Pt := ⟨coordMul⟩\nscoped instance instHDivPtRat : HDiv Pt Rat Pt := ⟨coordDiv⟩\n"),
        # dimensions.rs again (as in DimsGen, with `Dimensions` as its rank and under other names: GeoModel/Locate.lean, where `Dim`
        # lives, must not be imported here — its names collide with those of GeoModel/Centroid.lean in the C06 proofs)
        dict(file=DIMS2, hdr=dim_hdr2("CoordNum", "Line"), name="cenLineDimensions", params="(s e : Pt)", ret="Nat", paths=CEN_DIM_PATHS,
             subst=[("self.start", "s"), ("self.end", "e")]),
        dict(file=DIMS2, hdr=dim_hdr2("CoordNum", "LineString"), name="cenLineStringDimensions", params="(cs : List Pt)", ret="Nat",
             paths=CEN_DIM_PATHS, funcs={".any": "({0}.any {1})"}, subst=[("self.1", "cs")],
             opts={"accessors": {"is_empty": "{}.isEmpty", "iter": "{}"}}),
        dict(file=DIMS2, hdr=dim_hdr2("CoordNum", "Rect"), name="cenRectDimensions", params="(mn mx : Pt)", ret="Nat", paths=CEN_DIM_PATHS,
             subst=[("self.min", "mn"), ("self.max", "mx")], opts={"accessors": {"min": "{}.min", "max": "{}.max"}}),
        # area.rs again (as in AreaGen, under other names: GeoModel/Area.lean must not be imported here — its names collide with
        # those of GeoModel/Centroid.lean in the C06 proofs); `lines()` = windows(2), `map_coords(f)` = f on both end points
        dict(file="geo/src/algorithm/area.rs",
             hdr=r"pub\(crate\) fn twice_signed_ring_area<T>\(linestring: &LineString<T>\) -> T\s+where\s+T: CoordNum,\s*\{",
             name="cenTwiceSignedRingArea", params="(linestring : List Pt)", ret="Rat", paths=CEN_PATHS, funcs={".map_coords": "({1} {0}.1, {1} {0}.2)"},
             subst=[("linestring.1", "linestring")],
             opts={"mut_types": {"tmp": "Rat"},
                   "accessors": {"len": "{}.length", "is_empty": "{}.isEmpty", "first": "{}.head?", "last": "{}.getLast?", "unwrap": "(Gen.unwrap {})",
                                 "lines": "(Geo.windows2 {})", "determinant": "(Gen.lineDeterminant {0}.1 {0}.2)"}}),
        dict(file="geo/src/algorithm/area.rs",
             hdr=r"pub\(crate\) fn get_linestring_area<T>\(linestring: &LineString<T>\) -> T\s+where\s+T: CoordFloat,\s*\{",
             name="cenGetLinestringArea", params="(linestring : List Pt)", ret="Rat", paths=CEN_PATHS,
             funcs={"twice_signed_ring_area": "cenTwiceSignedRingArea"}),
        dict(file=CEN, hdr=r"fn add_assign\(&mut self, b: WeightedCentroid<T>\) \{", name="wcAddAssign", params="(self_ b : Cen.WC)",
             ret="Cen.WC", paths=CEN_PATHS, funcs=cmp_nat, resub=WC_FIELDS, opts=wc),
        dict(file=CEN, hdr=r"fn sub_assign\(&mut self, b: WeightedCentroid<T>\) \{", name="wcSubAssign", params="(self_ b : Cen.WC)",
             ret="Cen.WC", paths=CEN_PATHS, funcs=cmp_nat, resub=WC_FIELDS, opts=wc),
        # `Option::as_ref` = the option itself; `.map(f)` / `.unwrap_or(d)` = Option.map / Option.getD; `Point::from(coord)` = identity
        dict(file=CEN, hdr=r"fn centroid\(&self\) -> Option<Point<T>> \{", name="opCentroid", params="(self_ : Cen.Op)", ret="Option Pt",
             paths=CEN_PATHS, funcs={".map": "({0}.map {1})", "Point::from": "{0}"}, subst=[("self.1", "self_")], resub=WC_FIELDS,
             opts={"accessors": {"as_ref": "{}"}}),
        dict(file=CEN, hdr=r"fn centroid_dimensions\(&self\) -> Dimensions \{", name="centroidDimensions", params="(self_ : Cen.Op)", ret="Nat",
             paths=CEN_PATHS, funcs={".map": "({0}.map {1})", ".unwrap_or": "(Option.getD {0} {1})"}, subst=[("self.1", "self_")],
             resub=WC_FIELDS, opts={"accessors": {"as_ref": "{}"}, "bare_variants": CEN_BARE}),
        dict(file=CEN, hdr=r"fn add_weighted_centroid\(&mut self, other: WeightedCentroid<T>\) \{", name="addWeightedCentroid",
             params="(self_ : Cen.Op) (other : Cen.WC)", ret=OP, paths=CEN_PATHS, funcs={"Some": "(some {0})"}, pro=pro,
             opts=o(mut_methods={"add_assign": "wcAddAssign"})),
        dict(file=CEN, hdr=r"fn add_centroid\(&mut self, dimensions: Dimensions, centroid: Coord<T>, weight: T\) \{", name="addCentroid",
             params="(self_ : Cen.Op) (dimensions : Nat) (centroid : Pt) (weight : Rat)", ret=OP, paths=CEN_PATHS, structs=WC_STRUCT, pro=pro, opts=o()),
        dict(file=CEN, hdr=r"fn add_coord\(&mut self, coord: Coord<T>\) \{", name="addCoord", params="(self_ : Cen.Op) (coord : Pt)", ret=OP,
             paths=CEN_PATHS, pro=pro, opts=o()),
        # `Line::centroid` (this file); `Euclidean.length(line)` is the parameter `len` (a square root), as in the model
        dict(file=CEN, hdr=r"impl<T> Centroid for Line<T>\s+where\s+T: GeoFloat,\s*\{\s*type Output = Point<T>;\s*fn centroid\(&self\) -> Self::Output \{",
             name="lineCentroid", params="(s e : Pt)", ret="Pt", paths=CEN_PATHS, opts={"accessors": {"start_point": "{}.start_point", "end_point": "{}.end_point"}},
             subst=[("self.start_point", "s"), ("self.end_point", "e")]),
        # `Line::dimensions` = cenLineDimensions above; `unreachable!` arm: state unchanged (dead code)
        dict(file=CEN, hdr=r"fn add_line\(&mut self, line: &Line<T>\) \{", name="addLine",
             params="(len : Pt → Pt → Rat) (self_ : Cen.Op) (line : Pt × Pt)", ret=OP, paths=CEN_PATHS,
             funcs={".length": [(r"^Euclidean$", "(len {1}.1 {1}.2)")]}, subst=[("line.start", "line.1")], pro=pro,
             opts=o(unreachable="self_0", accessors={"dimensions": [(r"^line$", "(cenLineDimensions {0}.1 {0}.2)")],
                                                     "centroid": [(r"^line$", "(lineCentroid {0}.1 {0}.2)")]}),
             resub=[(r"\(lineCentroid line\.1 line\.2\)\.1\b", "(lineCentroid line.1 line.2)")]),
        # `line_string.0[0]` stands under the guard `len() == 1`; `lines()` = `self.0.windows(2)` as pairs (`Geo.windows2`)
        dict(file=CEN, hdr=r"fn add_line_string\(&mut self, line_string: &LineString<T>\) \{", name="addLineString",
             params="(len : Pt → Pt → Rat) (self_ : Cen.Op) (line_string : List Pt)", ret=OP, paths=CEN_PATHS,
             subst=[("line_string.1", "line_string")], pro=pro, opts=o(accessors={"len": "{}.length", "lines": "(Geo.windows2 {})"})),
        dict(file=CEN, hdr=r"fn add_multi_line_string\(&mut self, multi_line_string: &MultiLineString<T>\) \{", name="addMultiLineString",
             params="(len : Pt → Pt → Rat) (self_ : Cen.Op) (multi_line_string : List (List Pt))", ret=OP, paths=CEN_PATHS,
             subst=[("multi_line_string.1", "multi_line_string")], pro=pro, opts=o()),
        dict(file=CEN, hdr=r"fn add_multi_point\(&mut self, multi_point: &MultiPoint<T>\) \{", name="addMultiPoint",
             params="(self_ : Cen.Op) (multi_point : List Pt)", ret=OP, paths=CEN_PATHS,
             subst=[("multi_point.1", "multi_point"), ("element.1", "element")], pro=pro, opts=o()),
        # `get_linestring_area` = the function above; `LineString::dimensions` = cenLineStringDimensions above;
        # `ring[0]` / `ring.0[0]`: the total `Gen.idx` (the first stands in the arm of a
        # one-point ring, the second behind `area != 0`; neither guard is syntactic — explicit choice, a panic would be seen by
        # the harness); `lines()` = windows(2); `Line::map_coords(f)` = f on both end points; `abs` = rabs
        dict(file=CEN, hdr=r"fn add_ring\(&mut self, ring: &LineString<T>\) \{", name="addRing",
             params="(len : Pt → Pt → Rat) (self_ : Cen.Op) (ring : List Pt)", ret=OP, paths=CEN_PATHS,
             funcs={"get_linestring_area": "(cenGetLinestringArea {0})", ".fold": "(List.foldl (α := Pt) (β := Pt × Pt) {2} {1} {0})",
                    ".map_coords": "({1} {0}.1, {1} {0}.2)"},
             subst=[("ring.1", "ring"), ("line.end", "line.2"), ("line.start", "line.1")], pro=pro,
             opts=o(unguarded_index="total",
                    accessors={"dimensions": [(r"^ring$", "(cenLineStringDimensions {0})")], "lines": "(Geo.windows2 {})",
                               "determinant": "(Gen.lineDeterminant {0}.1 {0}.2)", "abs": "(Geo.rabs {})"})),
        # `Rect::dimensions` = cenRectDimensions above; `rect.centroid().0` = `Rect::center` (Gen.rectCenter, RectGen,
        # tied in C18); `Rect::unsigned_area` = width * height (Gen.rectWidth / rectHeight, tied in C18 / C05); `unreachable!`: unchanged
        dict(file=CEN, hdr=r"fn add_rect\(&mut self, rect: &Rect<T>\) \{", name="addRect",
             params="(len : Pt → Pt → Rat) (self_ : Cen.Op) (rect : SM.RectS)", ret=OP, paths=CEN_PATHS,
             funcs={"Line::new": "({0}, {1})"}, pro=pro, resub=[(r"\(Gen\.rectCenter rect\)\.1\b", "(Gen.rectCenter rect)")],
             opts=o(unreachable="self_0", rank_match_default=True,
                    accessors={"dimensions": [(r"^rect$", "(cenRectDimensions {0}.mn {0}.mx)")], "min": "{}.mn", "max": "{}.mx",
                               "centroid": [(r"^rect$", "(Gen.rectCenter {0})")],
                               "unsigned_area": [(r"^rect$", "((Gen.rectWidth {0}) * (Gen.rectHeight {0}))")]})),
        # the sub-operations of add_polygon are local `CentroidOperation`s (`Cen.Op`); `x.0` of one = the option itself
        dict(file=CEN, hdr=r"fn add_polygon\(&mut self, polygon: &Polygon<T>\) \{", name="addPolygon",
             params="(len : Pt → Pt → Rat) (self_ : Cen.Op) (polygon : Poly)", ret=OP, paths=CEN_PATHS, pro=pro,
             resub=WC_FIELDS + [(r"\b(exterior_operation|interior_operation)\.1\b", r"\1")],
             opts=o(mut_types={"exterior_operation": OP, "interior_operation": OP, "poly_weighted_centroid": "Cen.WC"},
                    mut_methods={"add_ring": "(addRing len {0} {1})", "sub_assign": "wcSubAssign"},
                    accessors={"exterior": "{}.ext", "interiors": "{}.ints", "is_zero": "({} == 0)"})),
    ]


def centroid_functions(repo, outdir, write):
    hdr = ["/- generated by translator/rs2lean.py (jobs2, statement fragment) from %s and %s; do not edit -/" % (CEN, COORD),
           "import GeoModel.Centroid", "import GeoModel.TRANPrelude",
           "import GeoModel.Gen.Kernel", "import GeoModel.Gen.RectGen", "", "namespace Geo.Gen", "open Geo", "set_option linter.unusedVariables false", ""]
    return emit(repo, outdir, "CentroidGen.lean", hdr, centroid_jobs(repo), write)



# ---------------------------------------------------------------------------------------------
# C17: relate/geomgraph — `TopologyPosition`, `IntersectionMatrix::set*`

TPOS = "geo/src/algorithm/relate/geomgraph/topology_position.rs"
IMRS = "geo/src/algorithm/relate/geomgraph/intersection_matrix.rs"
GGMOD = "geo/src/algorithm/relate/geomgraph/mod.rs"
TP = "GG.TopoPos"
TP_VARIANTS = {"Self::Area": ("GG.TopoPos.area", ["on", "left", "right"]), "Self::LineOrPoint": ("GG.TopoPos.lineOrPoint", ["on"])}
TP_PATHS = {"None": "none", "Direction::On": "Direction.on", "Direction::Left": "Direction.left", "Direction::Right": "Direction.right"}
IM_PATHS = {"Dimensions::Empty": "Dim.empty", "Dimensions::ZeroDimensional": "Dim.zero", "Dimensions::OneDimensional": "Dim.one",
            "Dimensions::TwoDimensional": "Dim.two"}


def graph_jobs(repo):
    mod = strip_comments(open(os.path.join(repo, GGMOD)).read())
    m = re.search(r"pub\(crate\) enum Direction\s*\{([^}]*)\}", mod)
    if not m:
        raise JobError("enum Direction not found in " + GGMOD)
    dirs = [v.strip() for v in m.group(1).split(",") if v.strip()]
    if sorted(dirs) != ["Left", "On", "Right"]:
        raise JobError("enum Direction: unexpected variants %s" % dirs)
    direction = ("/-- `enum Direction` — %s (variants in declaration order) -/\ninductive Direction where\n" % GGMOD
                 + "".join("  | %s\n" % d.lower() for d in dirs) + "  deriving DecidableEq, Repr\n")
    some = {"Some": "(some {0})"}
    pure = {"variants": TP_VARIANTS}
    # a `&mut self` method: `self` is the mutable variable `self_`; a struct-variant arm binds the fields it names as `&mut`
    # variables and rebuilds `self_` at its end; `panic!` arms (wrong shape of position): state unchanged / `None`, as in the model
    mutating = {"variants": TP_VARIANTS, "muts": [("self_", TP)], "ret_ctor": "id", "places": {"self": "self_"}, "enum_vars": ["self_"],
                "field_types": {"on": "Option Pos", "left": "Option Pos", "right": "Option Pos"}, "panic": "none",
                "accessors": {"is_none": "{}.isNone"}}
    def ctor(fn, params):
        return dict(file=TPOS, hdr=r"pub fn %s\(%s\) -> Self \{" % (fn, params), paths=TP_PATHS, funcs=some, structs=TP_VARIANTS, ret=TP)
    def pred(fn):
        return dict(file=TPOS, hdr=r"pub fn %s\(&self\) -> bool \{" % fn, params="(self_ : GG.TopoPos)", ret="Bool", paths=TP_PATHS,
                    subst=[("self", "self_")], opts=pure)
    def setter(fn, params, lean_params):
        return dict(file=TPOS, hdr=r"pub fn %s\(&mut self%s\) \{" % (fn, params), params="(self_ : GG.TopoPos)" + lean_params, ret=TP,
                    paths=TP_PATHS, funcs=some, opts=mutating)
    im = {"muts": [("self_0", "IM")], "ret_ctor": "id", "places": {"self.0": "self_0"}, "self_var": "self_0",
          # `self.0[a][b]` on the 3×3 array indexed by `CoordPos` = the cell accessors of the model's `IM`
          "index2": {"self_0": {"get": "(IM.get {0} {1} {2})", "set": "(IM.set {0} {1} {2} {3})"}},
          # `<` on `Dimensions` (derive(Ord)) = comparison of the declaration ranks (`Dim.rank`; order tied by `Gen.dimensionsOrder`)
          "ord_key": "Dim.rank", "self_methods": {"set_at_least": "imSetAtLeast"}}
    pro = "  let self_0 := self_\n"
    return [
        dict(raw=direction),
        dict(ctor("area", "on: CoordPos, left: CoordPos, right: CoordPos"), name="tpArea", params="(on left right : Pos)"),
        dict(ctor("empty_area", ""), name="tpEmptyArea", params=""),
        dict(ctor("line_or_point", "on: CoordPos"), name="tpLineOrPoint", params="(on : Pos)"),
        dict(ctor("empty_line_or_point", ""), name="tpEmptyLineOrPoint", params=""),
        dict(file=TPOS, hdr=r"pub fn get\(&self, direction: Direction\) -> Option<CoordPos> \{", name="tpGet",
             params="(self_ : GG.TopoPos) (direction : Direction)", ret="Option Pos", paths=TP_PATHS, subst=[("self", "self_")],
             opts=dict(pure, panic="none")),
        dict(pred("is_empty"), name="tpIsEmpty"), dict(pred("is_any_empty"), name="tpIsAnyEmpty"),
        dict(pred("is_area"), name="tpIsArea"), dict(pred("is_line"), name="tpIsLine"),
        dict(setter("flip", "", ""), name="tpFlip"),
        dict(setter("set_all_positions", ", position: CoordPos", " (position : Pos)"), name="tpSetAllPositions"),
        dict(setter("set_all_positions_if_empty", ", position: CoordPos", " (position : Pos)"), name="tpSetAllPositionsIfEmpty"),
        dict(setter("set_position", ", direction: Direction, position: CoordPos", " (direction : Direction) (position : Pos)"), name="tpSetPosition"),
        dict(setter("set_on_position", ", position: CoordPos", " (position : Pos)"), name="tpSetOnPosition"),
        dict(file=IMRS, hdr=r"pub\(crate\) fn set\(\s*&mut self,\s*position_a: CoordPos,\s*position_b: CoordPos,\s*dimensions: Dimensions,\s*\) \{",
             name="imSet", params="(self_ : IM) (position_a position_b : Pos) (dimensions : Dim)", ret="IM", paths=IM_PATHS, pro=pro, opts=im),
        dict(file=IMRS, hdr=r"pub\(crate\) fn set_at_least\(\s*&mut self,\s*position_a: CoordPos,\s*position_b: CoordPos,\s*minimum_dimensions: Dimensions,\s*\) \{",
             name="imSetAtLeast", params="(self_ : IM) (position_a position_b : Pos) (minimum_dimensions : Dim)", ret="IM", paths=IM_PATHS, pro=pro, opts=im),
        dict(file=IMRS, hdr=r"pub\(crate\) fn set_at_least_if_in_both\(\s*&mut self,\s*position_a: Option<CoordPos>,\s*position_b: Option<CoordPos>,\s*minimum_dimensions: Dimensions,\s*\) \{",
             name="imSetAtLeastIfInBoth", params="(self_ : IM) (position_a position_b : Option Pos) (minimum_dimensions : Dim)", ret="IM",
             paths=IM_PATHS, pro=pro, opts=im),
    ] + label_jobs()


LABEL = "geo/src/algorithm/relate/geomgraph/label.rs"


def label_jobs():
    L = "GG.Label"
    # `geometry_topologies: [TopologyPosition; 2]` is the pair of fields (a, b) of the model's `Label`; `P[i]` reads / writes
    # through `Label.get` / `Label.set` (index 0 = a, any other index = b: the array has two elements, an index > 1 would
    # panic); `slice::swap(i, j)` = the two writes of the exchanged elements
    def ix(var, place):
        return {place: {"var": var, "get": "(GG.Label.get {0} {1})", "set": "(GG.Label.set {0} {1} {2})",
                        "methods": {"swap": "(GG.Label.set (GG.Label.set {0} {1} (GG.Label.get {0} {2})) {2} (GG.Label.get {0} {1}))"}}}
    tp_methods = {"flip": "tpFlip", "set_position": "tpSetPosition", "set_all_positions": "tpSetAllPositions",
                  "set_all_positions_if_empty": "tpSetAllPositionsIfEmpty"}
    mutating = {"muts": [("self_", L)], "ret_ctor": "id", "places": {"self.geometry_topologies": "self_gt"}, "index1": ix("self_", "self_gt"),
                "mut_methods": tp_methods}
    reading = {"places": {"self.geometry_topologies": "self_gt"}, "index1": ix("self_", "self_gt"),
               "accessors": {"is_empty": "(tpIsEmpty {})", "is_any_empty": "(tpIsAnyEmpty {})", "is_area": "(tpIsArea {})", "is_line": "(tpIsLine {})",
                             "iter": [(r"^self_gt$", "[self_.a, self_.b]")], "count": "{}.length"}}
    label_struct = {"Label": ("(fun (p : GG.TopoPos × GG.TopoPos) => GG.Label.mk p.1 p.2)", ["geometry_topologies"]),
                    "Self": ("(fun (p : GG.TopoPos × GG.TopoPos) => GG.Label.mk p.1 p.2)", ["geometry_topologies"])}
    paths = dict(TP_PATHS, **{"TopologyPosition::empty_line_or_point": "tpEmptyLineOrPoint", "TopologyPosition::empty_area": "tpEmptyArea",
                              "Self::empty_line_or_point": "labelEmptyLineOrPoint", "Self::empty_area": "labelEmptyArea"})
    def setter(fn, params, lean_params, name):
        return dict(file=LABEL, hdr=r"pub fn %s\(&mut self%s\) \{" % (fn, params), name=name, params="(self_ : GG.Label)" + lean_params, ret=L,
                    paths=paths, opts=mutating)
    def getter(fn, params, lean_params, ret, name, funcs=None):
        return dict(file=LABEL, hdr=r"pub fn %s\(&self%s\) -> %s \{" % (fn, params, {"Bool": "bool", "Nat": "usize", "Option Pos": "Option<CoordPos>"}[ret]),
                    name=name, params="(self_ : GG.Label)" + lean_params, ret=ret, paths=paths, funcs=funcs or {}, opts=reading)
    gi = ", geom_index: usize"
    return [
        setter("swap_args", "", "", "labelSwapArgs"),
        dict(file=LABEL, hdr=r"pub fn empty_line_or_point\(\) -> Label \{", name="labelEmptyLineOrPoint", params="", ret=L, paths=paths, structs=label_struct),
        dict(file=LABEL, hdr=r"pub fn empty_area\(\) -> Self \{", name="labelEmptyArea", params="", ret=L, paths=paths, structs=label_struct),
        dict(file=LABEL, hdr=r"pub fn new\(geom_index: usize, position: TopologyPosition\) -> Self \{", name="labelNew",
             params="(geom_index : Nat) (position : GG.TopoPos)", ret=L, paths=paths,
             opts={"mut_types": {"label": L}, "places": {"label.geometry_topologies": "label_gt"}, "index1": ix("label", "label_gt"),
                   "variants": {"TopologyPosition::Area": TP_VARIANTS["Self::Area"], "TopologyPosition::LineOrPoint": TP_VARIANTS["Self::LineOrPoint"]}}),
        setter("flip", "", "", "labelFlip"),
        getter("position", gi + ", direction: Direction", " (geom_index : Nat) (direction : Direction)", "Option Pos", "labelPosition", {".get": "(tpGet {0} {1})"}),
        getter("on_position", gi, " (geom_index : Nat)", "Option Pos", "labelOnPosition", {".get": "(tpGet {0} {1})"}),
        setter("set_position", gi + ", direction: Direction, position: CoordPos", " (geom_index : Nat) (direction : Direction) (position : Pos)", "labelSetPosition"),
        setter("set_on_position", gi + ", position: CoordPos", " (geom_index : Nat) (position : Pos)", "labelSetOnPosition"),
        setter("set_all_positions", gi + ", position: CoordPos", " (geom_index : Nat) (position : Pos)", "labelSetAllPositions"),
        setter("set_all_positions_if_empty", gi + ", position: CoordPos", " (geom_index : Nat) (position : Pos)", "labelSetAllPositionsIfEmpty"),
        getter("geometry_count", "", "", "Nat", "labelGeometryCount", {".filter": "(List.filter {1} {0})"}),
        getter("is_empty", gi, " (geom_index : Nat)", "Bool", "labelIsEmpty"),
        getter("is_any_empty", gi, " (geom_index : Nat)", "Bool", "labelIsAnyEmpty"),
        getter("is_area", "", "", "Bool", "labelIsArea"),
        getter("is_geom_area", gi, " (geom_index : Nat)", "Bool", "labelIsGeomArea"),
        getter("is_line", gi, " (geom_index : Nat)", "Bool", "labelIsLine"),
    ]


def graph_functions(repo, outdir, write):
    hdr = ["/- generated by translator/rs2lean.py (jobs2, statement fragment) from %s, %s and geomgraph/label.rs; do not edit -/" % (TPOS, IMRS),
           "import GeoModel.GeomGraph", "import GeoModel.RelateImpl", "import GeoModel.TRANPrelude", "",
           "namespace Geo.Gen", "open Geo", "set_option linter.unusedVariables false", ""]
    return emit(repo, outdir, "GraphGen.lean", hdr, graph_jobs(repo), write)



# ---------------------------------------------------------------------------------------------
# C14: validation/utils.rs

VUT = "geo/src/algorithm/validation/utils.rs"
ORI2 = {"Orientation::Collinear": "Ori.col"}


def valid_jobs(repo):
    return [
        # coordinates that may be non-finite are `V.XPt` (components `XNum`); `f64::is_finite` = `XNum.isFinite`
        dict(file=VUT, hdr=r"pub\(crate\) fn check_coord_is_not_finite<T: CoordFloat>\(geom: &Coord<T>\) -> bool \{", name="checkCoordIsNotFinite",
             params="(geom : V.XPt)", ret="Bool", opts={"accessors": {"is_finite": "{}.isFinite"}}),
        # `RemoveRepeatedPoints for LineString` = `Vec::dedup` on the coordinates with the derived (f64) equality of `Coord`:
        # `V.dedupBy V.ceq` (GeoModel/Validation.lean); the `.0` of the resulting LineString is the list itself
        dict(file=VUT, hdr=r"pub\(crate\) fn check_too_few_points<T: CoordFloat>\(geom: &LineString<T>, is_ring: bool\) -> bool \{", name="checkTooFewPoints",
             params="(geom : V.XRing) (is_ring : Bool)", ret="Bool", resub=[(r"\(V\.dedupBy V\.ceq geom\)\.1\b", "(V.dedupBy V.ceq geom)")],
             opts={"accessors": {"remove_repeated_points": "(V.dedupBy V.ceq {})", "len": "{}.length"}}),
        # finite coordinates from here on (the model calls these only on rings whose coordinates are all finite); a `Line` is the
        # pair of its end points; the robust `orient2d` = `Geo.orient` (sign of the exact determinant)
        dict(file=VUT, hdr=r"fn chained_lines_overlap<F: GeoFloat>\(line: &Line<F>, other_line: &Line<F>\) -> bool \{", name="chainedLinesOverlap",
             params="(line other_line : Pt × Pt)", ret="Bool", paths=ORI2,
             funcs={"F::Ker::orient2d": "Geo.orient", "same_side": "(same_side {0} {1} {2})"},
             subst=[("line.start", "line.1"), ("line.end", "line.2"), ("other_line.start", "other_line.1"), ("other_line.end", "other_line.2")],
             opts={"type_names": {"F": "Rat"}}),
        # `lines().enumerate()` = the consecutive pairs with their indices; `Line: Intersects<Line>` = Gen.lineLine (Kernel, tied in C02)
        dict(file=VUT, hdr=r"pub\(crate\) fn linestring_has_self_intersection<F: GeoFloat>\(geom: &LineString<F>\) -> bool \{",
             name="linestringHasSelfIntersection", params="(geom : List Pt)", ret="Bool",
             funcs={".intersects": "(Gen.lineLine {0}.1 {0}.2 {1}.1 {1}.2)", "chained_lines_overlap": "chainedLinesOverlap"},
             subst=[("line.start", "line.1"), ("line.end", "line.2"), ("other_line.start", "other_line.1"), ("other_line.end", "other_line.2")],
             opts={"accessors": {"lines": "(Geo.segs {})", "enumerate": "(Gen.enumerate {})"}}),
    ]


def valid_functions(repo, outdir, write):
    hdr = ["/- generated by translator/rs2lean.py (jobs2, statement fragment) from %s; do not edit -/" % VUT,
           "import GeoModel.Validation", "import GeoModel.TRANPrelude", "import GeoModel.Gen.Kernel", "",
           "namespace Geo.Gen", "open Geo", "set_option linter.unusedVariables false", ""]
    return emit(repo, outdir, "ValidGen.lean", hdr, valid_jobs(repo), write)


# ---------------------------------------------------------------------------------------------
# C09: simplify.rs (the selection step of `compute_rdp`), simplify_vw.rs (`VScore` ordering); C08: convex_hull/graham.rs, utils.rs

SIMP = "geo/src/algorithm/simplify.rs"
SVW = "geo/src/algorithm/simplify_vw.rs"
GRAHAM = "geo/src/algorithm/convex_hull/graham.rs"
UTILS = "geo/src/utils.rs"
ORD_PATHS = {"Ordering::Less": "Ordering.lt", "Ordering::Equal": "Ordering.eq", "Ordering::Greater": "Ordering.gt",
             "Orientation::CounterClockwise": "Ori.ccw", "Orientation::Clockwise": "Ori.cw", "Orientation::Collinear": "Ori.col"}
# `a.partial_cmp(&b)` on numbers = Gen.partialCmp? (never None: no NaN), `.unwrap()` = Gen.unwrap, `Ordering::then` = Ordering.then
CMP_FUNCS = {".partial_cmp": "(Gen.partialCmp? {0} {1})", ".then": "(Ordering.then {0} {1})"}


def simplify_jobs(repo):
    return [
        # the closure folded over the interior indices of `compute_rdp`: which (index, distance) pair survives; `>=`: the last
        # maximum wins. (The distances themselves are square roots in the code, squared in the model: the step is the same.)
        dict(file=SIMP, hdr=r"\|\(farthest_index, farthest_distance\), \(index, distance\)\| \{", name="rdpFoldStep",
             params="(farthest_index : Nat) (farthest_distance : Rat) (index : Nat) (distance : Rat)", ret="Nat × Rat"),
        # `impl Ord for VScore` (a min-heap on the area: the comparison is reversed) and `impl PartialEq`
        dict(file=SVW, hdr=r"fn cmp\(&self, other: &VScore<T>\) -> Ordering \{", name="vscoreCmp", params="(self_ other : Simp.VScore)",
             ret="Ordering", funcs=CMP_FUNCS, subst=[("self", "self_")], opts={"accessors": {"unwrap": "(Gen.unwrap {})"}}),
        dict(file=SVW, hdr=r"fn eq\(&self, other: &VScore<T>\) -> bool\s+where\s+T: CoordFloat,\s*\{", name="vscoreEq",
             params="(self_ other : Simp.VScore)", ret="Bool", subst=[("self", "self_")]),
    ]


def simplify_functions(repo, outdir, write):
    hdr = ["/- generated by translator/rs2lean.py (jobs2) from %s and %s; do not edit -/" % (SIMP, SVW),
           "import GeoModel.Simplify", "import GeoModel.TRANPrelude", "", "namespace Geo.Gen", "open Geo",
           "set_option linter.unusedVariables false", ""]
    return emit(repo, outdir, "SimplifyGen.lean", hdr, simplify_jobs(repo), write)


def hull_jobs(repo):
    return [
        dict(file=UTILS, hdr=r"pub fn lex_cmp<T: CoordNum>\(p: &Coord<T>, q: &Coord<T>\) -> Ordering \{", name="lexCmp", params="(p q : Pt)",
             ret="Ordering", funcs=CMP_FUNCS, opts={"accessors": {"unwrap": "(Gen.unwrap {})"}}),
        # the comparator closure of `graham_hull` (`let cmp = |q, r| match … ;`): the kernel's `square_euclidean_distance` is the
        # parameter `sqd` (the model rounds it like f64, `Hull.dist2r rnd`), `orient2d` is the exact `Geo.orient`
        dict(file=GRAHAM, hdr=r"let cmp = \|q: &Coord<T>, r: &Coord<T>\| ", expr_after=True, name="grahamCmp",
             params="(sqd : Pt → Pt → Rat) (head q r : Pt)", ret="Ordering", paths=ORD_PATHS,
             funcs=dict(CMP_FUNCS, **{"T::Ker::orient2d": "Geo.orient", "T::Ker::square_euclidean_distance": "(sqd {0} {1})"}),
             opts={"accessors": {"unwrap": "(Gen.unwrap {})"}}),
        # `Iterator::min_by` = Gen.minBy? (the first of the minimal elements, as std documents and implements it);
        # `iter().enumerate()` = (index, element) pairs; `.unwrap().0`: the index (`Gen.unwrap`: the empty slice is not modelled)
        dict(file=UTILS, hdr=r"pub fn least_index<T: CoordNum>\(pts: &\[Coord<T>\]\) -> usize \{", name="leastIndex", params="(pts : List Pt)",
             ret="Nat", funcs={".min_by": "(Gen.minBy? {1} {0})", "lex_cmp": "lexCmp"},
             opts={"accessors": {"iter": "{}", "enumerate": "(Gen.enumerate {})", "unwrap": "(Gen.unwrap {})"}}),
        # the body of `for pt in points.iter()` in `graham_hull`, as a function of the stack `output` (a Vec, top = last
        # element): the `while output.len() > 1` loop with its `break`s, then the conditional push. Every iteration that
        # does not break pops, so `output.len()` bounds the number of iterations (`while_fuel`; `none` = bound exhausted,
        # proved impossible by the tie theorem). `output[len - k]` = total indexing under the loop condition `len > 1`;
        # `Vec::pop` = dropLast, `last()` = getLast?
        dict(file=GRAHAM, hdr=r"for pt in points\.iter\(\) \{", name="grahamLoopBody",
             params="(include_on_hull : Bool) (output0 : List Pt) (pt : Pt)", ret="Option (List Pt)", paths=ORD_PATHS,
             funcs={"T::Ker::orient2d": "Geo.orient"}, pro="  let output := output0\n",
             opts={"muts": [("output", "List Pt")], "ret_ctor": "id", "option_wrap": True, "while_fuel": "output.length",
                   "unguarded_index": "total", "mut_methods": {"pop": "{0}.dropLast"},
                   "accessors": {"len": "{}.length", "last": "{}.getLast?", "unwrap": "(Gen.unwrap {})"}}),
    ]


def hull_functions(repo, outdir, write):
    hdr = ["/- generated by translator/rs2lean.py (jobs2) from %s and %s; do not edit -/" % (GRAHAM, UTILS),
           "import GeoModel.Hull", "import GeoModel.TRANPrelude", "import GeoModel.TRAN2Prelude", "", "namespace Geo.Gen", "open Geo",
           "set_option linter.unusedVariables false", ""]
    return emit(repo, outdir, "HullGen.lean", hdr, hull_jobs(repo), write)


ALL = [("ClosestGen.lean", closest_functions), ("CentroidGen.lean", centroid_functions), ("GraphGen.lean", graph_functions),
       ("ValidGen.lean", valid_functions), ("SimplifyGen.lean", simplify_functions), ("HullGen.lean", hull_functions)]


def run(repo, outdir, write):
    """returns [(file name, number of functions)]; raises JobError when a source left the fragment"""
    res = []
    for fname, fn in ALL:
        try:
            res.append((fname, fn(repo, outdir, write)))
        except rsexpr.TranslateError as e:
            raise JobError("%s: %s" % (fname, e))
    return res
