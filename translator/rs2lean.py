#!/usr/bin/env python3
"""
rs2lean.py <repo> <outdir> — restricted Rust→Lean translator (engine E2, DESIGN.md §2.1).

Regenerates, from the CURRENT Rust sources, the table-like fragment of the model so that the
theorems stated against it are re-checked against what the code says now:

  Gen/Masks.lean   IntersectionMatrix::{is_disjoint,is_intersects,is_within,is_contains,
                   is_coveredby,is_covers,is_touches}: boolean combinations of
                   `self.0[CoordPos::X][CoordPos::Y] (==|!=) Dimensions::Empty` (and `!self.is_…()`)
  Gen/Enums.lean   declaration order of Orientation, Dimensions, CoordPos (derive(Ord) order is
                   semantics) and the `OpType → OverlayRule` table of bool_ops

If a source leaves this grammar the translator exits non-zero; ./check treats that as a broken
obligation (search for a failing input, then report).
"""
import os, re, sys
sys.path.insert(0, os.path.dirname(os.path.abspath(__file__)))

def die(msg):
    print("rs2lean: " + msg)
    sys.exit(1)

def strip_comments(src):
    src = re.sub(r"/\*.*?\*/", " ", src, flags=re.S)
    return "\n".join(l.split("//")[0] for l in src.splitlines())

def fn_body(src, name):
    m = re.search(r"pub fn %s\s*\(\s*&self\s*\)\s*->\s*bool\s*\{" % re.escape(name), src)
    if not m:
        die("function %s not found" % name)
    i = m.end(); depth = 1; j = i
    while depth:
        if j >= len(src):
            die("unbalanced braces in " + name)
        if src[j] == "{": depth += 1
        elif src[j] == "}": depth -= 1
        j += 1
    return src[i:j - 1]

POS = {"Inside": "ii", "OnBoundary": "b", "Outside": "e"}
CELL = {("Inside", "Inside"): "ii", ("Inside", "OnBoundary"): "ib", ("Inside", "Outside"): "ie",
        ("OnBoundary", "Inside"): "bi", ("OnBoundary", "OnBoundary"): "bb", ("OnBoundary", "Outside"): "be",
        ("Outside", "Inside"): "ei", ("Outside", "OnBoundary"): "eb", ("Outside", "Outside"): "ee"}

TOKEN = re.compile(r"\s*(self\.0\[CoordPos::(\w+)\]\[CoordPos::(\w+)\]\s*(==|!=)\s*Dimensions::Empty"
                   r"|!\s*self\.(is_\w+)\(\)|self\.(is_\w+)\(\)|&&|\|\||\(|\))")

def translate_expr(body, fname):
    out = []
    i = 0
    body = body.strip()
    while i < len(body):
        m = TOKEN.match(body, i)
        if not m:
            rest = body[i:].strip()
            if not rest:
                break
            die("%s: cannot translate near: %r" % (fname, rest[:60]))
        t = m.group(1)
        if t.startswith("self.0["):
            a, b, op = m.group(2), m.group(3), m.group(4)
            if (a, b) not in CELL:
                die("%s: unknown cell %s %s" % (fname, a, b))
            out.append("(m.%s %s .empty)" % (CELL[(a, b)], "==" if op == "==" else "!="))
        elif t.startswith("!"):
            out.append("!(%s m)" % lean_name(m.group(5)))
        elif t.startswith("self.is_"):
            out.append("(%s m)" % lean_name(m.group(6)))
        else:
            out.append(t)
        i = m.end()
    return " ".join(out)

def lean_name(rs):
    parts = rs.split("_")
    return parts[0] + "".join(p.capitalize() for p in parts[1:])

def enum_variants(src, name):
    m = re.search(r"pub enum %s\s*\{([^}]*)\}" % name, src)
    if not m:
        die("enum %s not found" % name)
    vs = [v.strip().split("(")[0].split("=")[0].strip() for v in m.group(1).split(",")]
    vs = [v for v in vs if v and not v.startswith("#")]
    return vs

def write(path, content):
    if os.path.exists(path) and open(path).read() == content:
        return
    os.makedirs(os.path.dirname(path), exist_ok=True)
    open(path, "w").write(content)

ORI_PATHS = {"CoordPos::OnBoundary": "Pos.onBoundary", "CoordPos::Inside": "Pos.inside", "CoordPos::Outside": "Pos.outside",
             "Zero::zero": "0", "T::zero": "0", "Orientation::CounterClockwise": "Ori.ccw",
             "Orientation::Clockwise": "Ori.cw", "Orientation::Collinear": "Ori.col"}

# (file, header regex, Lean name, Lean parameters, Lean result type, whitelisted functions, receiver substitutions)
KERNEL_FNS = [
    ("geo/src/algorithm/intersects/mod.rs", r"fn value_in_range<T>\(value: T, min: T, max: T\) -> bool[^{]*\{",
     "valueInRange", "(value min max : Rat)", "Bool", {}, []),
    ("geo/src/algorithm/intersects/mod.rs", r"fn value_in_between<T>\(value: T, bound_1: T, bound_2: T\) -> bool[^{]*\{",
     "valueInBetween", "(value bound_1 bound_2 : Rat)", "Bool", {"value_in_range": "valueInRange"}, []),
    ("geo/src/algorithm/intersects/mod.rs", r"fn point_in_rect<T>\(value: Coord<T>, bound_1: Coord<T>, bound_2: Coord<T>\) -> bool[^{]*\{",
     "pointInRect", "(value bound_1 bound_2 : Pt)", "Bool", {"value_in_between": "valueInBetween"}, []),
    ("geo/src/algorithm/intersects/rect.rs", r"impl<T> Intersects<Coord<T>> for Rect<T>.*?fn intersects\(&self, rhs: &Coord<T>\) -> bool \{",
     "rectCoord", "(mn mx rhs : Pt)", "Bool", {}, [("self.min", "mn"), ("self.max", "mx")]),
    ("geo/src/algorithm/intersects/rect.rs", r"impl<T> Intersects<Rect<T>> for Rect<T>.*?fn intersects\(&self, other: &Rect<T>\) -> bool \{",
     "rectRect", "(mn mx omn omx : Pt)", "Bool", {},
     [("self.min", "mn"), ("self.max", "mx"), ("other.min", "omn"), ("other.max", "omx")]),
    ("geo/src/algorithm/contains/rect.rs", r"impl<T> Contains<Coord<T>> for Rect<T>.*?fn contains\(&self, coord: &Coord<T>\) -> bool \{",
     "rectContainsCoord", "(mn mx coord : Pt)", "Bool", {}, [("self.min", "mn"), ("self.max", "mx")]),
    ("geo/src/algorithm/contains/rect.rs", r"impl<T> Contains<Rect<T>> for Rect<T>.*?fn contains\(&self, other: &Rect<T>\) -> bool \{",
     "rectContainsRect", "(mn mx omn omx : Pt)", "Bool", {},
     [("self.min", "mn"), ("self.max", "mx"), ("other.min", "omn"), ("other.max", "omx")]),
    ("geo-types/src/private_utils.rs", r"fn get_min_max<T: PartialOrd>\(p: T, min: T, max: T\) -> \(T, T\) \{",
     "getMinMax", "(p min max : Rat)", "Rat × Rat", {}, []),
    ("geo/src/utils.rs", r"pub fn partial_max<T: PartialOrd>\(a: T, b: T\) -> T \{", "partialMax", "(a b : Rat)", "Rat", {}, []),
    ("geo/src/utils.rs", r"pub fn partial_min<T: PartialOrd>\(a: T, b: T\) -> T \{", "partialMin", "(a b : Rat)", "Rat", {}, []),
    ("geo/src/algorithm/kernels/mod.rs", r"fn orient2d\(p: Coord<T>, q: Coord<T>, r: Coord<T>\) -> Orientation \{",
     "orient2d", "(p q r : Pt)", "Ori", {}, []),
    ("geo/src/algorithm/kernels/mod.rs", r"fn square_euclidean_distance\(p: Coord<T>, q: Coord<T>\) -> T \{",
     "squareEuclideanDistance", "(p q : Pt)", "Rat", {}, []),
    ("geo-types/src/geometry/line.rs", r"pub fn determinant\(&self\) -> T \{", "lineDeterminant", "(s e : Pt)", "Rat", {},
     [("self.start", "s"), ("self.end", "e")]),
    ("geo-types/src/geometry/point.rs", r"pub fn cross_prod\(self, point_b: Self, point_c: Self\) -> T \{",
     "crossProd", "(self_ point_b point_c : Pt)", "Rat", {}, [("self", "self_")]),
    ("geo/src/algorithm/intersects/line.rs", r"impl<T> Intersects<Coord<T>> for Line<T>.*?fn intersects\(&self, rhs: &Coord<T>\) -> bool \{",
     "lineCoord", "(s e rhs : Pt)", "Bool", {"T::Ker::orient2d": "Geo.orient", "point_in_rect": "pointInRect"},
     [("self.start", "s"), ("self.end", "e")]),
    ("geo/src/algorithm/intersects/line.rs", r"impl<T> Intersects<Line<T>> for Line<T>.*?fn intersects\(&self, line: &Line<T>\) -> bool \{",
     "lineLine", "(s e ls le : Pt)", "Bool",
     {"T::Ker::orient2d": "Geo.orient", "point_in_rect": "pointInRect", ".intersects": "lineCoord"},
     [("line.start", "ls"), ("line.end", "le"), ("self.start", "s"), ("self.end", "e"), ("line", "ls le")]),
]

def kernel_functions(repo, outdir):
    """Gen/Kernel.lean: small pure kernel functions regenerated from their Rust bodies."""
    import rsexpr
    out = ["/- generated by translator/rs2lean.py (rsexpr) from the Rust sources named beside each definition; do not edit -/",
           "import GeoModel.Orient", "", "namespace Geo.Gen", ""]
    cache = {}
    for (rel, hdr, name, params, ret, funcs, subst) in KERNEL_FNS:
        if rel not in cache:
            cache[rel] = strip_comments(open(os.path.join(repo, rel)).read())
        try:
            term = rsexpr.translate(cache[rel], hdr, ORI_PATHS, funcs, subst)
        except rsexpr.TranslateError as e:
            die("%s (%s): %s" % (name, rel, e))
        out.append("/-- `%s` — %s -/" % (name, rel))
        out.append("def %s %s : %s :=\n  %s\n" % (name, params, ret, term))
    # the per-edge body of the winding loop of `coord_pos_relative_to_ring`
    rel = "geo/src/algorithm/coordinate_position.rs"
    src = strip_comments(open(os.path.join(repo, rel)).read())
    try:
        term = rsexpr.translate_effect_loop(
            src, r"pub fn coord_pos_relative_to_ring.*?for line in linestring\.lines\(\) \{", ORI_PATHS,
            {"T::Ker::orient2d": "Geo.orient", "value_in_between": "valueInBetween"},
            [("line.start", "s"), ("line.end", "e")], "winding_number")
    except rsexpr.TranslateError as e:
        die("ringEdge (%s): %s" % (rel, e))
    out.append("/-- one iteration of the winding loop of `coord_pos_relative_to_ring` — %s:" % rel)
    out.append("`none` = `return CoordPos::OnBoundary`, `some d` = `winding_number += d` -/")
    out.append("def ringEdge (coord s e : Pt) : Option Int :=\n  %s\n" % term)
    out += ["end Geo.Gen", ""]
    write(os.path.join(outdir, "Kernel.lean"), "\n".join(out))
    return len(KERNEL_FNS) + 1

AFF = "geo/src/algorithm/affine_ops.rs"
AFF_PATHS = {"T::zero": "0", "T::one": "1", "None": "none"}
AFF_IDX = [(r"([A-Za-z_]+)\.1⟦(\d)⟧⟦(\d)⟧", r"\1.m\2\3")]
# (header regex, Lean name, parameters, result type, funcs, subst, extra regex substitutions)
AFFINE_FNS = [
    (r"pub fn new\(a: T, b: T, xoff: T, d: T, e: T, yoff: T\) -> Self \{", "affNew", "(a b xoff d e yoff : Rat)", "Affine Rat",
     {"Self": "Affine.ofRows"}, [], []),
    (r"pub fn compose\(&self, other: &Self\) -> Self \{", "affCompose", "(self_ other : Affine Rat)", "Affine Rat",
     {"Self": "Affine.ofRows"}, [("self", "self_")], AFF_IDX),
    (r"pub fn apply\(&self, coord: Coord<T>\) -> Coord<T> \{", "affApply", "(self_ : Affine Rat) (coord : Pt)", "Pt",
     {}, [("self", "self_")], AFF_IDX),
    (r"pub fn scale\(xfact: T, yfact: T, origin: impl Into<Coord<T>>\) -> Self \{", "affScale",
     "(xfact yfact : Rat) (origin : Rat × Rat)", "Affine Rat", {"Self::new": "affNew"}, [], [(r"origin\.into\.x_y", "origin")]),
    (r"pub fn translate\(xoff: T, yoff: T\) -> Self \{", "affTranslate", "(xoff yoff : Rat)", "Affine Rat",
     {"Self::new": "affNew"}, [], []),
    (r"pub fn identity\(\) -> Self \{", "affIdentity", "", "Affine Rat", {"Self::new": "affNew"}, [], []),
    (r"pub fn rotate\(degrees: U, origin: impl Into<Coord<U>>\) -> Self \{", "affRotate",
     "(trig : Rat × Rat) (origin : Rat × Rat)", "Affine Rat", {"Self::new": "affNew"}, [],
     [(r"origin\.into\.x_y", "origin"), (r"degrees\.to_radians\.sin_cos", "trig")]),
    (r"pub fn inverse\(&self\) -> Option<Self>.*?\{", "affInverse", "(self_ : Affine Rat)", "Option (Affine Rat)",
     {"Self::new": "affNew", "Some": "some"}, [("self", "self_")], AFF_IDX),
]

def affine_functions(repo, outdir):
    """Gen/AffineGen.lean: the algebraic core of `AffineTransform` regenerated from affine_ops.rs (at `Rat`)."""
    import rsexpr
    src = strip_comments(open(os.path.join(repo, AFF)).read())
    out = ["/- generated by translator/rs2lean.py (rsexpr) from %s; do not edit -/" % AFF,
           "import GeoModel.Affine", "", "namespace Geo.Gen", "open Geo", ""]
    for (hdr, name, params, ret, funcs, subst, resub) in AFFINE_FNS:
        try:
            term = rsexpr.translate(src, hdr, AFF_PATHS, funcs, subst, structs={"Coord": ("Pt.mk", ["x", "y"])}, resub=resub)
        except rsexpr.TranslateError as e:
            die("%s (%s): %s" % (name, AFF, e))
        out.append("/-- `AffineTransform::%s` — %s -/" % (name, AFF))
        out.append("def %s %s : %s :=\n  %s\n" % (name, params, ret, term))
    out += ["end Geo.Gen", ""]
    write(os.path.join(outdir, "AffineGen.lean"), "\n".join(out))
    return len(AFFINE_FNS)

RECT = "geo-types/src/geometry/rect.rs"
RECT_STRUCTS = {"Coord": ("Pt.mk", ["x", "y"]), "Self": ("SM.RectS.mk", ["min", "max"])}
RECT_FNS = [
    (r"pub fn new<C>\(c1: C, c2: C\) -> Self\s+where\s+C: Into<Coord<T>>,\s*\{", "rectNew", "(c1 c2 : Pt)", "SM.RectS",
     {}, [], [(r"([a-z0-9]+)\.into\b", r"\1")]),
    (r"fn has_valid_bounds\(&self\) -> bool \{", "rectHasValidBounds", "(self_ : SM.RectS)", "Bool", {},
     [("self.min", "self_.mn"), ("self.max", "self_.mx")], []),
    (r"pub fn width\(self\) -> T \{", "rectWidth", "(self_ : SM.RectS)", "Rat", {},
     [("self.max", "self_.mx"), ("self.min", "self_.mn")], []),
    (r"pub fn height\(self\) -> T \{", "rectHeight", "(self_ : SM.RectS)", "Rat", {},
     [("self.max", "self_.mx"), ("self.min", "self_.mn")], []),
    (r"pub fn center\(self\) -> Coord<T> \{", "rectCenter", "(self_ : SM.RectS)", "Pt", {},
     [("self.max", "self_.mx"), ("self.min", "self_.mn")], []),
]

def rect_functions(repo, outdir):
    """Gen/RectGen.lean: `Rect::{new, has_valid_bounds, width, height, center}` regenerated from geo-types."""
    import rsexpr
    src = strip_comments(open(os.path.join(repo, RECT)).read())
    out = ["/- generated by translator/rs2lean.py (rsexpr) from %s; do not edit -/" % RECT,
           "import GeoModel.PolygonSM", "", "namespace Geo.Gen", "open Geo", ""]
    for (hdr, name, params, ret, funcs, subst, resub) in RECT_FNS:
        try:
            term = rsexpr.translate(src, hdr, {"T::one": "1", "T::zero": "0"}, funcs, subst, structs=RECT_STRUCTS, resub=resub)
        except rsexpr.TranslateError as e:
            die("%s (%s): %s" % (name, RECT, e))
        out.append("/-- `Rect::%s` — %s -/" % (name, RECT))
        out.append("def %s %s : %s :=\n  %s\n" % (name, params, ret, term))
    out += ["end Geo.Gen", ""]
    write(os.path.join(outdir, "RectGen.lean"), "\n".join(out))
    return len(RECT_FNS)

def interp_functions(repo, outdir):
    """Gen/InterpGen.lean: `Point::dot` (geo-types) and `Line::line_locate_point` (finite input) from source."""
    import rsexpr
    out = ["/- generated by translator/rs2lean.py (rsexpr); do not edit -/",
           "import GeoModel.Interp", "", "namespace Geo.Gen", "open Geo", ""]
    jobs = [
        ("geo-types/src/geometry/point.rs", r"pub fn dot\(self, other: Self\) -> T \{", "pointDot", "(self_ other : Pt)", "Rat",
         {}, [("self", "self_")], []),
        # `l.is_finite()` is true of every rational: the model covers finite input (the harness sends nothing else here)
        ("geo/src/algorithm/line_locate_point.rs",
         r"for Line<T>\s+where\s+T: CoordFloat,\s*\{.*?fn line_locate_point\(&self, p: &Self::Rhs\) -> Self::Output \{",
         "lineLocatePoint", "(s e p : Pt)", "Option Rat",
         {".dot": "pointDot", "Some": "some", ".max": "rmax", ".min": "rmin"},
         [("self.start_point", "s"), ("self.end", "e"), ("self.start", "s")],
         [(r"\b([a-z_]+)\.is_finite\b", "true"), (r"\)\.into\b", ")")]),
    ]
    for (rel, hdr, name, params, ret, funcs, subst, resub) in jobs:
        src = strip_comments(open(os.path.join(repo, rel)).read())
        try:
            term = rsexpr.translate(src, hdr, {"T::one": "1", "T::zero": "0", "None": "none"}, funcs, subst, resub=resub)
        except rsexpr.TranslateError as e:
            die("%s (%s): %s" % (name, rel, e))
        out.append("/-- `%s` — %s -/" % (name, rel))
        out.append("def %s %s : %s :=\n  %s\n" % (name, params, ret, term))
    out += ["end Geo.Gen", ""]
    write(os.path.join(outdir, "InterpGen.lean"), "\n".join(out))
    return len(jobs)

# ---------------------------------------------------------------------------------------------
# Statement fragment (rsexpr.StmtParser): `CoordinatePosition` from geo/src/algorithm/coordinate_position.rs

CPOS = "geo/src/algorithm/coordinate_position.rs"
CP_PATHS = dict(ORI_PATHS)
CP_PATHS.update({"Ordering::Less": "Ordering.lt", "Ordering::Equal": "Ordering.eq", "Ordering::Greater": "Ordering.gt"})
CP_PARAMS = r"\(\s*&self,\s*coord: &Coord<T>,\s*is_inside: &mut bool,\s*%s: &mut usize,?\s*\)\s*\{"

def cp_header(ty, bc="boundary_count"):
    return r"impl<T> CoordinatePosition for %s<T>.*?fn calculate_coordinate_position" % ty + CP_PARAMS % bc

def cp_opts(bc="boundary_count", **kw):
    o = {"muts": [("is_inside", "Bool"), (bc, "Nat")], "ret_ctor": "PosAcc.mk", "ret_type": "PosAcc",
         # release build: debug assertions are compiled out (the harness is built with --release)
         "debug_assert": "skip", "accessors": {}, "mut_types": {}}
    o.update(kw)
    return o

def cp_call(fn):
    """`x.calculate_coordinate_position(coord, a, b)` resolved (by the receiver's static type, chosen per job) to `fn`"""
    return {"calculate_coordinate_position": {"fn": fn, "ctor": "PosAcc.mk", "proj": ["inside", "bcount"]}}

# semantic choices shared by the jobs below (each one explicit here):
#   Vec<_> = List, .len() = List.length, .is_empty() = List.isEmpty, .first()/.last() = head?/getLast?, .iter() = the list
#   Option::unwrap = Gen.unwrap (total; panic not modelled), usize / i32 counters = Nat / Int without overflow
VEC_ACC = {"len": "{}.length", "is_empty": "{}.isEmpty", "first": "{}.head?", "last": "{}.getLast?", "iter": "{}",
           "unwrap": "(Gen.unwrap {})"}

def coordpos_jobs(repo):
    import rsexpr
    tri = strip_comments(open(os.path.join(repo, "geo-types/src/geometry/triangle.rs")).read())
    to_lines = rsexpr.array_literal(tri, r"pub fn to_lines\(&self\) -> \[Line<T>; 3\] \{", {}, {"Line::new": "Prod.mk"})
    acc = "(acc : PosAcc)"
    # (header, Lean name, parameters, paths, funcs, subst, resub, opts)
    return [
        (r"pub fn coord_pos_relative_to_ring<T>\(coord: Coord<T>, linestring: &LineString<T>\) -> CoordPos\s+where\s+T: GeoNum,\s*\{",
         "coordPosRelativeToRing", "(coord : Pt) (linestring : List Pt)", "Pos",
         {"T::Ker::orient2d": "Geo.orient", "value_in_between": "Gen.valueInBetween"},
         [("linestring.1", "linestring"), ("line.start", "line.1"), ("line.end", "line.2")], [],
         {"ret_type": "Pos", "debug_assert": "skip", "mut_types": {"winding_number": "Int"},
          # `LineString::lines()` = consecutive coordinate pairs (`windows(2)`), modelled by `Geo.segs`
          "accessors": dict(VEC_ACC, lines="(Geo.segs {})")}),
        (cp_header("Coord", "_boundary_count"), "coordCalc", "(self_ coord : Pt) " + acc, "PosAcc", {}, [("self", "self_")], [],
         cp_opts("_boundary_count")),
        (cp_header("Point", "_boundary_count"), "pointCalc", "(self_ coord : Pt) " + acc, "PosAcc", {}, [("self.1", "self_")], [],
         cp_opts("_boundary_count")),
        (cp_header("Line"), "lineCalc", "(s e coord : Pt) " + acc, "PosAcc", {".intersects": "Gen.lineCoord"},
         [("self.start", "s"), ("self.end", "e"), ("self", "s e")], [], cp_opts(state_calls=cp_call("coordCalc"))),
        (cp_header("LineString"), "lineStringCalc", "(cs : List Pt) (coord : Pt) " + acc, "PosAcc",
         {"Line::new": "{0} {1}",
          ".intersects": [(r"^\(Gen\.unwrap \(Geo\.getBoundingRect self\)\)$", "(Gen.rectCoord {0}.1 {0}.2 {1})"),
                          (r"^self$", "(Geo.lineStringCoord {0} {1})")]},
         [("self.1", "cs"), ("self", "cs")], [],
         cp_opts(state_calls=cp_call("lineCalc"),
                 accessors=dict(VEC_ACC, bounding_rect="(Geo.getBoundingRect {})", is_closed="(Geo.isClosedLS {})"))),
        (cp_header("Triangle"), "triangleCalc", "(a b c coord : Pt) " + acc, "PosAcc",
         {"T::Ker::orient2d": "Geo.orient", "point_in_rect": "Gen.pointInRect"},
         [("self.1", "a"), ("self.2", "b"), ("self.3", "c"), ("l.start", "l.1"), ("l.end", "l.2")], [],
         cp_opts(arrays={"self.to_lines": to_lines}, accessors={"to_lines": "{}.to_lines"})),
        (cp_header("Rect"), "rectCalc", "(mn mx coord : Pt) " + acc, "PosAcc",
         {".partial_cmp": "(Gen.partialCmp? {0} {1})"}, [("self.min", "mn"), ("self.max", "mx")], [],
         cp_opts(accessors={"min": "{}.min", "max": "{}.max", "unwrap": "(Gen.unwrap {})"})),
        (cp_header("MultiPoint", "_boundary_count"), "multiPointCalc", "(ps : List Pt) (coord : Pt) " + acc, "PosAcc",
         {".any": "({0}.any {1})"}, [("self.1", "ps"), ("p.1", "p")], [], cp_opts("_boundary_count", accessors=VEC_ACC)),
        (cp_header("Polygon"), "polygonCalc", "(poly : Poly) (coord : Pt) " + acc, "PosAcc",
         {"coord_pos_relative_to_ring": "coordPosRelativeToRing"}, [("self", "poly")], [],
         # `Polygon::is_empty` (HasDimensions) = `self.exterior().0.is_empty()`
         cp_opts(accessors={"is_empty": "{}.ext.isEmpty", "exterior": "{}.ext", "interiors": "{}.ints"})),
        (cp_header("MultiLineString"), "multiLineStringCalc", "(ls : List (List Pt)) (coord : Pt) " + acc, "PosAcc", {},
         [("self.1", "ls")], [], cp_opts(state_calls=cp_call("lineStringCalc"))),
        (cp_header("MultiPolygon"), "multiPolygonCalc", "(ps : List Poly) (coord : Pt) " + acc, "PosAcc", {},
         [("self.1", "ps")], [], cp_opts(state_calls=cp_call("polygonCalc"), mut_types={"member_boundary_count": "Nat"})),
        # `for geometry in self`: the members, each through the `Geometry` enum — the recursive call is the parameter `calcFn`
        (cp_header("GeometryCollection"), "geometryCollectionCalc", "(calcFn : Geom → Pt → PosAcc → PosAcc) (gs : List Geom) (coord : Pt) " + acc,
         "PosAcc", {}, [("self", "gs")], [], cp_opts(state_calls=cp_call("calcFn"))),
        # the provided trait method; `self.calculate_coordinate_position` is the parameter `calcFn`
        (r"fn coordinate_position\(&self, coord: &Coord<Self::Scalar>\) -> CoordPos \{",
         "coordinatePosition", "(calcFn : Pt → PosAcc → PosAcc) (coord : Pt)", "Pos", {}, [], [(r"\(calcFn self coord", "(calcFn coord")],
         {"ret_type": "Pos", "mut_types": {"boundary_count": "Nat"}, "state_calls": cp_call("calcFn")}),
    ]

def coordpos_functions(repo, outdir):
    """Gen/CoordPosGen.lean: the `CoordinatePosition` impls and `coord_pos_relative_to_ring`, whole bodies."""
    import rsexpr
    src = strip_comments(open(os.path.join(repo, CPOS)).read())
    out = ["/- generated by translator/rs2lean.py (rsexpr, statement fragment) from %s; do not edit -/" % CPOS,
           "import GeoModel.Locate", "import GeoModel.TRANPrelude", "import GeoModel.Gen.Kernel", "",
           "namespace Geo.Gen", "open Geo", "set_option linter.unusedVariables false", ""]
    try:
        jobs = coordpos_jobs(repo)
    except rsexpr.TranslateError as e:
        die("Triangle::to_lines: %s" % e)
    for (hdr, name, params, ret, funcs, subst, resub, opts) in jobs:
        try:
            term = rsexpr.translate_fn(src, hdr, CP_PATHS, funcs, subst, resub=resub, opts=opts)
        except rsexpr.TranslateError as e:
            die("%s (%s): %s" % (name, CPOS, e))
        pro = ""
        if opts.get("ret_ctor"):
            pro = "".join("  let %s := acc.%s\n" % (m[0], f) for m, f in zip(opts["muts"], ["inside", "bcount"]))
        out.append("/-- `%s` — %s -/" % (name, CPOS))
        out.append("def %s %s : %s :=\n%s%s\n" % (name, params, ret, pro, term))
    out += ["end Geo.Gen", ""]
    write(os.path.join(outdir, "CoordPosGen.lean"), "\n".join(out))
    return len(jobs)

# ---------------------------------------------------------------------------------------------
# `HasDimensions` from geo/src/algorithm/dimensions.rs (and `LineString::is_closed` from geo-types)

DIMS = "geo/src/algorithm/dimensions.rs"
DIM_PATHS = {"Dimensions::Empty": "Dim.empty", "Dimensions::ZeroDimensional": "Dim.zero", "Dimensions::OneDimensional": "Dim.one",
             "Dimensions::TwoDimensional": "Dim.two", "Collinear": "Ori.col"}

def dim_hdr(bounds, ty, fn, ret):
    return r"impl<C: %s> HasDimensions for %s<C> \{.*?fn %s\(&self\) -> %s \{" % (bounds, ty, fn, ret)

def dims_jobs():
    D = {"ret_type": "Dim"}
    B = {"ret_type": "Bool"}
    # `unreachable!()` arms (a dimension that the type cannot have): the job picks `Empty`, as the hand-written model does;
    # the arm is dead code (dims of these types is never the excluded value), a panic there would be seen by the harness
    U = {"unreachable": "Dim.empty"}
    ls_acc = dict(VEC_ACC, is_closed="(lineStringIsClosed {})", dimensions="(lineStringDimensions {})")
    return [
        # (file, header, Lean name, params, ret, funcs, subst, resub, opts)
        ("geo-types/src/geometry/line_string.rs", r"pub fn is_closed\(&self\) -> bool \{", "lineStringIsClosed", "(cs : List Pt)", "Bool",
         {}, [("self.1", "cs")], [], dict(B, accessors=VEC_ACC)),
        (DIMS, dim_hdr("CoordNum", "Line", "dimensions", "Dimensions"), "lineDimensions", "(s e : Pt)", "Dim", {},
         [("self.start", "s"), ("self.end", "e")], [], D),
        (DIMS, dim_hdr("CoordNum", "Line", "boundary_dimensions", "Dimensions"), "lineBoundaryDimensions", "(s e : Pt)", "Dim", {},
         [("self.start", "s"), ("self.end", "e")], [], D),
        (DIMS, dim_hdr("CoordNum", "LineString", "is_empty", "bool"), "lineStringIsEmpty", "(cs : List Pt)", "Bool", {},
         [("self.1", "cs")], [], dict(B, accessors=VEC_ACC)),
        (DIMS, dim_hdr("CoordNum", "LineString", "dimensions", "Dimensions"), "lineStringDimensions", "(cs : List Pt)", "Dim",
         {".any": "({0}.any {1})"}, [("self.1", "cs")], [], dict(D, accessors=VEC_ACC)),
        (DIMS, dim_hdr("CoordNum", "LineString", "boundary_dimensions", "Dimensions"), "lineStringBoundaryDimensions", "(cs : List Pt)", "Dim",
         {}, [("self", "cs")], [], dict(D, accessors=ls_acc, **U)),
        (DIMS, dim_hdr("CoordNum", "Polygon", "is_empty", "bool"), "polygonIsEmpty", "(poly : Poly)", "Bool", {},
         [("self", "poly")], [], dict(B, accessors={"exterior": "{}.ext", "is_empty": "(lineStringIsEmpty {})"})),
        # `exterior_coords_iter()` = the coordinates of the exterior ring in order (geo/src/algorithm/coords_iter.rs)
        (DIMS, dim_hdr("CoordNum", "Polygon", "dimensions", "Dimensions"), "polygonDimensions", "(poly : Poly)", "Dim", {},
         [("self", "poly")], [], dict(D, accessors={"exterior_coords_iter": "{}.ext"}, mut_types={"coords": "List Pt"})),
        (DIMS, dim_hdr("CoordNum", "Polygon", "boundary_dimensions", "Dimensions"), "polygonBoundaryDimensions", "(poly : Poly)", "Dim", {},
         [("self", "poly")], [], dict(D, accessors={"dimensions": "(polygonDimensions {})"})),
        (DIMS, dim_hdr("CoordNum", "MultiLineString", "dimensions", "Dimensions"), "multiLineStringDimensions", "(ls : List (List Pt))", "Dim", {},
         [("self.1", "ls")], [], dict(D, accessors={"dimensions": "(lineStringDimensions {})"}, mut_types={"max": "Dim"}, **U)),
        (DIMS, dim_hdr("CoordNum", "MultiPolygon", "dimensions", "Dimensions"), "multiPolygonDimensions", "(ps : List Poly)", "Dim",
         # `Ord::max` on the derive(Ord) enum = the later declared variant
         {".max": "(Dim.max {0} {1})"}, [("self", "ps")], [],
         dict(D, accessors={"dimensions": "(polygonDimensions {})"}, mut_types={"max": "Dim"})),
        (DIMS, dim_hdr("CoordNum", "MultiPolygon", "boundary_dimensions", "Dimensions"), "multiPolygonBoundaryDimensions", "(ps : List Poly)", "Dim",
         {}, [("self", "ps")], [], dict(D, accessors={"dimensions": "(multiPolygonDimensions {})"})),
        (DIMS, dim_hdr("CoordNum", "MultiPoint", "is_empty", "bool"), "multiPointIsEmpty", "(ps : List Pt)", "Bool", {},
         [("self.1", "ps")], [], dict(B, accessors=VEC_ACC)),
        (DIMS, dim_hdr("CoordNum", "MultiPoint", "dimensions", "Dimensions"), "multiPointDimensions", "(ps : List Pt)", "Dim", {},
         [("self.1", "ps")], [], dict(D, accessors=VEC_ACC)),
        # `self.iter().all(LineString::is_empty)`: a method path used as a function
        (DIMS, dim_hdr("CoordNum", "MultiLineString", "is_empty", "bool"), "multiLineStringIsEmpty", "(ls : List (List Pt))", "Bool",
         {".all": "({0}.all {1})"}, [("self", "ls")], [], dict(B, accessors={"iter": "{}"}, paths={"LineString::is_empty": "lineStringIsEmpty"})),
        (DIMS, dim_hdr("CoordNum", "MultiPolygon", "is_empty", "bool"), "multiPolygonIsEmpty", "(ps : List Poly)", "Bool",
         {".all": "({0}.all {1})"}, [("self", "ps")], [], dict(B, accessors={"iter": "{}"}, paths={"Polygon::is_empty": "polygonIsEmpty"})),
        # `for geom in self`: the members through the `Geometry` enum — `geom.dimensions()` is the parameter `dimsFn`
        (DIMS, dim_hdr("GeoNum", "GeometryCollection", "dimensions", "Dimensions"), "geometryCollectionDimensions",
         "(dimsFn : Geom → Dim) (gs : List Geom)", "Dim", {".max": "(Dim.max {0} {1})"}, [("self", "gs")], [],
         dict(D, accessors={"dimensions": "(dimsFn {})"}, mut_types={"max": "Dim"})),
        (DIMS, dim_hdr("GeoNum", "GeometryCollection", "boundary_dimensions", "Dimensions"), "geometryCollectionBoundaryDimensions",
         "(bdimsFn : Geom → Dim) (gs : List Geom)", "Dim", {".max": "(Dim.max {0} {1})"}, [("self", "gs")], [],
         dict(D, accessors={"boundary_dimensions": "(bdimsFn {})"}, mut_types={"max": "Dim"})),
        (DIMS, dim_hdr("CoordNum", "Rect", "dimensions", "Dimensions"), "rectDimensions", "(mn mx : Pt)", "Dim", {},
         [("self.min", "mn"), ("self.max", "mx")], [], dict(D, accessors={"min": "{}.min", "max": "{}.max"})),
        (DIMS, dim_hdr("CoordNum", "Rect", "boundary_dimensions", "Dimensions"), "rectBoundaryDimensions", "(mn mx : Pt)", "Dim", {},
         [("self", "mn mx")], [], dict(D, accessors={"dimensions": "(rectDimensions {})"}, **U)),
        (DIMS, dim_hdr("GeoNum", "Triangle", "dimensions", "Dimensions"), "triangleDimensions", "(a b c : Pt)", "Dim",
         {"C::Ker::orient2d": "Geo.orient"}, [("self.1", "a"), ("self.2", "b"), ("self.3", "c")], [], D),
        (DIMS, dim_hdr("GeoNum", "Triangle", "boundary_dimensions", "Dimensions"), "triangleBoundaryDimensions", "(a b c : Pt)", "Dim", {},
         [("self", "a b c")], [], dict(D, accessors={"dimensions": "(triangleDimensions {})"}, **U)),
    ]

def dims_functions(repo, outdir):
    """Gen/DimsGen.lean: `HasDimensions` impl bodies (is_empty / dimensions / boundary_dimensions)."""
    import rsexpr
    out = ["/- generated by translator/rs2lean.py (rsexpr, statement fragment) from %s; do not edit -/" % DIMS,
           "import GeoModel.Locate", "import GeoModel.TRANPrelude", "",
           "namespace Geo.Gen", "open Geo", "set_option linter.unusedVariables false", ""]
    cache = {}
    jobs = dims_jobs()
    for (rel, hdr, name, params, ret, funcs, subst, resub, opts) in jobs:
        if rel not in cache:
            cache[rel] = strip_comments(open(os.path.join(repo, rel)).read())
        try:
            term = rsexpr.translate_fn(cache[rel], hdr, dict(DIM_PATHS, **opts.get("paths", {})), funcs, subst, resub=resub, opts=opts)
        except rsexpr.TranslateError as e:
            die("%s (%s): %s" % (name, rel, e))
        out.append("/-- `%s` — %s -/" % (name, rel))
        out.append("def %s %s : %s :=\n%s\n" % (name, params, ret, term))
    out += ["end Geo.Gen", ""]
    write(os.path.join(outdir, "DimsGen.lean"), "\n".join(out))
    return len(jobs)

# ---------------------------------------------------------------------------------------------
# area.rs, contains/{line,rect}.rs, intersects/triangle.rs

AREA = "geo/src/algorithm/area.rs"
NUM_PATHS = {"T::zero": "0", "T::one": "1"}
# `Line::map_coords(f)` = `Line::new(f(start), f(end))` (geo/src/algorithm/map_coords.rs), a Line being the pair of its end points
LINE_MAP = "({1} {0}.1, {1} {0}.2)"

def misc_jobs(repo):
    import rsexpr
    tri = strip_comments(open(os.path.join(repo, "geo-types/src/geometry/triangle.rs")).read())
    to_lines = rsexpr.array_literal(tri, r"pub fn to_lines\(&self\) -> \[Line<T>; 3\] \{", {}, {"Line::new": "Prod.mk"})
    area_hdr = lambda ty, fn: r"impl<T> Area<T> for %s<T>\s+where\s+T: \w+,\s*\{.*?fn %s\(&self\) -> T \{" % (ty, fn)
    R = {"ret_type": "Rat"}
    B = {"ret_type": "Bool"}
    fold = {".fold": "(List.foldl {2} {1} {0})"}
    return [
        # (file, header, Lean name, params, ret, paths, funcs, subst, resub, opts)
        (AREA, r"pub\(crate\) fn twice_signed_ring_area<T>\(linestring: &LineString<T>\) -> T\s+where\s+T: CoordNum,\s*\{",
         "twiceSignedRingArea", "(linestring : List Pt)", "Rat", NUM_PATHS, {".map_coords": LINE_MAP},
         [("linestring.1", "linestring")], [],
         dict(R, mut_types={"tmp": "Rat"},
              accessors=dict(VEC_ACC, lines="(Geo.segs {})", determinant="(Gen.lineDeterminant {0}.1 {0}.2)"))),
        (AREA, r"pub\(crate\) fn get_linestring_area<T>\(linestring: &LineString<T>\) -> T\s+where\s+T: CoordFloat,\s*\{",
         "getLinestringArea", "(linestring : List Pt)", "Rat", NUM_PATHS, {"twice_signed_ring_area": "twiceSignedRingArea"}, [], [], R),
        (AREA, area_hdr("Polygon", "signed_area"), "polygonSignedArea", "(poly : Poly)", "Rat", NUM_PATHS,
         dict(fold, get_linestring_area="getLinestringArea"), [("self", "poly")], [],
         # `abs` on numbers = `Geo.rabs`
         dict(R, accessors={"exterior": "{}.ext", "interiors": "{}.ints", "iter": "{}", "abs": "(Geo.rabs {})"})),
        (AREA, area_hdr("Polygon", "unsigned_area"), "polygonUnsignedArea", "(poly : Poly)", "Rat", NUM_PATHS, {}, [("self", "poly")], [],
         dict(R, accessors={"signed_area": "(polygonSignedArea {})", "abs": "(Geo.rabs {})"})),
        (AREA, area_hdr("MultiPolygon", "signed_area"), "multiPolygonSignedArea", "(ps : List Poly)", "Rat", NUM_PATHS, fold,
         [("self.1", "ps")], [], dict(R, accessors={"iter": "{}", "signed_area": "(polygonSignedArea {})"})),
        (AREA, area_hdr("MultiPolygon", "unsigned_area"), "multiPolygonUnsignedArea", "(ps : List Poly)", "Rat", NUM_PATHS, fold,
         [("self.1", "ps")], [], dict(R, accessors={"iter": "{}", "signed_area": "(polygonSignedArea {})", "abs": "(Geo.rabs {})"})),
        (AREA, area_hdr("Triangle", "signed_area"), "triangleSignedArea", "(a b c : Pt)", "Rat", NUM_PATHS, {},
         [("self.1", "a"), ("self.2", "b"), ("self.3", "c")], [], R),
        ("geo/src/algorithm/contains/line.rs", r"impl<T> Contains<Coord<T>> for Line<T>.*?fn contains\(&self, coord: &Coord<T>\) -> bool \{",
         "lineContainsCoord", "(s e coord : Pt)", "Bool", {}, {".intersects": "Gen.lineCoord"},
         [("self.start", "s"), ("self.end", "e"), ("self", "s e")], [], B),
        ("geo/src/algorithm/contains/line.rs", r"impl<T> Contains<Line<T>> for Line<T>.*?fn contains\(&self, line: &Line<T>\) -> bool \{",
         "lineContainsLine", "(s e ls le : Pt)", "Bool", {}, {".intersects": "Gen.lineCoord", ".contains": "lineContainsCoord"},
         [("line.start", "ls"), ("line.end", "le"), ("self", "s e")], [], B),
        ("geo/src/algorithm/contains/rect.rs", r"impl<T> Contains<Polygon<T>> for Rect<T>.*?fn contains\(&self, rhs: &Polygon<T>\) -> bool \{",
         "rectContainsPolygon", "(mn mx : Pt) (rhs : Poly)", "Bool", {},
         {".intersects": "Gen.rectCoord", ".contains": "Gen.rectContainsCoord"}, [("self", "mn mx")], [],
         # `is_zero()` = comparison with 0; `exterior_coords_iter()` = the exterior coordinates in order
         dict(B, mut_types={"points_inside": "Nat"},
              accessors={"is_empty": "(polygonIsEmpty {})", "exterior_coords_iter": "{}.ext", "signed_area": "(polygonSignedArea {})",
                         "is_zero": "({} == 0)"})),
        ("geo/src/algorithm/intersects/triangle.rs", r"impl<T> Intersects<Coord<T>> for Triangle<T>.*?fn intersects\(&self, rhs: &Coord<T>\) -> bool \{",
         "triangleCoord", "(a b c rhs : Pt)", "Bool", ORI_PATHS, {"T::Ker::orient2d": "Geo.orient"},
         [("self.1", "a"), ("self.2", "b"), ("self.3", "c"), ("l.start", "l.1"), ("l.end", "l.2")], [],
         # `[Orientation; 3]::sort()` by the derive(Ord) order = `Geo.sort3` (proved to sort in Props/C02)
         dict(B, arrays={"self.to_lines": to_lines}, accessors={"to_lines": "{}.to_lines"}, array_sort={3: "Geo.sort3"})),
    ]

def misc_functions(repo, outdir):
    """Gen/AreaGen.lean: area.rs, Line/Rect `contains` bodies, `Triangle: Intersects<Coord>`."""
    import rsexpr
    out = ["/- generated by translator/rs2lean.py (rsexpr, statement fragment); do not edit -/",
           "import GeoModel.Area", "import GeoModel.Segment", "import GeoModel.TRANPrelude", "import GeoModel.Gen.Kernel", "import GeoModel.Gen.DimsGen", "",
           "namespace Geo.Gen", "open Geo", "set_option linter.unusedVariables false", ""]
    cache = {}
    try:
        jobs = misc_jobs(repo)
    except rsexpr.TranslateError as e:
        die("Triangle::to_lines: %s" % e)
    for (rel, hdr, name, params, ret, paths, funcs, subst, resub, opts) in jobs:
        if rel not in cache:
            cache[rel] = strip_comments(open(os.path.join(repo, rel)).read())
        try:
            term = rsexpr.translate_fn(cache[rel], hdr, paths, funcs, subst, resub=resub, opts=opts)
        except rsexpr.TranslateError as e:
            die("%s (%s): %s" % (name, rel, e))
        out.append("/-- `%s` — %s -/" % (name, rel))
        out.append("def %s %s : %s :=\n%s\n" % (name, params, ret, term))
    out += ["end Geo.Gen", ""]
    write(os.path.join(outdir, "AreaGen.lean"), "\n".join(out))
    return len(jobs)

# ---------------------------------------------------------------------------------------------
# the state-machine core of geo-types `Polygon` / `LineString::close` (C18)

POLY = "geo-types/src/geometry/polygon.rs"
LSRS = "geo-types/src/geometry/line_string.rs"

def polysm_jobs():
    RING, RINGS = "List α", "List (List α)"
    st = {"muts": [("self_exterior", RING), ("self_interiors", RINGS)], "ret_ctor": "SM.State.mk",
          "places": {"self.exterior": "self_exterior", "self.interiors": "self_interiors"},
          "mut_methods": {"close": "lineStringClose"}}
    pro = "  let self_exterior := self_.ext\n  let self_interiors := self_.ints\n"
    # a closure parameter `F: FnOnce(&mut LineString<T>) [-> Result<(), E>]` is a function from the old ring to
    # (new ring, result is Ok) — `SM.RingFn`; `F: FnOnce(&mut [LineString<T>])` cannot change the number of rings:
    # its result is fitted back to the old length (`SM.fitLen`, what the borrow checker enforces) — `SM.RingsFn`
    ringfn = {"f": {"state": "{r}.1", "value": "{r}.2"}}
    ringsfn = {"f": {"state": "(SM.fitLen {x} {r}.1)", "value": "{r}.2"}}
    return [
        # (file, header, Lean name, params, ret, funcs, subst, prologue, opts)
        (LSRS, r"pub fn close\(&mut self\) \{", "lineStringClose", "(self_ : List α)", RING, {}, [("self", "self_0")], "  let self_0 := self_\n",
         {"muts": [("self_0", RING)], "ret_ctor": "id", "ret_type": RING, "places": {"self.0": "self_0"}, "debug_assert": "skip",
          "accessors": {"is_closed": "(SM.isClosed {})", "is_empty": "{}.isEmpty"}}),
        (POLY, r"pub fn new\(mut exterior: LineString<T>, mut interiors: Vec<LineString<T>>\) -> Self \{", "polygonNew",
         "(exterior : List α) (interiors : List (List α))", "SM.State α", {}, [], "",
         {"muts": [("exterior", RING), ("interiors", RINGS)], "ret_type": "SM.State α", "mut_methods": {"close": "lineStringClose"}}),
        (POLY, r"pub fn exterior_mut<F>\(&mut self, f: F\)\s+where\s+F: FnOnce\(&mut LineString<T>\),\s*\{", "polygonExteriorMut",
         "(self_ : SM.State α) (f : SM.RingFn α)", "SM.State α", {}, [], pro, dict(st, ret_type="SM.State α", fn_params=ringfn)),
        (POLY, r"pub fn try_exterior_mut<F, E>\(&mut self, f: F\) -> Result<\(\), E>\s+where\s+F: FnOnce\(&mut LineString<T>\) -> Result<\(\), E>,\s*\{",
         "polygonTryExteriorMut", "(self_ : SM.State α) (f : SM.RingFn α)", "SM.State α × Bool", {}, [], pro,
         dict(st, ret_type="SM.State α × Bool", ret_both=True, fn_params=ringfn)),
        (POLY, r"pub fn interiors_mut<F>\(&mut self, f: F\)\s+where\s+F: FnOnce\(&mut \[LineString<T>\]\),\s*\{", "polygonInteriorsMut",
         "(self_ : SM.State α) (f : SM.RingsFn α)", "SM.State α", {}, [], pro, dict(st, ret_type="SM.State α", fn_params=ringsfn)),
        (POLY, r"pub fn try_interiors_mut<F, E>\(&mut self, f: F\) -> Result<\(\), E>\s+where\s+F: FnOnce\(&mut \[LineString<T>\]\) -> Result<\(\), E>,\s*\{",
         "polygonTryInteriorsMut", "(self_ : SM.State α) (f : SM.RingsFn α)", "SM.State α × Bool", {}, [], pro,
         dict(st, ret_type="SM.State α × Bool", ret_both=True, fn_params=ringsfn)),
        (POLY, r"pub fn interiors_push\(&mut self, new_interior: impl Into<LineString<T>>\) \{", "polygonInteriorsPush",
         "(self_ : SM.State α) (new_interior : List α)", "SM.State α", {}, [], pro,
         # `.into()` on something that already is a LineString: the identity
         dict(st, ret_type="SM.State α", accessors={"into": "{}"}, mut_types={"new_interior": RING})),
    ]

def polysm_functions(repo, outdir):
    """Gen/PolygonSMGen.lean: `LineString::close`, `Polygon::{new, exterior_mut, try_exterior_mut, interiors_mut, try_interiors_mut,
    interiors_push}` as functions on the state `SM.State α`."""
    import rsexpr
    out = ["/- generated by translator/rs2lean.py (rsexpr, statement fragment) from %s and %s; do not edit -/" % (POLY, LSRS),
           "import GeoModel.PolygonSM", "import GeoModel.TRANPrelude", "",
           "namespace Geo.Gen", "open Geo", "set_option linter.unusedVariables false", "",
           "variable {α : Type} [DecidableEq α] [Inhabited α]", ""]
    cache = {}
    jobs = polysm_jobs()
    for (rel, hdr, name, params, ret, funcs, subst, pro, opts) in jobs:
        if rel not in cache:
            cache[rel] = strip_comments(open(os.path.join(repo, rel)).read())
        try:
            term = rsexpr.translate_fn(cache[rel], hdr, {}, funcs, subst, structs={"Self": ("SM.State.mk", ["exterior", "interiors"])}, opts=opts)
        except rsexpr.TranslateError as e:
            die("%s (%s): %s" % (name, rel, e))
        out.append("/-- `%s` — %s -/" % (name, rel))
        out.append("def %s %s : %s :=\n%s%s\n" % (name, params, ret, pro, term))
    out += ["end Geo.Gen", ""]
    write(os.path.join(outdir, "PolygonSMGen.lean"), "\n".join(out))
    return len(jobs)

# ---------------------------------------------------------------------------------------------
# geo-types/src/private_utils.rs: the point–segment distance, with `hypot` as a parameter (sqrt-free tie, C07)

PU = "geo-types/src/private_utils.rs"
LNRS = "geo-types/src/geometry/line.rs"

def dist_jobs():
    R = {"ret_type": "Rat"}
    return [
        # (file, header, Lean name, params, ret, funcs, subst, opts)
        (LNRS, r"pub fn delta\(&self\) -> Coord<T> \{", "lineDelta", "(s e : Pt)", "Pt", {}, [("self.start", "s"), ("self.end", "e")], {"ret_type": "Pt"}),
        (LNRS, r"pub fn dx\(&self\) -> T \{", "lineDx", "(s e : Pt)", "Rat", {}, [("self", "s e")], dict(R, accessors={"delta": "(lineDelta {})"})),
        (LNRS, r"pub fn dy\(&self\) -> T \{", "lineDy", "(s e : Pt)", "Rat", {}, [("self", "s e")], dict(R, accessors={"delta": "(lineDelta {})"})),
        # `f64::hypot` is the parameter `hyp` (no square root over the rationals; the tie theorem assumes only that its
        # square is x² + y² at the argument pairs the code evaluates)
        (PU, r"pub fn line_euclidean_length<T>\(line: Line<T>\) -> T\s+where\s+T: CoordFloat,\s*\{", "lineEuclideanLength",
         "(hyp : Rat → Rat → Rat) (line : Pt × Pt)", "Rat", {".hypot": "(hyp {0} {1})"}, [],
         dict(R, accessors={"dx": "(lineDx {0}.1 {0}.2)", "dy": "(lineDy {0}.1 {0}.2)"})),
        (PU, r"pub fn line_segment_distance<T, C>\(point: C, start: C, end: C\) -> T\s+where\s+T: CoordFloat,\s+C: Into<Coord<T>>,\s*\{",
         "lineSegmentDistance", "(hyp : Rat → Rat → Rat) (point start end_ : Pt)", "Rat",
         {".hypot": "(hyp {0} {1})", "line_euclidean_length": "(lineEuclideanLength hyp {0})", "Line::new": "({0}, {1})"}, [],
         # `.into()` of a Coord into a Coord: the identity; `abs` = rabs
         dict(R, accessors={"into": "{}", "abs": "(Geo.rabs {})"})),
        (PU, r"pub fn point_line_euclidean_distance<C, T>\(p: C, l: Line<T>\) -> T\s+where\s+T: CoordFloat,\s+C: Into<Coord<T>>,\s*\{",
         "pointLineEuclideanDistance", "(hyp : Rat → Rat → Rat) (p : Pt) (l : Pt × Pt)", "Rat",
         {"line_segment_distance": "(lineSegmentDistance hyp {0} {1} {2})"}, [("l.start", "l.1"), ("l.end", "l.2")],
         dict(R, accessors={"into": "{}"})),
    ]

def dist_functions(repo, outdir):
    """Gen/DistGen.lean: `line_segment_distance`, `point_line_euclidean_distance`, `line_euclidean_length`, `Line::{delta,dx,dy}`."""
    import rsexpr
    out = ["/- generated by translator/rs2lean.py (rsexpr, statement fragment) from %s and %s; do not edit -/" % (PU, LNRS),
           "import GeoModel.Geom", "import GeoModel.TRANPrelude", "",
           "namespace Geo.Gen", "open Geo", "set_option linter.unusedVariables false", ""]
    cache = {}
    jobs = dist_jobs()
    for (rel, hdr, name, params, ret, funcs, subst, opts) in jobs:
        if rel not in cache:
            cache[rel] = strip_comments(open(os.path.join(repo, rel)).read())
        try:
            term = rsexpr.translate_fn(cache[rel], hdr, NUM_PATHS, funcs, subst, opts=opts)
        except rsexpr.TranslateError as e:
            die("%s (%s): %s" % (name, rel, e))
        out.append("/-- `%s` — %s -/" % (name, rel))
        out.append("def %s %s : %s :=\n%s\n" % (name, params, ret, term))
    out += ["end Geo.Gen", ""]
    write(os.path.join(outdir, "DistGen.lean"), "\n".join(out))
    return len(jobs)

ENDPT = {"p.start": "p1", "p.end": "p2", "q.start": "q1", "q.end": "q2"}

def collinear_table(repo, outdir):
    """Gen/CollinearTable.lean: the match of `collinear_intersection` (line_intersection.rs), row by row in
    source order, with its `if` guards: patterns over the four envelope-membership bits."""
    src = strip_comments(open(os.path.join(repo, "geo/src/algorithm/line_intersection.rs")).read())
    m = re.search(r"fn collinear_intersection.*?match\s*\(\s*p_bounds\.intersects\(&q\.start\),\s*p_bounds\.intersects\(&q\.end\),"
                  r"\s*q_bounds\.intersects\(&p\.start\),\s*q_bounds\.intersects\(&p\.end\),?\s*\)\s*\{(.*?)\n\s*\},?\s*\)", src, flags=re.S)
    if not m:
        die("collinear_intersection: match on the four envelope bits not found in the expected form")
    body = m.group(1)
    arms = [a.strip() for a in re.split(r",\s*\n", body) if a.strip()]
    lines = []
    nrows = 0
    default_none = False
    for arm in arms:
        arm = arm.rstrip(",").strip()
        if re.fullmatch(r"_\s*=>\s*return None", arm):
            default_none = True
            continue
        mm = re.fullmatch(r"\((\w+|_),\s*(\w+|_),\s*(\w+|_),\s*(\w+|_)\)\s*(?:if\s+([\w.]+)\s*==\s*([\w.]+)\s*)?=>\s*(.+)", arm, flags=re.S)
        if not mm:
            die("collinear_intersection: cannot translate arm: %r" % arm[:80])
        pats = mm.group(1, 2, 3, 4)
        conds = []
        for name, pat in zip("abcd", pats):
            if pat == "true": conds.append(name)
            elif pat == "false": conds.append("!" + name)
            elif pat != "_": die("collinear_intersection: bad pattern %r" % pat)
        if mm.group(5):
            x, y = mm.group(5), mm.group(6)
            if x not in ENDPT or y not in ENDPT: die("collinear_intersection: bad guard %r" % arm[:80])
            conds.append("(%s == %s)" % (ENDPT[x], ENDPT[y]))
        rhs = " ".join(mm.group(7).split())
        r = re.fullmatch(r"collinear\((p|q)\)", rhs)
        if r:
            res = "some (.collinear %s1 %s2)" % (r.group(1), r.group(1))
        else:
            r = re.fullmatch(r"collinear\(Line::new\(([\w.]+),\s*([\w.]+)\)\)", rhs)
            if r and r.group(1) in ENDPT and r.group(2) in ENDPT:
                res = "some (.collinear %s %s)" % (ENDPT[r.group(1)], ENDPT[r.group(2)])
            else:
                r = re.fullmatch(r"improper\(([\w.]+)\)", rhs)
                if r and r.group(1) in ENDPT:
                    res = "some (.single %s false)" % ENDPT[r.group(1)]
                else:
                    die("collinear_intersection: cannot translate result %r" % rhs)
        lines.append("  if %s then %s else" % (" && ".join(conds) if conds else "true", res))
        nrows += 1
    if not default_none:
        die("collinear_intersection: default arm `_ => return None` not found")
    out = ["/- generated by translator/rs2lean.py from geo/src/algorithm/line_intersection.rs (collinear_intersection); do not edit -/",
           "import GeoModel.LineIntersection", "", "namespace Geo.Gen", "",
           "/-- the match of `collinear_intersection`, in source order; `a b c d` = `p_bounds ∋ q.start`, `p_bounds ∋ q.end`,",
           "`q_bounds ∋ p.start`, `q_bounds ∋ p.end` -/",
           "def collinearTable (a b c d : Bool) (p1 p2 q1 q2 : Pt) : Option LI :="] + lines + ["  none", "", "end Geo.Gen", ""]
    write(os.path.join(outdir, "CollinearTable.lean"), "\n".join(out))
    return nrows

def main():
    repo, outdir = sys.argv[1], sys.argv[2]
    im = strip_comments(open(os.path.join(repo, "geo/src/algorithm/relate/geomgraph/intersection_matrix.rs")).read())
    fns = ["is_disjoint", "is_intersects", "is_within", "is_contains", "is_coveredby", "is_covers", "is_touches"]
    masks = ["/- generated by translator/rs2lean.py from geo/src/algorithm/relate/geomgraph/intersection_matrix.rs; do not edit -/",
             "import GeoModel.RelateSpec", "", "namespace Geo.Gen", ""]
    for f in fns:
        body = fn_body(im, f)
        masks.append("/-- `IntersectionMatrix::%s` -/" % f)
        masks.append("def %s (m : IM) : Bool :=\n  %s\n" % (lean_name(f), translate_expr(body, f)))
    masks.append("end Geo.Gen\n")
    write(os.path.join(outdir, "Masks.lean"), "\n".join(masks))

    kern = strip_comments(open(os.path.join(repo, "geo/src/algorithm/kernels/mod.rs")).read())
    dims = strip_comments(open(os.path.join(repo, "geo/src/algorithm/dimensions.rs")).read())
    cpos = strip_comments(open(os.path.join(repo, "geo/src/algorithm/coordinate_position.rs")).read())
    bops = strip_comments(open(os.path.join(repo, "geo/src/algorithm/bool_ops/i_overlay_integration.rs")).read())
    def lst(vs):
        return "[" + ", ".join('"%s"' % v for v in vs) + "]"
    enums = ["/- generated by translator/rs2lean.py; do not edit -/", "", "namespace Geo.Gen", "",
             "/-- declaration order of `Orientation` (derive(Ord)) -/",
             "def orientationOrder : List String := " + lst(enum_variants(kern, "Orientation")), "",
             "/-- declaration order of `Dimensions` (derive(Ord)) -/",
             "def dimensionsOrder : List String := " + lst(enum_variants(dims, "Dimensions")), "",
             "/-- declaration order of `CoordPos` (indexes the matrix rows/columns through `as usize`) -/",
             "def coordPosOrder : List String := " + lst(enum_variants(cpos, "CoordPos")), ""]
    # OpType -> OverlayRule
    m = re.search(r"impl From<OpType> for OverlayRule\s*\{.*?match\s+\w+\s*\{(.*?)\}\s*\}\s*\}", bops, flags=re.S)
    if not m:
        die("impl From<OpType> for OverlayRule not found")
    pairs = re.findall(r"OpType::(\w+)\s*=>\s*OverlayRule::(\w+)", m.group(1))
    if not pairs:
        die("OpType table empty")
    enums += ["/-- `impl From<OpType> for OverlayRule` -/",
              "def opTypeRule : List (String × String) := [" + ", ".join('("%s", "%s")' % p for p in pairs) + "]", "",
              "end Geo.Gen", ""]
    write(os.path.join(outdir, "Enums.lean"), "\n".join(enums))
    rows = collinear_table(repo, outdir)
    nk = kernel_functions(repo, outdir)
    na = affine_functions(repo, outdir)
    nr = rect_functions(repo, outdir)
    ni = interp_functions(repo, outdir)
    nc = coordpos_functions(repo, outdir)
    nd = dims_functions(repo, outdir)
    nm = misc_functions(repo, outdir)
    npg = polysm_functions(repo, outdir)
    ndi = dist_functions(repo, outdir)
    import jobs2
    try:
        more = jobs2.run(repo, outdir, write)
    except jobs2.JobError as e:
        die(str(e))
    print("rs2lean: wrote " + ", ".join("%s (%d functions)" % m for m in more))
    print("rs2lean: wrote Masks.lean (%d predicates), Enums.lean (%d op rules), CollinearTable.lean (%d rows), Kernel.lean (%d functions), AffineGen.lean (%d functions), RectGen.lean (%d functions), InterpGen.lean (%d functions), CoordPosGen.lean (%d functions), DimsGen.lean (%d functions), AreaGen.lean (%d functions), PolygonSMGen.lean (%d functions), DistGen.lean (%d functions)" % (len(fns), len(pairs), rows, nk, na, nr, ni, nc, nd, nm, npg, ndi))

if __name__ == "__main__":
    main()
